//go:build verif

// verif:checks c10   (bin/mkoverlay.sh adds this file only to the builds of these checks)

package value

import (
	"fmt"
	"reflect"
	"strings"
)

// Added by /verif through `go build -overlay` (never part of /repo): read-only view for the C10 check.

// VerifC10ListExtra renders every field of the List struct that VerifC09ListState does not report
// (items, itemsPresent, iterable and size are covered there), read by reflection so that hidden state
// added to List later (e.g. the `appended` flag that marks the spare capacity as used) becomes part
// of the canonical state key without this file knowing its name. Scalars are rendered by value
// (structs such as atomic.Bool field by field), everything else as nil / set.
func VerifC10ListExtra(l *List) string {
	var b strings.Builder
	v := reflect.ValueOf(l).Elem()
	t := v.Type()
	for i := 0; i < t.NumField(); i++ {
		switch t.Field(i).Name {
		case "items", "itemsPresent", "iterable", "size":
			continue
		}
		if b.Len() > 0 {
			b.WriteByte(' ')
		}
		b.WriteString(t.Field(i).Name + "=")
		verifC10Field(&b, v.Field(i), 0)
	}
	return b.String()
}

func verifC10Field(b *strings.Builder, v reflect.Value, depth int) {
	switch v.Kind() {
	case reflect.Bool:
		fmt.Fprint(b, v.Bool())
	case reflect.Int, reflect.Int8, reflect.Int16, reflect.Int32, reflect.Int64:
		fmt.Fprint(b, v.Int())
	case reflect.Uint, reflect.Uint8, reflect.Uint16, reflect.Uint32, reflect.Uint64, reflect.Uintptr:
		fmt.Fprint(b, v.Uint())
	case reflect.Float32, reflect.Float64:
		fmt.Fprint(b, v.Float())
	case reflect.String:
		fmt.Fprintf(b, "%q", v.String())
	case reflect.Struct:
		b.WriteByte('(')
		n := 0
		for i := 0; i < v.NumField(); i++ {
			if v.Type().Field(i).Type.Size() == 0 || depth > 3 {
				continue // noCopy markers and the like
			}
			if n > 0 {
				b.WriteByte(',')
			}
			n++
			verifC10Field(b, v.Field(i), depth+1)
		}
		b.WriteByte(')')
	case reflect.Slice, reflect.Map:
		if v.IsNil() {
			b.WriteString("nil")
		} else {
			fmt.Fprintf(b, "len%d", v.Len())
		}
	case reflect.Pointer, reflect.Func, reflect.Interface, reflect.Chan, reflect.UnsafePointer:
		if v.IsNil() {
			b.WriteString("nil")
		} else {
			b.WriteString("set")
		}
	default:
		b.WriteString("?")
	}
}
