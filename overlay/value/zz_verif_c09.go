//go:build verif

// verif:checks c09 c10   (bin/mkoverlay.sh adds this file only to the builds of these checks)

package value

import (
	"fmt"
	"strings"
	"unsafe"

	"github.com/hneemann/parser2/listMap"
)

// Added by /verif through `go build -overlay` (never part of /repo): read-only views on the hidden
// state of lists and maps for the C09 check (persistent values). Nothing here writes to a value.

// VerifC09ListState returns the fields of l that the code of package value can read but the
// expression language cannot: whether the items are materialised, len and cap of the items slice,
// the address of its first element (0 for a nil or zero-capacity slice) and the size hint.
func VerifC09ListState(l *List) (itemsPresent bool, length, capacity int, backing uintptr, sizeHint int) {
	if cap(l.items) > 0 {
		backing = uintptr(unsafe.Pointer(unsafe.SliceData(l.items)))
	}
	return l.itemsPresent, len(l.items), cap(l.items), backing, l.size
}

// VerifC09ListItems returns the materialised items slice of l itself (not a copy, nil while the list
// is lazy). The caller only reads it: to find nested *List elements and their hidden state.
func VerifC09ListItems(l *List) []Value {
	if !l.itemsPresent {
		return nil
	}
	return l.items
}

// VerifC09MapShape renders the nesting of storage wrappers of m, e.g.
// "Append(c,Merge(List[2/2@c000012340],Real[1@c000045678]))". Tokens "@<hex>" are the addresses of
// backing arrays / hash maps; the caller renames them to identity classes.
func VerifC09MapShape(m Map) string {
	var b strings.Builder
	verifC09Shape(&b, m.m)
	return b.String()
}

func verifC09Shape(b *strings.Builder, s MapStorage) {
	switch t := s.(type) {
	case nil:
		b.WriteString("nil")
	case emptyMapStorage:
		b.WriteString("Empty")
	case listMap.ListMap[Value]:
		var p uintptr
		if cap(t) > 0 {
			p = uintptr(unsafe.Pointer(unsafe.SliceData(t)))
		}
		fmt.Fprintf(b, "List[%d/%d@%x]", len(t), cap(t), p)
	case RealMap:
		fmt.Fprintf(b, "Real[%d@%x]", len(t), *(*uintptr)(unsafe.Pointer(&t)))
	case AppendMap:
		b.WriteString("Append(" + t.key + ",")
		verifC09Shape(b, t.parent)
		b.WriteString(")")
	case MergeMap:
		b.WriteString("Merge(")
		verifC09Shape(b, t.a)
		b.WriteString(",")
		verifC09Shape(b, t.b)
		b.WriteString(")")
	case ReplaceMap:
		fmt.Fprintf(b, "Replace[%d](", t.depth)
		verifC09Shape(b, t.orig)
		b.WriteString(",")
		verifC09Shape(b, t.rep)
		b.WriteString(")")
	case Map:
		b.WriteString("Map(")
		verifC09Shape(b, t.m)
		b.WriteString(")")
	default:
		name := fmt.Sprintf("%T", s)
		if i := strings.Index(name, "["); i >= 0 {
			name = name[:i]
		}
		b.WriteString(name)
	}
}
