//go:build verif

// verif:checks c13   (bin/mkoverlay.sh adds this file only to the builds of these checks)

package value

import (
	"fmt"
	"sort"
	"strconv"
	"strings"

	"github.com/hneemann/parser2/listMap"
)

// Added by /verif through `go build -overlay` (never part of /repo): exposes the hidden storage
// representation of a Map to the C13 check. Read-only; nothing here is called by the library.

// VerifMapNode is one node of the storage-wrapper tree behind a Map.
type VerifMapNode struct {
	// Kind: Empty | List | Real | Append | Merge | Replace | Struct | Func | Bin | Map | ?<go type>
	Kind string
	// Keys stored at this node itself, in storage order (List, Bin), sorted (Real, Struct), declared
	// order (Func), the appended key (Append).
	Keys []string
	// Vals are the values stored with Keys (List, Real, Append, Bin); nil entries where a value can
	// only be computed (Struct, Func).
	Vals []Value
	// Depth is ReplaceMap.depth.
	Depth int
	// Len, Cap of a listMap backing slice.
	Len, Cap int
	// Slack is Size() minus the number of entries Iter yields AT THIS LEAF (Bin: open-ended bins
	// declare 3 and have 2; Func: declared keys the function reports absent). 0 for other kinds.
	Slack int
	// Absent lists the declared keys of a Func leaf that the function reports absent for this value.
	Absent []string
	// Kids: Append: parent; Merge: a, b; Replace: orig, rep; Map: the wrapped storage.
	Kids []*VerifMapNode
}

type verifNoder interface {
	verifNode() *VerifMapNode
}

func (w toMapWrapper[S]) verifNode() *VerifMapNode {
	n := &VerifMapNode{Kind: "Struct"}
	// through the storage interface, not the private fields: the attribute table may be restructured
	w.Iter(func(k string, _ Value) bool {
		n.Keys = append(n.Keys, k)
		return true
	})
	sort.Strings(n.Keys)
	n.Vals = make([]Value, len(n.Keys))
	return n
}

func (f funcMapType[V]) verifNode() *VerifMapNode {
	n := &VerifMapNode{Kind: "Func"}
	for _, k := range f.mff.keys {
		if v, ok := f.mff.fMap(f.value, k); ok {
			n.Keys = append(n.Keys, k)
			n.Vals = append(n.Vals, v)
		} else {
			n.Absent = append(n.Absent, k)
		}
	}
	n.Slack = f.Size() - len(n.Keys)
	return n
}

// VerifMapTree returns the storage tree of m.
func VerifMapTree(m Map) *VerifMapNode { return verifStorage(m.m) }

func verifStorage(s MapStorage) *VerifMapNode {
	switch x := s.(type) {
	case nil:
		return &VerifMapNode{Kind: "?nil"}
	case emptyMapStorage:
		return &VerifMapNode{Kind: "Empty"}
	case listMap.ListMap[Value]:
		n := &VerifMapNode{Kind: "List", Len: len(x), Cap: cap(x)}
		x.Iter(func(k string, v Value) bool {
			n.Keys = append(n.Keys, k)
			n.Vals = append(n.Vals, v)
			return true
		})
		return n
	case RealMap:
		n := &VerifMapNode{Kind: "Real", Len: len(x)}
		for k := range x {
			n.Keys = append(n.Keys, k)
		}
		sort.Strings(n.Keys)
		for _, k := range n.Keys {
			n.Vals = append(n.Vals, x[k])
		}
		return n
	case AppendMap:
		return &VerifMapNode{Kind: "Append", Keys: []string{x.key}, Vals: []Value{x.value}, Kids: []*VerifMapNode{verifStorage(x.parent)}}
	case MergeMap:
		return &VerifMapNode{Kind: "Merge", Kids: []*VerifMapNode{verifStorage(x.a), verifStorage(x.b)}}
	case ReplaceMap:
		return &VerifMapNode{Kind: "Replace", Depth: x.depth, Kids: []*VerifMapNode{verifStorage(x.orig), verifStorage(x.rep)}}
	case Map:
		return &VerifMapNode{Kind: "Map", Kids: []*VerifMapNode{verifStorage(x.m)}}
	case bin:
		n := &VerifMapNode{Kind: "Bin", Keys: []string{binStr}, Vals: []Value{String(x.String())}}
		if x.IsMin {
			n.Keys = append(n.Keys, binMin)
			n.Vals = append(n.Vals, Float(x.Min))
		}
		if x.IsMax {
			n.Keys = append(n.Keys, binMax)
			n.Vals = append(n.Vals, Float(x.Max))
		}
		n.Slack = x.Size() - len(n.Keys)
		return n
	case verifNoder:
		return x.verifNode()
	}
	return &VerifMapNode{Kind: fmt.Sprintf("?%T", s)}
}

// VerifMapShape renders the storage tree of m, e.g. Append(c,Merge(List(a,b),Replace[3](List(a),List(b)))).
// With values the rendering is a complete dump of everything the map code can read.
func VerifMapShape(m Map, withValues bool) string {
	var b strings.Builder
	VerifMapTree(m).Render(&b, withValues, false)
	return b.String()
}

// Render writes the tree. canonical sorts the entries of List leaves by key: a listMap produced by
// map/accept/combine/createFlat from a Go-map-backed storage inherits Go's random iteration order,
// so a deterministic state key must not depend on it.
func (n *VerifMapNode) Render(b *strings.Builder, withValues, canonical bool) {
	idx := make([]int, len(n.Keys))
	for i := range idx {
		idx[i] = i
	}
	if canonical && n.Kind == "List" {
		sort.Slice(idx, func(a, c int) bool { return n.Keys[idx[a]] < n.Keys[idx[c]] })
	}
	b.WriteString(n.Kind)
	if n.Kind == "Replace" {
		b.WriteByte('[')
		b.WriteString(strconv.Itoa(n.Depth))
		b.WriteByte(']')
	}
	if n.Kind == "Empty" || strings.HasPrefix(n.Kind, "?") {
		return
	}
	b.WriteByte('(')
	for pos, i := range idx {
		k := n.Keys[i]
		if pos > 0 {
			b.WriteByte(',')
		}
		if k == "" {
			b.WriteString(`""`)
		} else {
			b.WriteString(k)
		}
		if withValues && i < len(n.Vals) && n.Vals[i] != nil {
			b.WriteByte(':')
			switch x := n.Vals[i].(type) {
			case Int:
				b.WriteByte('i')
				b.WriteString(strconv.FormatInt(int64(x), 10))
			case Float:
				b.WriteByte('f')
				b.WriteString(strconv.FormatFloat(float64(x), 'g', -1, 64))
			case String:
				b.WriteString(strconv.Quote(string(x)))
			case Map:
				VerifMapTree(x).Render(b, true, canonical)
			default:
				fmt.Fprintf(b, "%T %v", x, x)
			}
		}
	}
	for i, k := range n.Absent {
		if i > 0 || len(n.Keys) > 0 {
			b.WriteByte(',')
		}
		b.WriteByte('-')
		b.WriteString(k)
	}
	for i, k := range n.Kids {
		if i > 0 || len(n.Keys) > 0 {
			b.WriteByte(',')
		}
		k.Render(b, withValues, canonical)
	}
	b.WriteByte(')')
}
