//go:build verif

// verif:checks c19   (bin/mkoverlay.sh adds this file only to the builds of these checks)

package example

import "github.com/hneemann/parser2/funcGen"

// Added by /verif through `go build -overlay` (never part of /repo): hands the package's own example
// generators to the C19/C02 checks.

func VerifBoolParser() *funcGen.FunctionGenerator[bool] { return boolParser }

func VerifMinimal() *funcGen.FunctionGenerator[float64] { return minimal }
