//go:build verif

// verif:checks c10   (bin/mkoverlay.sh adds this file only to the builds of these checks)

package funcGen

import "github.com/hneemann/parser2"

// Added by /verif through `go build -overlay` (never part of /repo): read-only views on the hidden
// state of a generator for the C10 check (a generated function is a pure function of its arguments).
// Nothing here writes to a generator, a stack or a value.

// VerifC10Optimizer returns the optimizer the generator was created with (the one that owns the
// generator's scratch stack). The check wraps it in a pass-through recorder and hands the wrapper
// back through the public SetOptimizer, to keep handles on every constant the optimizer folds.
func (g *FunctionGenerator[V]) VerifC10Optimizer() parser2.Optimizer {
	return g.optimizer
}

// VerifC10OptimizerStack returns the state of the scratch stack owned by an optimizer created by
// NewOptimizer: number of slots ever written, frame offset and frame size.
func VerifC10OptimizerStack[V any](o parser2.Optimizer) (slots, offs, size int, ok bool) {
	if op, is := o.(optimizer[V]); is {
		return len(op.st.storage.data), op.st.offs, op.st.size, true
	}
	return 0, 0, 0, false
}

// VerifC10Context returns the generator context generateIntern passes to GenerateFunc for a function
// with the given argument names (the fields of GeneratorContext are not exported, so code outside
// this package can only build the empty context).
func VerifC10Context(args ...string) GeneratorContext {
	return GeneratorContext{am: args, cm: nil}
}

// VerifC10StackSlots returns every slot of the storage behind st that was ever written, including
// the residue above the current frame (the caller only reads it).
func VerifC10StackSlots[V any](st Stack[V]) []V {
	return st.storage.data
}
