//go:build verif

// verif:checks c15   (bin/mkoverlay.sh adds this file only to the builds of these checks)

package parser2

import "errors"

// Added by /verif through `go build -overlay` (never part of /repo): lets the C15 check read the line a
// syntax error carries instead of parsing it out of the message text.

// VerifC15ErrLine returns message and line (0 or -1: none) of the first line-carrying error in err's chain.
func VerifC15ErrLine(err error) (msg string, line int, ok bool) {
	var e errorWithLine
	if errors.As(err, &e) {
		return e.message, int(e.line), true
	}
	return "", 0, false
}
