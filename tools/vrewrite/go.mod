module vrewrite

go 1.25.0

require golang.org/x/tools v0.29.0
