// vsdemo: smoke test / debugging aid of the coop build (not a registered check).
// usage: build/bin/vsdemo '<program over n>' <n> [workers]
package main

import (
	"fmt"
	"io"
	"log"
	"os"
	"strings"
	"time"

	"github.com/hneemann/parser2/funcGen"
	"github.com/hneemann/parser2/value"
	"verif/internal/vrun"
	"verif/vsched"
)

func main() {
	log.SetOutput(io.Discard)
	g := value.New()
	g.AddStaticFunction("slow", funcGen.Function[value.Value]{
		Func: func(st funcGen.Stack[value.Value], cs []value.Value) (value.Value, error) {
			vsched.ClockAdvance(300)
			return st.Get(0), nil
		},
		Args: 1, IsPure: false,
	}.SetDescription("x", "identity with a virtual cost of 300us"))
	src := os.Args[1]
	n := 14
	fmt.Sscan(os.Args[2], &n)
	if len(os.Args) > 3 {
		fmt.Sscan(os.Args[3], &vsched.Workers)
	}
	var f funcGen.Func[value.Value]
	var err error
	vsched.RunDefault(func() string { f, _, err = g.Generate(src, "n"); return "" })
	if err != nil {
		fmt.Println("generate:", err)
		return
	}
	t0 := time.Now()
	st := vsched.Explore(vsched.Config{PreemptBound: -1, MaxExecs: 200000}, func() string { return vrun.Eval(f, []value.Value{value.Int(n)}).String() })
	fmt.Printf("execs=%d states=%d trans=%d threads=%d outcomes=%v deadlocks=%d crashes=%d leaks=%d raceExecs=%d %v\n", st.Execs, st.States, st.Transitions, st.MaxThreads, st.Outcomes, st.Deadlocks, st.Crashes, st.LeakExecs, st.RaceExecs, time.Since(t0).Round(time.Millisecond))
	for line := range st.RaceLines() {
		fmt.Println("RACE:", line)
	}
	if t := st.FirstLeak(); t != nil {
		fmt.Println("LEAK:", t.Leaks)
	}
	if t := st.FirstDeadlock(); t != nil {
		fmt.Println("DEADLOCK:", t.Leaks)
	}
	if t := st.FirstCrash(); t != nil {
		fmt.Println("CRASH:", strings.SplitN(t.Crash, "\n", 2)[0])
	}
}
