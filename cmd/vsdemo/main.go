// vsdemo: smoke test / profiling of the coop build (not a registered check).
package main

import (
	"fmt"
	"io"
	"log"
	"os"
	"runtime/pprof"
	"time"

	"github.com/hneemann/parser2/funcGen"
	"github.com/hneemann/parser2/value"
	"verif/vsched"
)

func newGen() *value.FunctionGenerator {
	g := value.New()
	g.AddStaticFunction("slow", funcGen.Function[value.Value]{
		Func: func(st funcGen.Stack[value.Value], cs []value.Value) (value.Value, error) {
			vsched.ClockAdvance(300)
			return st.Get(0), nil
		},
		Args: 1, IsPure: false,
	}.SetDescription("x", "identity with a virtual cost of 300us"))
	return g
}

func main() {
	log.SetOutput(io.Discard)
	g := newGen()
	if len(os.Args) > 1 {
		f, _ := os.Create(os.Args[1])
		pprof.StartCPUProfile(f)
		defer pprof.StopCPUProfile()
	}
	for _, sc := range []struct {
		src string
		n   int
	}{
		{"numbers(n).map(x->slow(x)*2).reduce((p,q)->p*31+q)", 13},
		{"numbers(n).map(x->slow(x)*2).reduce((p,q)->p*31+q)", 14},
		{"numbers(n).number((i,v)->i*1000+v).map(x->slow(x)).reduce((p,q)->p*31+q)", 14},
		{"numbers(n).map(x->slow(x)*2+1).merge([3,5,1000].number((i,v)->v+i),(a,b)->a<b).string()", 13},
		{"numbers(n).map(x->slow(x)).top(13).size()", 15},
	} {
		var f funcGen.Func[value.Value]
		vsched.RunDefault(func() string { f, _, _ = g.Generate(sc.src, "n"); return "" })
		t0 := time.Now()
		st := vsched.Explore(vsched.Config{PreemptBound: -1, MaxExecs: 200000}, func() string {
			v, err := f.Eval(value.Int(sc.n))
			if err != nil {
				return "ERR"
			}
			return fmt.Sprint(v)
		})
		d := time.Since(t0)
		fmt.Printf("%-70s n=%d: execs=%d states=%d trans=%d threads=%d outcomes=%d races=%d  %v  (%.0f us/exec, %.1f us/trans)\n", sc.src, sc.n, st.Execs, st.States, st.Transitions, st.MaxThreads, len(st.Outcomes), st.RaceExecs, d.Round(time.Millisecond), float64(d.Microseconds())/float64(st.Execs), float64(d.Microseconds())/float64(st.Transitions))
	}
}
