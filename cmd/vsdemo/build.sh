#!/usr/bin/env bash
set -eu
exec bin/buildcoop.sh vsdemo "${VERIF_OUT:-build/bin/vsdemo}"
