// vq: evaluate expressions on the implementation (debugging aid): vq 'expr' ['expr' ...]
package main

import (
	"fmt"
	"os"

	"github.com/hneemann/parser2/value"
	"verif/internal/vrun"
)

func main() {
	g := value.New()
	if os.Getenv("VQ_NOOPT") != "" {
		g = vrun.NewGen(false, nil)
	}
	for _, src := range os.Args[1:] {
		f, _, err := g.Generate(src)
		if err != nil {
			fmt.Printf("%-50s GENERR %v\n", src, err)
			continue
		}
		fmt.Printf("%-50s %s\n", src, vrun.Eval(f, nil).String())
	}
}
