// C11: one generated function may be evaluated concurrently from many goroutines.
// Model checking on the implementation under the controlled scheduler: T vthreads evaluate the SAME
// freshly generated function; every read and write of the lazily materialised fields of value.List
// (rule R4 of the rewriter: items, itemsPresent, iterable, size) is a race-checked access AND a
// scheduling point, so all sequentially consistent interleavings at field granularity are explored.
// Oracles: every vthread's outcome equals its isolated outcome; no happens-before data race.
package main

import (
	"fmt"
	"io"
	"log"
	"os"
	"sort"
	"strings"
	"sync"

	"github.com/hneemann/parser2/funcGen"
	"github.com/hneemann/parser2/value"
	"verif/internal/bex"
	"verif/internal/vrun"
	"verif/vsched"
)

type program struct {
	Src string
	// Shared tells whether the program contains a lazily materialised constant (expected racy on the
	// pinned tree) — used for statistics only, never for the verdict.
	Note string
}

func programs(quick bool) []program {
	ps := []program{
		{"let c=[1,2,3].map(e->e*2); c[a]", "lazy constant, indexed"},
		{"[1,2,3].map(e->e*2).size()+a", "lazy constant, size"},
		{"let c=[1,2,3].map(e->e*2); c.first()+a", "lazy constant, first (shortcut reader)"},
		{"let c=[1,2,3].map(e->e*2); c.append(a).size()", "lazy constant, append"},
		{"let c=[1,2,3].map(e->e*2); if a=0 then c.size() else c[1]", "lazy constant, different paths"},
		{"let c=[1,2,3].accept(e->e>1); c.size()+c.first()", "lazy constant of unknown size"},
		{"let c=numbers(3).map(e->e+1); c.reduce((p,q)->p+q)+a", "lazy constant, iterated without materialising"},
		{"let c=[1,2,3].map(e->e*2); c.sum()+c.size()+a", "lazy constant, iterate then materialise"},
		{"let c=[1,2,3].map(e->e*2); (c+[a]).size()", "lazy constant inside a concatenation"},
		{"let c=[1,2,3].map(e->e*2); c.top(2).size()+a", "lazy constant behind top"},
		{"{k:[1,2].map(e->e+1)}.k.sum()+a", "lazy constant inside a constant map"},
		{"let c=[[1,2].map(e->e),[3]]; c[0].size()+a", "lazy constant nested in an eager constant"},
		{"let c=[1,2,3].map(e->e*2); c=c", "lazy constant compared with itself"},
		{"let c=[1,2,3].map(e->e*2); a~c", "membership in a lazy constant"},
		{"let c=[1,2,3].map(e->e*2); c.last()+c.single()", "last/single shortcut readers (single fails)"},
		{"let c=[3,1,2]; c.append(a).string()", "eager constant, append"},
		{"let c=[3,1,2]; c.order(e->e).string()+c.reverse().string()", "eager constant, sorted and reversed copies"},
		{"let c=[3,1,2]; c[a]+c.size()", "eager constant, readers only"},
		{"let c=[5,3,9,1,7,2,8]; c.order(e->e*(1-a*2)).string()", "eager constant sorted with a key whose direction depends on the argument"},
		{"[5,3,9,1,7,2,8].orderRev(e->e*(1-a*2))[0]", "eager constant sorted in reverse, direction depends on the argument"},
		{"let c=[5,3,9,1,7].map(e->e+1); c.order(e->e*(1-a*2)).string()+c.string()", "lazy constant sorted in a direction that depends on the argument, then read"},
		{"[5,3,9,1,7].orderLess((p,q)->p*(1-a*2)<q*(1-a*2)).string()", "eager constant sorted with a less function that depends on the argument"},
		{"let c=[5,3,9,1,7]; [c.order(e->e*(1-a*2)).first(), c.first(), c.reverse().first()]", "sorted copy and the constant itself read side by side"},
		{"[a,2,3].map(e->e*2).sum()", "no constant"},
		{"let f=x->x*2; f(a)+f(1)", "constant closure"},
		{"let m={k:1,j:2}; m.put(\"x\",a).size()+m.k", "constant map"},
		{"let s=\"ab\"; s.len()+a", "constant string"},
		{"func f(n) if n<1 then 0 else n+f(n-1); f(a+2)", "recursion"},
		{"let c=[1,2,3].map(e->e*2); try c[a+5] catch c.size()", "failing access to a lazy constant"},
		{"let c=[1,2,3].map(e->e*2); c.set(0,a).size()", "lazy constant, set (copy after materialising)"},
		{"let c=[1,2,3].map(e->e*2); c.order(e->e+a).size()", "lazy constant, sorted with a run-time key"},
		{"let c=[1,2,3].map(e->e*2); c.map(e->e+a).sum()", "lazy constant as the source of a run-time stage"},
		{"let c=[1,2,3].map(e->e*2); c.indexWhere(e->e=a*2+2)", "lazy constant searched with a run-time predicate"},
		{"let c=[1,2,3].map(e->e*2); c.skip(a).first()", "lazy constant behind a run-time skip"},
		{"let c=[1,2,3].map(e->e*2); [c,c][a].size()", "lazy constant reached through a run-time index"},
		{"let c=[1,2,3].map(e->e*2); c=[a]", "lazy constant compared with a run-time list"},
		{"let c=[1,2,3].map(e->e*2); {k:c}.k.append(a).size()", "lazy constant inside a constant map, appended"},
		{"let c=[1,2,3].map(e->e*2); c.size()*0+c.append(a).size()", "constant materialised at Generate time (spare capacity), appended concurrently"},
		{"let c=[1,2,3].map(e->e*2); c.size()*0+c.append(a).append(a).size()", "constant materialised at Generate time, two appends"},
		{"let c=[1,2,3].map(e->e*2); c.size()*0+c.append(a+10)[3]", "constant materialised at Generate time, appended concurrently, the appended element observed"},
		{"let c=[1,2,3].map(e->e*2); c.append(a+10)[3]", "lazy constant appended concurrently, the appended element observed"},
		{"let c=[1,2,3].append(4); c.append(a+10)[4]", "constant with spare capacity (result of append), appended concurrently, the appended element observed"},
		{"let c=[1,2,3].append(4); c.append(a).string()", "constant with spare capacity, appended concurrently, whole result observed"},
		{"let c=[1,2,3].append(4); c.append(a).append(a+1).string()+c.string()", "constant with spare capacity, two appends and the constant itself observed"},
		{"let l=numbers(4).number((i,v)->(v+a)*100+i); l[0]+l.sum()", "private lazy list whose producer uses the passed stack, index access then iteration"},
		{"let l=[1,2,3,4].combine((p,q)->p*10+q+a); l[1]+l[0]", "private lazy combine list, two index accesses"},
		{"let l=[1,2,2,3].compact((p,q)->p=q); l[a]+l.size()", "private lazy compact list, index access"},
		{"let l=[1,2,3].iirCombine(e->e+a,(x0,x1,y)->x0+x1+y); l[2]+l[0]", "private lazy iir list, index access"},
		{"let l=[1,2].cross([a,5],(p,q)->p*10+q); l[3]+l[0]", "private lazy cross list, index access"},
		{"let base={p:1,q:2}+{r:3}; let m=base+{x:a+10}; m.x*100+m.size()", "constant map with spare capacity (result of +), merged concurrently, the merged entry observed"},
		{"let base={p:1,q:2,r:3}.accept((k,v)->v<3); let m=base+{x:a+10}; m.x*100+base.size()", "constant map with spare capacity (result of accept), merged concurrently"},
		{"let base={p:1,q:2}+{r:3}; let m=base.put(\"x\",a+10); m.x*100+m.size()", "constant map with spare capacity, put concurrently"},
		{"let base={p:1,q:2}+{r:3}; [base+{x:a+10}, base+{y:a+20}].map(m->m.size()).sum()+(base+{x:a+10}).x", "constant map with spare capacity, forked twice in one evaluation and concurrently"},
		{"let ip=[{x:0,y:0},{x:1,y:10},{x:2,y:0},{x:3,y:50},{x:4,y:7}].createInterpolation(p->p.x,p->p.y); [ip(a+0.5), ip(3.5-a), ip(a*1.25)].string()", "constant closure created by the host (createInterpolation), called in different intervals"},
		{"let lp=createLowPass(\"f\",p->p.t,p->p.v,1); let i=lp.initial({t:a,v:a+1}); lp.filter({t:a+1,v:5},{t:a,v:a+1},i).f", "constant closures created by the host (createLowPass)"},
		{"let m={k:1}.eval(); m.put(\"x\",a).size()", "constant hash map"},
		{"let m={k:1}.replace(m->{k:2}); m.put(\"x\",a).k", "constant replace map"},
	}
	if !quick {
		ps = append(ps,
			program{"let c=[1,2,3,4].map(e->e*2).accept(e->e>2); c.size()+c[a]", "two lazy stages"},
			program{"let c=[1,2,3].map(e->e*2); c.map(e->e+a).sum()", "lazy constant as the source of a run-time stage"},
			program{"let c=[1,2,3].map(e->e*2); c.multiUse({s:l->l.sum(),n:l->l.size()}).s+a", "lazy constant under multiUse"},
			program{"let c=[1,2,3].map(e->e*2); c.merge([a],(x,y)->x<y).size()", "lazy constant under merge"},
		)
	}
	return ps
}

// systematic family (the same product as C10's, here under concurrency): every kind of constant list x
// run-time consumers inside a closure that also receives the argument.
var constStages = []struct{ name, expr string }{
	{"literal", "[2,4,6,8]"},
	{"map", "[1,2,3,4].map(e->e*2)"},
	{"accept", "[2,3,4,5,6,8].accept(e->e%2=0)"},
	{"top", "[2,4,6,8,10].top(4)"},
	{"top-lazy", "numbers(10).map(e->e*2+2).top(4)"},
	{"skip", "[0,2,4,6,8].skip(1)"},
	{"top-skip", "numbers(10).map(e->e*2).skip(1).top(4)"},
	{"append", "[2,4,6].append(8)"},
	{"concat", "[2,4]+[3,4].map(e->e*2)"},
	{"reverse", "[8,6,4,2].reverse()"},
	{"order", "[6,2,8,4].order(e->e)"},
	{"combine", "[1,1,3,3,5].combine((x,y)->x+y)"},
	{"combine3", "[0,1,1,2,3,3].combine3((x,y,z)->x+y+z)"},
	{"combineN", "[1,1,3,3,5].combineN(2,l->l[0]+l[1])"},
	{"number", "[2,3,4,5].number((n,e)->n+e)"},
	{"compact", "[2,2,4,6,6,8].compact((x,y)->x=y)"},
	{"cross", "[2,6].cross([0,2],(x,y)->x+y)"},
	{"merge", "[2,6].merge([4,8],(x,y)->x<y)"},
	{"iir", "[2,2,2,2].iir(e->e,(e,l)->e+l)"},
	{"iirCombine", "[2,2,2,2].iirCombine(e->e,(x,xl,yl)->yl+x)"},
	{"movingWindow", "[2,4,6,8].movingWindow(e->e).map(l->l.last())"},
	{"replaceList", "[1,2,3,4].replaceList(l->l.map(e->e*2))"},
	{"eval", "[1,2,3,4].map(e->e*2).eval()"},
	{"mapReduce", "[2,4,6,8].mapReduce([],(s,e)->s.append(e))"},
	{"map-member", "{l:[1,2,3,4].map(e->e*2)}.l"},
	{"nested", "[[2,4,6,8].map(e->e)][0]"},
	{"numbers", "numbers(5).skip(1).map(e->e*2)"},
	// stages over a stage whose producer uses the stack it is handed: the outer stage must hand its own
	// iteration stack on (seeded change S11C: list + list iterating on the stack of its creation)
	{"concat-of-stack-stages", "[1,2].number((n,e)->n+e+1)+[1,2,3].combine((x,y)->x+y+3)"},
	{"top-of-stack-stage", "[2,3,4,5,9].number((n,e)->n+e).top(4)"},
	{"skip-of-stack-stage", "[9,1,2,3,4].number((n,e)->n+e).skip(1)"},
	{"map-of-stack-stage", "[2,3,4,5].number((n,e)->n+e).map(e->e)"},
	{"accept-of-stack-stage", "[2,3,4,5].number((n,e)->n+e).accept(e->e>0)"},
}

// consumers: body of (l,k)->…; l is the shared constant, k the argument
var constConsumers = []struct{ name, body string }{
	{"index", "l[k]"},
	{"first", "l.first()+k"},
	{"last", "l.last()+k"},
	{"single", "try l.single() catch k"},
	{"size", "l.size()+k"},
	{"sum", "l.sum()+k"},
	{"string", "l.string()+k"},
	{"self", "if k=0 then l else l.top(k)"},
	{"map", "l.map(e->e+k)"},
	{"accept", "l.accept(e->e>k)"},
	{"reduce", "l.reduce((x,y)->x+y)+k"},
	{"top", "l.top(k)"},
	{"skip", "l.skip(k)"},
	{"append", "l.append(k)"},
	{"append2", "[l.append(k), l.append(k+1)]"},
	{"concat-left", "l+[k]"},
	{"concat-right", "[k]+l"},
	{"equal", "l=[2,4,6,8+k]"},
	{"equal-right", "[2,4,6,8+k]=l"},
	{"in", "(k*2+2)~l"},
	{"all-in-left", "[4,2+k]~l"},
	{"all-in-right", "l~[8,6,4,2,k]"},
	{"all-in-self", "l~l.map(e->e+k-k)"},
	{"indexWhere", "l.indexWhere(e->e>k*2)"},
	{"present", "l.present(e->e>k*4)"},
	{"minMax", "l.minMax(e->e+k)"},
	{"order", "l.orderRev(e->e+k)"},
	{"reverse", "l.reverse().first()+k"},
	{"set", "l.set(k,0)"},
	{"combine", "l.combine((x,y)->x+y+k)"},
	{"cross", "[k].cross(l,(x,y)->x+y)"},
	{"cross-self", "l.cross(l,(x,y)->x*10+y+k).top(5)"},
	{"merge", "l.merge([k],(x,y)->x<y)"},
	{"zip-twice", "[l.sum(),l.size(),l.first()+k]"},
	{"sum-then-index", "l.sum()+l[k]"},
	{"half", "l.map(e->if e>4+k then throw(\"late\") else e)"},
	{"closure", "i->l[i+k]"},
	{"multiUse", "l.multiUse({s:x->x.sum(),n:x->x.size()+k})"},
	{"switch", "switch l case [2,4,6,8+k]: 1 default 0"},
	{"visit", "l.visit(k,(s,e)->s+e)"},
	{"fsm", "l.fsm((s,e)->goto(s.state+1)).last().state+k"},
}

func productPrograms(quick bool) []program {
	keep := map[string]bool{"index": true, "sum": true, "append": true, "map": true, "all-in-right": true}
	var out []program
	for _, st := range constStages {
		for _, c := range constConsumers {
			if quick && !keep[c.name] {
				continue
			}
			out = append(out, program{"let c=" + st.expr + "; let f=(l,k)->" + c.body + "; f(c,a)", "product: constant " + st.name + " x consumer " + c.name})
		}
	}
	return out
}

func classifyRace(race string) string {
	first := race
	if i := strings.Index(race, "\n"); i >= 0 {
		first = race[:i]
	}
	if strings.Count(first, "(*List).Append") >= 2 && !strings.Contains(first, "(*List).Eval:") {
		return "F11b-append-capacity-reset-race"
	}
	// F11: unsynchronised lazy materialisation of a shared constant list: one of the two accesses is made
	// by List.Eval (which writes items / itemsPresent / iterable in place)
	if strings.Contains(first, "(*List).Eval") && (strings.Contains(first, "*[]value.Value") || strings.Contains(first, "*bool") || strings.Contains(first, "*func(")) {
		return "F11-lazy-constant-materialisation-race"
	}
	return ""
}

// runFree: the same programs free-running on real goroutines — on the plain build (outcomes only) and
// on the -race build, where Go's race detector sees ALL memory, also what no hook of the controlled
// scheduler covers (e.g. a map in the generator). Every scenario gets a FRESH generator and function:
// state that is filled lazily by the first evaluations is only racy while it is cold.
func runFree(ctx *bex.Ctx) {
	log.SetOutput(io.Discard)
	name := "free-running-plain-build"
	if ctx.Race {
		name = "race-detector-pass"
	}
	ctx.Space(name)
	const T = 4
	reps := 3
	if !ctx.Quick() {
		reps = 10
	}
	all := append(append([]program{}, programs(ctx.Quick())...), productPrograms(ctx.Quick())...)
	var idx int64
	for _, p := range all {
		idx++
		if !ctx.Mine(idx) || ctx.Expired() {
			continue
		}
		args := []int{0, 1, 2, 1}
		repro := map[string]any{"src": p.Src, "threads": T, "args": args, "plain": true, "racebuild": ctx.Race}
		if !ctx.Begin(func() map[string]any { return repro }) {
			continue
		}
		iso := make([]string, T)
		for i := range iso {
			g := value.New()
			f, _, err := g.Generate(p.Src, "a")
			if err != nil {
				iso[i] = "GENERR"
				continue
			}
			iso[i] = vrun.Eval(f, []value.Value{value.Int(args[i])}).String()
			if strings.HasPrefix(iso[i], "error") {
				iso[i] = "error"
			}
		}
		want := strings.Join(iso, " | ")
		for r := 0; r < reps; r++ {
			ctx.Eval()
			g := value.New()
			f, _, err := g.Generate(p.Src, "a")
			if err != nil {
				break
			}
			res := make([]string, T)
			var ready, done sync.WaitGroup
			start := make(chan struct{})
			for i := 0; i < T; i++ {
				ready.Add(1)
				done.Add(1)
				go func(i int) {
					defer done.Done()
					ready.Done()
					<-start
					o := vrun.Eval(f, []value.Value{value.Int(args[i])}).String()
					if strings.HasPrefix(o, "error") {
						o = "error"
					}
					res[i] = o
				}(i)
			}
			ready.Wait()
			close(start)
			done.Wait()
			ctx.Add("free_running_runs", 1)
			if got := strings.Join(res, " | "); got != want {
				ctx.Violate("a concurrent evaluation (real goroutines) returns an outcome different from its isolated evaluation", repro, want, got, "")
			}
		}
		ctx.Nontrivial("free|" + p.Src)
		ctx.Outcome(name)
		if ctx.Race {
			if rep := ctx.RaceReports(); rep != "" {
				finding := ""
				if strings.Contains(rep, "value.(*List).Eval") {
					finding = "F11-lazy-constant-materialisation-race"
				}
				if len(rep) > 2500 {
					rep = rep[:2500] + "…"
				}
				ctx.Violate("the Go race detector reports a data race (free-running -race build)", repro, "no report", rep, finding)
			}
		}
	}
	ctx.SpaceDone(fmt.Sprintf("%d programs, each %d times on a fresh generator: %d real goroutines released together evaluate the same fresh function; outcomes = isolated outcomes%s", len(all), reps, T,
		map[bool]string{true: "; every report of Go's race detector is a violation", false: ""}[ctx.Race]))
}

func run(ctx *bex.Ctx) {
	if !ctx.Coop {
		runFree(ctx)
		return
	}
	log.SetOutput(io.Discard)
	g := value.New()
	ctx.Space("concurrent-evaluations")
	var idx int64
	maxExecs := 30000
	if !ctx.Quick() {
		maxExecs = 400000
	}
	threads := []int{2, 3}
	hand := programs(ctx.Quick())
	all := append(append([]program{}, hand...), productPrograms(ctx.Quick())...)
	for pi, p := range all {
		for _, T := range threads {
			for ai, args := range [][]int{{0, 1, 2}, {0, 0, 0}, {1, 0, 1}} {
				if pi >= len(hand) && (T > 2 || ai > 0 && ctx.Quick() || ai > 1) {
					continue // the product family: two evaluations, different arguments (thorough: also equal ones)
				}
				idx++
				if !ctx.Mine(idx) || ctx.Expired() {
					continue
				}
				args := args[:T]
				repro := map[string]any{"src": p.Src, "threads": T, "args": args}
				// isolated outcomes on a fresh function each
				iso := make([]string, T)
				for i := range iso {
					vsched.RunDefault(func() string {
						f, _, err := g.Generate(p.Src, "a")
						if err != nil {
							iso[i] = "GENERR " + err.Error()
							return ""
						}
						iso[i] = vrun.Eval(f, []value.Value{value.Int(args[i])}).String()
						if strings.HasPrefix(iso[i], "error") {
							iso[i] = "error"
						}
						return ""
					})
				}
				want := strings.Join(iso, " | ")
				body := func() string {
					vsched.YieldOnAccess = false
					f, _, err := g.Generate(p.Src, "a") // fresh function: its constants start unmaterialised
					if err != nil {
						return "GENERR"
					}
					res := make([]string, T)
					done := vsched.MakeChan[int](T)
					vsched.YieldOnAccess = true
					eval := func(i int) {
						o := vrun.Eval(f, []value.Value{value.Int(args[i])}).String()
						if strings.HasPrefix(o, "error") {
							o = "error"
						}
						res[i] = o
						done.Send(i)
					}
					for i := 1; i < T; i++ {
						i := i
						vsched.Go(func() { eval(i) })
					}
					eval(0)
					for i := 0; i < T; i++ {
						done.Recv()
					}
					vsched.YieldOnAccess = false
					return strings.Join(res, " | ")
				}
				d1 := vsched.RunDefault(body)
				d2 := vsched.RunDefault(body)
				ctx.Add("replay_checks", 1)
				if d1.Obs != d2.Obs || d1.Trans != d2.Trans {
					ctx.Violate("REPLAY-DIVERGENCE: the same schedule gave different observations", repro, fmt.Sprint(d1.Obs, d1.Trans), fmt.Sprint(d2.Obs, d2.Trans), "")
					continue
				}
				// pass 0: all interleavings, pruned by history keys (sound as long as vthreads communicate only
				// through hooked operations); pass 1: NO pruning, all schedules with at most pb preemptions —
				// covers communication through memory the hooks do not see (backing arrays of slices)
				pb := 3
				if T > 2 {
					pb = 2
				}
				if !ctx.Quick() {
					pb++
				}
				for pass, cfg := range []vsched.Config{
					{PreemptBound: -1, MaxExecs: maxExecs, Stop: ctx.Expired},
					{PreemptBound: pb, MaxExecs: maxExecs, NoPrune: true, Stop: ctx.Expired},
				} {
					rp0 := copyMap(repro)
					rp0["pass"] = []string{"all interleavings, history-key pruning", fmt.Sprintf("no pruning, <= %d preemptions", pb)}[pass]
					repro := rp0
					st := vsched.Explore(cfg, body)
					if pass == 0 {
						ctx.Eval()
					} else {
						ctx.Add("executions_unpruned_pass", int64(st.Execs))
					}
					ctx.Add("states", int64(st.States))
					ctx.Add("transitions", int64(st.Transitions))
					ctx.Add("executions", int64(st.Execs))
					ctx.Add("traces_validated_against_impl", int64(st.Execs))
					ctx.Max("max_states_per_scenario", int64(st.States))
					if st.Capped {
						ctx.Add("scenarios_capped", 1)
					}
					if st.Diverged > 0 {
						ctx.Violate("REPLAY-DIVERGENCE while replaying a prefix", repro, "", fmt.Sprint(st.Diverged), "")
					}
					if pass == 0 && st.States > 50 {
						ctx.Nontrivial(fmt.Sprint(p.Src, T, args))
					}
					if pass == 0 {
						ctx.Outcome(fmt.Sprintf("race=%v/outcomes=%d", st.RaceExecs > 0, len(st.Outcomes)))
					}
					if tf := os.Getenv("C11_TRACE"); tf != "" {
						if fh, err := os.OpenFile(fmt.Sprintf("%s.%d", tf, ctx.Shard), os.O_APPEND|os.O_CREATE|os.O_WRONLY, 0644); err == nil {
							fmt.Fprintf(fh, "race=%-5v execs=%-6d states=%-6d outcomes=%d T=%d args=%v %s => %s\n", st.RaceExecs > 0, st.Execs, st.States, len(st.Outcomes), T, args, p.Src, want)
							fh.Close()
						}
					}
					if pass == 0 && ctx.WantSample() && st.States > 50 {
						ctx.Sample(map[string]any{"scenario": repro, "note": p.Note, "isolated": want, "executions": st.Execs, "states": st.States, "transitions": st.Transitions, "distinct_outcomes": len(st.Outcomes), "racy_executions": st.RaceExecs})
					}
					var obs []string
					for o := range st.Outcomes {
						obs = append(obs, o)
					}
					sort.Strings(obs)
					for _, o := range obs {
						if o != want {
							var choices []int
							for _, tt := range st.Terminals {
								if tt.Obs == o {
									choices = tt.Choices
									break
								}
							}
							rp := copyMap(repro)
							rp["schedule"] = choices
							finding := ""
							if t := st.FirstRace(); t != nil {
								finding = classifyRace(t.Race)
							}
							ctx.Violate("a concurrent evaluation returns an outcome different from its isolated evaluation", rp, want, o, finding)
						}
					}
					{
						byFinding := map[string][]string{}
						sched := map[string][]int{}
						for line, choices := range st.RaceLines() {
							f := classifyRace(line)
							byFinding[f] = append(byFinding[f], line)
							if old, ok := sched[f]; !ok || len(choices) < len(old) {
								sched[f] = choices
							}
						}
						for f, lines := range byFinding {
							sort.Strings(lines)
							rp := copyMap(repro)
							rp["schedule"] = sched[f]
							if len(lines) > 3 {
								lines = lines[:3]
							}
							ctx.Violate("data race on state shared through the generated function (happens-before, vector clocks)", rp, "no conflicting accesses unordered by happens-before", strings.Join(lines, "\n"), f)
						}
					}
					if t := st.FirstDeadlock(); t != nil {
						ctx.Violate("deadlock", repro, "all evaluations return", t.Leaks, "")
					}
					if t := st.FirstCrash(); t != nil {
						ctx.Violate("panic on a goroutine", repro, "no panic", t.Crash, "")
					}
				}
			}
		}
	}
	ctx.SpaceDone(fmt.Sprintf("%d product programs (every kind of constant list x run-time consumers) with T=2; %d programs (lazy / eager / nested constants, constant maps, closures, strings, recursion, failing accesses) x T in %v concurrent evaluations x 3 argument tuples (equal and different); all interleavings at field-access granularity with history-key pruning, then again without pruning with <= 3 (T=3: 2; thorough: +1) preemptions", len(productPrograms(ctx.Quick())), len(programs(ctx.Quick())), threads))
}

func copyMap(m map[string]any) map[string]any {
	o := map[string]any{}
	for k, v := range m {
		o[k] = v
	}
	return o
}

// replayFree: a case of the free-running passes, 200 times on fresh generators (outcomes only; data
// races are re-decided by running the check, whose -race build sees them).
func replayFree(repro map[string]any) (string, bool) {
	src, _ := repro["src"].(string)
	args := []int{0, 1, 2, 1}
	T := len(args)
	iso := make([]string, T)
	for i := range iso {
		g := value.New()
		f, _, err := g.Generate(src, "a")
		if err != nil {
			return "does not generate: " + err.Error(), true
		}
		iso[i] = vrun.Eval(f, []value.Value{value.Int(args[i])}).String()
		if strings.HasPrefix(iso[i], "error") {
			iso[i] = "error"
		}
	}
	want := strings.Join(iso, " | ")
	diff, last := 0, ""
	for r := 0; r < 200; r++ {
		g := value.New()
		f, _, _ := g.Generate(src, "a")
		res := make([]string, T)
		var ready, done sync.WaitGroup
		start := make(chan struct{})
		for i := 0; i < T; i++ {
			ready.Add(1)
			done.Add(1)
			go func(i int) {
				defer done.Done()
				ready.Done()
				<-start
				o := vrun.Eval(f, []value.Value{value.Int(args[i])}).String()
				if strings.HasPrefix(o, "error") {
					o = "error"
				}
				res[i] = o
			}(i)
		}
		ready.Wait()
		close(start)
		done.Wait()
		if got := strings.Join(res, " | "); got != want {
			diff++
			last = got
		}
	}
	return fmt.Sprintf("isolated: %s; %d of 200 free-running rounds of %d goroutines differ (%s); data races are only visible to the -race build of the check", want, diff, T, last), diff > 0
}

func replay(repro map[string]any) (string, bool) {
	log.SetOutput(io.Discard)
	if p, _ := repro["plain"].(bool); p {
		return replayFree(repro)
	}
	g := value.New()
	src, _ := repro["src"].(string)
	T := 2
	if t, ok := repro["threads"].(float64); ok {
		T = int(t)
	}
	var args []int
	if l, ok := repro["args"].([]any); ok {
		for _, a := range l {
			args = append(args, int(a.(float64)))
		}
	}
	for len(args) < T {
		args = append(args, 0)
	}
	var choices []int
	if l, ok := repro["schedule"].([]any); ok {
		for _, c := range l {
			choices = append(choices, int(c.(float64)))
		}
	}
	iso := make([]string, T)
	for i := range iso {
		vsched.RunDefault(func() string {
			f, _, err := g.Generate(src, "a")
			if err != nil {
				iso[i] = "GENERR " + err.Error()
				return ""
			}
			iso[i] = vrun.Eval(f, []value.Value{value.Int(args[i])}).String()
			if strings.HasPrefix(iso[i], "error") {
				iso[i] = "error"
			}
			return ""
		})
	}
	want := strings.Join(iso, " | ")
	body := func() string {
		vsched.YieldOnAccess = false
		f, _, err := g.Generate(src, "a")
		if err != nil {
			return "GENERR"
		}
		res := make([]string, T)
		done := vsched.MakeChan[int](T)
		vsched.YieldOnAccess = true
		eval := func(i int) {
			o := vrun.Eval(f, []value.Value{value.Int(args[i])}).String()
			if strings.HasPrefix(o, "error") {
				o = "error"
			}
			res[i] = o
			done.Send(i)
		}
		for i := 1; i < T; i++ {
			i := i
			vsched.Go(func() { eval(i) })
		}
		eval(0)
		for i := 0; i < T; i++ {
			done.Recv()
		}
		vsched.YieldOnAccess = false
		return strings.Join(res, " | ")
	}
	if len(choices) == 0 {
		// no schedule recorded: explore again
		st := vsched.Explore(vsched.Config{PreemptBound: 3, NoPrune: true, MaxExecs: 200000}, body)
		bad := st.RaceExecs > 0
		for o := range st.Outcomes {
			if o != want {
				bad = true
			}
		}
		return fmt.Sprintf("isolated: %s; all schedules with <= 3 preemptions: outcomes %v, executions with a data race %d", want, st.Outcomes, st.RaceExecs), bad
	}
	res := vsched.Replay(choices, body)
	return fmt.Sprintf("isolated evaluations: %s\nunder the recorded schedule: %s\nraces: %v\ncrashes: %v\nschedule (%d transitions):\n  %s",
		want, res.Obs, res.Races, res.Crashes, len(res.Trace), strings.Join(res.Trace, "\n  ")), res.Obs != want || len(res.Races) > 0 || res.Deadlock || len(res.Crashes) > 0
}

var _ = funcGen.NewEmptyStack[value.Value]

func main() {
	bex.Main(&bex.Check{
		ID:    "C11",
		Level: "model_checking",
		Rule:  "each scenario is one program generated freshly inside every execution and evaluated by T vthreads at once under the controlled scheduler; every access to the fields items/itemsPresent/iterable/size of value.List is a scheduling point and a race-checked access; ALL interleavings are explored (history-key pruning; what a vthread reads from a hooked field enters its history as the identity of the write it observed); evaluations = scenarios, distinct_nontrivial = scenarios with more than 50 states",
		Assumptions: []string{"the only state shared between concurrent evaluations of one function are its folded constants (lists, maps, closures) and the generator; value-stack slots are private per Eval and are race-checked as in C06",
			"sequentially consistent interleavings at field granularity; weak-memory effects of a racy program are out of reach, which is why the race itself is the reported violation",
			"value.New() (which rewrites the package-level type ids) is not run concurrently"},
		QuickBudget: 90e9, ThoroughBudget: 45 * 60e9,
		Workers: 1, CoopWorkers: 13, RaceWorkers: 2,
		Run:              run,
		Replay:           replay,
		CrashIsViolation: true, // a worker process that dies while it executes a case on the library is a verdict on that case
	})
}
