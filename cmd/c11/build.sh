#!/usr/bin/env bash
set -eu
exec bin/buildcoop.sh c11 "${VERIF_OUT:-build/bin/c11}"
