#!/usr/bin/env bash
set -eu
out="${VERIF_OUT:-build/bin/c11}"
go build -tags verif -overlay "$VERIF_OVERLAY" -o "$out" ./cmd/c11
go build -race -tags verif -overlay "$VERIF_OVERLAY" -o "$out-race" ./cmd/c11
exec bin/buildcoop.sh c11 "$out-coop"
