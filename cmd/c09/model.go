package main

import (
	"sort"
	"strconv"
	"strings"

	"github.com/hneemann/parser2/listMap"
	"github.com/hneemann/parser2/value"
)

// mval is the purely functional model of a value: an int, a bool, a list of model values or a map
// from keys to model values. A model value is built once and its content is never written again
// (every model operation below builds a new one), so "the model value of a handle never changes" holds by
// construction on the model side; the check is that the real object keeps agreeing with it.
type mval struct {
	kind byte // 'i' int, 'b' bool, 'l' list, 'm' map
	i    int
	l    []*mval
	keys []string // map: keys in iteration order (as far as the order is determined, see ord)
	vals []*mval
	// ord (maps): 'k' the iteration order is determined by the operations that built the map (list
	// storage, put, +, replace); 'a' the order was adopted from the first observation of the handle
	// (a list-backed map filled from a hash-backed one: fixed from then on, but not predictable)
	ord byte
	str string // rendering in the library's string() format, cached
}

func mInt(i int) *mval { return &mval{kind: 'i', i: i, str: strconv.Itoa(i)} }

func mBool(b bool) *mval {
	if b {
		return &mval{kind: 'b', i: 1, str: "true"}
	}
	return &mval{kind: 'b', str: "false"}
}

func mList(items ...*mval) *mval {
	var b strings.Builder
	b.WriteByte('[')
	for i, e := range items {
		if i > 0 {
			b.WriteString(", ")
		}
		b.WriteString(e.str)
	}
	b.WriteByte(']')
	return &mval{kind: 'l', l: items, str: b.String()}
}

func mInts(v ...int) *mval {
	items := make([]*mval, len(v))
	for i, x := range v {
		items[i] = mInt(x)
	}
	return mList(items...)
}

func mMap(ord byte, keys []string, vals []*mval) *mval {
	var b strings.Builder
	b.WriteByte('{')
	for i, k := range keys {
		if i > 0 {
			b.WriteString(", ")
		}
		b.WriteString(k)
		b.WriteByte(':')
		b.WriteString(vals[i].str)
	}
	b.WriteByte('}')
	return &mval{kind: 'm', keys: keys, vals: vals, ord: ord, str: b.String()}
}

func (m *mval) get(key string) (*mval, bool) {
	for i, k := range m.keys {
		if k == key {
			return m.vals[i], true
		}
	}
	return nil, false
}

// sortedEntries renders a map model (or an observed "{k:v, …}" string of int-valued entries)
// independent of the key order.
func (m *mval) sortedEntries() string {
	e := make([]string, len(m.keys))
	for i, k := range m.keys {
		e[i] = k + ":" + m.vals[i].str
	}
	sort.Strings(e)
	return "{" + strings.Join(e, ", ") + "}"
}

func sortEntriesOfString(s string) string {
	if len(s) < 2 || s[0] != '{' || s[len(s)-1] != '}' {
		return s
	}
	if len(s) == 2 {
		return s
	}
	e := strings.Split(s[1:len(s)-1], ", ")
	sort.Strings(e)
	return "{" + strings.Join(e, ", ") + "}"
}

// flat reports that m is a list of ints.
func (m *mval) flat() bool {
	if m.kind != 'l' {
		return false
	}
	for _, e := range m.l {
		if e.kind != 'i' {
			return false
		}
	}
	return true
}

// mEqual is deep equality of model values; maps compare independent of key order.
func mEqual(a, b *mval) bool {
	if a.kind != b.kind {
		return false
	}
	switch a.kind {
	case 'i', 'b':
		return a.i == b.i
	case 'l':
		if len(a.l) != len(b.l) {
			return false
		}
		for i := range a.l {
			if !mEqual(a.l[i], b.l[i]) {
				return false
			}
		}
		return true
	case 'm':
		if len(a.keys) != len(b.keys) {
			return false
		}
		for i, k := range a.keys {
			o, ok := b.get(k)
			if !ok || !mEqual(a.vals[i], o) {
				return false
			}
		}
		return true
	}
	return false
}

// mComparable reports that a = b is defined by the library's rules: '=' between values of different
// types (int against list, …) is an error there, not false (C14's subject). Lists are compared left to
// right and the comparison stops at the first unequal pair; lists of different length are unequal
// without any element comparison.
func mComparable(a, b *mval) bool {
	if a.kind != b.kind {
		return false
	}
	if a.kind == 'l' {
		if len(a.l) != len(b.l) {
			return true
		}
		for i := range a.l {
			if !mComparable(a.l[i], b.l[i]) {
				return false
			}
			if !mEqual(a.l[i], b.l[i]) {
				return true
			}
		}
	}
	return true
}

// fresh builds a new real value from the model through the Go API (exact capacity, nothing shared
// with any handle).
func fresh(m *mval) value.Value {
	switch m.kind {
	case 'i':
		return value.Int(m.i)
	case 'b':
		return value.Bool(m.i != 0)
	case 'l':
		items := make([]value.Value, len(m.l))
		for i, e := range m.l {
			items[i] = fresh(e)
		}
		return value.NewList(items...)
	case 'm':
		lm := listMap.New[value.Value](len(m.keys))
		for i, k := range m.keys {
			lm = lm.Append(k, fresh(m.vals[i]))
		}
		return value.NewMap(lm)
	}
	panic("fresh")
}

// differing returns model values that are close to m but not equal to it (for the negative
// equality observations).
func differing(m *mval) []*mval {
	var out []*mval
	switch m.kind {
	case 'l':
		// elements of the same kind as the existing ones: '=' between values of different types is
		// an error in the library, not false
		var zero *mval = mInt(0)
		n := len(m.l)
		if n > 0 && m.l[n-1].kind == 'l' {
			zero = mInts(0)
		}
		out = append(out, mList(append(append([]*mval{}, m.l...), zero)...))
		if n > 0 {
			c := append([]*mval{}, m.l...)
			if c[n-1].kind == 'i' {
				c[n-1] = mInt(c[n-1].i + 1)
			} else {
				c[n-1] = differing(c[n-1])[0]
			}
			out = append(out, mList(c...))
			out = append(out, mList(m.l[:n-1]...))
		}
	case 'm':
		k := append(append([]string{}, m.keys...), "zz")
		v := append(append([]*mval{}, m.vals...), mInt(0))
		out = append(out, mMap('k', k, v))
		if n := len(m.keys); n > 0 {
			v2 := append([]*mval{}, m.vals...)
			v2[n-1] = mInt(v2[n-1].i + 1)
			out = append(out, mMap('k', m.keys, v2))
		}
	}
	return out
}

// ---- model semantics of the list operations (flat = list of ints where the callback needs ints)

func mAppend(a *mval, v int) *mval { return mList(append(append([]*mval{}, a.l...), mInt(v))...) }

func mSet(a *mval, i, v int) (*mval, bool) {
	if i < 0 || i >= len(a.l) {
		return nil, false
	}
	c := append([]*mval{}, a.l...)
	c[i] = mInt(v)
	return mList(c...), true
}

func mReverse(a *mval) *mval {
	n := len(a.l)
	c := make([]*mval, n)
	for i, e := range a.l {
		c[n-1-i] = e
	}
	return mList(c...)
}

func mOrder(a *mval, rev bool) *mval {
	c := append([]*mval{}, a.l...)
	sort.SliceStable(c, func(i, j int) bool {
		if rev {
			return c[i].i > c[j].i
		}
		return c[i].i < c[j].i
	})
	return mList(c...)
}

func mConcat(a, b *mval) *mval { return mList(append(append([]*mval{}, a.l...), b.l...)...) }

func mMapInc(a *mval) *mval {
	c := make([]*mval, len(a.l))
	for i, e := range a.l {
		c[i] = mInt(e.i + 1)
	}
	return mList(c...)
}

func mAcceptGt1(a *mval) *mval {
	var c []*mval
	for _, e := range a.l {
		if e.i > 1 {
			c = append(c, e)
		}
	}
	return mList(c...)
}

func mTop(a *mval, n int) *mval {
	if n > len(a.l) {
		n = len(a.l)
	}
	return mList(a.l[:n]...)
}

func mSkip(a *mval, n int) *mval {
	if n > len(a.l) {
		n = len(a.l)
	}
	return mList(a.l[n:]...)
}

// windows of the documented movingWindow(e->e) on ints: for every element the maximal run ending
// at it whose first element differs by at most 1 (start index only moves forward).
func mMovingWindow(a *mval) *mval {
	var out []*mval
	start := 0
	for i, e := range a.l {
		for abs(e.i-a.l[start].i) > 1 {
			start++
		}
		out = append(out, mList(a.l[start:i+1]...))
	}
	return mList(out...)
}

func abs(x int) int {
	if x < 0 {
		return -x
	}
	return x
}

// movingWindowRemove(w->w.size()>2): windows ending at every element, shortened from the front
// while they hold more than 2 elements.
func mMovingWindowRemove(a *mval) *mval {
	var out []*mval
	start := 0
	for i := range a.l {
		for i+1-start > 2 {
			start++
		}
		out = append(out, mList(a.l[start:i+1]...))
	}
	return mList(out...)
}

func mCombinePairs(a *mval) *mval {
	var out []*mval
	for i := 0; i+1 < len(a.l); i++ {
		out = append(out, mList(a.l[i], a.l[i+1]))
	}
	return mList(out...)
}

// combineN(n, w->w): every group of n successive items, as a list, in list order.
func mWindows(a *mval, n int) *mval {
	var out []*mval
	for i := 0; i+n <= len(a.l); i++ {
		out = append(out, mList(a.l[i:i+n]...))
	}
	return mList(out...)
}

func mMapPair(a *mval) *mval {
	var out []*mval
	for _, e := range a.l {
		out = append(out, mList(e, mInt(e.i+1)))
	}
	return mList(out...)
}

// ---- model semantics of the map operations (int values)

func mPut(a *mval, k string, v int) (*mval, bool) {
	if _, ok := a.get(k); ok {
		return nil, false
	}
	// an AppendMap iterates its own entry first
	return mMap(a.ord, append([]string{k}, a.keys...), append([]*mval{mInt(v)}, a.vals...)), true
}

func mMerge(a, b *mval) (*mval, bool) {
	for _, k := range b.keys {
		if _, ok := a.get(k); ok {
			return nil, false
		}
	}
	ord := byte('k')
	if a.ord != 'k' || b.ord != 'k' {
		ord = 'a'
	}
	return mMap(ord, append(append([]string{}, a.keys...), b.keys...), append(append([]*mval{}, a.vals...), b.vals...)), true
}

func mReplaceA(a *mval) *mval {
	v := append([]*mval{}, a.vals...)
	for i, k := range a.keys {
		if k == "a" {
			v[i] = mInt(v[i].i + 10)
		}
	}
	return mMap(a.ord, a.keys, v)
}

func mMapValuesInc(a *mval) *mval {
	v := make([]*mval, len(a.vals))
	for i, e := range a.vals {
		v[i] = mInt(e.i + 1)
	}
	return mMap(a.ord, a.keys, v)
}

func mMapAcceptGt1(a *mval) *mval {
	var k []string
	var v []*mval
	for i, e := range a.vals {
		if e.i > 1 {
			k = append(k, a.keys[i])
			v = append(v, e)
		}
	}
	return mMap(a.ord, k, v)
}
