package main

import (
	"errors"
	"fmt"
	"hash/fnv"
	"sort"
	"strconv"
	"strings"

	"github.com/hneemann/parser2/funcGen"
	"github.com/hneemann/parser2/value"
	"verif/internal/bex"
)

// ---------------------------------------------------------------------------------------------
// operations

const (
	rNew  = iota // the result is a list/map that becomes a new handle
	rSame        // the result is a scalar, or a list/map that may be an object the pool already holds
)

const (
	spNone = iota
	spReeval
	spInside
)

// opDef is one letter of the alphabet: a function generated ONCE on value.New() and evaluated on
// real handles many times, together with its meaning on the model.
type opDef struct {
	name   string
	kind   byte // kind of the operand handle(s): 'l' list, 'm' map
	src    string
	binary bool
	// usesParam: the step carries the value to append (families with a distinct value per append)
	usesParam bool
	res       int
	special   int
	applies   func(a, b *mval) bool
	args      func(a *mval) (p, q value.Value)
	// model returns the model of the result; ok=false: the operation must fail
	model func(a, b *mval) (*mval, bool)
	fn    funcGen.Func[value.Value]
}

func mStr(s string) *mval { return &mval{kind: 's', str: s} }

func always(a, b *mval) bool          { return true }
func isFlat(a, b *mval) bool          { return a.flat() }
func flat2(a, b *mval) bool           { return a.flat() && len(a.l) >= 2 }
func noArgs(*mval) (p, q value.Value) { return value.Int(0), value.Int(0) }

func constArgs(p, q value.Value) func(*mval) (value.Value, value.Value) {
	return func(*mval) (value.Value, value.Value) { return p, q }
}

func okm(f func(a *mval) *mval) func(a, b *mval) (*mval, bool) {
	return func(a, b *mval) (*mval, bool) { return f(a), true }
}

func listOps() []*opDef {
	at := func(i int) func(a, b *mval) (*mval, bool) {
		return func(a, b *mval) (*mval, bool) {
			if i >= len(a.l) {
				return nil, false
			}
			return a.l[i], true
		}
	}
	return []*opDef{
		// producers
		{name: "append(7)", src: "a.append(p)", args: constArgs(value.Int(7), value.Int(0)), model: okm(func(a *mval) *mval { return mAppend(a, 7) })},
		{name: "append(v)", src: "a.append(p)", usesParam: true, args: func(*mval) (value.Value, value.Value) { return value.Int(curParam), value.Int(0) },
			model: okm(func(a *mval) *mval { return mAppend(a, curParam) })},
		{name: "append(8)", src: "a.append(p)", args: constArgs(value.Int(8), value.Int(0)), model: okm(func(a *mval) *mval { return mAppend(a, 8) })},
		{name: "set(0,9)", src: "a.set(p,q)", args: constArgs(value.Int(0), value.Int(9)), model: func(a, b *mval) (*mval, bool) { return mSet(a, 0, 9) }},
		{name: "set(last,9)", src: "a.set(p,q)", applies: func(a, b *mval) bool { return len(a.l) >= 2 },
			args:  func(a *mval) (value.Value, value.Value) { return value.Int(len(a.l) - 1), value.Int(9) },
			model: func(a, b *mval) (*mval, bool) { return mSet(a, len(a.l)-1, 9) }},
		{name: "reverse()", src: "a.reverse()", model: okm(mReverse)},
		{name: "order(e->e)", src: "a.order(e->e)", applies: isFlat, model: okm(func(a *mval) *mval { return mOrder(a, false) })},
		{name: "orderRev(e->e)", src: "a.orderRev(e->e)", applies: isFlat, model: okm(func(a *mval) *mval { return mOrder(a, true) })},
		{name: "orderLess((x,y)->x<y)", src: "a.orderLess((x,y)->x<y)", applies: isFlat, model: okm(func(a *mval) *mval { return mOrder(a, false) })},
		{name: "+", src: "a+b", binary: true, model: func(a, b *mval) (*mval, bool) { return mConcat(a, b), true }},
		{name: "map(e->e+1)", src: "a.map(e->e+1)", applies: isFlat, model: okm(mMapInc)},
		{name: "accept(e->e>1)", src: "a.accept(e->e>1)", applies: isFlat, model: okm(mAcceptGt1)},
		{name: "top(2)", src: "a.top(p)", args: constArgs(value.Int(2), value.Int(0)), model: okm(func(a *mval) *mval { return mTop(a, 2) })},
		{name: "skip(1)", src: "a.skip(p)", args: constArgs(value.Int(1), value.Int(0)), model: okm(func(a *mval) *mval { return mSkip(a, 1) })},
		// producers of nested lists (the inner lists are views on the operand's backing array or fresh)
		{name: "movingWindow(e->e)", src: "a.movingWindow(e->e)", applies: isFlat, model: okm(mMovingWindow)},
		{name: "movingWindowRemove(w->w.size()>2)", src: "a.movingWindowRemove(w->w.size()>2)", applies: isFlat, model: okm(mMovingWindowRemove)},
		{name: "combine((x,y)->[x,y])", src: "a.combine((x,y)->[x,y])", applies: isFlat, model: okm(mCombinePairs)},
		{name: "map(e->[e,e+1])", src: "a.map(e->[e,e+1])", applies: isFlat, model: okm(mMapPair)},
		{name: "combineN(2,w->w)", src: "a.combineN(p,w->w)", applies: isFlat, args: constArgs(value.Int(2), value.Int(0)), model: okm(func(a *mval) *mval { return mWindows(a, 2) })},
		// consumers: full, partial or no iteration; the result is a scalar, the operand itself or an element
		{name: "eval()", src: "a.eval()", res: rSame, model: okm(func(a *mval) *mval { return a })},
		{name: "first()", src: "a.first()", res: rSame, model: at(0)},
		{name: "host iteration stopped behind the first element", src: "hostFirst(a)", res: rSame, model: at(0)},
		{name: "last()", src: "a.last()", res: rSame, model: func(a, b *mval) (*mval, bool) {
			if len(a.l) == 0 {
				return nil, false
			}
			return a.l[len(a.l)-1], true
		}},
		{name: "present(e->e>1)", src: "a.present(e->e>1)", res: rSame, applies: isFlat, model: okm(func(a *mval) *mval { return mBool(len(mAcceptGt1(a).l) > 0) })},
		{name: "[0]", src: "a[p]", res: rSame, args: constArgs(value.Int(0), value.Int(0)), model: at(0)},
		{name: "[1]", src: "a[p]", res: rSame, args: constArgs(value.Int(1), value.Int(0)), model: at(1)},
		{name: "size()", src: "a.size()", res: rSame, model: okm(func(a *mval) *mval { return mInt(len(a.l)) })},
		{name: "string()", src: "a.string()", res: rSame, model: okm(func(a *mval) *mval { return mStr(a.str) })},
		{name: "sum()", src: "a.sum()", res: rSame, applies: isFlat, model: func(a, b *mval) (*mval, bool) {
			if len(a.l) == 0 {
				return nil, false
			}
			s := 0
			for _, e := range a.l {
				s += e.i
			}
			return mInt(s), true
		}},
		{name: "indexWhere(e->e>1)", src: "a.indexWhere(e->e>1)", res: rSame, applies: isFlat, model: okm(func(a *mval) *mval {
			for i, e := range a.l {
				if e.i > 1 {
					return mInt(i)
				}
			}
			return mInt(-1)
		})},
		{name: "=self", src: "a=a", res: rSame, applies: isFlat, model: okm(func(a *mval) *mval { return mBool(true) })},
		{name: "~self", src: "a~a", res: rSame, applies: isFlat, model: okm(func(a *mval) *mval { return mBool(true) })},
		// the same constant-returning generated function evaluated again
		{name: "re-evaluate constant function", special: spReeval, res: rSame},
		{name: "inside: c.append(7)", special: spInside, args: constArgs(value.Int(7), value.Int(0)), model: okm(func(a *mval) *mval { return mAppend(a, 7) })},
		{name: "inside: c.append(8)", special: spInside, args: constArgs(value.Int(8), value.Int(0)), model: okm(func(a *mval) *mval { return mAppend(a, 8) })},
	}
}

func mapOps() []*opDef {
	hasA := func(a, b *mval) bool { _, ok := a.get("a"); return ok }
	put := func(k string, v int) *opDef {
		return &opDef{name: fmt.Sprintf("put(%q,%d)", k, v), src: "a.put(p,q)", args: constArgs(value.String(k), value.Int(v)),
			model: func(a, b *mval) (*mval, bool) { return mPut(a, k, v) }}
	}
	return []*opDef{
		put("c", 7), put("c", 8), put("d", 7),
		{name: "replace(x->{a:x.a+10})", src: "a.replace(x->{a:x.a+10})", applies: hasA, model: okm(mReplaceA)},
		{name: "+", src: "a+b", binary: true, model: mMerge},
		{name: "eval()", src: "a.eval()", model: okm(func(a *mval) *mval { return mMap('a', a.keys, a.vals) })},
		{name: "map((k,v)->v+1)", src: "a.map((k,v)->v+1)", model: okm(mMapValuesInc)},
		{name: "accept((k,v)->v>1)", src: "a.accept((k,v)->v>1)", model: okm(mMapAcceptGt1)},
		{name: "size()", src: "a.size()", res: rSame, model: okm(func(a *mval) *mval { return mInt(len(a.keys)) })},
		{name: "get(\"a\")", src: "a.get(p)", res: rSame, args: constArgs(value.String("a"), value.Int(0)), model: func(a, b *mval) (*mval, bool) { return a.get("a") }},
		{name: "isAvail(\"c\")", src: "a.isAvail(p)", res: rSame, args: constArgs(value.String("c"), value.Int(0)), model: okm(func(a *mval) *mval { _, ok := a.get("c"); return mBool(ok) })},
		{name: "=self", src: "a=a", res: rSame, model: okm(func(a *mval) *mval { return mBool(true) })},
		{name: "list().size()", src: "a.list().size()", res: rSame, model: okm(func(a *mval) *mval { return mInt(len(a.keys)) })},
		{name: "re-evaluate constant function", special: spReeval, res: rSame},
	}
}

// ---------------------------------------------------------------------------------------------
// environment: one FunctionGenerator, every operation and observer generated once

type env struct {
	ctx    *bex.Ctx
	fg     *value.FunctionGenerator
	st     funcGen.Stack[value.Value]
	lops   []*opDef
	mops   []*opDef
	byName map[string]*opDef

	oString, oSize, oEq, oIdx, oGet, oAvail  funcGen.Func[value.Value]
	litList, numbersLazy, acceptLazy, litMap funcGen.Func[value.Value]

	// nestedEq: '=' works on lists of lists in this tree (it fails with "not defined on list, list"
	// in the pinned tree, finding F14a of C14); probed once, so the check adapts when that is repaired
	nestedEq bool
	nObs     int64
	keyHash  []uint64 // 64-bit hashes of the canonical keys reached by transitions this worker owns
	kb       keyBuilder
}

func newEnv(ctx *bex.Ctx) *env {
	e := &env{ctx: ctx, fg: value.New(), st: funcGen.NewEmptyStack[value.Value](), byName: map[string]*opDef{}}
	// the HOST iterates a list through List.Iterate and stops behind the first element (what an exporter with
	// a size limit or a host loop with break does); returns that element
	e.fg.AddStaticFunction("hostFirst", funcGen.Function[value.Value]{
		Func: func(st funcGen.Stack[value.Value], cs []value.Value) (value.Value, error) {
			l, ok := st.Get(0).(*value.List)
			if !ok {
				return nil, errors.New("hostFirst needs a list")
			}
			var first value.Value
			var ferr error
			l.Iterate(funcGen.NewEmptyStack[value.Value]())(func(v value.Value, err error) bool {
				first, ferr = v, err
				return false
			})
			if ferr != nil {
				return nil, ferr
			}
			if first == nil {
				return nil, errors.New("hostFirst on an empty list")
			}
			return first, nil
		},
		Args: 1, IsPure: false,
	}.SetDescription("list", "first element, read by a host iteration that stops at once"))
	e.lops, e.mops = listOps(), mapOps()
	for k, l := range map[byte][]*opDef{'l': e.lops, 'm': e.mops} {
		for _, o := range l {
			o.kind = k
			if o.applies == nil {
				o.applies = always
			}
			if o.args == nil {
				o.args = noArgs
			}
			if o.src != "" {
				o.fn = e.gen(o.src, "a", "b", "p", "q")
			}
			e.byName[string(k)+":"+o.name] = o
		}
	}
	e.oString = e.gen("a.string()", "a")
	e.oSize = e.gen("a.size()", "a")
	e.oEq = e.gen("a=b", "a", "b")
	e.oIdx = e.gen("a[p]", "a", "p")
	e.oGet = e.gen("a.get(p)", "a", "p")
	e.oAvail = e.gen("a.isAvail(p)", "a", "p")
	e.litList = e.gen("[x,1,2]", "x")
	e.numbersLazy = e.gen("numbers(n).map(e->(e+2)%3+1)", "n")
	e.acceptLazy = e.gen("l.accept(e->e>0)", "l")
	e.litMap = e.gen("{a:x,b:2}", "x")
	nn := mList(mInts(1, 2), mInts(3))
	if r, err := e.call(e.oEq, fresh(nn), fresh(nn)); err == nil && r == value.Value(value.Bool(true)) {
		e.nestedEq = true
	}
	return e
}

func (e *env) gen(src string, args ...string) funcGen.Func[value.Value] {
	f, _, err := e.fg.Generate(src, args...)
	if err != nil {
		panic("C09 harness: cannot generate " + src + ": " + err.Error())
	}
	return f
}

func (e *env) call(f funcGen.Func[value.Value], args ...value.Value) (value.Value, error) {
	return f(e.st.Init(args...))
}

func (e *env) ops(kind byte) []*opDef {
	if kind == 'm' {
		return e.mops
	}
	return e.lops
}

// ---------------------------------------------------------------------------------------------
// pools of initial handles

type live struct {
	objs    []value.Value
	constFn funcGen.Func[value.Value] // the generated function whose folded constant is handle 0
	inside  bool                      // constFn takes (selector, value): 0 → the constant, 1 → constant.append(value)
}

type poolSpec struct {
	name   string
	kind   byte
	descr  string
	models []*mval
	build  func(e *env) *live
}

type pt struct{ a, b int }

var ptMap = value.NewToMap[pt]().Attr("a", func(p pt) value.Value { return value.Int(p.a) }).Attr("b", func(p pt) value.Value { return value.Int(p.b) })

func must(v value.Value, err error) value.Value {
	if err != nil {
		panic("C09 harness: building an initial value failed: " + err.Error())
	}
	return v
}

func ints(v ...int) []value.Value {
	o := make([]value.Value, len(v))
	for i, x := range v {
		o[i] = value.Int(x)
	}
	return o
}

func toInt(i int) (value.Value, error) { return value.Int(i), nil }

func listPools() []poolSpec {
	m312 := mInts(3, 1, 2)
	return []poolSpec{
		{name: "literal", kind: 'l', descr: "[x,1,2] evaluated with x=3: literal list, exact capacity", models: []*mval{m312},
			build: func(e *env) *live { return &live{objs: []value.Value{must(e.call(e.litList, value.Int(3)))}} }},
		{name: "host-lazy", kind: 'l', descr: "value.NewListConvert over a Go slice: lazily produced, size known, capacity 4 after materialisation", models: []*mval{m312},
			build: func(e *env) *live { return &live{objs: []value.Value{value.NewListConvert(toInt, []int{3, 1, 2})}} }},
		{name: "numbers-lazy", kind: 'l', descr: "numbers(n).map(e->(e+2)%3+1) with n=3: lazy over lazy", models: []*mval{m312},
			build: func(e *env) *live { return &live{objs: []value.Value{must(e.call(e.numbersLazy, value.Int(3)))}} }},
		{name: "accept-lazy", kind: 'l', descr: "l.accept(e->e>0) over a host list: lazy, size unknown", models: []*mval{m312},
			build: func(e *env) *live {
				return &live{objs: []value.Value{must(e.call(e.acceptLazy, value.NewList(ints(3, 1, 2)...)))}}
			}},
		{name: "spare-capacity", kind: 'l', descr: "argument list built by the host from a slice with len 3, cap 5", models: []*mval{m312},
			build: func(e *env) *live {
				buf := make([]value.Value, 3, 5)
				copy(buf, ints(3, 1, 2))
				return &live{objs: []value.Value{value.NewList(buf...)}}
			}},
		{name: "folded-constant", kind: 'l', descr: "[3,1,2] folded into a function generated once per history; every evaluation returns the same object", models: []*mval{m312},
			build: func(e *env) *live {
				f := e.gen("[3,1,2]")
				return &live{objs: []value.Value{must(e.call(f))}, constFn: f}
			}},
		{name: "folded-lazy-constant", kind: 'l', descr: "[3,1,2].map(e->e) folded into a function generated once per history: one shared lazy list", models: []*mval{m312},
			build: func(e *env) *live {
				f := e.gen("[3,1,2].map(e->e)")
				return &live{objs: []value.Value{must(e.call(f))}, constFn: f}
			}},
		{name: "constant-inside", kind: 'l', descr: "let c=[3,1,2].map(e->e); if s=0 then c else c.append(v): the append happens inside the generated function on its folded constant", models: []*mval{m312},
			build: func(e *env) *live {
				f := e.gen("let c=[3,1,2].map(e->e); if s=0 then c else c.append(v)", "s", "v")
				return &live{objs: []value.Value{must(e.call(f, value.Int(0), value.Int(0)))}, constFn: f, inside: true}
			}},
		{name: "empty", kind: 'l', descr: "value.NewList(): empty list, nil items", models: []*mval{mInts()},
			build: func(e *env) *live { return &live{objs: []value.Value{value.NewList()}} }},
		{name: "two-lists", kind: 'l', descr: "literal [3,1,2] and a lazily produced [5,4]", models: []*mval{m312, mInts(5, 4)},
			build: func(e *env) *live {
				return &live{objs: []value.Value{must(e.call(e.litList, value.Int(3))), value.NewListConvert(toInt, []int{5, 4})}}
			}},
	}
}

func nestedPools() []poolSpec {
	m := mInts(1, 2, 3, 4)
	return []poolSpec{
		{name: "nested/host-list", kind: 'l', descr: "value.NewList(1,2,3,4)", models: []*mval{m},
			build: func(e *env) *live { return &live{objs: []value.Value{value.NewList(ints(1, 2, 3, 4)...)}} }},
		{name: "nested/host-lazy", kind: 'l', descr: "lazily produced [1,2,3,4] (capacity 4 after materialisation)", models: []*mval{m},
			build: func(e *env) *live { return &live{objs: []value.Value{value.NewListConvert(toInt, []int{1, 2, 3, 4})}} }},
		{name: "nested/spare-capacity", kind: 'l', descr: "host list len 4, cap 6", models: []*mval{m},
			build: func(e *env) *live {
				buf := make([]value.Value, 4, 6)
				copy(buf, ints(1, 2, 3, 4))
				return &live{objs: []value.Value{value.NewList(buf...)}}
			}},
	}
}

func mapPools() []poolSpec {
	ab := mMap('k', []string{"a", "b"}, []*mval{mInt(1), mInt(2)})
	abHash := mMap('a', []string{"a", "b"}, []*mval{mInt(1), mInt(2)})
	return []poolSpec{
		{name: "map-literal", kind: 'm', descr: "{a:x,b:2} evaluated with x=1", models: []*mval{ab},
			build: func(e *env) *live { return &live{objs: []value.Value{must(e.call(e.litMap, value.Int(1)))}} }},
		{name: "map-folded-constant", kind: 'm', descr: "{a:1,b:2} folded into a function generated once per history", models: []*mval{ab},
			build: func(e *env) *live {
				f := e.gen("{a:1,b:2}")
				return &live{objs: []value.Value{must(e.call(f))}, constFn: f}
			}},
		{name: "map-struct-wrapper", kind: 'm', descr: "value.NewToMap[struct] wrapper around a Go struct {a:1,b:2}", models: []*mval{abHash},
			build: func(e *env) *live {
				m, _ := ptMap.Create(pt{1, 2})
				return &live{objs: []value.Value{m}}
			}},
		{name: "map-real", kind: 'm', descr: "value.NewMap(value.RealMap{a:1,b:2})", models: []*mval{abHash},
			build: func(e *env) *live {
				return &live{objs: []value.Value{value.NewMap(value.RealMap{"a": value.Int(1), "b": value.Int(2)})}}
			}},
		{name: "map-empty", kind: 'm', descr: "value.EmptyMap", models: []*mval{mMap('k', nil, nil)},
			build: func(e *env) *live { return &live{objs: []value.Value{value.EmptyMap}} }},
		{name: "two-maps", kind: 'm', descr: "{a:1,b:2} and {e:3} (disjoint keys)", models: []*mval{ab, mMap('k', []string{"e"}, []*mval{mInt(3)})},
			build: func(e *env) *live {
				return &live{objs: []value.Value{must(e.call(e.litMap, value.Int(1))), fresh(mMap('k', []string{"e"}, []*mval{mInt(3)}))}}
			}},
	}
}

// ---------------------------------------------------------------------------------------------
// states, steps, execution on the real objects

type step struct {
	op    *opDef
	a, b  int
	param int  // value appended by "append(v)"
	added bool // the result became a new handle
}

// curParam is the parameter of the step being executed (read by the args/model functions of the
// operations that take one).
var curParam int

type prov struct {
	op   string
	a, b int
}

type state struct {
	path   []step
	models []*mval
	prov   []prov
}

func (s *state) history(pool *poolSpec) []string {
	var out []string
	n := len(pool.models)
	for _, st := range s.path {
		out = append(out, renderStep(st, n))
		if st.added {
			n++
		}
	}
	return out
}

func renderStep(st step, n int) string {
	var call string
	switch {
	case st.op.special != spNone:
		call = st.op.name
	case st.op.binary:
		call = fmt.Sprintf("h%d + h%d", st.a, st.b)
	case strings.HasPrefix(st.op.name, "[") || strings.HasPrefix(st.op.name, "=") || strings.HasPrefix(st.op.name, "~"):
		call = fmt.Sprintf("h%d %s", st.a, st.op.name)
	case st.op.usesParam:
		call = fmt.Sprintf("h%d.append(%d)", st.a, st.param)
	default:
		call = fmt.Sprintf("h%d.%s", st.a, st.op.name)
	}
	if st.added {
		return fmt.Sprintf("h%d = %s", n, call)
	}
	return call
}

// apply executes one operation on the real objects.
func (e *env) apply(lv *live, op *opDef, a, b, param int, ma *mval) (value.Value, error) {
	curParam = param
	switch op.special {
	case spReeval:
		if lv.inside {
			return e.call(lv.constFn, value.Int(0), value.Int(0))
		}
		return e.call(lv.constFn)
	case spInside:
		p, _ := op.args(ma)
		return e.call(lv.constFn, value.Int(1), p)
	}
	p, q := op.args(ma)
	var bv value.Value = value.Int(0)
	if op.binary {
		bv = lv.objs[b]
	}
	return e.call(op.fn, lv.objs[a], bv, p, q)
}

// replay builds fresh initial objects and re-executes a path on them.
func (e *env) replay(pool *poolSpec, s *state) *live {
	lv := pool.build(e)
	nm := len(pool.models)
	for _, st := range s.path {
		var ma *mval
		if st.a >= 0 {
			ma = s.models[st.a]
		}
		r, err := e.apply(lv, st.op, st.a, st.b, st.param, ma)
		if st.added {
			if err != nil || r == nil {
				panic(fmt.Sprintf("C09 harness: replay diverged at %s: %v", renderStep(st, nm), err))
			}
			lv.objs = append(lv.objs, r)
			nm++
		}
	}
	return lv
}

func sameObject(a, b value.Value) bool {
	switch x := a.(type) {
	case *value.List:
		y, ok := b.(*value.List)
		return ok && x == y
	case value.Map:
		y, ok := b.(value.Map)
		sx := value.VerifC09MapShape(x)
		// same storage: same wrapper nesting over the same backing arrays / hash maps
		return ok && strings.Contains(sx, "@") && sx == value.VerifC09MapShape(y)
	}
	return false
}

func scalarString(v value.Value) string {
	switch x := v.(type) {
	case value.Int:
		return "int " + strconv.Itoa(int(x))
	case value.Bool:
		return "bool " + strconv.FormatBool(bool(x))
	case value.String:
		return "string " + string(x)
	case nil:
		return "nil"
	}
	return fmt.Sprintf("%T %v", v, v)
}

func modelScalarString(m *mval) string {
	switch m.kind {
	case 'i':
		return "int " + m.str
	case 'b':
		return "bool " + m.str
	case 's':
		return "string " + m.str
	}
	return "value " + m.str
}

// failure is the first disagreement between the real objects and the model in one transition.
type failure struct {
	what, expected, got string
	handle              int
	observer            string
}

// transition executes `op` on (a,b) in the live pool of state s, compares the result with the model
// and returns the successor (nil if the operation yields no new handle) — or the failure.
func (e *env) transition(pool *poolSpec, lv *live, s *state, op *opDef, a, b, param int) (succ *state, fail *failure) {
	var ma, mb *mval
	ma = s.models[a]
	if op.binary {
		mb = s.models[b]
	}
	res, err := e.apply(lv, op, a, b, param, ma)
	curParam = param
	var want *mval
	ok := true
	if op.special == spReeval {
		want = pool.models[0]
	} else {
		want, ok = op.model(ma, mb)
	}
	st := step{op: op, a: a, b: b, param: param}
	if !op.binary {
		st.b = -1
	}
	if !ok {
		if err == nil {
			return nil, &failure{what: "operation succeeded where the model fails", expected: "an error", got: fmt.Sprint(res), handle: a, observer: op.name}
		}
		return e.succ(s, st, nil), nil
	}
	if err != nil {
		return nil, &failure{what: "operation failed", expected: want.str, got: "error: " + err.Error(), handle: a, observer: op.name}
	}
	if want.kind != 'l' && want.kind != 'm' {
		e.nObs++
		if g, w := scalarString(res), modelScalarString(want); g != w {
			return nil, &failure{what: "result of a consuming operation differs from the model", expected: w, got: g, handle: a, observer: op.name}
		}
		return e.succ(s, st, nil), nil
	}
	if op.res == rSame {
		for i, o := range lv.objs {
			if sameObject(o, res) {
				if !mEqual(s.models[i], want) {
					return nil, &failure{what: "operation returned an existing object of different value", expected: want.str, got: fmt.Sprintf("the object of h%d = %s", i, s.models[i].str), handle: a, observer: op.name}
				}
				return e.succ(s, st, nil), nil
			}
		}
	}
	lv.objs = append(lv.objs, res)
	st.added = true
	return e.succ(s, st, want), nil
}

func (e *env) succ(s *state, st step, newModel *mval) *state {
	n := &state{path: append(append(make([]step, 0, len(s.path)+1), s.path...), st), models: s.models, prov: s.prov}
	if newModel != nil {
		n.models = append(append(make([]*mval, 0, len(s.models)+1), s.models...), newModel)
		n.prov = append(append(make([]prov, 0, len(s.prov)+1), s.prov...), prov{op: st.op.name, a: st.a, b: st.b})
	}
	return n
}

// ---------------------------------------------------------------------------------------------
// observers: every live handle, after every transition

func (e *env) obsStr(v value.Value, err error) string {
	e.nObs++
	if err != nil {
		return "error: " + err.Error()
	}
	if s, ok := v.(value.String); ok {
		return string(s)
	}
	return scalarString(v)
}

func (e *env) unspecified(why string) {
	if e.ctx != nil {
		e.ctx.Unspecified(why)
	}
}

func hashBacked(shape string) bool {
	return strings.Contains(shape, "Real[") || strings.Contains(shape, "toMapWrapper")
}

// observe compares every handle with its model through every observer. It returns the first
// disagreement. Order: (1) string() of every handle, which iterates without materialising; (2) the
// materialising observers size(), =, element access per handle; (3) equality between handles;
// (4) string() of every handle again.
func (e *env) observe(lv *live, models []*mval) *failure {
	first := make([]string, len(models))
	strPass := func(pass int) *failure {
		for i, m := range models {
			got := e.obsStr(e.call(e.oString, lv.objs[i]))
			want := m.str
			if m.kind == 'm' && m.ord != 'k' {
				// key order of a map that is (or was filled from) a hash-backed storage: not determined
				e.unspecified("key order in string() of a map that is or was filled from a hash-backed storage (Go map / struct wrapper): compared as a set of entries")
				stable := !hashBacked(value.VerifC09MapShape(lv.objs[i].(value.Map)))
				if pass == 0 {
					first[i] = got
				} else if stable && got != first[i] {
					return &failure{what: "string form of a list-backed map changed between two observations", expected: first[i], got: got, handle: i, observer: "string()"}
				}
				got, want = sortEntriesOfString(got), m.sortedEntries()
			}
			if got != want {
				return &failure{what: "handle differs from its model value", expected: want, got: got, handle: i, observer: "string()"}
			}
		}
		return nil
	}
	if f := strPass(0); f != nil {
		return f
	}
	tr, fa := "bool true", "bool false"
	for i, m := range models {
		h := lv.objs[i]
		n := len(m.l)
		if m.kind == 'm' {
			n = len(m.keys)
		}
		if got, want := e.obsStr(e.call(e.oSize, h)), "int "+strconv.Itoa(n); got != want {
			return &failure{what: "handle differs from its model value", expected: want, got: got, handle: i, observer: "size()"}
		}
		eqOK := m.kind == 'm' || m.flat() || e.nestedEq
		if !eqOK {
			// '=' between lists of lists fails in the library ("operation '=' not defined on list, list":
			// the element comparison of operationMatrixDeepEqual is not deep) — equality laws are C14's subject
			e.unspecified("'=' on lists of lists (fails in the library for every operand, C14's subject): equality observers skipped for nested lists")
		}
		if got := e.obsStr(e.call(e.oEq, h, h)); eqOK && got != tr {
			return &failure{what: "handle is not equal to itself", expected: tr, got: got, handle: i, observer: "h = h"}
		}
		fr := fresh(m)
		if got := e.obsStr(e.call(e.oEq, h, fr)); eqOK && got != tr {
			return &failure{what: "handle differs from its model value", expected: tr, got: got, handle: i, observer: "h = " + m.str + " (literal built from the model)"}
		}
		if got := e.obsStr(e.call(e.oEq, fr, h)); eqOK && got != tr {
			return &failure{what: "handle differs from its model value", expected: tr, got: got, handle: i, observer: m.str + " (literal built from the model) = h"}
		}
		for _, d := range differing(m) {
			if got := e.obsStr(e.call(e.oEq, h, fresh(d))); eqOK && got != fa {
				return &failure{what: "handle equals a value different from its model value", expected: fa, got: got, handle: i, observer: "h = " + d.str}
			}
		}
		if m.kind == 'l' {
			for j, el := range m.l {
				r, err := e.call(e.oIdx, h, value.Int(j))
				got := ""
				e.nObs++
				if err != nil {
					got = "error: " + err.Error()
				} else if s, err := r.ToString(e.st); err != nil {
					got = "error: " + err.Error()
				} else {
					got = s
				}
				if got != el.str {
					return &failure{what: "handle differs from its model value", expected: el.str, got: got, handle: i, observer: fmt.Sprintf("h[%d]", j)}
				}
			}
			if _, err := e.call(e.oIdx, h, value.Int(len(m.l))); err == nil {
				return &failure{what: "handle differs from its model value", expected: "an error", got: "a value", handle: i, observer: fmt.Sprintf("h[%d]", len(m.l))}
			}
			e.nObs++
		} else {
			for j, k := range m.keys {
				if got, want := e.obsStr(e.call(e.oGet, h, value.String(k))), modelScalarString(m.vals[j]); got != want {
					return &failure{what: "handle differs from its model value", expected: want, got: got, handle: i, observer: fmt.Sprintf("h.get(%q)", k)}
				}
				if got := e.obsStr(e.call(e.oAvail, h, value.String(k))); got != tr {
					return &failure{what: "handle differs from its model value", expected: tr, got: got, handle: i, observer: fmt.Sprintf("h.isAvail(%q)", k)}
				}
			}
			if got := e.obsStr(e.call(e.oAvail, h, value.String("zz"))); got != fa {
				return &failure{what: "handle differs from its model value", expected: fa, got: got, handle: i, observer: "h.isAvail(\"zz\")"}
			}
		}
	}
	for i := range models {
		for j := i + 1; j < len(models); j++ {
			if models[i].kind != models[j].kind || models[i].kind == 'l' && !e.nestedEq && (!models[i].flat() || !models[j].flat()) {
				continue
			}
			if !mComparable(models[i], models[j]) {
				e.unspecified("'=' between two handles whose element types differ at the first deciding position is an error by the library's rules (C14's subject): pair skipped")
				continue
			}
			want := fa
			if mEqual(models[i], models[j]) {
				want = tr
			}
			if got := e.obsStr(e.call(e.oEq, lv.objs[i], lv.objs[j])); got != want {
				return &failure{what: "equality between two handles differs from the model", expected: want, got: got, handle: i, observer: fmt.Sprintf("h%d = h%d", i, j)}
			}
		}
	}
	return strPass(1)
}

// ---------------------------------------------------------------------------------------------
// canonical key: model value AND hidden state of every handle, handles sorted, identities renamed

type keyInfo struct {
	h128    [2]uint64
	sharing bool // two distinct list objects share one backing array
	lazy    bool // some handle is not materialised
	text    string
}

type sliceRange struct{ lo, hi uintptr }

type keyBuilder struct {
	desc   []string
	order  []int
	pos    []int
	ranges []sliceRange
	base   map[uintptr]uintptr
	arrCls map[uintptr]int
	objCls map[*value.List]int
	mapCls map[string]int
	users  map[uintptr]int
	seen   map[*value.List]bool
	buf    []byte
}

func (kb *keyBuilder) reset() {
	if kb.base == nil {
		kb.base, kb.arrCls, kb.objCls, kb.mapCls, kb.users, kb.seen = map[uintptr]uintptr{}, map[uintptr]int{}, map[*value.List]int{}, map[string]int{}, map[uintptr]int{}, map[*value.List]bool{}
	}
	clear(kb.base)
	clear(kb.arrCls)
	clear(kb.objCls)
	clear(kb.mapCls)
	clear(kb.users)
	clear(kb.seen)
	kb.ranges = kb.ranges[:0]
	kb.buf = kb.buf[:0]
}

func (kb *keyBuilder) s(x string) { kb.buf = append(kb.buf, x...) }
func (kb *keyBuilder) i(x int)    { kb.buf = strconv.AppendInt(kb.buf, int64(x), 10) }
func (kb *keyBuilder) b(x bool)   { kb.buf = strconv.AppendBool(kb.buf, x) }

const valueSize = 16 // unsafe.Sizeof(value.Value(nil)): an interface

func stripAddr(shape string, rename map[string]int) string {
	if !strings.Contains(shape, "@") {
		return shape
	}
	var b strings.Builder
	for i := 0; i < len(shape); i++ {
		if shape[i] != '@' {
			b.WriteByte(shape[i])
			continue
		}
		j := i + 1
		for j < len(shape) && (shape[j] >= '0' && shape[j] <= '9' || shape[j] >= 'a' && shape[j] <= 'f') {
			j++
		}
		if rename != nil {
			a := shape[i+1 : j]
			c, ok := rename[a]
			if !ok {
				c = len(rename)
				rename[a] = c
			}
			b.WriteString("@" + strconv.Itoa(c))
		}
		i = j - 1
	}
	return b.String()
}

func (kb *keyBuilder) collect(l *value.List) {
	if kb.seen[l] {
		return
	}
	kb.seen[l] = true
	present, _, c, back, _ := value.VerifC09ListState(l)
	if !present {
		return
	}
	if c > 0 {
		kb.ranges = append(kb.ranges, sliceRange{back, back + uintptr(c)*valueSize})
	}
	for _, it := range value.VerifC09ListItems(l) {
		if in, ok := it.(*value.List); ok {
			kb.collect(in)
		}
	}
}

func (kb *keyBuilder) emitList(l *value.List, info *keyInfo, depth int) {
	if c, ok := kb.objCls[l]; ok {
		kb.s("obj")
		kb.i(c)
		kb.s("(seen)")
		return
	}
	kb.objCls[l] = len(kb.objCls)
	present, n, c, back, size := value.VerifC09ListState(l)
	kb.s("obj")
	kb.i(len(kb.objCls) - 1)
	kb.s("{present=")
	kb.b(present)
	kb.s(" len=")
	kb.i(n)
	kb.s(" cap=")
	kb.i(c)
	kb.s(" hint=")
	kb.i(size)
	if !present {
		info.lazy = true
		kb.s("}")
		return
	}
	if c > 0 {
		b := kb.base[back]
		cls, ok := kb.arrCls[b]
		if !ok {
			cls = len(kb.arrCls)
			kb.arrCls[b] = cls
		}
		kb.users[b]++
		if kb.users[b] > 1 {
			info.sharing = true
		}
		kb.s(" array")
		kb.i(cls)
		kb.s("+")
		kb.i(int((back - b) / valueSize))
	}
	if depth < 4 {
		for i, it := range value.VerifC09ListItems(l) {
			if in, ok := it.(*value.List); ok {
				kb.s(" [")
				kb.i(i)
				kb.s("]=")
				kb.emitList(in, info, depth+1)
			}
		}
	}
	kb.s("}")
}

// key computes the canonical key of a pool. Two pools with equal keys agree in every model value,
// in itemsPresent/len/cap/size hint of every list object reachable from a handle, in which slices
// share a backing array and at which offset, in which handles are the same object, in the
// derivation (operation and operand handles) of every list that is still lazy, and in the nesting of
// storage wrappers of every map with the sharing of their backing arrays.
func (kb *keyBuilder) key(poolName string, lv *live, s *state, wantText bool) keyInfo {
	n := len(lv.objs)
	kb.reset()
	kb.desc = kb.desc[:0]
	for i := 0; i < n; i++ {
		m := s.models[i]
		var d string
		switch o := lv.objs[i].(type) {
		case *value.List:
			present, ln, c, _, size := value.VerifC09ListState(o)
			b := make([]byte, 0, len(m.str)+40)
			b = append(b, "L|"...)
			b = append(b, m.str...)
			b = append(b, '|')
			b = strconv.AppendBool(b, present)
			b = append(b, '/')
			b = strconv.AppendInt(b, int64(ln), 10)
			b = append(b, '/')
			b = strconv.AppendInt(b, int64(c), 10)
			b = append(b, '/')
			b = strconv.AppendInt(b, int64(size), 10)
			if !present {
				b = append(b, '|')
				b = append(b, s.prov[i].op...)
			}
			d = string(b)
		case value.Map:
			ms := m.str
			if m.ord != 'k' {
				ms = m.sortedEntries() + "~"
			}
			d = "M|" + ms + "|" + stripAddr(value.VerifC09MapShape(o), nil)
		}
		kb.desc = append(kb.desc, d)
	}
	kb.order = kb.order[:0]
	for i := 0; i < n; i++ {
		kb.order = append(kb.order, i)
	}
	sort.SliceStable(kb.order, func(x, y int) bool { return kb.desc[kb.order[x]] < kb.desc[kb.order[y]] })
	if cap(kb.pos) < n {
		kb.pos = make([]int, n)
	}
	kb.pos = kb.pos[:n]
	for p, i := range kb.order {
		kb.pos[i] = p
	}
	// backing arrays: connected components of overlapping slice ranges
	for _, i := range kb.order {
		if l, ok := lv.objs[i].(*value.List); ok {
			kb.collect(l)
		}
	}
	sort.Slice(kb.ranges, func(x, y int) bool { return kb.ranges[x].lo < kb.ranges[y].lo })
	var curBase, curHi uintptr
	for _, r := range kb.ranges {
		if curHi == 0 || r.lo >= curHi {
			curBase, curHi = r.lo, r.hi
		} else if r.hi > curHi {
			curHi = r.hi
		}
		kb.base[r.lo] = curBase
	}
	var info keyInfo
	kb.s(poolName)
	for _, i := range kb.order {
		kb.s("\n")
		kb.s(kb.desc[i])
		kb.s(" ")
		switch o := lv.objs[i].(type) {
		case *value.List:
			present, _, _, _, _ := value.VerifC09ListState(o)
			kb.emitList(o, &info, 0)
			if !present {
				p := s.prov[i]
				kb.s(" <- ")
				kb.s(p.op)
				kb.s("(")
				if p.a >= 0 {
					kb.s("#")
					kb.i(kb.pos[p.a])
				}
				if p.b >= 0 {
					kb.s(",#")
					kb.i(kb.pos[p.b])
				}
				kb.s(")")
			}
		case value.Map:
			kb.s(stripAddr(value.VerifC09MapShape(o), kb.mapCls))
		}
	}
	h := fnv.New128a()
	h.Write(kb.buf)
	var sum [16]byte
	h.Sum(sum[:0])
	for i := 0; i < 8; i++ {
		info.h128[0] = info.h128[0]<<8 | uint64(sum[i])
		info.h128[1] = info.h128[1]<<8 | uint64(sum[8+i])
	}
	if wantText {
		info.text = string(kb.buf)
	}
	return info
}
