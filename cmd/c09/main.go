// C09: lists and maps are persistent values — explicit-state breadth-first search over operation
// HISTORIES executed on the REAL objects of package value. A state is a pool of live handles; a
// transition applies one operation (a function generated once on value.New() and evaluated many
// times) to one or two handles and adds the result as a new handle; after every transition every
// live handle is observed through string(), size(), =, element/key access and compared with a purely
// functional model value fixed when the handle was created. Successors are computed by replaying the
// shortest path on fresh initial objects; states are deduplicated on a canonical key that contains
// model values and the implementation's hidden state (itemsPresent, len, cap, sharing of backing
// arrays, laziness and derivation, storage-wrapper nesting), read through overlay/value/zz_verif_c09.go.
package main

import (
	"encoding/binary"
	"fmt"
	"hash/fnv"
	"os"
	"path/filepath"
	"runtime/debug"
	"slices"
	"strings"

	"github.com/hneemann/parser2/value"
	"verif/internal/bex"
)

// ---------------------------------------------------------------------------------------------
// breadth-first search

type bfsCfg struct {
	space    string
	pools    []poolSpec
	allow    func(o *opDef) bool
	depth    int
	lenBound int // producers whose result would be longer are not applied (0 = no bound)
	bound    string
}

// node is the stored form of a state of the frontier: the step that led to it, the model of the
// handle that step added (if any) and the predecessor; the slices of a state are rebuilt from the
// chain when the state is expanded.
type node struct {
	parent *node
	st     step
	model  *mval
}

func (nd *node) expand(pool *poolSpec) *state {
	var chain []*node
	for x := nd; x != nil && x.parent != nil; x = x.parent {
		chain = append(chain, x)
	}
	s := initialState(pool)
	for i := len(chain) - 1; i >= 0; i-- {
		x := chain[i]
		s.path = append(s.path, x.st)
		if x.st.added {
			s.models = append(s.models, x.model)
			s.prov = append(s.prov, prov{op: x.st.op.name, a: x.st.a, b: x.st.b})
		}
	}
	return s
}

func initialState(pool *poolSpec) *state {
	s := &state{models: append([]*mval{}, pool.models...)}
	for range pool.models {
		s.prov = append(s.prov, prov{op: "initial", a: -1, b: -1})
	}
	return s
}

func reproOf(space string, pool *poolSpec, s *state) map[string]any {
	var steps []any
	for _, st := range s.path {
		steps = append(steps, map[string]any{"op": st.op.name, "a": st.a, "b": st.b, "param": st.param})
	}
	init := []string{}
	for i, m := range pool.models {
		init = append(init, fmt.Sprintf("h%d = %s", i, m.str))
	}
	return map[string]any{"kind": "history", "space": space, "pool": pool.name, "pool_descr": pool.descr, "initial": init, "steps": steps, "history": s.history(pool)}
}

func (e *env) report(space string, pool *poolSpec, s *state, f *failure) {
	r := reproOf(space, pool, s)
	r["observer"] = fmt.Sprintf("h%d: %s", f.handle, f.observer)
	if f.handle < len(s.models) {
		r["model_of_handle"] = s.models[f.handle].str
	}
	e.ctx.Violate(f.what, r, f.expected, f.got, classifyHistory(s, f))
}

// classifyHistory names the known-finding classifier matching a failing history ("" = none; no
// genuine defect of the history spaces is known).
func classifyHistory(s *state, f *failure) string { return "" }

func (e *env) account(ki keyInfo, class string) {
	ctx := e.ctx
	ctx.Eval()
	ctx.Add("transitions", 1)
	ctx.Add("traces_validated_against_impl", 1)
	// low bit of the stored hash: the state is non-trivial (shared backing array or a lazy handle)
	h := ki.h128[0] &^ 1
	if ki.sharing || ki.lazy {
		h |= 1
	}
	e.keyHash = append(e.keyHash, h)
	if len(e.keyHash) >= 1<<22 {
		e.keyHash = sortDedup(e.keyHash)
	}
	sh, lz := "no shared backing array", "all materialised"
	if ki.sharing {
		sh = "shared backing array"
	}
	if ki.lazy {
		lz = "some handle lazy"
	}
	ctx.Outcome(class + " / " + sh + " / " + lz)
}

func sortDedup(h []uint64) []uint64 {
	slices.Sort(h)
	o := h[:0]
	for i, x := range h {
		if i == 0 || x != h[i-1] {
			o = append(o, x)
		}
	}
	return o
}

// resultLen is an upper bound of the length of the list a producer would build (only + and the
// appends make a list longer than their operand).
func resultLen(op *opDef, ma, mb *mval) int {
	if ma.kind != 'l' {
		return 0
	}
	if op.binary {
		return len(ma.l) + len(mb.l)
	}
	if op.special == spInside || strings.HasPrefix(op.name, "append") {
		return len(ma.l) + 1
	}
	return 0
}

func (e *env) bfs(cfg bfsCfg) {
	ctx := e.ctx
	ctx.Space(cfg.space)
	var tIdx int64
pools:
	for pi := range cfg.pools {
		pool := &cfg.pools[pi]
		probe := pool.build(e)
		var ops []*opDef
		for _, o := range e.ops(pool.kind) {
			if !cfg.allow(o) {
				continue
			}
			if o.special == spReeval && probe.constFn == nil {
				continue
			}
			if o.special == spInside && !probe.inside {
				continue
			}
			ops = append(ops, o)
		}
		init := initialState(pool)
		seen := map[[2]uint64]struct{}{}
		{
			lv := pool.build(e)
			ki := e.kb.key(pool.name, lv, init, false)
			seen[ki.h128] = struct{}{}
			if ctx.Mine(tIdx) {
				if f := e.observe(lv, init.models); f != nil {
					e.report(cfg.space, pool, init, f)
				}
				e.account(ki, "initial pool")
			}
			tIdx++
		}
		frontier := []*node{{}}
		for d := 1; d <= cfg.depth; d++ {
			last := d == cfg.depth
			var next []*node
			newKeys := 0
			for _, nd := range frontier {
				s := nd.expand(pool)
				n := len(s.models)
				for _, op := range ops {
					for a := 0; a < n; a++ {
						if op.special != spNone && a != 0 {
							break
						}
						nb := 1
						if op.binary {
							nb = n
						}
						for b := 0; b < nb; b++ {
							var mb *mval
							if op.binary {
								mb = s.models[b]
							}
							if op.special == spNone && !op.applies(s.models[a], mb) {
								continue
							}
							param := 0
							if op.usesParam {
								param = 100 + n
							}
							curParam = param
							if cfg.lenBound > 0 && resultLen(op, s.models[a], mb) > cfg.lenBound {
								if ctx.Shard == 0 {
									ctx.Add("producers_not_applied_by_length_bound", 1)
								}
								continue
							}
							t := tIdx
							tIdx++
							owner := ctx.Mine(t)
							if last && !owner {
								continue
							}
							if ctx.Expired() {
								break pools
							}
							if owner {
								ctx.Begin(func() map[string]any {
									r := reproOf(cfg.space, pool, s)
									r["next"] = renderStep(step{op: op, a: a, b: b, param: param}, n)
									return r
								})
							}
							lv := e.replay(pool, s)
							succ, fail := e.transition(pool, lv, s, op, a, b, param)
							if fail != nil {
								if owner {
									bad := e.succ(s, step{op: op, a: a, b: b, param: param}, nil)
									e.report(cfg.space, pool, bad, fail)
									ctx.Eval()
								}
								continue
							}
							ki := e.kb.key(pool.name, lv, succ, owner && e.sampleHere(cfg.space) && d >= 2 && t%97 == 0)
							if !last {
								if _, known := seen[ki.h128]; !known {
									seen[ki.h128] = struct{}{}
									newKeys++
									nn := &node{parent: nd, st: succ.path[len(succ.path)-1]}
									if nn.st.added {
										nn.model = succ.models[len(succ.models)-1]
									}
									next = append(next, nn)
								}
							}
							if !owner {
								continue
							}
							if ki.text != "" {
								ctx.Sample(map[string]any{"space": cfg.space, "pool": pool.name, "initial": pool.descr, "history": succ.history(pool), "canonical_key_of_successor": strings.Split(ki.text, "\n")})
							}
							class := "consumer or error: no new handle"
							if len(succ.models) > n {
								class = "producer: new handle"
							}
							if f := e.observe(lv, succ.models); f != nil {
								e.report(cfg.space, pool, succ, f)
							}
							e.account(ki, class)
							ctx.Max("max_live_handles", int64(len(succ.models)))
						}
					}
				}
			}
			frontier = next
			if !last && newKeys == 0 {
				// fixpoint: no operation leads to a new canonical key any more
				ctx.Add("fixpoint_reached_pools", 1)
				break
			}
		}
	}
	ctx.SpaceDone(cfg.bound)
}

// ---------------------------------------------------------------------------------------------
// deep family: a chain of k appends from one parent with branches at every position

type hstep struct {
	op    string
	a, b  int
	param int
}

type histBuilder struct {
	steps []hstep
	idx   map[string]int
	n     int
}

func newHist() *histBuilder { return &histBuilder{idx: map[string]int{"c0": 0}, n: 1} }

func (h *histBuilder) app(from, to string, v int) {
	h.steps = append(h.steps, hstep{op: "append(v)", a: h.idx[from], b: -1, param: v})
	h.idx[to] = h.n
	h.n++
}

func c(i int) string  { return fmt.Sprintf("c%d", i) }
func br(i int) string { return fmt.Sprintf("b%d", i) }
func b2(i int) string { return fmt.Sprintf("bb%d", i) }

// chainHistories enumerates, for a chain c0 → c1 → … → ck (ci+1 = ci.append(100+i+1)), the
// disciplines in which branches bi = ci.append(200+i) (and second branches ci.append(300+i)) are
// taken at every position.
func chainHistories(k int) (out [][]hstep, names []string) {
	add := func(name string, h *histBuilder) {
		out = append(out, h.steps)
		names = append(names, fmt.Sprintf("k=%d %s", k, name))
	}
	for _, double := range []bool{false, true} {
		sfx := ""
		if double {
			sfx = ", two branches per position"
		}
		h := newHist() // branch first, then continue the chain
		for i := 0; i <= k; i++ {
			h.app(c(i), br(i), 200+i)
			if double {
				h.app(c(i), b2(i), 300+i)
			}
			if i < k {
				h.app(c(i), c(i+1), 100+i+1)
			}
		}
		add("branch at every position before the chain continues"+sfx, h)
		h = newHist() // continue the chain, then branch from the element just left
		for i := 0; i <= k; i++ {
			if i < k {
				h.app(c(i), c(i+1), 100+i+1)
			}
			h.app(c(i), br(i), 200+i)
			if double {
				h.app(c(i), b2(i), 300+i)
			}
		}
		add("branch at every position right after the chain continued"+sfx, h)
		for _, desc := range []bool{false, true} {
			h = newHist()
			for i := 0; i < k; i++ {
				h.app(c(i), c(i+1), 100+i+1)
			}
			for j := 0; j <= k; j++ {
				i := j
				if desc {
					i = k - j
				}
				h.app(c(i), br(i), 200+i)
				if double {
					h.app(c(i), b2(i), 300+i)
				}
			}
			if desc {
				add("complete chain, then branches at every position, last first"+sfx, h)
			} else {
				add("complete chain, then branches at every position, first first"+sfx, h)
			}
		}
	}
	// one branch from position j taken when the chain has length t, then the chain completed
	for j := 0; j <= k; j++ {
		for t := j; t <= k; t++ {
			h := newHist()
			for i := 0; i < t; i++ {
				h.app(c(i), c(i+1), 100+i+1)
			}
			h.app(c(j), br(j), 200+j)
			h.app(c(j), b2(j), 300+j)
			for i := t; i < k; i++ {
				h.app(c(i), c(i+1), 100+i+1)
			}
			add(fmt.Sprintf("two branches from position %d taken at chain length %d", j, t), h)
		}
	}
	return
}

// runHistory executes a fixed history step by step. Every prefix is one transition: it is executed
// on fresh objects (replay of the prefix), its key computed, every handle observed. A prefix that
// was executed before (histories share prefixes) is not executed again; prefixes are assigned to
// shards by their hash, so each distinct prefix is executed exactly once over all workers.
func (e *env) runHistory(space string, pool *poolSpec, steps []hstep, done map[uint64]bool, all bool) (first *failure, at *state) {
	s := initialState(pool)
	line := pool.build(e) // the unobserved line of execution
	ph := fnv.New64a()
	ph.Write([]byte(pool.name))
	for _, hs := range steps {
		op := e.byName[string(pool.kind)+":"+hs.op]
		if op == nil {
			panic("C09 harness: unknown operation " + hs.op)
		}
		fmt.Fprintf(ph, "|%s,%d,%d,%d", hs.op, hs.a, hs.b, hs.param)
		pk := ph.Sum64()
		mine := all || (!done[pk] && int(pk%uint64(e.ctx.NShards)) == e.ctx.Shard)
		wantText := !all && e.sampleHere(space) && len(s.path) == 6
		done[pk] = true
		if mine {
			lv := e.replay(pool, s)
			succ, fail := e.transition(pool, lv, s, op, hs.a, hs.b, hs.param)
			if fail == nil {
				ki := e.kb.key(pool.name, lv, succ, wantText)
				if ki.text != "" {
					e.ctx.Sample(map[string]any{"space": space, "pool": pool.name, "initial": pool.descr, "history": succ.history(pool), "canonical_key_of_successor": strings.Split(ki.text, "\n")})
				}
				fail = e.observe(lv, succ.models)
				if !all {
					e.account(ki, "producer: new handle")
					e.ctx.Max("max_live_handles", int64(len(succ.models)))
				}
			} else {
				succ = e.succ(s, step{op: op, a: hs.a, b: hs.b, param: hs.param}, nil)
			}
			if fail != nil {
				if !all {
					e.report(space, pool, succ, fail)
				}
				return fail, succ
			}
		}
		succ, fail := e.transition(pool, line, s, op, hs.a, hs.b, hs.param)
		if fail != nil {
			// reported by the owner of this prefix
			return fail, e.succ(s, step{op: op, a: hs.a, b: hs.b, param: hs.param}, nil)
		}
		s = succ
	}
	return nil, s
}

func (e *env) chains(maxK int, pools []poolSpec) {
	ctx := e.ctx
	ctx.Space("append-chains-with-branches")
	done := map[uint64]bool{}
	for pi := range pools {
		pool := &pools[pi]
		for k := 1; k <= maxK; k++ {
			hs, _ := chainHistories(k)
			for _, h := range hs {
				if ctx.Expired() {
					break
				}
				e.runHistory("append-chains-with-branches", pool, h, done, false)
			}
		}
	}
	ctx.SpaceDone(fmt.Sprintf("chains of k <= %d appends from one parent (%d kinds of parent) with one or two branches at every position, taken before / right after / after completion of the chain in both orders, and two branches from every position j at every chain length t >= j; every prefix observed", maxK, len(pools)))
}

// ---------------------------------------------------------------------------------------------
// lists handed to a callback and stored by it

type cbCase struct {
	method string // method whose callback receives a list
	src    string // program with arguments l, n: each result element is [list the callback got, its string() at that moment]
	n      int
	source string
	length int
	mode   string
}

// how the list of [kept list, string at callback time] pairs is consumed before the kept lists are
// looked at again ("(lazy)": returned unconsumed, the harness's size() materialises it)
var cbModes = []string{"eval()", "(lazy)", "reverse()", "order(p->p[1])", "top(100)"}

func cbProgram(cc cbCase) string {
	if cc.mode == "(lazy)" {
		return "l." + cc.src
	}
	return "l." + cc.src + "." + cc.mode
}

func cbSource(kind string, n int) value.Value {
	v := make([]int, n)
	for i := range v {
		v[i] = i + 1
	}
	switch kind {
	case "host list":
		return value.NewList(ints(v...)...)
	case "lazily produced list":
		return value.NewListConvert(toInt, v)
	}
	panic(kind)
}

// runCallbackCase returns the stored lists whose later string() differs from the string() they had
// when the callback received them.
func (e *env) runCallbackCase(cc cbCase) (bad []string, nWindows int, err error) {
	f := e.gen(cbProgram(cc), "l", "n")
	src := cbSource(cc.source, cc.length)
	r, err := e.call(f, src, value.Int(cc.n))
	if err != nil {
		return nil, 0, err
	}
	var size int
	if sz, err := e.call(e.oSize, r); err != nil {
		return nil, 0, err
	} else {
		size = int(sz.(value.Int))
	}
	for i := 0; i < size; i++ {
		p, err := e.call(e.oIdx, r, value.Int(i))
		if err != nil {
			return nil, 0, err
		}
		w, err := e.call(e.oIdx, p, value.Int(0))
		if err != nil {
			return nil, 0, err
		}
		then, err := e.call(e.oIdx, p, value.Int(1))
		if err != nil {
			return nil, 0, err
		}
		now := e.obsStr(e.call(e.oString, w))
		if now != string(then.(value.String)) {
			bad = append(bad, fmt.Sprintf("stored list #%d was %s when the callback received it, is %s now", i, then, now))
		}
	}
	// the source list itself must be unchanged
	want := mInts(func() []int {
		v := make([]int, cc.length)
		for i := range v {
			v[i] = i + 1
		}
		return v
	}()...)
	if got := e.obsStr(e.call(e.oString, src)); got != want.str {
		bad = append(bad, fmt.Sprintf("the source list is %s now, was %s", got, want.str))
	}
	return bad, size, nil
}

// classifyCallback: finding F09a — List.CombineN wraps the iterator's ring buffer itself in the list
// it hands to the callback; the predicate is as narrow as the root cause: method combineN, the
// callback's list is kept beyond the callback, and the source yields at least two windows (the
// buffer is overwritten when the next window is produced).
func classifyCallback(cc cbCase, nWindows int) string {
	if cc.method == "combineN" && nWindows >= 2 {
		return "F09a-combineN-window-aliases-ring-buffer"
	}
	return ""
}

func callbackCases(maxLen int) []cbCase {
	var out []cbCase
	for _, source := range []string{"host list", "lazily produced list"} {
		for length := 0; length <= maxLen; length++ {
			for _, mode := range cbModes {
				for n := 1; n <= 4; n++ {
					out = append(out, cbCase{method: "combineN", src: "combineN(n, w->[w, w.string()])", n: n, source: source, length: length, mode: mode})
				}
				out = append(out, cbCase{method: "replaceList", src: "replaceList(w->[[w, w.string()]])", source: source, length: length, mode: mode})
				out = append(out, cbCase{method: "movingWindowRemove", src: "movingWindowRemove(w->w.size()>n).map(w->[w, w.string()])", n: 2, source: source, length: length, mode: mode})
				out = append(out, cbCase{method: "movingWindow", src: "movingWindow(e->e).map(w->[w, w.string()])", source: source, length: length, mode: mode})
				out = append(out, cbCase{method: "groupByEqual", src: "groupByEqual(e->e%2).map(g->[g.values, g.values.string()])", source: source, length: length, mode: mode})
			}
		}
	}
	return out
}

func (e *env) callbacks(maxLen int) {
	ctx := e.ctx
	ctx.Space("lists-kept-by-callbacks")
	for i, cc := range callbackCases(maxLen) {
		if !ctx.Mine(int64(i)) {
			continue
		}
		if ctx.Expired() {
			break
		}
		repro := map[string]any{"kind": "callback", "method": cc.method, "src": cbProgram(cc), "call": cc.src, "n": cc.n, "source": cc.source, "length": cc.length, "mode": cc.mode}
		ctx.Begin(func() map[string]any { return repro })
		ctx.Eval()
		ctx.Add("transitions", 1)
		ctx.Add("traces_validated_against_impl", 1)
		bad, nw, err := e.runCallbackCase(cc)
		if err != nil {
			// every program of this space is valid for every source
			ctx.Violate("program failed", repro, "a list of [list, string] pairs", "error: "+err.Error(), "")
			continue
		}
		ctx.Outcome(fmt.Sprintf("kept lists: %s", map[bool]string{true: "none", false: "some"}[nw == 0]))
		if nw >= 2 {
			ctx.Add("callback_cases_with_two_or_more_kept_lists", 1)
		}
		if len(bad) > 0 {
			ctx.Violate("a list handed to a callback and kept by it changed afterwards", repro,
				"every kept list renders as it did when the callback received it", strings.Join(bad, "; "), classifyCallback(cc, nw))
		}
	}
	ctx.SpaceDone(fmt.Sprintf("combineN(n,…) n=1..4, replaceList, movingWindow, movingWindowRemove, groupByEqual x source length 0..%d x {host list, lazily produced list} x consumption of the result by %s", maxLen, strings.Join(cbModes, ", ")))
}

// ---------------------------------------------------------------------------------------------

func run(ctx *bex.Ctx) {
	debug.SetGCPercent(150)
	e := newEnv(ctx)
	quick := ctx.Quick()

	nested := map[string]bool{"movingWindow(e->e)": true, "movingWindowRemove(w->w.size()>2)": true, "combine((x,y)->[x,y])": true, "map(e->[e,e+1])": true, "combineN(2,w->w)": true}
	general := func(o *opDef) bool { return !o.usesParam && !nested[o.name] }
	dList, dMap, dNested, dTree, kChain, cbLen := 3, 4, 3, 7, 8, 6
	if !quick {
		dList, dMap, dNested, dTree, kChain, cbLen = 4, 5, 4, 9, 12, 9
	}
	e.callbacks(cbLen)
	chainPools := pick(listPools(), "literal", "host-lazy", "accept-lazy", "spare-capacity", "folded-lazy-constant", "empty")
	e.chains(kChain, chainPools)
	e.bfs(bfsCfg{space: "append-trees", pools: chainPools, depth: dTree,
		allow: func(o *opDef) bool { return o.usesParam },
		bound: fmt.Sprintf("every history of <= %d appends in which each append goes to ANY existing handle and appends a distinct value (all append trees), %d kinds of parent", dTree, len(chainPools))})
	e.bfs(bfsCfg{space: "map-histories", pools: mapPools(), depth: dMap, allow: func(o *opDef) bool { return true },
		bound: fmt.Sprintf("every history of <= %d operations of the map alphabet on every handle (pair) of the pool, 6 initial pools", dMap)})
	e.bfs(bfsCfg{space: "nested-list-histories", pools: nestedPools(), depth: dNested, lenBound: 12,
		allow: func(o *opDef) bool {
			if nested[o.name] {
				return true
			}
			switch o.name {
			case "append(7)", "append(8)", "set(0,9)", "reverse()", "+", "top(2)", "skip(1)", "eval()", "[0]", "[1]", "last()", "size()", "string()":
				return true
			}
			return false
		},
		bound: fmt.Sprintf("every history of <= %d operations over producers of lists of lists (movingWindow, movingWindowRemove, combine, combineN(2,w->w), map to pairs; inner lists are views on the operand's array or copies) plus append/set/reverse/+/top/skip/eval/element extraction, 3 initial pools", dNested)})
	e.bfs(bfsCfg{space: "list-histories", pools: listPools(), depth: dList, lenBound: 12, allow: general,
		bound: fmt.Sprintf("every history of <= %d operations of the full list alphabet (13 producers, 13 consumers incl. a host iteration that stops behind the first element, re-evaluation of the constant function, append inside the generated function) on every handle (pair) of the pool, 10 initial pools; lists longer than 12 are not built", dList)})
	core := map[string]bool{"append(7)": true, "append(8)": true, "set(0,9)": true, "reverse()": true, "order(e->e)": true, "map(e->e+1)": true, "+": true,
		"eval()": true, "first()": true, "re-evaluate constant function": true, "inside: c.append(7)": true, "inside: c.append(8)": true}
	e.bfs(bfsCfg{space: "list-histories-core-alphabet", pools: listPools(), depth: dList + 1, lenBound: 12, allow: func(o *opDef) bool { return core[o.name] },
		bound: fmt.Sprintf("every history of <= %d operations of the core alphabet {append(7), append(8), set(0,9), reverse(), order(e->e), map(e->e+1), +, eval(), first(), re-evaluation of the constant function, append inside the generated function} on every handle (pair), 10 initial pools", dList+1)})

	ctx.Add("observations", e.nObs)
	e.writeKeyHashes()
}

// sampleHere spreads the verbatim samples of the evidence over the spaces: the driver keeps the first
// sample of each worker, so worker i samples in space i mod 5 only.
func (e *env) sampleHere(space string) bool {
	spaces := []string{"append-chains-with-branches", "list-histories", "map-histories", "nested-list-histories", "list-histories-core-alphabet"}
	return e.ctx.WantSample() && spaces[e.ctx.Shard%len(spaces)] == space
}

func pick(pools []poolSpec, names ...string) []poolSpec {
	var out []poolSpec
	for _, n := range names {
		for _, p := range pools {
			if p.name == n {
				out = append(out, p)
			}
		}
	}
	return out
}

// ---- exact number of distinct states over all workers: every worker writes the sorted 64-bit
// hashes of the canonical keys its transitions reached; the orchestrator merges the files.

func keyDir(pid int) string {
	root := os.Getenv("VERIF_ROOT")
	if root == "" {
		root = "/verif"
	}
	return filepath.Join(root, "build", "run", fmt.Sprintf("C09-keys-%d", pid))
}

func (e *env) writeKeyHashes() {
	h := sortDedup(e.keyHash)
	e.ctx.Add("states_sum_over_shards", int64(len(h)))
	for _, x := range h {
		e.ctx.Add("nontrivial_states_sum_over_shards", int64(x&1))
	}
	dir := keyDir(os.Getppid())
	if os.MkdirAll(dir, 0755) != nil {
		return
	}
	buf := make([]byte, 8*len(h))
	for i, x := range h {
		binary.LittleEndian.PutUint64(buf[8*i:], x)
	}
	os.WriteFile(filepath.Join(dir, fmt.Sprintf("%d.bin", e.ctx.Shard)), buf, 0644)
}

func extra(merged *bex.Result, cov map[string]any) {
	dir := keyDir(os.Getpid())
	defer os.RemoveAll(dir)
	files, _ := filepath.Glob(filepath.Join(dir, "*.bin"))
	var all []uint64
	for _, f := range files {
		b, err := os.ReadFile(f)
		if err != nil {
			continue
		}
		for i := 0; i+8 <= len(b); i += 8 {
			all = append(all, binary.LittleEndian.Uint64(b[i:]))
		}
	}
	workers, _ := cov["workers"].(int)
	if len(files) == workers && len(all) > 0 {
		all = sortDedup(all)
		var nt int64
		for _, h := range all {
			nt += int64(h & 1)
		}
		cov["states"] = int64(len(all))
		merged.Nontrivial = nt + merged.Counters["callback_cases_with_two_or_more_kept_lists"]
		cov["distinct_nontrivial"] = merged.Nontrivial
		cov["states_counting"] = "exact: distinct canonical keys (64-bit hashes) merged over all workers; distinct_nontrivial likewise"
	} else {
		cov["states"] = merged.Counters["states_sum_over_shards"]
		merged.Nontrivial = merged.Counters["nontrivial_states_sum_over_shards"] + merged.Counters["callback_cases_with_two_or_more_kept_lists"]
		cov["distinct_nontrivial"] = merged.Nontrivial
		cov["states_counting"] = "upper bound: sum over workers of their distinct canonical keys (key files of some workers missing)"
	}
	var done, open []string
	for name, sp := range merged.Spaces {
		if sp.Completed {
			done = append(done, name)
		} else {
			open = append(open, name)
		}
	}
	slices.Sort(done)
	slices.Sort(open)
	fp := "no fixpoint: every producing operation adds a handle, so new canonical keys appear at every depth (fixpoint_reached_pools counts pools whose alphabet was exhausted earlier); depth bounds completed for: " + strings.Join(done, ", ")
	if len(open) > 0 {
		fp += "; NOT completed within the budget: " + strings.Join(open, ", ")
	}
	cov["fixpoint"] = fp
}

// ---------------------------------------------------------------------------------------------
// replay of a recorded case

func replay(repro map[string]any) (string, bool) {
	e := newEnv(nil)
	switch repro["kind"] {
	case "callback":
		n, _ := repro["n"].(float64)
		length, _ := repro["length"].(float64)
		src, _ := repro["call"].(string)
		mode, _ := repro["mode"].(string)
		source, _ := repro["source"].(string)
		cc := cbCase{src: src, n: int(n), length: int(length), mode: mode, source: source}
		bad, _, err := e.runCallbackCase(cc)
		if err != nil {
			return "error: " + err.Error(), true
		}
		if len(bad) == 0 {
			return "every kept list renders as it did when the callback received it", false
		}
		return strings.Join(bad, "; "), true
	case "history":
		name, _ := repro["pool"].(string)
		var pool *poolSpec
		for _, ps := range [][]poolSpec{listPools(), nestedPools(), mapPools()} {
			for i := range ps {
				if ps[i].name == name {
					pool = &ps[i]
				}
			}
		}
		if pool == nil {
			return "unknown pool " + name, true
		}
		var steps []hstep
		raw, _ := repro["steps"].([]any)
		for _, r := range raw {
			m, _ := r.(map[string]any)
			op, _ := m["op"].(string)
			a, _ := m["a"].(float64)
			b, _ := m["b"].(float64)
			p, _ := m["param"].(float64)
			steps = append(steps, hstep{op: op, a: int(a), b: int(b), param: int(p)})
		}
		fail, at := e.runHistory("replay", pool, steps, map[uint64]bool{}, true)
		if fail == nil {
			return "every handle agrees with its model after every step of " + strings.Join(at.history(pool), "; "), false
		}
		return fmt.Sprintf("after %s: h%d observed through %s: expected %s, got %s (%s)", strings.Join(at.history(pool), "; "), fail.handle, fail.observer, fail.expected, fail.got, fail.what), true
	}
	return "unknown kind of case", true
}

func main() {
	bex.Main(&bex.Check{
		ID:    "C09",
		Level: "model_checking",
		Rule:  "explicit-state breadth-first search over operation histories on the real list/map objects: a state is a pool of live handles, a transition applies one operation of the alphabet (a function generated once on value.New(), evaluated on the handles as arguments) to one handle or an ordered pair and adds the result as a new handle; the successor is computed by replaying the shortest path on fresh initial objects plus the operation; its canonical key = per handle the model value and the hidden state read through overlay accessors (itemsPresent/len/cap/size hint, backing-array sharing class and offset, object identity, derivation of lazy lists, storage-wrapper nesting of maps), handles sorted, identities renamed by first occurrence; then EVERY live handle is observed (string(), size(), h=h, = / != against literals built from the model in both operand orders, every element / key, one-past-the-end, equality between all handles, string() again) and compared with the functional model value fixed at creation; observers that change hidden state are also letters of the alphabet, observation itself never leaks into a continued history. evaluations = transitions executed and observed (each exactly once, on the worker that owns its index); states = distinct canonical keys reached, counted exactly by merging the sorted key hashes of all workers; distinct_nontrivial = those of them in which two list objects share a backing array or a handle is still lazy (the configurations in which an in-place write could reach another value), plus the callback cases in which at least two lists are kept",
		Assumptions: []string{
			"the functional model (Go slices/maps, written from the method descriptions) is the meaning of the operations; a result that differs from it at creation is reported as well",
			"key order in the string form of a map that is, or was filled from, a hash-backed storage (Go map, struct wrapper) is not determined by the specification: compared as a set of entries (and required to be stable between two observations when the storage is list-backed); counted under unspecified_excluded",
			"lists are kept <= 12 elements in the general alphabets so that map/accept stay in the iterator's sequential mode (parallel mode is the subject of C06/C11); the append families have no length bound",
			"replace is only applied with a replacement key inside the key set (keys outside are C13's subject)",
			"in the space lists-kept-by-callbacks the groups computed by combineN are not compared with a model, only with the value they had when the callback received them (so the persistence defect F09a is separated from the wrong group order F07c of C07); the nested-list alphabet contains combineN(2,w->w) with the documented groups as model",
			"Go's allocator does not move heap objects: backing-array identity is read as an address within one execution only",
		},
		QuickBudget: 50e9, ThoroughBudget: 22 * 60e9,
		Run:              run,
		Replay:           replay,
		CrashIsViolation: true, // a worker process that dies while it executes a case on the library is a verdict on that case
		Extra:            extra,
	})
}
