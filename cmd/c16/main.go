// C16: implicit-attribute mode equals explicit member access everywhere.
// Differential twin: for every enumerated program exp whose free identifiers are attributes of the
// argument map, GenerateWithMap(exp,"this") must behave exactly like Generate(exp',"this") where exp'
// is produced from the checks' own AST by its own free-variable analysis (x -> this.x) — same value or
// error in both, including at Generate time — for maps in every representation.
package main

import (
	"fmt"
	"regexp"
	"strings"

	"github.com/hneemann/parser2/funcGen"
	"github.com/hneemann/parser2/listMap"
	"github.com/hneemann/parser2/value"
	"verif/internal/bex"
	"verif/internal/vlang"
	"verif/internal/vrun"
)

var attrNames = []string{"a", "b", "l"}
var attrSorts = map[string]vlang.Sort{"a": vlang.SI, "b": vlang.SI, "l": vlang.SL}
var attrSet = map[string]bool{"a": true, "b": true, "l": true, "f": true, "g": true, "put": true, "get": true}

// second attribute set: attributes that hold closures (called implicitly as f(..), explicitly as the
// method-call form this.f(..), whose arguments are compiled with the receiver on the stack)
var attrNamesF = []string{"a", "f", "g"}
var attrSortsF = map[string]vlang.Sort{"a": vlang.SI, "f": vlang.SF2, "g": vlang.SF1}

// third attribute set: closures stored under keys that are also names of map METHODS; the explicit form
// this.get(x) is a method call on the map and has to call the stored closure exactly like the implicit get(x)
var attrNamesM = []string{"a", "put", "get"}
var attrSortsM = map[string]vlang.Sort{"a": vlang.SI, "put": vlang.SF2, "get": vlang.SF1}

func addHost(g *value.FunctionGenerator) {
	g.AddStaticFunction("obs2", funcGen.Function[value.Value]{
		Func: func(st funcGen.Stack[value.Value], cs []value.Value) (value.Value, error) {
			x, ok1 := st.Get(0).(value.Int)
			y, ok2 := st.Get(1).(value.Int)
			if !ok1 || !ok2 {
				return nil, fmt.Errorf("obs2 needs ints")
			}
			return x*1009 + y, nil
		},
		Args: 2, IsPure: true,
	}.SetDescription("x", "y", "x*1009+y"))
}

type mapArg struct {
	name string
	m    value.Value
}

// maps builds {a:av, b:2, l:[1,2]} (plus pi:7, which the constant pi must shadow) in every representation.
func maps(g *value.FunctionGenerator, av int) []mapArg {
	ev := func(src string) value.Value {
		f, _, err := g.Generate(src, "av")
		if err != nil {
			panic(err)
		}
		v, err := f.Eval(value.Int(av))
		if err != nil {
			panic(err)
		}
		return v
	}
	fv := ev("(x,y)->x*100+y")
	gv := ev("x->x+1")
	lit := value.NewMap(listMap.New[value.Value](8).Append("a", value.Int(av)).Append("b", value.Int(2)).
		Append("l", value.NewList(value.Int(1), value.Int(2))).Append("pi", value.Int(7)).Append("f", fv).Append("g", gv).Append("put", fv).Append("get", gv))
	return []mapArg{
		{"literal", lit},
		{"real(eval)", ev("{a:av,b:2,l:[1,2],pi:7,f:(x,y)->x*100+y,g:x->x+1,put:(x,y)->x*100+y,get:x->x+1}.eval()")},
		// the closure stored under "put" goes in last: from then on .put(..) on this map calls that closure
		{"append(put)", ev("{l:[1,2],f:(x,y)->x*100+y}.put(\"b\",2).put(\"pi\",7).put(\"g\",x->x+1).put(\"get\",x->x+1).put(\"a\",av).put(\"put\",(x,y)->x*100+y)")},
		{"merge(+)", ev("{a:av,pi:7,g:x->x+1,put:(x,y)->x*100+y}+{b:2,l:[1,2],f:(x,y)->x*100+y,get:x->x+1}")},
		{"replace", ev("{a:100,b:2,l:[1,2],pi:7,f:(x,y)->x*100+y,g:x->x+1,put:(x,y)->x*100+y,get:x->x+1}.replace(m->{a:av})")},
	}
}

type harness struct {
	gens [2]*value.FunctionGenerator
	args [2][]mapArg // by a-value index
}

func newHarness() *harness {
	h := &harness{}
	h.gens[0] = vrun.NewGen(true, addHost)
	h.gens[1] = vrun.NewGen(false, addHost)
	helper := vrun.NewGen(true, nil)
	h.args[0] = maps(helper, 0)
	h.args[1] = maps(helper, 3)
	return h
}

// closureUsesAttr is the shape behind finding F16: a free attribute occurs inside a closure or func body.
func closureUsesAttr(n *vlang.Node) bool {
	found := false
	var walk func(n *vlang.Node, inClosure bool, bound []string)
	isBound := func(s string, bound []string) bool {
		for _, b := range bound {
			if b == s {
				return true
			}
		}
		return false
	}
	walk = func(n *vlang.Node, inClosure bool, bound []string) {
		if n == nil || found {
			return
		}
		switch n.K {
		case vlang.Var:
			if inClosure && attrSet[n.S] && !isBound(n.S, bound) {
				found = true
			}
		case vlang.Let:
			walk(n.A, inClosure, bound)
			walk(n.B, inClosure, append(append([]string{}, bound...), n.S))
		case vlang.Func:
			inner := append(append([]string{}, bound...), n.S)
			walk(n.A, true, append(append([]string{}, inner...), n.Params...))
			walk(n.B, inClosure, inner)
		case vlang.Lam:
			walk(n.A, true, append(append([]string{}, bound...), n.Params...))
		default:
			walk(n.A, inClosure, bound)
			walk(n.B, inClosure, bound)
			walk(n.C, inClosure, bound)
			for _, a := range n.Args {
				walk(a, inClosure, bound)
			}
		}
	}
	walk(n, false, nil)
	return found
}

// bareGenerator: a generic generator that declares neither a constant nor a static function, with the
// handlers and operators of value.New().
func bareGenerator() *funcGen.FunctionGenerator[value.Value] {
	hv := value.New()
	g := funcGen.New[value.Value]().
		SetNumberParser(hv).SetStringConverter(hv).SetListHandler(hv).SetMapHandler(hv).SetClosureHandler(hv).SetMethodHandler(hv).
		SetKeyWords("let", "func", "if", "then", "else").
		SetToBool(func(c value.Value) (bool, bool) {
			if b, ok := c.(value.Bool); ok {
				return bool(b), true
			}
			return false, false
		})
	for _, op := range []string{"<=", "+", "-", "*"} {
		g.AddOpImpl(op, false, hv.GetOpImpl(op))
	}
	return g
}

func (h *harness) checkBare(ctx *bex.Ctx) {
	m := value.NewMap(value.RealMap{"a": value.Int(3), "b": value.Int(4), "l": value.NewList(value.Int(1), value.Int(2), value.Int(3))})
	pairs := [][2]string{
		{"a", "this.a"}, {"a*2+b", "this.a*2+this.b"}, {"let x=a*a; x+b", "let x=this.a*this.a; x+this.b"},
		{"l.map(e->e*a+b).sum()", "this.l.map(e->e*this.a+this.b).sum()"},
		{"func f(n) if n<=0 then b else f(n-1)+a; f(3)", "func f(n) if n<=0 then this.b else f(n-1)+this.a; f(3)"},
		{"let a=l.size(); a+b", "let a=this.l.size(); a+this.b"}, {"this.a+a", "this.a+this.a"}, {"(x->y->x+y+a)(1)(2)", "(x->y->x+y+this.a)(1)(2)"},
		{"l.map(a->a+b).sum()", "this.l.map(a->a+this.b).sum()"}, {"1+2", "1+2"}, {"c", "this.c"}, {"l.size()*a", "this.l.size()*this.a"},
	}
	for _, pr := range pairs {
		repro := map[string]any{"src": pr[0], "explicit": pr[1], "generator": "no constant, no static function", "map_name": "this"}
		ctx.Begin(func() map[string]any { return repro })
		ctx.Eval()
		run := func(implicit bool) (out string) {
			defer func() {
				if r := recover(); r != nil {
					out = fmt.Sprintf("PANIC %v", r)
				}
			}()
			var f funcGen.Func[value.Value]
			var err error
			if implicit {
				f, _, err = bareGenerator().GenerateWithMap(pr[0], "this")
			} else {
				f, _, err = bareGenerator().Generate(pr[1], "this")
			}
			if err != nil {
				return "generate-error"
			}
			return vrun.Eval(f, []value.Value{m}).String()
		}
		oi, oe := run(true), run(false)
		ctx.Outcome("bare/" + map[bool]string{true: "agree", false: "differ"}[oi == oe])
		if oi != oe || strings.HasPrefix(oi, "PANIC") {
			ctx.Violate("GenerateWithMap and the explicit form differ on a generator without constants and static functions", repro, "explicit: "+oe, "implicit: "+oi, "")
		}
	}
}

func (h *harness) check(ctx *bex.Ctx, prog *vlang.Node, allMaps bool) {
	h.checkNamed(ctx, prog, allMaps, "this")
}

// checkNamed: the argument map is called mapName (the programs are written with "this"). The argument is
// a local binding: an attribute (or constant, or static function) of the same name is shadowed by it.
func (h *harness) checkNamed(ctx *bex.Ctx, prog *vlang.Node, allMaps bool, mapName string) {
	h.checkForm(ctx, prog, allMaps, mapName, false)
}

var parenMarker = regexp.MustCompile(`ZZ(\w*)ZZ`)

// checkForm: paren = every free attribute use stands alone in parentheses, (a) against (this.a) - a spelling
// no renderer produces from a tree.
func (h *harness) checkForm(ctx *bex.Ctx, prog *vlang.Node, allMaps bool, mapName string, paren bool) {
	attrs := attrSet
	if mapName != "this" {
		prog = vlang.SubstFree(prog, map[string]bool{"this": true}, func(string) *vlang.Node { return vlang.V(mapName) })
		if attrSet[mapName] {
			attrs = map[string]bool{}
			for a := range attrSet {
				attrs[a] = a != mapName
			}
		}
	}
	src := vlang.Render(prog)
	explicit := vlang.Render(vlang.SubstFree(prog, attrs, func(name string) *vlang.Node { return vlang.MemberN(vlang.V(mapName), name) }))
	if paren {
		marked := vlang.Render(vlang.SubstFree(prog, attrs, func(name string) *vlang.Node { return vlang.V("ZZ" + name + "ZZ") }))
		src = parenMarker.ReplaceAllString(marked, "($1)")
		explicit = parenMarker.ReplaceAllString(marked, "("+mapName+".$1)")
	}
	ctx.Begin(func() map[string]any { return map[string]any{"src": src, "map_name": mapName} })
	nontrivial := false
	usesAttr := src != explicit
	for gi, g := range h.gens {
		fi, _, erri := g.GenerateWithMap(src, mapName)
		fe, _, erre := g.Generate(explicit, mapName)
		if (erri != nil) != (erre != nil) {
			ctx.Eval()
			finding := ""
			if erri != nil && closureUsesAttr(prog) {
				finding = "F16-attribute-in-closure"
			}
			ctx.Violate("GenerateWithMap and the explicit form disagree at Generate time",
				map[string]any{"src": src, "explicit": explicit, "optimizer": gi == 0},
				fmt.Sprintf("Generate(%q): err=%v", explicit, erre), fmt.Sprintf("GenerateWithMap(%q): err=%v", src, erri), finding)
			continue
		}
		if erri != nil {
			ctx.Eval()
			ctx.Outcome("generate-error/both")
			continue
		}
		for ai := range h.args {
			ms := h.args[ai]
			if !allMaps {
				ms = ms[:2]
			}
			for _, ma := range ms {
				ctx.Eval()
				oi := vrun.Eval(fi, []value.Value{ma.m})
				oe := vrun.Eval(fe, []value.Value{ma.m})
				ctx.Outcome(oe.Class())
				if !oe.Err && oe.Canon != "i0" && usesAttr {
					nontrivial = true
				}
				if oi.Err != oe.Err || (!oi.Err && oi.Canon != oe.Canon) {
					ctx.Violate("GenerateWithMap and the explicit form give different outcomes",
						map[string]any{"src": src, "explicit": explicit, "optimizer": gi == 0, "map": ma.name, "a": []int{0, 3}[ai], "map_name": mapName},
						"explicit: "+oe.String(), "implicit: "+oi.String(), "")
				}
			}
		}
	}
	if nontrivial {
		ctx.Nontrivial(mapName + "\x00" + src)
		if ctx.WantSample() && len(src) > 14 {
			ctx.Sample(map[string]any{"implicit": src, "explicit": explicit})
		}
	}
}

// lateConstants: the generator is USED (GenerateWithMap with the same map name) before a constant or a
// static function is added to it; afterwards "constants shadow attributes of the same name" must hold
// for the next GenerateWithMap exactly as for Generate of the explicit form.
func (h *harness) lateConstants(ctx *bex.Ctx) {
	ctx.Space("constants-added-after-first-use")
	v, I, op := vlang.V, vlang.I, vlang.Op
	progs := []*vlang.Node{
		op("+", v("a"), v("b")), op("*", v("b"), v("a")),
		vlang.MethodN(vlang.MethodN(v("l"), "map", vlang.LamN([]string{"e"}, op("+", op("*", v("e"), v("b")), v("a")))), "sum"),
		vlang.FuncN("f", []string{"n"}, vlang.IfN(op("<", v("n"), I(1)), v("b"), op("+", v("a"), vlang.CallN(v("f"), op("-", v("n"), I(1))))), vlang.CallN(v("f"), I(2))),
		vlang.LetN("u", op("+", v("b"), I(1)), op("*", v("u"), v("a"))),
		vlang.CallN(vlang.LamN([]string{"x"}, op("+", v("x"), v("b"))), v("a")),
	}
	warm := []string{"a", "a+b", "l.size()", "b"}
	if ctx.Shard != 0 {
		ctx.SpaceDone("see shard 0")
		return
	}
	for _, opt := range []bool{true, false} {
		for _, w := range warm {
			for _, late := range []string{"constant b", "constant a", "static function b"} {
				for _, p := range progs {
					ctx.Eval()
					g := vrun.NewGen(opt, addHost)
					if _, _, err := g.GenerateWithMap(w, "this"); err != nil {
						continue
					}
					switch late {
					case "constant b":
						g.AddConstant("b", value.Int(100))
					case "constant a":
						g.AddConstant("a", value.Int(1000))
					case "static function b":
						continue // a static function and an attribute of the same name: not specified by the property
					}
					src := vlang.Render(p)
					explicit := vlang.Render(vlang.SubstFree(p, attrSet, func(name string) *vlang.Node {
						if (late == "constant b" && name == "b") || (late == "constant a" && name == "a") {
							return vlang.V(name) // the constant shadows the attribute
						}
						return vlang.MemberN(vlang.V("this"), name)
					}))
					fi, _, erri := g.GenerateWithMap(src, "this")
					fe, _, erre := g.Generate(explicit, "this")
					repro := map[string]any{"src": src, "explicit": explicit, "optimizer": opt, "warm_up": w, "added_after_first_use": late}
					if (erri != nil) != (erre != nil) {
						ctx.Violate("GenerateWithMap and the explicit form disagree at Generate time after a constant was added to a generator already in use", repro, fmt.Sprint(erre), fmt.Sprint(erri), "")
						continue
					}
					if erri != nil {
						continue
					}
					for ai := range h.args {
						for _, ma := range h.args[ai][:2] {
							oi := vrun.Eval(fi, []value.Value{ma.m})
							oe := vrun.Eval(fe, []value.Value{ma.m})
							ctx.Outcome("late-constant/" + oe.Class())
							if !oe.Err {
								ctx.Nontrivial("late|" + src + w + late)
							}
							if oi.Err != oe.Err || (!oi.Err && oi.Canon != oe.Canon) {
								ctx.Violate("a constant added after the generator's first use does not shadow the attribute in GenerateWithMap", repro, "explicit: "+oe.String(), "implicit: "+oi.String(), "")
							}
						}
					}
				}
			}
		}
	}
	ctx.SpaceDone("6 programs x 4 warm-up expressions generated with GenerateWithMap on the same map name first x {constant b, constant a} added afterwards x optimizer on/off x 2 maps x a in {0,3}: the constant shadows the attribute in both forms")
}

func run(ctx *bex.Ctx) {
	h := newHarness()
	maxA, maxB := 6, 3
	if !ctx.Quick() {
		maxA, maxB = 7, 4
	}
	ctx.Space("fixed-templates")
	if ctx.Shard == 0 {
		for _, p := range fixedTemplates() {
			h.check(ctx, p, true)
		}
	}
	ctx.SpaceDone("constants pi/true shadowing attributes, this.x mixed with x, attribute uses in 1..3 nested closures, recursive func, let shadowing an attribute")
	runRest(ctx, h, maxA, maxB)
}

var mapNames = []string{"m", "max", "string", "numbers", "pi", "a"}

func fixedTemplates() []*vlang.Node {
	v, I, op := vlang.V, vlang.I, vlang.Op
	return []*vlang.Node{
		v("pi"), op("+", v("a"), v("pi")), vlang.MemberN(v("this"), "pi"), op("+", vlang.MemberN(v("this"), "a"), v("a")),
		vlang.Bo(true), vlang.IfN(vlang.Bo(true), v("a"), v("b")),
		vlang.MethodN(vlang.MethodN(v("l"), "map", vlang.LamN([]string{"e"}, op("+", v("e"), v("a")))), "sum"),
		vlang.MethodN(vlang.MethodN(v("l"), "map", vlang.LamN([]string{"a"}, op("+", v("a"), v("b")))), "sum"),
		vlang.LetN("a", op("+", v("a"), I(1)), op("*", v("a"), v("b"))),
		vlang.FuncN("f", []string{"n"}, vlang.IfN(op("<", v("n"), I(1)), v("a"), op("+", v("b"), vlang.CallN(v("f"), op("-", v("n"), I(1))))), vlang.CallN(v("f"), I(3))),
		vlang.CallN(vlang.CallN(vlang.CallN(vlang.LamN([]string{"x"}, vlang.LamN([]string{"y"}, vlang.LamN([]string{"z"}, op("+", op("+", v("x"), v("y")), op("+", v("z"), v("a")))))), I(1)), I(2)), I(3)),
		vlang.MethodN(v("this"), "size"),
		vlang.StaticN("min", v("a"), v("b")),
	}
}

func runRest(ctx *bex.Ctx, h *harness, maxA, maxB int) {

	// the argument map under other names: the name of a static function, of a constant, of an attribute
	ctx.Space("map-names")
	var nidx int64
	for _, name := range mapNames {
		for _, p := range fixedTemplates() {
			nidx++
			if ctx.Mine(nidx) {
				h.checkNamed(ctx, p, true, name)
			}
		}
		for k := 1; k <= 2 && !ctx.Expired(); k++ {
			sk := &vlang.Skel{Obs2: "obs2"}
			sk.Each(k, vlang.NewAttrScope(attrSorts, attrNames), func(p *vlang.Node) bool {
				nidx++
				if ctx.Mine(nidx) {
					h.checkNamed(ctx, p, false, name)
				}
				return !ctx.Expired()
			})
		}
	}
	for _, p := range fixedTemplates() {
		nidx++
		if ctx.Mine(nidx) {
			h.checkForm(ctx, p, true, "this", true)
		}
	}
	for k := 1; k <= 2 && !ctx.Expired(); k++ {
		sk := &vlang.Skel{Obs2: "obs2"}
		sk.Each(k, vlang.NewAttrScope(attrSorts, attrNames), func(p *vlang.Node) bool {
			nidx++
			if ctx.Mine(nidx) {
				h.checkForm(ctx, p, false, "this", true)
			}
			return !ctx.Expired()
		})
	}
	if ctx.Shard == 0 {
		h.checkBare(ctx)
	}
	ctx.SpaceDone(fmt.Sprintf("every free attribute use written alone in parentheses, (a) against (this.a), on the fixed templates and all skeletons with <= 2 binders; 12 programs on a funcGen generator WITHOUT any constant or static function (empty identifier table; handlers borrowed from value.New()); the fixed templates and every binder skeleton with <= 2 binders with the argument map named %v (an ordinary name, static functions, a constant, an attribute of the map itself)", mapNames))

	ctx.Space("tierB-binder-skeletons")
	var idx int64
	for k := 1; k <= maxB && !ctx.Expired(); k++ {
		sk := &vlang.Skel{Obs2: "obs2"}
		sk.Each(k, vlang.NewAttrScope(attrSorts, attrNames), func(p *vlang.Node) bool {
			idx++
			if !ctx.Mine(idx) {
				return true
			}
			if ctx.Expired() {
				return false
			}
			h.check(ctx, p, true)
			return true
		})
	}
	ctx.SpaceDone(fmt.Sprintf("every nesting of <= %d binding/call constructs with the maximal observer over attributes and locals; maps {a in {0,3}, b, l, pi} in 5 representations; optimizer on/off", maxB))

	ctx.Space("closure-attributes")
	{
		en := vlang.DefaultEnum()
		idx = 0
		for n := 1; n <= maxA && !ctx.Expired(); n++ {
			en.Gen(vlang.SI, n, vlang.NewAttrScope(attrSortsF, attrNamesF), true, func(p *vlang.Node) bool {
				idx++
				if !ctx.Mine(idx) {
					return true
				}
				if ctx.Expired() {
					return false
				}
				h.check(ctx, p, false)
				return true
			})
		}
		if ctx.Shard == 0 {
			v, I, op := vlang.V, vlang.I, vlang.Op
			for _, p := range []*vlang.Node{
				vlang.CallN(v("f"), v("a"), vlang.LetN("t", op("*", v("a"), I(2)), v("t"))),
				op("+", vlang.CallN(v("f"), I(7), I(8)), vlang.CallN(v("f"), vlang.LetN("t", I(5), v("t")), vlang.FuncN("q", []string{"n"}, op("+", v("n"), v("a")), vlang.CallN(v("q"), I(1))))),
				vlang.CallN(v("g"), vlang.CallN(v("f"), vlang.LetN("u", v("a"), vlang.LetN("w", op("+", v("u"), I(1)), op("*", v("u"), v("w")))), vlang.CallN(v("g"), v("a")))),
			} {
				h.check(ctx, p, true)
			}
		}
	}
	ctx.SpaceDone(fmt.Sprintf("every int-sorted program of the typed grammar with <= %d nodes over attributes a (int), f ((int,int)->int), g (int->int): calls of closure-valued attributes with let/func inside their arguments; implicit f(..) against the method-call form this.f(..); plus 3 fixed templates on all 5 map representations", maxA))

	ctx.Space("closures-under-method-names")
	{
		en := vlang.DefaultEnum()
		idx = 0
		for n := 1; n <= maxA-1 && !ctx.Expired(); n++ {
			en.Gen(vlang.SI, n, vlang.NewAttrScope(attrSortsM, attrNamesM), true, func(p *vlang.Node) bool {
				idx++
				if !ctx.Mine(idx) {
					return true
				}
				if ctx.Expired() {
					return false
				}
				h.check(ctx, p, false)
				return true
			})
		}
	}
	ctx.SpaceDone(fmt.Sprintf("every int-sorted program of the typed grammar with <= %d nodes over attributes a (int), put ((int,int)->int), get (int->int): closures stored under keys that are also names of map methods, called implicitly (get(x)) and as this.get(x)", maxA-1))

	h.lateConstants(ctx)

	ctx.Space("tierA-typed-grammar")
	en := vlang.DefaultEnum()
	idx = 0
	for n := 1; n <= maxA && !ctx.Expired(); n++ {
		en.Gen(vlang.SI, n, vlang.NewAttrScope(attrSorts, attrNames), true, func(p *vlang.Node) bool {
			idx++
			if !ctx.Mine(idx) {
				return true
			}
			if ctx.Expired() {
				return false
			}
			h.check(ctx, p, false)
			return true
		})
	}
	ctx.SpaceDone(fmt.Sprintf("every int-sorted program of the typed grammar with <= %d nodes over attributes a,b,l (locals may shadow them); literal and evaluated map; optimizer on/off", maxA))
}

func replay(repro map[string]any) (string, bool) {
	src, _ := repro["src"].(string)
	explicit, _ := repro["explicit"].(string)
	opt, _ := repro["optimizer"].(bool)
	a, _ := repro["a"].(float64)
	g := vrun.NewGen(opt, addHost)
	m := maps(vrun.NewGen(true, nil), int(a))[0].m
	var oi, oe vrun.Outcome
	mapName, _ := repro["map_name"].(string)
	if mapName == "" {
		mapName = "this"
	}
	if f, _, err := g.GenerateWithMap(src, mapName); err != nil {
		oi = vrun.Outcome{GenErr: true, Err: true, Msg: err.Error()}
	} else {
		oi = vrun.Eval(f, []value.Value{m})
	}
	if f, _, err := g.Generate(explicit, mapName); err != nil {
		oe = vrun.Outcome{GenErr: true, Err: true, Msg: err.Error()}
	} else {
		oe = vrun.Eval(f, []value.Value{m})
	}
	return fmt.Sprintf("GenerateWithMap(%q,%q) -> %s | Generate(%q,%q) -> %s", src, mapName, oi.String(), explicit, mapName, oe.String()), oi.String() != oe.String()
}

func main() {
	bex.Main(&bex.Check{
		ID:          "C16",
		Level:       "exploration",
		Rule:        "each enumerated program over attributes a,b,l is generated with GenerateWithMap(exp,\"this\") and, after the checks' own free-variable substitution x -> this.x on the AST, with Generate(exp',\"this\"); both are evaluated on the same map in several representations, optimizer on and off; Generate-time success and outcomes must agree. distinct_nontrivial = distinct source texts that use at least one attribute implicitly and evaluate to a value other than 0",
		Assumptions: []string{"the explicit form's own correctness against the reference semantics is C01's business"},
		QuickBudget: 60e9, ThoroughBudget: 25 * 60e9,
		Run:              run,
		Replay:           replay,
		CrashIsViolation: true, // a worker process that dies while it executes a case on the library is a verdict on that case
	})
}
