package main

// Pools of receivers, callbacks and arguments, and the single-call space: every built-in x receivers x
// argument choices.

import (
	"fmt"

	"verif/internal/refsem"
	"verif/internal/vlang"
)

type (
	I = refsem.IntV
	F = refsem.FloatV
)

func str(s string) refsem.StrV           { return refsem.StrV{S: s} }
func list(v ...refsem.Val) *refsem.ListV { return refsem.Eager(v) }
func mp(kv ...interface{}) *refsem.MapV {
	m := &refsem.MapV{}
	for i := 0; i+1 < len(kv); i += 2 {
		m.Keys = append(m.Keys, kv[i].(string))
		m.Vals = append(m.Vals, kv[i+1].(refsem.Val))
	}
	return m
}

var (
	V  = vlang.V
	Op = vlang.Op
	Me = vlang.MethodN
	St = vlang.StaticN
)

func lam(params string, body *vlang.Node) *vlang.Node {
	var ps []string
	for _, c := range params {
		ps = append(ps, string(c))
	}
	return vlang.LamN(ps, body)
}

func boom() *vlang.Node { return St("throw", vlang.S("boom")) }

// failIf builds  params -> if <v> = f0 then throw("boom") else <base body>
func failIf(params string, v string, base *vlang.Node) *vlang.Node {
	return lam(params, vlang.IfN(Op("=", V(v), V("f0")), boom(), base))
}

// choice is one way to fill a parameter of a built-in.
type choice struct {
	tag  string
	node *vlang.Node
	// bind gives the values of the function arguments that node refers to, for a receiver
	bind func(h *harness, rc *pv) map[string]*pv
}

func fixed(tag string, n *vlang.Node) choice { return choice{tag: tag, node: n} }

type pools struct {
	lists, bigLists, strings, maps, nums, bools, clos []*pv
	f1, f1sub, f2, f3, fl                             []choice
	chainBinds                                        map[string]*pv
}

// element of the receiver list at the first / a middle / the last position
func elemAt(h *harness, rc *pv, pos int) *pv {
	l, ok := rc.ref.(*refsem.ListV)
	if !ok {
		return h.zero
	}
	els, _ := l.Force()
	if len(els) == 0 {
		return h.zero
	}
	i := 0
	switch pos {
	case 1:
		i = len(els) / 2
	case 2:
		i = len(els) - 1
	}
	return h.plain(vlang.Render(litOf(els[i])), els[i])
}

var posName = []string{"first", "middle", "last"}

// failing adds, for each position, the callback mk() that throws at the receiver's element there.
func failing(tag string, mk func() *vlang.Node) []choice {
	var out []choice
	for pos := 0; pos < 3; pos++ {
		pos := pos
		out = append(out, choice{tag: tag + "@" + posName[pos], node: mk(), bind: func(h *harness, rc *pv) map[string]*pv {
			return map[string]*pv{"f0": elemAt(h, rc, pos)}
		}})
	}
	return out
}

func newPools(h *harness) *pools {
	p := &pools{}
	e, x, y, z, l := V("e"), V("x"), V("y"), V("z"), V("l")
	two := vlang.I(2)

	// --- receivers: lists, each eager and lazily produced (sized through map, unsized through accept)
	listPool := []*refsem.ListV{
		list(), list(I(1)), list(I(1), I(1)), list(I(1), I(2), I(3)), list(I(3), I(1), I(2)), list(I(2), I(2), I(1)),
		list(I(1), F(2.5)), list(list(I(1)), list(I(2))), list(mp("k", I(1)), mp("k", I(2))), list(str("b"), str("a"), str("b")),
		list(refsem.BoolV(true), refsem.BoolV(false)),
		// more than 12 items: sort.Sort leaves its insertion sort, map/accept start to measure
		list(I(5), I(3), I(8), I(1), I(9), I(2), I(7), I(3), I(6), I(4), I(0), I(11), I(10), I(5), I(12)),
	}
	for i, lv := range listPool {
		lit := litOf(lv)
		t := vlang.Render(lit)
		three := []*pv{h.plain(t, lv), h.via(t+" lazy(map)", lv, Me(lit, "map", lam("e", e))),
			h.via(t+" lazy(accept)", lv, Me(lit, "accept", lam("e", vlang.Bo(true))))}
		if i == len(listPool)-1 {
			p.bigLists = three // single calls only
		} else {
			p.lists = append(p.lists, three...)
		}
	}
	// --- strings
	for _, s := range []string{"", "a", "ab c", " a ", "aXbXc", "äö€", "12", "1.5", "x", "h\na\nb\n\nc"} {
		p.strings = append(p.strings, h.plain(fmt.Sprintf("%q", s), str(s)))
	}
	// --- maps in three storage representations: literal (listMap), eval() (RealMap), put chain (AppendMap)
	for _, m := range []*refsem.MapV{mp(), mp("a", I(1)), mp("a", I(1), "b", I(2)), mp("a", I(3), "b", str("x"), "c", list(I(1), I(2)))} {
		lit := litOf(m)
		t := vlang.Render(lit)
		p.maps = append(p.maps, h.plain(t, m))
		p.maps = append(p.maps, h.via(t+" eval()", m, Me(lit, "eval")))
		if len(m.Keys) > 0 {
			put := vlang.MapN(nil)
			for i := len(m.Keys) - 1; i >= 0; i-- {
				put = Me(put, "put", vlang.S(m.Keys[i]), litOf(m.Vals[i]))
			}
			p.maps = append(p.maps, h.via(t+" put-chain", m, put))
		}
	}
	// --- numbers (and a few non-numbers) as arguments of the static functions
	for _, v := range []refsem.Val{I(-2), I(-1), I(0), I(1), I(2), I(3), F(-2.5), F(-0.5), F(0.5), F(1.5), F(2.5), F(2), F(0.25), str("a"), refsem.BoolV(true), list(I(1))} {
		p.nums = append(p.nums, h.plain(vlang.Render(litOf(v)), v))
	}
	p.bools = []*pv{h.plain("true", refsem.BoolV(true)), h.plain("false", refsem.BoolV(false))}

	// --- callbacks with one parameter
	wrongArity1 := fixed("wrong arity", lam("xy", x))
	nonClosure := fixed("not a function", vlang.I(1))
	p.f1 = []choice{
		fixed("identity", lam("e", e)),
		fixed("e*2", lam("e", Op("*", e, two))),
		fixed("e>1", lam("e", Op(">", e, vlang.I(1)))),
		fixed("e%2", lam("e", Op("%", e, two))),
		fixed("e.k", lam("e", vlang.MemberN(e, "k"))),
		fixed("string(e)", lam("e", St("string", e))),
		fixed("e/2", lam("e", Op("/", e, two))),
		wrongArity1, nonClosure,
	}
	p.f1 = append(p.f1, failing("fail(e)", func() *vlang.Node { return failIf("e", "e", e) })...)
	p.f1 = append(p.f1, failing("fail(e>1)", func() *vlang.Node { return failIf("e", "e", Op(">", e, vlang.I(1))) })...)
	p.f1sub = []choice{p.f1[0], p.f1[1], wrongArity1, nonClosure, failing("fail(e)", func() *vlang.Node { return failIf("e", "e", e) })[0]}

	// --- callbacks with two parameters
	p.f2 = []choice{
		fixed("x+y", lam("xy", Op("+", x, y))),
		fixed("x", lam("xy", x)),
		fixed("y", lam("xy", y)),
		fixed("[x,y]", lam("xy", vlang.ListN(x, y))),
		fixed("x<y", lam("xy", Op("<", x, y))),
		fixed("x=y", lam("xy", Op("=", x, y))),
		fixed("x>y", lam("xy", Op(">", x, y))),
		fixed("y-x<=1", lam("xy", Op("<=", Op("-", y, x), vlang.I(1)))),
		fixed("goto(x.state+y)", lam("xy", St("goto", Op("+", vlang.MemberN(x, "state"), y)))),
		fixed("wrong arity", lam("e", e)), nonClosure,
	}
	p.f2 = append(p.f2, failing("failY(x+y)", func() *vlang.Node { return failIf("xy", "y", Op("+", x, y)) })...)
	p.f2 = append(p.f2, failing("failY(x<y)", func() *vlang.Node { return failIf("xy", "y", Op("<", x, y)) })...)
	p.f2 = append(p.f2, failing("failX(x+y)", func() *vlang.Node { return failIf("xy", "x", Op("+", x, y)) })...)
	p.f2 = append(p.f2, failing("failX(x=y)", func() *vlang.Node { return failIf("xy", "x", Op("=", x, y)) })...)

	// --- callbacks with three parameters
	p.f3 = []choice{
		fixed("[x,y,z]", lam("xyz", vlang.ListN(x, y, z))),
		fixed("x+y+z", lam("xyz", Op("+", Op("+", x, y), z))),
		fixed("wrong arity", lam("xy", x)), nonClosure,
	}
	p.f3 = append(p.f3, failing("failY", func() *vlang.Node { return failIf("xyz", "y", vlang.ListN(x, y, z)) })...)
	p.f3 = append(p.f3, failing("failZ", func() *vlang.Node { return failIf("xyz", "z", vlang.ListN(x, y, z)) })...)

	// --- callbacks that take a list
	p.fl = []choice{
		fixed("l", lam("l", l)),
		fixed("l.size()", lam("l", Me(l, "size"))),
		fixed("l.sum()", lam("l", Me(l, "sum"))),
		fixed("l[0]", lam("l", vlang.IndexN(l, vlang.I(0)))),
		fixed("l.size()>2", lam("l", Op(">", Me(l, "size"), two))),
		fixed("l.last()-l.first()>1", lam("l", Op(">", Op("-", Me(l, "last"), Me(l, "first")), vlang.I(1)))),
		fixed("wrong arity", lam("xy", x)), nonClosure,
	}
	p.fl = append(p.fl, failing("fail(l.last())", func() *vlang.Node {
		return lam("l", vlang.IfN(Op("=", Me(l, "last"), V("f0")), boom(), Op(">", Me(l, "size"), two)))
	})...)

	// fixed argument values of the compositions
	p.chainBinds = map[string]*pv{
		"k0": h.plain("0", I(0)), "k1": h.plain("1", I(1)), "k2": h.plain("2", I(2)), "f0": h.plain("2", I(2)),
		"o": h.plain("[0,2]", list(I(0), I(2))), "v": h.plain("7", I(7)), "s": h.plain(`"X"`, str("X")), "t": h.plain(`"Y"`, str("Y")),
	}
	return p
}

// numeric arguments around the receiver size, and two of the wrong type
func numChoices(name string) []choice {
	rel := func(tag string, f func(size int) refsem.Val) choice {
		return choice{tag: name + "=" + tag, node: V(name), bind: func(h *harness, rc *pv) map[string]*pv {
			v := f(rc.size)
			return map[string]*pv{name: h.plain(vlang.Render(litOf(v)), v)}
		}}
	}
	return []choice{
		rel("-1", func(int) refsem.Val { return I(-1) }), rel("0", func(int) refsem.Val { return I(0) }),
		rel("1", func(int) refsem.Val { return I(1) }), rel("2", func(int) refsem.Val { return I(2) }),
		rel("size", func(s int) refsem.Val { return I(s) }), rel("size+1", func(s int) refsem.Val { return I(s + 1) }),
		rel("1.0", func(int) refsem.Val { return F(1) }), rel(`"1"`, func(int) refsem.Val { return str("1") }),
	}
}

// values passed as an argument named name
func valChoices(name string, vals ...refsem.Val) []choice {
	var out []choice
	for _, v := range vals {
		v := v
		t := vlang.Render(litOf(v))
		out = append(out, choice{tag: name + "=" + t, node: V(name), bind: func(h *harness, rc *pv) map[string]*pv {
			return map[string]*pv{name: h.plain(t, v)}
		}})
	}
	return out
}

// spec describes the single-call cases of one built-in.
type spec struct {
	builtin string // documented name: list.top, global.abs, ...
	recv    sortT
	params  [][]choice
	cmp     cmpKind
	// build makes the call from the receiver expression and the argument expressions (default: method call)
	build func(recv *vlang.Node, args []*vlang.Node) *vlang.Node
	rev   bool
	// literalToo: also run every case as literals with the optimizer on
}

func method(name string) func(recv *vlang.Node, args []*vlang.Node) *vlang.Node {
	return func(recv *vlang.Node, args []*vlang.Node) *vlang.Node { return Me(recv, name, args...) }
}

func static(name string) func(recv *vlang.Node, args []*vlang.Node) *vlang.Node {
	return func(recv *vlang.Node, args []*vlang.Node) *vlang.Node {
		return St(name, append([]*vlang.Node{recv}, args...)...)
	}
}

func (p *pools) specs() []spec {
	var out []spec
	add := func(recv sortT, typ, name string, cmp cmpKind, params ...[]choice) {
		out = append(out, spec{builtin: typ + "." + name, recv: recv, params: params, cmp: cmp, build: method(name)})
	}
	L := func(name string, cmp cmpKind, params ...[]choice) { add(sList, "list", name, cmp, params...) }
	vals := valChoices("v", I(0), str("s"), list(I(9)), F(2.5))
	others := append(valChoices("o", list(), list(I(0), I(2)), list(I(2), I(5), I(1))), valChoices("o", I(1))...)

	// ---- list
	for _, n := range []string{"size", "first", "last", "single", "sum", "mean", "min", "max", "reverse", "eval", "string"} {
		L(n, cmpExact)
	}
	for _, n := range []string{"map", "accept", "indexWhere", "present", "groupByEqual", "minMax", "movingWindow"} {
		L(n, cmpExact, p.f1)
	}
	L("order", cmpSorted, p.f1)
	L("orderRev", cmpSorted, p.f1)
	out[len(out)-1].rev = true
	for _, n := range []string{"groupByString", "groupByInt", "uniqueString", "uniqueInt"} {
		L(n, cmpMultiset, p.f1)
	}
	L("replaceList", cmpExact, p.fl)
	L("movingWindowRemove", cmpExact, p.fl)
	for _, n := range []string{"reduce", "combine", "number", "compact", "fsm"} {
		L(n, cmpExact, p.f2)
	}
	L("orderLess", cmpSorted, p.f2)
	L("mapReduce", cmpExact, vals, p.f2)
	L("visit", cmpExact, vals, p.f2)
	L("cross", cmpExact, others, p.f2)
	L("merge", cmpExact, others, p.f2)
	L("iir", cmpExact, p.f1sub, p.f2)
	L("iirCombine", cmpExact, p.f1sub, p.f3)
	L("combine3", cmpExact, p.f3)
	L("combineN", cmpExact, numChoices("n"), p.fl)
	L("top", cmpExact, numChoices("n"))
	L("skip", cmpExact, numChoices("n"))
	L("set", cmpExact, numChoices("n"), vals)
	L("append", cmpExact, vals)
	// iirApply: the two functions come from a map
	{
		e, x, y, z := V("e"), V("x"), V("y"), V("z")
		ini := lam("e", e)
		fil := lam("xyz", Op("+", Op("+", x, y), z))
		mk := func(tag string, keys []string, vals ...*vlang.Node) choice {
			return fixed(tag, vlang.MapN(keys, vals...))
		}
		ch := []choice{
			mk("{initial,filter}", []string{"initial", "filter"}, ini, fil),
			mk("{initial:e*2,filter:[x,y,z]}", []string{"initial", "filter"}, lam("e", Op("*", e, vlang.I(2))), lam("xyz", vlang.ListN(x, y, z))),
			mk("{filter,initial,other}", []string{"filter", "initial", "other"}, fil, ini, vlang.I(1)),
			mk("no filter", []string{"initial"}, ini),
			mk("no initial", []string{"filter"}, fil),
			mk("filter wrong arity", []string{"initial", "filter"}, ini, lam("xy", x)),
			mk("filter not a function", []string{"initial", "filter"}, ini, vlang.I(1)),
			mk("initial wrong arity", []string{"initial", "filter"}, lam("xy", x), fil),
			mk("initial not a function", []string{"initial", "filter"}, vlang.I(1), fil),
			mk("{}", nil),
			fixed("not a map", vlang.I(1)),
		}
		ch = append(ch, failing("filter fails", func() *vlang.Node {
			return vlang.MapN([]string{"initial", "filter"}, ini, failIf("xyz", "y", Op("+", Op("+", x, y), z)))
		})...)
		ch = append(ch, failing("initial fails", func() *vlang.Node {
			return vlang.MapN([]string{"initial", "filter"}, failIf("e", "e", e), fil)
		})...)
		L("iirApply", cmpExact, ch)
	}
	// multiUse: consumers that iterate the list exactly once (others are excluded by the model)
	{
		l, e, x, y := V("l"), V("e"), V("x"), V("y")
		mk := func(tag string, keys []string, vals ...*vlang.Node) choice {
			return fixed(tag, vlang.MapN(keys, vals...))
		}
		ch := []choice{
			mk("{a:size}", []string{"a"}, lam("l", Me(l, "size"))),
			mk("{a:sum,b:map}", []string{"a", "b"}, lam("l", Me(l, "sum")), lam("l", Me(l, "map", lam("e", Op("*", e, vlang.I(2)))))),
			mk("{a:first}", []string{"a"}, lam("l", Me(l, "first"))),
			mk("{a:l,b:top(1)}", []string{"a", "b"}, lam("l", l), lam("l", Me(l, "top", vlang.I(1)))),
			mk("{a:reverse,b:size,c:string}", []string{"a", "b", "c"}, lam("l", Me(l, "reverse")), lam("l", Me(l, "size")), lam("l", Me(l, "string"))),
			mk("{a:twice}", []string{"a"}, lam("l", Op("+", Me(l, "size"), Me(l, "size")))),
			mk("{}", nil),
			mk("{a:1}", []string{"a"}, vlang.I(1)),
			mk("{a:wrong arity}", []string{"a"}, lam("xy", x)),
			fixed("not a map", vlang.I(1)),
		}
		ch = append(ch, failing("{a:size,b:reduce fails}", func() *vlang.Node {
			return vlang.MapN([]string{"a", "b"}, lam("l", Me(l, "size")), lam("l", Me(l, "reduce", failIf("xy", "y", Op("+", x, y)))))
		})...)
		L("multiUse", cmpExact, ch)
	}
	// operators on lists that Appendix B lists with the methods
	out = append(out,
		spec{builtin: "list.[index]", recv: sList, params: [][]choice{numChoices("n")}, build: func(r *vlang.Node, a []*vlang.Node) *vlang.Node { return vlang.IndexN(r, a[0]) }},
		spec{builtin: "list.~", recv: sList, params: [][]choice{valChoices("v", I(1), F(1), I(2), F(2.5), str("a"), list(I(1)), mp("k", I(2)))}, build: func(r *vlang.Node, a []*vlang.Node) *vlang.Node { return Op("~", a[0], r) }},
		spec{builtin: "list.+", recv: sList, params: [][]choice{others}, build: func(r *vlang.Node, a []*vlang.Node) *vlang.Node { return Op("+", r, a[0]) }},
	)

	// ---- string
	S := func(name string, params ...[]choice) { add(sStr, "string", name, cmpExact, params...) }
	for _, n := range []string{"len", "string", "trim", "toLower", "toUpper", "toInt", "toFloat"} {
		S(n)
	}
	subs := append(valChoices("s", str(""), str("a"), str("X"), str("b"), str(" "), str("ö"), str("bX"), str("zz"), str("h"), str("€")), valChoices("s", I(1))...)
	for _, n := range []string{"contains", "indexOf", "split", "behind", "behindList"} {
		S(n, subs)
	}
	S("replace", subs, append(valChoices("t", str(""), str("Y"), str("aa")), valChoices("t", I(1))...))
	S("cut", numChoices("n"), numChoices("k0"))

	// ---- map
	Mp := func(name string, cmp cmpKind, params ...[]choice) { add(sMap, "map", name, cmp, params...) }
	for _, n := range []string{"size", "string", "eval"} {
		Mp(n, cmpExact)
	}
	Mp("list", cmpMultiset)
	keys := append(valChoices("s", str("a"), str("b"), str("zz"), str("")), valChoices("s", I(1))...)
	Mp("get", cmpExact, keys)
	Mp("isAvail", cmpExact, keys)
	Mp("put", cmpExact, keys, valChoices("v", I(0), list(I(9))))
	{
		k, v, m, x, y := V("k"), V("v"), V("m"), V("x"), V("y")
		kv := func(body *vlang.Node) *vlang.Node { return vlang.LamN([]string{"k", "v"}, body) }
		f2m := []choice{
			fixed("v", kv(v)), fixed("k", kv(k)), fixed("v>1", kv(Op(">", v, vlang.I(1)))), fixed(`k="a"`, kv(Op("=", k, vlang.S("a")))),
			fixed("[k,v]", kv(vlang.ListN(k, v))), fixed("true", kv(vlang.Bo(true))),
			fixed("wrong arity", lam("e", V("e"))), fixed("not a function", vlang.I(1)),
			fixed(`fails at "a"`, kv(vlang.IfN(Op("=", k, vlang.S("a")), boom(), v))),
			fixed(`fails at "b"`, kv(vlang.IfN(Op("=", k, vlang.S("b")), boom(), Op("=", k, vlang.S("a"))))),
		}
		Mp("map", cmpExact, f2m)
		Mp("accept", cmpExact, f2m)
		f1m := []choice{
			fixed("m", lam("m", m)), fixed("{a:9}", lam("m", vlang.MapN([]string{"a"}, vlang.I(9)))),
			fixed("{zz:1}", lam("m", vlang.MapN([]string{"zz"}, vlang.I(1)))), fixed("{}", lam("m", vlang.MapN(nil))),
			fixed("{b:m.a}", lam("m", vlang.MapN([]string{"b"}, vlang.MemberN(m, "a")))),
			fixed("m.size()", lam("m", Me(m, "size"))), fixed("not a map: 1", lam("m", vlang.I(1))),
			fixed("wrong arity", lam("xy", x)), fixed("not a function", vlang.I(1)),
			fixed("fails", lam("m", boom())),
		}
		Mp("replace", cmpExact, f1m)
		Mp("replaceMap", cmpExact, f1m)
		om := append(valChoices("o", mp("a", I(10), "b", I(20)), mp("a", I(10), "b", I(20), "c", I(30), "d", I(40)), mp("a", I(10)), mp()), valChoices("o", I(1))...)
		Mp("combine", cmpExact, om, []choice{
			fixed("x+y", lam("xy", Op("+", x, y))), fixed("[x,y]", lam("xy", vlang.ListN(x, y))), fixed("wrong arity", lam("e", V("e"))),
			fixed("not a function", vlang.I(1)), fixed("fails", lam("xy", vlang.IfN(Op("=", x, vlang.I(1)), boom(), y))),
		})
		out = append(out,
			spec{builtin: "map.[member]", recv: sMap, params: [][]choice{{fixed("a", nil), fixed("b", nil), fixed("zz", nil)}}},
			spec{builtin: "map.~", recv: sMap, params: [][]choice{keys}, build: func(r *vlang.Node, a []*vlang.Node) *vlang.Node { return Op("~", a[0], r) }},
			spec{builtin: "map.+", recv: sMap, params: [][]choice{om}, build: func(r *vlang.Node, a []*vlang.Node) *vlang.Node { return Op("+", r, a[0]) }},
		)
	}

	// ---- static functions: the receiver position is the first argument
	G := func(name string, cmp cmpKind, params ...[]choice) {
		out = append(out, spec{builtin: "global." + name, recv: sNum, params: params, cmp: cmp, build: static(name)})
	}
	for _, n := range []string{"abs", "sqr", "int", "float", "isInt", "isFloat", "string", "sqrt", "ln", "log10", "exp", "sin", "cos", "tan", "asin", "acos", "atan", "goto", "numbers", "throw"} {
		G(n, cmpExact)
	}
	for _, n := range []string{"sign", "round", "floor", "ceil", "trunc"} {
		G(n, cmpLoose)
	}
	second := valChoices("v", I(-1), I(0), I(1), I(3), I(6), F(0.5), F(2), str("a"), str("b"), refsem.BoolV(true))
	for _, n := range []string{"min", "max", "binAnd", "binOr"} {
		G(n, cmpExact, second)
	}
	// sprintf: the format is the "receiver"
	out = append(out, spec{builtin: "global.sprintf", recv: sStr, build: static("sprintf")})

	// ---- methods of the scalar types and of closures
	out = append(out,
		spec{builtin: "int.string", recv: sNum, build: method("string")},
		spec{builtin: "float.string", recv: sNum, build: method("string")},
		spec{builtin: "bool.string", recv: sBool, build: method("string")},
		spec{builtin: "closure.args", recv: sClo, build: method("args")},
		spec{builtin: "closure.invoke", recv: sClo, params: [][]choice{append(valChoices("o", list(), list(I(1)), list(I(1), I(2)), list(I(1), I(2), I(3))), valChoices("o", I(1))...)}, build: method("invoke")},
	)
	return out
}

// wrong number of arguments: every method of the documentation is also called with one argument too
// few and one too many
func arityMisuse(builtin string, arity int) []spec {
	typ, name, _ := cut2(builtin)
	recv := map[string]sortT{"list": sList, "string": sStr, "map": sMap, "closure": sClo, "bool": sBool, "int": sNum, "float": sNum}[typ]
	mk := func(n int) spec {
		return spec{builtin: "(wrong number of arguments)", recv: recv, build: func(r *vlang.Node, _ []*vlang.Node) *vlang.Node {
			args := make([]*vlang.Node, n)
			for i := range args {
				args[i] = V("k1")
			}
			return Me(r, name, args...)
		}}
	}
	var out []spec
	if arity > 0 {
		out = append(out, mk(arity-1))
	}
	return append(out, mk(arity+1))
}

func cut2(s string) (string, string, bool) {
	for i := 0; i < len(s); i++ {
		if s[i] == '.' {
			return s[:i], s[i+1:], true
		}
	}
	return s, "", false
}

func (p *pools) receivers(s sortT, h *harness) []*pv {
	switch s {
	case sList:
		return append(append([]*pv{}, p.lists...), p.bigLists...)
	case sStr:
		return p.strings
	case sMap:
		return p.maps
	case sNum:
		return p.nums
	case sBool:
		return p.bools
	case sClo:
		if p.clos == nil {
			e, x, y := V("e"), V("x"), V("y")
			for _, c := range []*vlang.Node{lam("e", Op("*", e, vlang.I(2))), lam("xy", Op("-", x, y)), lam("e", boom())} {
				p.clos = append(p.clos, &pv{tag: vlang.Render(c), lit: c, sort: sClo})
			}
		}
		return p.clos
	}
	return nil
}

// singleSpace: every built-in x receivers x argument choices.
func (h *harness) singleSpace(p *pools) {
	ctx := h.ctx
	ctx.Space("single-call")
	var idx int64
	runSpec := func(sp spec, recvs []*pv) {
		// odometer over the parameter choices
		n := len(sp.params)
		pos := make([]int, n)
		seen := map[string]bool{}
		for {
			for _, rc := range recvs {
				if ctx.Expired() {
					return
				}
				binds := map[string]*pv{"k1": p.chainBinds["k1"]}
				if rc.sort != sClo {
					binds["r"] = rc
				}
				args := make([]*vlang.Node, n)
				key := rc.tag
				for i := range sp.params {
					ch := sp.params[i][pos[i]]
					args[i] = ch.node
					key += "|" + ch.tag
					if ch.bind != nil {
						key = key[:len(key)-len(ch.tag)] + vlang.Dump(ch.node)
						for k, v := range ch.bind(h, rc) {
							binds[k] = v
							key += "," + k + "=" + v.tag
						}
					}
				}
				// choices relative to the receiver (size, size+1, element positions) coincide for small
				// receivers: every distinct case is run once
				if seen[key] {
					continue
				}
				seen[key] = true
				idx++
				if !ctx.Mine(idx) {
					continue
				}
				c := &caseT{builtin: sp.builtin, inner: V("r"), cmp: sp.cmp, rev: sp.rev, binds: binds, literal: true}
				build := sp.build
				switch {
				case sp.builtin == "map.[member]":
					key := sp.params[0][pos[0]].tag
					c.last = func(r *vlang.Node) *vlang.Node { return vlang.MemberN(r, key) }
				case rc.sort == sClo:
					// closures cannot be passed as pool values: they are written into the program
					c.inner = rc.lit
					c.last = func(r *vlang.Node) *vlang.Node { return build(r, args) }
					c.literal = false
				default:
					c.last = func(r *vlang.Node) *vlang.Node { return build(r, args) }
				}
				if sp.cmp == cmpSorted {
					c.cb = args[0]
				}
				h.check(c, true)
			}
			// next combination
			i := n - 1
			for ; i >= 0; i-- {
				pos[i]++
				if pos[i] < len(sp.params[i]) {
					break
				}
				pos[i] = 0
			}
			if i < 0 {
				return
			}
		}
	}
	for _, sp := range p.specs() {
		recvs := p.receivers(sp.recv, h)
		switch sp.builtin {
		case "global.sprintf":
			h.sprintfCases(p, &idx)
			continue
		case "int.string":
			recvs = filter(recvs, func(v *pv) bool { _, ok := v.ref.(refsem.IntV); return ok })
		case "float.string":
			recvs = filter(recvs, func(v *pv) bool { _, ok := v.ref.(refsem.FloatV); return ok })
		}
		runSpec(sp, recvs)
	}
	// wrong number of arguments and methods on a receiver of another type
	for _, d := range documented() {
		if d.typ == "global" {
			continue
		}
		for _, sp := range arityMisuse(d.typ+"."+d.name, d.arity) {
			recvs := p.receivers(sp.recv, h)
			if len(recvs) > 4 {
				recvs = []*pv{recvs[0], recvs[len(recvs)/2], recvs[len(recvs)-1]}
			}
			runSpec(sp, recvs)
		}
	}
	for _, name := range []string{"top", "len", "get", "args", "noSuchMethod"} {
		name := name
		sp := spec{builtin: "(method of another type)", build: func(r *vlang.Node, _ []*vlang.Node) *vlang.Node { return Me(r, name, V("k1")) }}
		runSpec(sp, []*pv{p.lists[9], p.strings[1], p.maps[3], p.nums[3], p.bools[0]})
	}
	ctx.SpaceDone(fmt.Sprintf("every modelled built-in x %d list receivers (12 lists incl. one of 15 items, each eager / lazy through map / lazy through accept) resp. %d strings, %d maps (4 contents x literal / eval() / put chain), %d scalar arguments x every choice of its callback pools (1-parameter: %d, 2: %d, 3: %d, list: %d choices incl. wrong arity, non-function, failing at the first/middle/last element) and numeric arguments {-1,0,1,2,size,size+1,1.0,\"1\"}; each case as arguments and again as literals with the optimizer on",
		len(p.lists)+len(p.bigLists), len(p.strings), len(p.maps), len(p.nums), len(p.f1), len(p.f2), len(p.f3), len(p.fl)))
}

func filter(in []*pv, keep func(*pv) bool) []*pv {
	var out []*pv
	for _, v := range in {
		if keep(v) {
			out = append(out, v)
		}
	}
	return out
}

// sprintf: formats x operands
func (h *harness) sprintfCases(p *pools, idx *int64) {
	type sc struct {
		format string
		ops    []refsem.Val
	}
	cases := []sc{
		{"", nil}, {"abc", nil}, {"%d", []refsem.Val{I(5)}}, {"%d", []refsem.Val{I(-5)}}, {"%3d|", []refsem.Val{I(5)}}, {"%-3d|", []refsem.Val{I(5)}},
		{"%03d", []refsem.Val{I(5)}}, {"%x", []refsem.Val{I(255)}}, {"%s", []refsem.Val{str("a")}}, {"%5s|", []refsem.Val{str("a")}},
		{"%v", []refsem.Val{I(5)}}, {"%v", []refsem.Val{str("a")}}, {"%v", []refsem.Val{F(2.5)}}, {"%v", []refsem.Val{F(2)}},
		{"%f", []refsem.Val{F(2.5)}}, {"%.2f", []refsem.Val{F(2.456)}}, {"%6.1f|", []refsem.Val{F(2.456)}}, {"%e", []refsem.Val{F(1234.5)}},
		{"%d-%s", []refsem.Val{I(1), str("b")}}, {"%s=%d%%", []refsem.Val{str("a"), I(50)}}, {"a%db%dc", []refsem.Val{I(1), I(2)}},
		{"%d", []refsem.Val{str("a")}}, {"%s", []refsem.Val{I(1)}}, {"%d", []refsem.Val{F(2.5)}}, {"%f", []refsem.Val{I(1)}},
		{"%d", nil}, {"%d", []refsem.Val{I(1), I(2)}}, {"%v", []refsem.Val{list(I(1), I(2))}}, {"%v", []refsem.Val{refsem.BoolV(true)}},
	}
	names := []string{"v", "o", "n"}
	for _, c := range cases {
		*idx++
		if !h.ctx.Mine(*idx) {
			continue
		}
		binds := map[string]*pv{"r": h.plain(fmt.Sprintf("%q", c.format), str(c.format))}
		var args []*vlang.Node
		for i, o := range c.ops {
			binds[names[i]] = h.plain(vlang.Render(litOf(o)), o)
			args = append(args, V(names[i]))
		}
		h.check(&caseT{builtin: "global.sprintf", inner: V("r"), last: func(r *vlang.Node) *vlang.Node { return static("sprintf")(r, args) }, binds: binds, literal: true}, true)
	}
	// a first argument that is not a string
	*idx++
	if h.ctx.Mine(*idx) {
		h.check(&caseT{builtin: "global.sprintf", inner: V("r"), last: func(r *vlang.Node) *vlang.Node { return St("sprintf", r, V("k1")) },
			binds: map[string]*pv{"r": p.nums[3], "k1": p.chainBinds["k1"]}, literal: true}, true)
	}
}
