// C07: the built-in list, map, string and numeric library matches its documented model.
//
// Bounded-exhaustive enumeration: every built-in that value.New() documents (the names are read from
// GetDocumentation, see catalogue.go) x receivers from a pool (each list eager and lazily produced,
// each map in three storage representations) x callbacks from a pool (good ones, wrong arity, wrong
// result type, failing at the first / a middle / the last element) x numeric arguments around the
// receiver size; then compositions of built-ins wherever the output sort fits the next receiver.
// Receivers and numeric arguments are ARGUMENTS of the generated function (nothing is constant folded);
// a subset is run again as literals with the optimizer on (constant-folding path). The oracle is the
// reference library internal/refsem/libfull.go, written from the method descriptions.
package main

import (
	"fmt"
	"os"
	"sort"
	"strings"

	"github.com/hneemann/parser2/funcGen"
	"github.com/hneemann/parser2/value"
	"verif/internal/bex"
	"verif/internal/refsem"
	"verif/internal/vlang"
	"verif/internal/vrun"
)

// C07_DEBUG_PANICS=<file>: list the cases in which the implementation reported a recovered Go panic
var debugFile = os.Getenv("C07_DEBUG_PANICS")

// names of the arguments of every generated function
var argNames = []string{"r", "n", "f0", "o", "v", "s", "t", "k0", "k1", "k2"}

type sortT uint8

const (
	sList sortT = iota
	sStr
	sMap
	sNum
	sBool
	sClo
	sAny // nothing is chained behind it
)

type cmpKind uint8

const (
	cmpExact    cmpKind = iota // deep equality (floats with a relative tolerance of 1e-12)
	cmpSorted                  // order, orderRev, orderLess: a permutation without inversion
	cmpMultiset                // groupBy*, unique*, map.list: the elements in any order
	cmpLoose                   // numeric functions whose description leaves int/float open: equal as numbers
)

// pv is a pool value: the reference value, a literal expression that produces it and a way to make a
// fresh implementation value.
type pv struct {
	tag  string
	ref  refsem.Val
	lit  *vlang.Node
	size int
	fn   funcGen.Func[value.Value] // non-nil: the implementation value is produced by evaluating lit
	sort sortT
}

func (p *pv) impl() value.Value {
	if p.fn != nil {
		v, err := p.fn.Eval()
		if err != nil {
			panic("pool value " + p.tag + ": " + err.Error())
		}
		return v
	}
	return vrun.ToImpl(p.ref)
}

func litOf(v refsem.Val) *vlang.Node {
	switch x := v.(type) {
	case refsem.IntV:
		return vlang.I(int64(x))
	case refsem.FloatV:
		return vlang.Fl(float64(x))
	case refsem.StrV:
		return vlang.S(x.S)
	case refsem.BoolV:
		return vlang.Bo(bool(x))
	case *refsem.ListV:
		els, _ := x.Force()
		var ns []*vlang.Node
		for _, e := range els {
			ns = append(ns, litOf(e))
		}
		return vlang.ListN(ns...)
	case *refsem.MapV:
		var ns []*vlang.Node
		for _, e := range x.Vals {
			ns = append(ns, litOf(e))
		}
		return vlang.MapN(x.Keys, ns...)
	}
	panic(fmt.Sprintf("litOf %T", v))
}

type harness struct {
	ctx     *bex.Ctx
	gOpt    *value.FunctionGenerator // optimizer on
	gNo     *value.FunctionGenerator // optimizer off: used to build pool values from literal expressions
	in      *refsem.Interp
	cache   map[string]genRes
	lastSrc string
	lastGen genRes
	zero    *pv
}

type genRes struct {
	f   funcGen.Func[value.Value]
	err error
}

func newHarness(ctx *bex.Ctx) *harness {
	h := &harness{ctx: ctx, gOpt: vrun.NewGen(true, nil), gNo: vrun.NewGen(false, nil), in: refsem.New(), cache: map[string]genRes{}}
	refsem.InstallFull(h.in)
	h.zero = h.plain("0", refsem.IntV(0))
	return h
}

func (h *harness) plain(tag string, v refsem.Val) *pv {
	p := &pv{tag: tag, ref: v, lit: litOf(v), sort: sortOf(v)}
	switch x := v.(type) {
	case *refsem.ListV:
		els, _ := x.Force()
		p.size = len(els)
	case refsem.StrV:
		p.size = len([]rune(x.S))
	case *refsem.MapV:
		p.size = len(x.Keys)
	}
	return p
}

// via makes a pool value whose implementation value is produced by the implementation itself from the
// expression lit (lazy lists, map representations); ref is the value it denotes.
func (h *harness) via(tag string, ref refsem.Val, lit *vlang.Node) *pv {
	p := h.plain(tag, ref)
	p.lit = lit
	f, _, err := h.gNo.Generate(vlang.Render(lit))
	if err != nil {
		panic("pool value " + tag + ": " + err.Error())
	}
	p.fn = f
	return p
}

func sortOf(v refsem.Val) sortT {
	switch v.(type) {
	case *refsem.ListV:
		return sList
	case refsem.StrV:
		return sStr
	case *refsem.MapV:
		return sMap
	case refsem.IntV, refsem.FloatV:
		return sNum
	case refsem.BoolV:
		return sBool
	case *refsem.CloV:
		return sClo
	}
	return sAny
}

// caseT is one case: the receiver expression of the last call, the last call, the argument values.
type caseT struct {
	builtin string // documented name of the last built-in, e.g. list.top
	inner   *vlang.Node
	last    func(recv *vlang.Node) *vlang.Node
	cmp     cmpKind
	cb      *vlang.Node // order*, orderLess: the callback that defines the promised relation
	rev     bool
	binds   map[string]*pv
	literal bool // run the literal/optimizer variant as well
}

func (c *caseT) prog() *vlang.Node { return c.last(c.inner) }

// expectation of the reference
type expT struct {
	unspec  string
	isErr   bool
	val     refsem.Val // forced
	inner   refsem.Val // forced receiver of the last call
	ambLast bool
	ticks   map[string]int
}

func (h *harness) env(c *caseT) *refsem.Env {
	var env *refsem.Env
	for _, n := range argNames {
		p := c.binds[n]
		if p == nil {
			p = h.zero
		}
		v := p.ref
		if l, ok := v.(*refsem.ListV); ok {
			els, _ := l.Force()
			v = refsem.Eager(els)
		}
		env = env.Bind(n, v)
	}
	return env
}

func evalForced(in *refsem.Interp, n *vlang.Node, env *refsem.Env) (refsem.Val, *refsem.Err) {
	v, err := in.Eval(n, env)
	if err != nil {
		return nil, err
	}
	return refsem.DeepForce(v)
}

const (
	whyDemand   = "a failing element outside the demanded part: the outcome depends on laziness (subject of C08)"
	whyAmbInner = "an intermediate result that is fixed only up to order / tie break / number kind feeds a later built-in"
	whyAmbLast  = "a result that is fixed only up to order / tie break / number kind is produced inside the last call"
	whyAmbErr   = "an error that depends on a component the descriptions leave open"
)

func (h *harness) expect(c *caseT) expT {
	in := h.in
	env := h.env(c)
	// the eager reference
	in.Reset()
	refsem.SetStrict(in, true)
	iv, err := evalForced(in, c.inner, env)
	ambInner := in.Ticks[refsem.TickAmb]
	var v refsem.Val
	if err == nil {
		v, err = evalForced(in, c.last(vlang.V("p0")), env.Bind("p0", iv))
	}
	refsem.SetStrict(in, false)
	ticks := map[string]int{}
	for k, n := range in.Ticks {
		ticks[k] = n
	}
	if in.Unspec != "" {
		return expT{unspec: in.Unspec}
	}
	if err == nil {
		if ambInner > 0 {
			return expT{unspec: whyAmbInner}
		}
		ambLast := in.Ticks[refsem.TickAmb] > 0
		if ambLast && c.cmp == cmpExact {
			return expT{unspec: whyAmbLast}
		}
		return expT{val: v, inner: iv, ambLast: ambLast, ticks: ticks}
	}
	// an error of the eager reference: does a demand-driven evaluation see it as well?
	in.Reset()
	_, lerr := evalForced(in, c.prog(), env)
	for k, n := range in.Ticks {
		ticks[k] += n
	}
	if in.Unspec != "" {
		return expT{unspec: in.Unspec}
	}
	if lerr == nil {
		return expT{unspec: whyDemand}
	}
	if ticks[refsem.TickAmb] > 0 || ticks[refsem.TickWild] > 0 {
		return expT{unspec: whyAmbErr}
	}
	return expT{isErr: true, ticks: ticks}
}

func (e expT) String() string {
	if e.isErr {
		return "error"
	}
	return refsem.Canon(e.val)
}

// agree decides whether the observed outcome is admissible.
func (h *harness) agree(c *caseT, e expT, o vrun.Outcome) bool {
	if e.isErr {
		return o.Err
	}
	if o.Err {
		return false
	}
	loose := c.cmp == cmpLoose && e.ambLast
	if matchVal(e.val, o.Val, loose) {
		return true
	}
	if !e.ambLast {
		return false
	}
	switch c.cmp {
	case cmpMultiset:
		return sameMultiset(e.val, o.Val)
	case cmpSorted:
		xs, ok1 := e.inner.(*refsem.ListV)
		out, ok2 := o.Val.(*refsem.ListV)
		if !ok1 || !ok2 {
			return false
		}
		xe, _ := xs.Force()
		oe, _ := out.Force()
		in := h.in
		in.Reset()
		f, err := in.Eval(c.cb, h.env(c))
		if err != nil {
			return false
		}
		less := func(a, b refsem.Val) bool {
			if c.builtin == "list.orderLess" {
				r, err := in.CallV(f, a, b)
				bv, _ := r.(refsem.BoolV)
				return err == nil && bool(bv)
			}
			ka, e1 := in.CallV(f, a)
			kb, e2 := in.CallV(f, b)
			if e1 != nil || e2 != nil {
				return true // cannot happen for a value the reference accepted; fail closed
			}
			if c.rev {
				ka, kb = kb, ka
			}
			l, err := in.Less(ka, kb)
			return err != nil || l
		}
		return refsem.SortedPermutation(xe, oe, less)
	}
	return false
}

func approx(a, b float64) bool {
	if a == b || (a != a && b != b) {
		return true
	}
	d := a - b
	if d < 0 {
		d = -d
	}
	m := a
	if m < 0 {
		m = -m
	}
	if bb := b; bb < 0 && -bb > m {
		m = -bb
	} else if bb > m {
		m = bb
	}
	return d <= 1e-12*m
}

// matchVal: deep equality of a reference value and an observed value; WildV matches anything.
func matchVal(r, o refsem.Val, loose bool) bool {
	switch x := r.(type) {
	case refsem.WildV:
		return true
	case refsem.IntV:
		if y, ok := o.(refsem.IntV); ok {
			return x == y
		}
		if y, ok := o.(refsem.FloatV); ok && loose {
			return float64(x) == float64(y)
		}
	case refsem.FloatV:
		if y, ok := o.(refsem.FloatV); ok {
			return approx(float64(x), float64(y))
		}
		if y, ok := o.(refsem.IntV); ok && loose {
			return float64(x) == float64(y)
		}
	case refsem.BoolV:
		y, ok := o.(refsem.BoolV)
		return ok && x == y
	case refsem.StrV:
		y, ok := o.(refsem.StrV)
		return ok && x.S == y.S
	case *refsem.CloV:
		y, ok := o.(*refsem.CloV)
		return ok && x.Arity == y.Arity
	case *refsem.ListV:
		y, ok := o.(*refsem.ListV)
		if !ok {
			return false
		}
		xe, _ := x.Force()
		ye, _ := y.Force()
		if len(xe) != len(ye) {
			return false
		}
		for i := range xe {
			if !matchVal(xe[i], ye[i], loose) {
				return false
			}
		}
		return true
	case *refsem.MapV:
		y, ok := o.(*refsem.MapV)
		if !ok || len(x.Keys) != len(y.Keys) {
			return false
		}
		seen := map[string]bool{}
		for _, k := range y.Keys {
			if seen[k] {
				return false // a key iterated twice
			}
			seen[k] = true
		}
		for i, k := range x.Keys {
			ov, has := y.Get(k)
			if !has || !matchVal(x.Vals[i], ov, loose) {
				return false
			}
		}
		return true
	}
	return false
}

func sameMultiset(r, o refsem.Val) bool {
	x, ok1 := r.(*refsem.ListV)
	y, ok2 := o.(*refsem.ListV)
	if !ok1 || !ok2 {
		return false
	}
	xe, _ := x.Force()
	ye, _ := y.Force()
	if len(xe) != len(ye) {
		return false
	}
	used := make([]bool, len(ye))
outer:
	for _, a := range xe {
		for j, b := range ye {
			if !used[j] && matchVal(a, b, false) {
				used[j] = true
				continue outer
			}
		}
		return false
	}
	return true
}

// subst replaces the argument variables by literal expressions.
func subst(n *vlang.Node, m map[string]*vlang.Node) *vlang.Node {
	if n == nil {
		return nil
	}
	if n.K == vlang.Var {
		if l, ok := m[n.S]; ok {
			return l
		}
		return n
	}
	if n.K == vlang.Lam {
		// parameters shadow the argument names
		for _, p := range n.Params {
			if _, ok := m[p]; ok {
				m2 := map[string]*vlang.Node{}
				for k, v := range m {
					m2[k] = v
				}
				for _, q := range n.Params {
					delete(m2, q)
				}
				m = m2
				break
			}
		}
	}
	c := *n
	c.A, c.B, c.C = subst(n.A, m), subst(n.B, m), subst(n.C, m)
	if n.Args != nil {
		c.Args = make([]*vlang.Node, len(n.Args))
		for i, a := range n.Args {
			c.Args[i] = subst(a, m)
		}
	}
	return &c
}

func usedArgs(n *vlang.Node) []string {
	used := map[string]bool{}
	var walk func(x *vlang.Node, bound map[string]bool)
	walk = func(x *vlang.Node, bound map[string]bool) {
		if x == nil {
			return
		}
		if x.K == vlang.Var && !bound[x.S] {
			used[x.S] = true
		}
		if x.K == vlang.Lam {
			b2 := map[string]bool{}
			for k := range bound {
				b2[k] = true
			}
			for _, p := range x.Params {
				b2[p] = true
			}
			bound = b2
		}
		walk(x.A, bound)
		walk(x.B, bound)
		walk(x.C, bound)
		for _, a := range x.Args {
			walk(a, bound)
		}
	}
	walk(n, map[string]bool{})
	var out []string
	for _, a := range argNames {
		if used[a] {
			out = append(out, a)
		}
	}
	return out
}

func (h *harness) generate(src string, cache bool) genRes {
	if g, ok := h.cache[src]; ok {
		return g
	}
	if src == h.lastSrc {
		return h.lastGen
	}
	f, _, err := h.gOpt.Generate(src, argNames...)
	g := genRes{f, err}
	h.lastSrc, h.lastGen = src, g
	if cache && len(h.cache) < 100000 {
		h.cache[src] = g
	}
	return g
}

func run(g genRes, args []value.Value) vrun.Outcome {
	if g.err != nil {
		return vrun.Outcome{GenErr: true, Err: true, Msg: g.err.Error()}
	}
	return vrun.Eval(g.f, args)
}

// classify names the known-finding classifier that matches a failing case ("" if none). A classifier
// matches when (1) the case has the input shape of the finding — the reference executed a call of that
// shape — and (2) the observed outcome is what the reference computes once the defect is emulated at
// calls of that shape (or the emulated value reaches an operation that is excluded as unspecified);
// any other deviation stays unclassified.
func (h *harness) classify(c *caseT, e expT, o vrun.Outcome) string {
	try := func(tick, emulate, id string) string {
		if e.ticks[tick] == 0 {
			return ""
		}
		refsem.Emulate(h.in, emulate, true)
		e2 := h.expect(c)
		refsem.Emulate(h.in, emulate, false)
		// explained: the outcome is what the emulation computes, or the emulated value runs into an
		// operation the descriptions leave open (e.g. len() of the U+FFFD that F07a produces)
		if e2.unspec != "" || h.agree(c, e2, o) {
			return id
		}
		return ""
	}
	// cut on the empty string with pos 0 and len != 0 yields U+FFFD
	if id := try(refsem.TickCutEmpty, "F07a", "F07a-cut-empty-string"); id != "" {
		return id
	}
	// iirApply with a missing / non-function / wrong-arity 'filter': no error unless the filter is needed
	if id := try(refsem.TickIirApplyFilter, "F07e", "F07e-iirApply-filter-unchecked"); id != "" {
		return id
	}
	return ""
}

// check runs one case (as arguments, and as literals if asked) against the reference.
func (h *harness) check(c *caseT, cacheSrc bool) {
	ctx := h.ctx
	prog := c.prog()
	src := vlang.Render(prog)
	used := usedArgs(prog)
	argText := func() map[string]any {
		m := map[string]any{}
		for _, a := range used {
			p := c.binds[a]
			if p == nil {
				p = h.zero
			}
			m[a] = vlang.Render(p.lit)
		}
		return m
	}
	if !ctx.Begin(func() map[string]any { return map[string]any{"src": src, "args": argText(), "mode": "args"} }) {
		return
	}
	ctx.Add("cases_enumerated", 1)
	ctx.Add("b:"+c.builtin, 1)
	e := h.expect(c)
	if e.unspec != "" {
		ctx.Unspecified(e.unspec)
		ctx.Outcome("excluded: unspecified")
		return
	}
	want := e.String()
	key := src
	for _, a := range used {
		if p := c.binds[a]; p != nil {
			key += "|" + p.tag
		}
	}
	if !e.isErr {
		ctx.Nontrivial(key)
	}
	report := func(mode, text string, o vrun.Outcome) {
		what := "result differs from the reference model of the built-in's description"
		switch {
		case e.isErr:
			what = "misuse or a failing callback must yield an error, the implementation returned a value"
		case o.Err:
			what = "the implementation fails where the reference model has a value"
		}
		id := h.classify(c, e, o)
		if id == "" {
			ctx.Add("deviations_unclassified", 1)
		} else {
			ctx.Add("deviations_matching_"+id, 1)
		}
		ctx.Violate(what, map[string]any{"src": text, "args": argText(), "mode": mode, "builtin": c.builtin, "expect": want},
			want, o.String(), id)
	}
	// (a) receivers and arguments passed as arguments
	args := make([]value.Value, len(argNames))
	for i, n := range argNames {
		p := c.binds[n]
		if p == nil {
			p = h.zero
		}
		args[i] = p.impl()
	}
	ctx.Eval()
	o := run(h.generate(src, cacheSrc), args)
	ctx.Outcome(map[bool]string{true: "error", false: "value"}[e.isErr] + " → " + o.Class())
	if !h.agree(c, e, o) {
		report("args", src, o)
	}
	if o.Panicked && debugFile != "" {
		if fh, err := os.OpenFile(debugFile, os.O_APPEND|os.O_CREATE|os.O_WRONLY, 0644); err == nil {
			fmt.Fprintf(fh, "%s\t%v\t%s\n", src, argText(), o.Msg)
			fh.Close()
		}
	}
	if ctx.WantSample() && !e.isErr && len(want) > 12 && len(used) > 1 {
		ctx.Sample(map[string]any{"src": src, "args": argText(), "expected": want, "observed": o.String()})
	}
	// (b) the same as literals, optimizer on
	if c.literal {
		m := map[string]*vlang.Node{}
		for _, a := range used {
			p := c.binds[a]
			if p == nil {
				p = h.zero
			}
			m[a] = p.lit
		}
		lsrc := vlang.Render(subst(prog, m))
		ctx.Eval()
		ctx.Add("literal_optimizer_runs", 1)
		f, _, err := h.gOpt.Generate(lsrc)
		lo := run(genRes{f, err}, nil)
		if !h.agree(c, e, lo) {
			report("literal", lsrc, lo)
		}
	}
}

func runAll(ctx *bex.Ctx) {
	h := newHarness(ctx)
	p := newPools(h)
	h.singleSpace(p)
	if ctx.Expired() {
		return
	}
	h.longLists(p)
	h.chainSpaces(p)
}

// replay re-executes a recorded case on the implementation.
func replay(repro map[string]any) (string, bool) {
	src, _ := repro["src"].(string)
	mode, _ := repro["mode"].(string)
	expect, _ := repro["expect"].(string)
	gOpt, gNo := vrun.NewGen(true, nil), vrun.NewGen(false, nil)
	var o vrun.Outcome
	desc := ""
	if mode == "literal" {
		o = vrun.Run(gOpt, src, nil, nil)
		desc = fmt.Sprintf("value.New().Generate(%q).Eval()", src)
	} else {
		am, _ := repro["args"].(map[string]any)
		args := make([]value.Value, len(argNames))
		var shown []string
		for i, n := range argNames {
			args[i] = value.Int(0)
			if t, ok := am[n].(string); ok {
				f, _, err := gNo.Generate(t)
				if err != nil {
					return "cannot build argument " + n + ": " + err.Error(), true
				}
				v, err := f.Eval()
				if err != nil {
					return "cannot build argument " + n + ": " + err.Error(), true
				}
				args[i] = v
				shown = append(shown, n+"="+t)
			}
		}
		sort.Strings(shown)
		o = vrun.Run(gOpt, src, argNames, args)
		desc = fmt.Sprintf("value.New().Generate(%q, %s) evaluated with %s (other arguments 0)", src, strings.Join(argNames, ","), strings.Join(shown, ", "))
	}
	obs := o.String()
	fails := true
	if expect == "error" {
		fails = !o.Err
	} else if expect != "" && !o.Err && o.Canon == expect {
		fails = false
	}
	return desc + ": " + obs, fails
}

func main() {
	bex.Main(&bex.Check{
		ID:    "C07",
		Level: "exploration",
		Rule:  "cases = (built-in call or chain of built-in calls, receiver, argument values), enumerated exhaustively from fixed pools (see coverage.bounds); each is rendered to text, generated by value.New() with the receiver and the numeric/value arguments passed as function arguments (a subset again as literals with the optimizer on) and the forced result is compared with the reference library model (deep equality; permutation-without-inversion for order*/orderLess, unordered for groupBy*/unique*/map.list, number-kind-insensitive where the description leaves the kind open; error expected for misuse and failing callbacks). distinct_nontrivial = distinct (program text, argument values) whose reference outcome is a value (not an error, not excluded as unspecified)",
		Assumptions: []string{
			"the reference library internal/refsem/libfull.go is written from the SetMethodDescription/SetDescription texts and DESIGN.md Appendix B; for faults only ok-versus-error is compared",
			"the eager reference of the property is the oracle; a case whose eager outcome is an error but whose demand-driven outcome is a value (failing element outside the demanded part) is excluded, laziness is the subject of C08",
			"string forms: lists as \"[a, b]\", one-entry maps as \"{k:v}\" (the project's own tests pin this format); floats only where every formatting agrees (non-integral, <= 7 digits, no exponent)",
			"len() and indexOf() count bytes, cut() counts characters: only compared where both units agree (ASCII) resp. as documented in Appendix B (cut)",
			"groupByEqual returns the groups in first-occurrence order (Appendix B; pinned by the project's tests); all other group/unique/map orders are free",
			"cases listed under coverage.unspecified_excluded are not decided by this check",
			"random, randomConst, bisection, createLowPass, linearReg, createInterpolation are not modelled; binning, binning2d, collectBinning belong to C20",
		},
		QuickBudget: 55e9, ThoroughBudget: 24 * 60e9,
		Run:              runAll,
		Replay:           replay,
		CrashIsViolation: true,
		HangSeconds:      120,
		Extra:            extra,
	})
}
