package main

// The catalogue of built-ins is read from the library's own documentation tables, so that none is
// forgotten: every documented name is either exercised (counted per name in the evidence) or listed
// here as excluded with the reason.

import (
	"sort"
	"strings"

	"github.com/hneemann/parser2/value"
	"verif/internal/bex"
)

type docEntry struct {
	typ, name string
	arity     int
}

func documented() []docEntry {
	var out []docEntry
	for _, td := range value.New().GetDocumentation() {
		for _, f := range td.Functions {
			d := docEntry{typ: td.Name, name: f.Name}
			if f.Description != nil {
				d.arity = len(f.Description.Args)
			}
			if td.Name == "map" && f.Name == "isAvail" {
				continue // variadic: no wrong arity
			}
			out = append(out, d)
		}
	}
	return out
}

var excluded = map[string]string{
	"global.random":            "not deterministic",
	"global.randomConst":       "not deterministic",
	"global.bisection":         "numerical method, no exact model (outside the property's list)",
	"global.createLowPass":     "numerical filter helper, no exact model (map structure checked by C13)",
	"list.linearReg":           "numerics: no exact model",
	"list.createInterpolation": "numerics: no exact model",
	"list.binning":             "property C20",
	"list.binning2d":           "property C20",
	"list.collectBinning":      "property C20",
}

func extra(merged *bex.Result, cov map[string]any) {
	per := map[string]int64{}
	for k, v := range merged.Counters {
		if strings.HasPrefix(k, "b:") {
			per[k[2:]] = v
			delete(cov, k)
		}
	}
	cov["cases_per_builtin"] = per
	var modelled, unaccounted []string
	left := map[string]string{}
	for _, td := range value.New().GetDocumentation() {
		for _, f := range td.Functions {
			n := td.Name + "." + f.Name
			switch {
			case per[n] > 0:
				modelled = append(modelled, n)
			case excluded[n] != "":
				left[n] = excluded[n]
			default:
				unaccounted = append(unaccounted, n)
			}
		}
	}
	sort.Strings(modelled)
	cov["builtins_documented"] = len(modelled) + len(left) + len(unaccounted)
	cov["builtins_modelled"] = modelled
	cov["builtins_excluded"] = left
	cov["builtins_unaccounted"] = unaccounted
}
