package main

// Compositions: chains of built-in calls wherever the output sort of one fits the receiver of the next.

import (
	"fmt"
	"strings"
	"verif/internal/refsem"

	"verif/internal/vlang"
)

type step struct {
	builtin string
	label   string
	in, out sortT
	build   func(recv *vlang.Node) *vlang.Node
	cmp     cmpKind
	cb      *vlang.Node
	rev     bool
	core    bool // core steps appear at every position of every depth; the others at depth 2 and as the last step
}

func chainSteps() []step {
	var out []step
	e, x, y, z, l := V("e"), V("x"), V("y"), V("z"), V("l")
	k0, k1, k2, o, v, s, t := V("k0"), V("k1"), V("k2"), V("o"), V("v"), V("s"), V("t")
	one, two := vlang.I(1), vlang.I(2)
	add := func(core bool, builtin string, in, out_ sortT, build func(r *vlang.Node) *vlang.Node) *step {
		out = append(out, step{builtin: builtin, in: in, out: out_, build: build, core: core})
		st := &out[len(out)-1]
		st.label = vlang.Render(build(V("_")))
		return st
	}
	m := func(name string, args ...*vlang.Node) func(r *vlang.Node) *vlang.Node {
		return func(r *vlang.Node) *vlang.Node { return Me(r, name, args...) }
	}
	const C, X = true, false
	dbl := lam("e", Op("*", e, two))
	gt1 := lam("e", Op(">", e, one))
	id := lam("e", e)
	mod2 := lam("e", Op("%", e, two))
	plus := lam("xy", Op("+", x, y))
	plus3 := lam("xyz", Op("+", Op("+", x, y), z))
	lt := lam("xy", Op("<", x, y))
	failE := failIf("e", "e", e)

	// list -> list
	add(C, "list.map", sList, sList, m("map", dbl))
	add(C, "list.map", sList, sList, m("map", failE))
	add(X, "list.map", sList, sList, m("map", lam("e", vlang.ListN(e))))
	add(C, "list.accept", sList, sList, m("accept", gt1))
	add(X, "list.accept", sList, sList, m("accept", failIf("e", "e", Op(">", e, one))))
	add(C, "list.top", sList, sList, m("top", k1))
	add(X, "list.top", sList, sList, m("top", k2))
	add(C, "list.skip", sList, sList, m("skip", k1))
	add(X, "list.skip", sList, sList, m("skip", k2))
	add(C, "list.reverse", sList, sList, m("reverse"))
	add(C, "list.append", sList, sList, m("append", v))
	add(X, "list.set", sList, sList, m("set", k0, v))
	add(C, "list.combine", sList, sList, m("combine", plus))
	add(X, "list.combine", sList, sList, m("combine", lam("xy", vlang.ListN(x, y))))
	add(X, "list.combine3", sList, sList, m("combine3", plus3))
	add(C, "list.combineN", sList, sList, m("combineN", k2, lam("l", Me(l, "sum"))))
	add(X, "list.number", sList, sList, m("number", plus))
	add(C, "list.compact", sList, sList, m("compact", lam("xy", Op("=", x, y))))
	add(C, "list.cross", sList, sList, m("cross", o, plus))
	add(C, "list.merge", sList, sList, m("merge", o, lt))
	add(C, "list.iir", sList, sList, m("iir", id, plus))
	add(X, "list.iirCombine", sList, sList, m("iirCombine", id, plus3))
	add(X, "list.iirApply", sList, sList, m("iirApply", vlang.MapN([]string{"initial", "filter"}, id, plus3)))
	add(X, "list.fsm", sList, sList, func(r *vlang.Node) *vlang.Node {
		return Me(Me(r, "fsm", lam("xy", St("goto", Op("+", vlang.MemberN(x, "state"), y)))), "map", lam("e", vlang.MemberN(e, "state")))
	})
	add(C, "list.order", sList, sList, m("order", id)).sorted(id, false)
	add(X, "list.orderRev", sList, sList, m("orderRev", id)).sorted(id, true)
	add(X, "list.orderLess", sList, sList, m("orderLess", lt)).sorted(lt, false)
	add(X, "list.order", sList, sList, m("order", mod2)).sorted(mod2, false) // ties between different items
	byKey := lam("e", vlang.MemberN(e, "key"))
	add(X, "list.groupByInt", sList, sList, func(r *vlang.Node) *vlang.Node { return Me(Me(r, "groupByInt", mod2), "order", byKey) })
	add(X, "list.groupByInt", sList, sAny, m("groupByInt", mod2)).cmp = cmpMultiset
	add(X, "list.groupByString", sList, sList, func(r *vlang.Node) *vlang.Node {
		return Me(Me(r, "groupByString", lam("e", St("string", e))), "order", byKey)
	})
	add(X, "list.groupByString", sList, sAny, m("groupByString", lam("e", St("string", e)))).cmp = cmpMultiset
	add(X, "list.groupByEqual", sList, sList, m("groupByEqual", id))
	add(X, "list.uniqueInt", sList, sList, func(r *vlang.Node) *vlang.Node { return Me(Me(r, "uniqueInt", mod2), "order", id) })
	add(X, "list.uniqueInt", sList, sAny, m("uniqueInt", mod2)).cmp = cmpMultiset
	add(X, "list.uniqueString", sList, sList, func(r *vlang.Node) *vlang.Node {
		return Me(Me(r, "uniqueString", lam("e", St("string", e))), "order", id)
	})
	add(X, "list.uniqueString", sList, sAny, m("uniqueString", lam("e", St("string", e)))).cmp = cmpMultiset
	add(X, "list.movingWindow", sList, sList, m("movingWindow", dbl))
	add(X, "list.movingWindowRemove", sList, sList, m("movingWindowRemove", lam("l", Op(">", Me(l, "size"), two))))
	add(C, "list.eval", sList, sList, m("eval"))
	add(X, "list.replaceList", sList, sList, m("replaceList", lam("l", Me(l, "skip", one))))
	add(C, "list.+", sList, sList, func(r *vlang.Node) *vlang.Node { return Op("+", r, o) })
	// the original receiver once more: an earlier step that changed it in place shows up here
	add(X, "list.+", sList, sList, func(r *vlang.Node) *vlang.Node { return Op("+", r, V("r")) })
	// the value that flows through the chain in ARGUMENT position: some stages traverse their argument
	// list more than once (cross), or concurrently with the receiver (merge)
	add(X, "list.cross", sList, sList, func(r *vlang.Node) *vlang.Node { return Me(o, "cross", r, plus) })
	add(X, "list.merge", sList, sList, func(r *vlang.Node) *vlang.Node { return Me(o, "merge", r, lt) })
	add(X, "list.+", sList, sList, func(r *vlang.Node) *vlang.Node { return Op("+", o, r) })
	add(X, "list.=", sList, sBool, func(r *vlang.Node) *vlang.Node { return Op("=", o, r) })
	add(X, "list.~", sList, sBool, func(r *vlang.Node) *vlang.Node { return Op("~", o, r) })
	add(X, "list.cross", sList, sList, func(r *vlang.Node) *vlang.Node { return Me(r, "cross", r, plus) })
	add(X, "list.mapReduce", sList, sList, m("mapReduce", vlang.ListN(), lam("xy", Me(x, "append", y))))
	add(X, "list.map", sList, sList, m("map", lam("e", vlang.MemberN(e, "values"))))
	add(X, "list.map", sList, sList, m("map", lam("e", Me(e, "size"))))
	// list -> element / number
	add(C, "list.sum", sList, sNum, m("sum"))
	add(X, "list.mean", sList, sNum, m("mean"))
	add(X, "list.min", sList, sNum, m("min"))
	add(C, "list.max", sList, sNum, m("max"))
	add(C, "list.first", sList, sNum, m("first"))
	add(X, "list.last", sList, sNum, m("last"))
	add(X, "list.single", sList, sNum, m("single"))
	add(C, "list.size", sList, sNum, m("size"))
	add(C, "list.reduce", sList, sNum, m("reduce", plus))
	add(X, "list.reduce", sList, sNum, m("reduce", failIf("xy", "y", Op("+", x, y))))
	add(X, "list.mapReduce", sList, sNum, m("mapReduce", k0, plus))
	add(X, "list.visit", sList, sNum, m("visit", k0, plus))
	add(C, "list.indexWhere", sList, sNum, m("indexWhere", gt1))
	add(X, "list.[index]", sList, sNum, func(r *vlang.Node) *vlang.Node { return vlang.IndexN(r, k1) })
	add(X, "list.present", sList, sBool, m("present", gt1))
	add(X, "list.~", sList, sBool, func(r *vlang.Node) *vlang.Node { return Op("~", k1, r) })
	add(C, "list.string", sList, sStr, m("string"))
	add(X, "list.minMax", sList, sMap, m("minMax", id))
	add(X, "list.multiUse", sList, sMap, m("multiUse", vlang.MapN([]string{"a", "b"}, lam("l", Me(l, "size")), lam("l", Me(l, "map", dbl)))))
	// map ->
	add(C, "map.get", sMap, sNum, m("get", vlang.S("a")))
	add(X, "map.[member]", sMap, sNum, func(r *vlang.Node) *vlang.Node { return vlang.MemberN(r, "b") })
	add(X, "map.[member]", sMap, sNum, func(r *vlang.Node) *vlang.Node { return vlang.MemberN(r, "min") })
	add(X, "map.[member]", sMap, sList, func(r *vlang.Node) *vlang.Node { return vlang.MemberN(r, "c") })
	add(C, "map.size", sMap, sNum, m("size"))
	add(C, "map.list", sMap, sList, func(r *vlang.Node) *vlang.Node { return Me(Me(r, "list"), "order", byKey) })
	add(X, "map.list", sMap, sAny, m("list")).cmp = cmpMultiset
	add(C, "map.map", sMap, sMap, m("map", vlang.LamN([]string{"k", "v"}, vlang.ListN(V("k"), V("v")))))
	add(X, "map.accept", sMap, sMap, m("accept", vlang.LamN([]string{"k", "v"}, Op("=", V("k"), vlang.S("a")))))
	add(C, "map.put", sMap, sMap, m("put", vlang.S("zz"), v))
	add(X, "map.put", sMap, sMap, m("put", vlang.S("a"), v))
	add(C, "map.replace", sMap, sMap, m("replace", lam("m", vlang.MapN([]string{"a", "q"}, vlang.I(9), vlang.I(8)))))
	add(X, "map.replaceMap", sMap, sNum, m("replaceMap", lam("m", Me(V("m"), "size"))))
	add(X, "map.combine", sMap, sMap, func(r *vlang.Node) *vlang.Node { return Me(r, "combine", r, lam("xy", vlang.ListN(x, y))) })
	add(X, "map.string", sMap, sStr, m("string"))
	add(X, "map.isAvail", sMap, sBool, m("isAvail", vlang.S("a")))
	add(C, "map.eval", sMap, sMap, m("eval"))
	add(X, "map.+", sMap, sMap, func(r *vlang.Node) *vlang.Node { return Op("+", r, vlang.MapN([]string{"y"}, one)) })
	// string ->
	add(C, "string.len", sStr, sNum, m("len"))
	add(C, "string.trim", sStr, sStr, m("trim"))
	add(X, "string.toLower", sStr, sStr, m("toLower"))
	add(C, "string.toUpper", sStr, sStr, m("toUpper"))
	add(C, "string.split", sStr, sList, m("split", s))
	add(C, "string.cut", sStr, sStr, m("cut", k1, k2))
	add(X, "string.cut", sStr, sStr, m("cut", k0, k1))
	add(C, "string.replace", sStr, sStr, m("replace", s, t))
	add(X, "string.replace", sStr, sStr, m("replace", vlang.S("a"), vlang.S("")))
	add(X, "string.contains", sStr, sBool, m("contains", s))
	add(C, "string.indexOf", sStr, sNum, m("indexOf", s))
	add(C, "string.toInt", sStr, sNum, m("toInt"))
	add(X, "string.toFloat", sStr, sNum, m("toFloat"))
	add(X, "string.behind", sStr, sStr, m("behind", s))
	// number ->
	g := func(name string, args ...*vlang.Node) func(r *vlang.Node) *vlang.Node {
		return func(r *vlang.Node) *vlang.Node { return St(name, append([]*vlang.Node{r}, args...)...) }
	}
	add(C, "global.abs", sNum, sNum, g("abs"))
	add(X, "global.sqr", sNum, sNum, g("sqr"))
	add(X, "global.sign", sNum, sNum, g("sign")).cmp = cmpLoose
	add(X, "global.round", sNum, sNum, g("round")).cmp = cmpLoose
	add(X, "global.floor", sNum, sNum, g("floor")).cmp = cmpLoose
	add(X, "global.int", sNum, sNum, g("int"))
	add(X, "global.float", sNum, sNum, g("float"))
	add(X, "global.sqrt", sNum, sNum, g("sqrt"))
	add(X, "global.min", sNum, sNum, g("min", k1))
	add(C, "global.max", sNum, sNum, g("max", k1))
	add(C, "global.string", sNum, sStr, g("string"))
	add(C, "global.numbers", sNum, sList, g("numbers"))
	add(X, "global.isInt", sNum, sBool, g("isInt"))
	add(X, "global.goto", sNum, sMap, g("goto"))
	add(X, "int.string", sNum, sStr, m("string"))
	// bool ->
	add(C, "bool.string", sBool, sStr, m("string"))
	_ = t
	return out
}

func (s *step) sorted(cb *vlang.Node, rev bool) {
	s.cmp, s.cb, s.rev = cmpSorted, cb, rev
}

// longLists: every list step once on lists of 6000 items. Methods that call a closure in a Go loop
// on one value stack must not accumulate anything per call (seeded change S01E: a stack frame that is
// not released leaks slots until the stack guard fires after some 5000 calls).
func (h *harness) longLists(p *pools) {
	ctx := h.ctx
	ctx.Space("long-lists")
	const n = 6000
	dup := make([]refsem.Val, n)
	inc := make([]refsem.Val, n)
	for i := range dup {
		dup[i] = refsem.IntV(int64((i * 7) % 11))
		inc[i] = refsem.IntV(int64(i))
	}
	e := V("e")
	bigs := []*pv{
		h.via("long-dup", refsem.Eager(dup), Me(St("numbers", vlang.I(n)), "map", lam("e", Op("%", Op("*", e, vlang.I(7)), vlang.I(11))))),
		h.via("long-inc", refsem.Eager(inc), St("numbers", vlang.I(n))),
	}
	var idx int64
	steps := chainSteps()
	for i := range steps {
		st := &steps[i]
		if st.in != sList {
			continue
		}
		for bi, big := range bigs {
			// quadratic steps: only on the list with 11 distinct values, the self cross product not at all
			heavy := strings.Contains(st.label, "groupBy") || strings.Contains(st.label, "unique") || strings.Contains(st.label, "movingWindow") || strings.Contains(st.label, "compact")
			if strings.Contains(st.label, "_.cross(_") || strings.Contains(st.label, "+r") || (heavy && bi == 1) {
				continue
			}
			idx++
			if !ctx.Mine(idx) || ctx.Expired() {
				continue
			}
			binds := map[string]*pv{"r": big}
			for k, v := range p.chainBinds {
				binds[k] = v
			}
			h.check(&caseT{builtin: st.builtin, inner: V("r"), last: st.build, cmp: st.cmp, cb: st.cb, rev: st.rev, binds: binds, literal: false}, false)
		}
	}
	ctx.SpaceDone(fmt.Sprintf("every list step once on two lists of %d items (11 distinct values; strictly increasing), passed as arguments", n))
}

// chainSpaces enumerates the compositions: depth 2 with every step in both positions; depth >= 3 with
// core steps in the inner positions and every step in the last one.
func (h *harness) chainSpaces(p *pools) {
	ctx := h.ctx
	steps := chainSteps()
	type plan struct {
		depth int
		// which positions take every step (the others take the core steps only); the last always does
		firstAll, innerAll bool
		lists, strs, maps  []*pv
		lit                bool
	}
	third := func(in []*pv, offs ...int) []*pv { // one representation per content, rotating
		var out []*pv
		for i := 0; i < len(in); i += 3 {
			j := i + offs[(i/3)%len(offs)]
			if j < len(in) {
				out = append(out, in[j])
			}
		}
		return out
	}
	strs := []*pv{p.strings[0], p.strings[3], p.strings[4], p.strings[5], p.strings[6]}
	var plans []plan
	if ctx.Quick() {
		plans = []plan{
			{2, true, true, p.lists, p.strings, p.maps, true},
			{3, false, false, p.lists, strs, p.maps, false},
			{4, false, false, third(p.lists, 2, 0, 1)[3:9], strs[2:4], []*pv{p.maps[9]}, false},
		}
	} else {
		plans = []plan{
			{2, true, true, p.lists, p.strings, p.maps, true},
			{3, true, true, p.lists, p.strings, p.maps, true},
			{4, true, false, p.lists, strs, p.maps, false},
		}
	}
	for _, pl := range plans {
		if ctx.Expired() {
			return
		}
		ctx.Space(fmt.Sprintf("chains-of-%d", pl.depth))
		var idx int64
		seq := make([]*step, pl.depth)
		var rec func(d int, s sortT)
		rec = func(d int, s sortT) {
			if ctx.Expired() {
				return
			}
			for i := range steps {
				st := &steps[i]
				if st.in != s {
					continue
				}
				last := d == pl.depth-1
				if !last && st.out == sAny {
					continue
				}
				if !last && !st.core && !((d == 0 && pl.firstAll) || (d > 0 && pl.innerAll)) {
					continue
				}
				seq[d] = st
				if !last {
					rec(d+1, st.out)
					continue
				}
				idx++
				if !ctx.Mine(idx) {
					continue
				}
				var recvs []*pv
				switch seq[0].in {
				case sList:
					recvs = pl.lists
				case sStr:
					recvs = pl.strs
				case sMap:
					recvs = pl.maps
				}
				inner := V("r")
				for _, q := range seq[:pl.depth-1] {
					inner = q.build(inner)
				}
				for _, rc := range recvs {
					if ctx.Expired() {
						return
					}
					binds := map[string]*pv{"r": rc}
					for k, v := range p.chainBinds {
						binds[k] = v
					}
					h.check(&caseT{builtin: st.builtin, inner: inner, last: st.build, cmp: st.cmp, cb: st.cb, rev: st.rev, binds: binds, literal: pl.lit}, false)
				}
			}
		}
		for _, start := range []sortT{sList, sStr, sMap} {
			rec(0, start)
		}
		nCore, nAll := 0, len(steps)
		for _, s := range steps {
			if s.core {
				nCore++
			}
		}
		inner := fmt.Sprintf("every one of the %d steps in every position", nAll)
		switch {
		case pl.firstAll && pl.innerAll:
		case pl.firstAll:
			inner = fmt.Sprintf("every one of the %d steps in the first and the last position, the %d core steps between them", nAll, nCore)
		default:
			inner = fmt.Sprintf("the %d core steps in all positions but the last, every one of the %d steps in the last", nCore, nAll)
		}
		ctx.SpaceDone(fmt.Sprintf("every sort-correct chain of %d built-in calls: %s; %d list, %d string, %d map receivers; k0=0,k1=1,k2=2,f0=2,o=[0,2],v=7,s=\"X\",t=\"Y\" passed as arguments%s",
			pl.depth, inner, len(pl.lists), len(pl.strs), len(pl.maps), map[bool]string{true: "; each case again as literals with the optimizer on", false: ""}[pl.lit]))
	}
}
