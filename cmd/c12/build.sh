#!/usr/bin/env bash
set -eu
exec bin/buildcoop.sh c12 "${VERIF_OUT:-build/bin/c12}"
