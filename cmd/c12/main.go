// C12: Parse, Generate and evaluation leave no goroutine behind.
// Model checking on the implementation under the controlled scheduler: after the main vthread has
// returned from the call, the remaining vthreads are run to quiescence under EVERY schedule; a vthread
// that is still parked then (nobody can ever wake it) is a goroutine left behind, and a vthread that
// keeps executing visible operations in proportion to the unconsumed input is background work
// left behind.
package main

import (
	"fmt"
	"io"
	"log"
	"strings"

	"github.com/hneemann/parser2"
	"github.com/hneemann/parser2/funcGen"
	"github.com/hneemann/parser2/value"
	"verif/internal/bex"
	"verif/internal/vrun"
	"verif/vsched"
)

func newGen() *value.FunctionGenerator {
	g := value.New()
	g.AddStaticFunction("slow", funcGen.Function[value.Value]{
		Func: func(st funcGen.Stack[value.Value], cs []value.Value) (value.Value, error) {
			vsched.ClockAdvance(300)
			return st.Get(0), nil
		},
		Args: 1, IsPure: false,
	}.SetDescription("x", "identity with a virtual cost of 300us"))
	return g
}

// ---------------------------------------------------------------------------------------------
// (a) parser: every way parsing can stop before the end of input

// "²" is one character that the tokenizer turns into TWO tokens (^ 2); in comfort mode a number, an
// identifier or ")" followed by "(", a number or an identifier produces an extra "*" token: the
// tokenizer goroutine can be more than one token ahead of the parser when parsing stops.
var tokens = []string{"a", "1", "\"s\"", "+", "-", "(", ")", "[", "]", "{", "}", ",", ".", ":", ";", "->", "let", "if", "then", "else", "try", "catch", "=", "x", "²"}

func genericParser() *parser2.Parser[int] {
	return parser2.NewParser[int]().Op("+", "-", "*").Unary("-").
		SetKeyWords("let", "if", "then", "else", "try", "catch", "func", "switch", "case", "default").
		SetNumberParser(parser2.NumberParserFunc[int](func(n string) (int, error) { return len(n), nil })).
		SetStringConverter(parser2.StringConverterFunc[int](func(s string) int { return len(s) }))
}

// slowParallelStage: the pipeline has a map or accept stage whose function calls slow() — the stages that
// switch to worker goroutines (iterator.MapAuto / FilterAuto), which finding F12b is about.
func slowParallelStage(src string) bool {
	for _, m := range []string{".map(", ".accept("} {
		for at := 0; ; {
			i := strings.Index(src[at:], m)
			if i < 0 {
				break
			}
			start := at + i + len(m)
			depth, end := 1, start
			for ; end < len(src) && depth > 0; end++ {
				switch src[end] {
				case '(':
					depth++
				case ')':
					depth--
				}
			}
			if strings.Contains(src[start:end], "slow(") {
				return true
			}
			at = start
		}
	}
	return false
}

func classifyLeak(leaks, src string) string {
	parts := strings.Split(leaks, "; ")
	all := func(pred func(string) bool) bool {
		for _, p := range parts {
			if p != "" && !pred(p) {
				return false
			}
		}
		return true
	}
	switch {
	case all(func(p string) bool {
		return strings.Contains(p, "started at parser2.(*Tokenizer).Start") && strings.Contains(p, "parked forever in send")
	}):
		return "F12a-tokenizer-stranded"
	case all(func(p string) bool {
		// workers of a parallel map/accept blocked on the result channel and the goroutine that waits for them
		return strings.Contains(p, "started at iterator.initParallel") && (strings.Contains(p, "parked forever in send") || strings.Contains(p, "parked forever in wg.Wait"))
	}) && slowParallelStage(src):
		return "F12b-parallel-workers-stranded"
	}
	return ""
}

func runParser(ctx *bex.Ctx) {
	ctx.Space("parser-early-stop")
	maxLen := 4
	if !ctx.Quick() {
		maxLen = 5
	}
	g := newGen()
	gc := newGen()
	gc.SetComfort(true)
	gp := genericParser()
	idents := parser2.Identifiers[int](nil).Add("a").Add("x")
	var idx int64
	var rec func(prefix []string, depth int)
	check := func(src string) {
		idx++
		if !ctx.Mine(idx) || ctx.Expired() {
			return
		}
		for _, which := range []string{"generic", "value", "value-comfort"} {
			ctx.Eval()
			body := func() string {
				if which == "generic" {
					_, err := gp.Parse(src, idents)
					if err != nil {
						return "error"
					}
					return "ast"
				}
				gen := g
				if which == "value-comfort" {
					gen = gc
				}
				_, _, err := gen.Generate(src, "a", "x")
				if err != nil {
					return "error"
				}
				return "func"
			}
			st := vsched.Explore(vsched.Config{PreemptBound: -1, MaxExecs: 2000}, body)
			ctx.Add("states", int64(st.States))
			ctx.Add("transitions", int64(st.Transitions))
			ctx.Add("executions", int64(st.Execs))
			ctx.Add("traces_validated_against_impl", int64(st.Execs))
			for o := range st.Outcomes {
				ctx.Outcome("parse:" + which + ":" + o)
				if o == "error" {
					ctx.Nontrivial(which + "|" + src)
				}
			}
			repro := map[string]any{"kind": "parse", "parser": which, "src": src}
			if t := st.FirstDeadlock(); t != nil {
				ctx.Violate("deadlock in Parse", repro, "Parse returns", t.Leaks, "")
			}
			if t := st.FirstLeak(); t != nil {
				rp := copyMap(repro)
				rp["schedule"] = t.Choices
				ctx.Violate("goroutine left behind after Parse/Generate returned", rp, "every goroutine started by the call has terminated", t.Leaks, classifyLeak(t.Leaks, ""))
			}
			if t := st.FirstCrash(); t != nil {
				ctx.Violate("panic on the tokenizer goroutine", repro, "no panic", t.Crash, "")
			}
			if ctx.WantSample() && len(src) > 6 {
				ctx.Sample(map[string]any{"parse": src, "parser": which, "executions": st.Execs, "states": st.States, "outcomes": st.Outcomes})
			}
		}
	}
	rec = func(prefix []string, depth int) {
		if depth > 0 {
			check(strings.Join(prefix, " "))
		}
		if depth == maxLen {
			return
		}
		for _, t := range tokens {
			rec(append(prefix, t), depth+1)
		}
	}
	rec(nil, 0)
	// longer valid programs followed by trailing tokens / cut at every token
	progs := []string{"let x = a + 1 ; x * 2", "if a = 1 then a else [ 1 , 2 ] . size ( )", "try a . k catch x -> x", "{ k : 1 , j : ( a ) } . k", "a . map ( x -> x + 1 ) . sum ( )"}
	for _, p := range progs {
		toks := strings.Split(p, " ")
		for cut := 1; cut <= len(toks); cut++ {
			check(strings.Join(toks[:cut], " "))
			for _, extra := range []string{"a", ")", ";", "1 2 3 4"} {
				check(strings.Join(toks[:cut], " ") + " " + extra)
			}
		}
	}
	// tight spellings in which comfort mode makes more tokens than the input has characters (implicit
	// multiplications), behind a token at which parsing stops at once: the tokenizer is many tokens ahead
	for _, head := range []string{"k", ")", "1 2", "zz(", "a+"} {
		for _, body := range []string{"(2a+3b)(4c+5d)(6e+7f)", "2a3b4c5d6e7f8a9b2a3b", "(a)(b)(a)(b)(a)(b)(a)(b)", "2(3(4(5(6(7(8(9(a))))))))2a2a", "a²b²a²b²a²b²a²b²"} {
			check(head + body)
			check(head + body + body + body)
		}
	}
	ctx.SpaceDone(fmt.Sprintf("every sequence of <= %d tokens over a %d-token alphabet, 50 tight comfort-mode spellings with more tokens than characters behind a token at which parsing stops, 5 longer programs cut at every token and followed by trailing tokens; generic parser, value Generate and value Generate in comfort mode; all schedules", maxLen, len(tokens)))
}

// ---------------------------------------------------------------------------------------------
// (b) pipelines whose consumer stops early, and error paths

type pscenario struct {
	Src string
	N   int
	W   int
}

func pipelines(quick bool, emit func(pscenario)) {
	stops := []string{"%s.first()", "%s.top(1).size()", "%s.top(13).size()", "%s.top(14).size()", "%s.present(x->x>2)", "%s.present(x->x>25)", "%s.indexWhere(x->x>26)",
		"%s.single()", "27~%s", "3~%s", "%s=[5]", "[0,5]=%s", "%s=numbers(n+n).map(x->x+2)", "%s.size()", "%s.reduce((p,q)->p+q)", "%s.multiUse({a:l->l.first(),b:l->l.size()})", "%s.multiUse({a:l->l.first(),b:l->l.top(2).size()})"}
	srcs := []string{
		"numbers(n).map(x->slow(x)*2+1)",
		"numbers(n).accept(x->slow(x)%3!=1)",
		"numbers(n).map(x->(if x=12 then throw(\"e\") else slow(x))*2+1)",
		"numbers(n).map(x->(if x=5 then throw(\"e\") else slow(x))*2+1)",
		"numbers(n).map(x->slow(x)*2+1).skip(12)",
		"numbers(n).number((i,v)->i+v).map(x->slow(x)*2+1).number((i,v)->i+v)",
		"numbers(n).merge(numbers(n).map(x->x+1),(a,b)->a<b)",
		"numbers(n).map(x->x*2).merge(numbers(n).map(x->(if x=1 then throw(\"e\") else x)),(a,b)->a<b)",
		"numbers(n).map(x->slow(x)*2+1).merge(numbers(3),(a,b)->a<b)",
		// the other stages that call a function per element: they must stay on the consumer's goroutine
		"numbers(n).number((i,v)->slow(v)+i)",
		"numbers(n).combine((p,q)->slow(p)+q)",
		"numbers(n).compact((p,q)->slow(p)=q+100)",
		"numbers(n).cross([1],(x,y)->slow(x)+y)",
		"numbers(n).iir(x->slow(x),(x,l)->x+l)",
	}
	// every error path of the goroutine-starting operations: arguments rejected at every position of
	// the validation, consumers / comparators / stages that fail or return the wrong type
	misuse := []string{
		// a Go PANIC (not an error value) in a capture-free, impure function in front of the
		// goroutine-starting operation: it unwinds through the operation's own frames
		"numbers(n).map(x->slow(x)%(x-1)).multiUse({a:l->l.sum(),b:l->l.size()})",
		"numbers(n).accept(x->slow(x)%(x-1)>=0).multiUse({a:l->l.first(),b:l->l.size()})",
		"try numbers(n).map(x->slow(x)%(x-1)).multiUse({a:l->l.sum(),b:l->l.size()}) catch 0",
		"numbers(n).number((i,v)->slow(v)%(v-1)).multiUse({a:l->l.sum(),b:l->l.top(1).size()})",
		"numbers(n).map(x->slow(x)%(x-1)).merge(numbers(3),(a,b)->a<b).sum()",
		"numbers(3).merge(numbers(n).map(x->slow(x)%(x-1)),(a,b)->a<b).sum()",
		"numbers(n).multiUse({a:l->l.size(),b:3})",
		"numbers(n).multiUse({a:l->l.sum(),b:l->l.size(),c:(x,y)->x})",
		"numbers(n).multiUse({a:3,b:l->l.size()})",
		"numbers(n).multiUse({a:(x,y)->x,b:l->l.size()})",
		"numbers(n).multiUse({})",
		"numbers(n).multiUse(3)",
		"numbers(n).multiUse({a:l->l.size(),b:l->throw(\"e\")})",
		"numbers(n).multiUse({a:l->throw(\"e\"),b:l->l.size()})",
		"numbers(n).multiUse({a:l->l.first(),b:l->l.map(x->throw(\"e\")).sum()})",
		"numbers(n).multiUse({a:l->l.size(),b:l->l.size()+l.sum()})",
		"numbers(n).multiUse({a:l->l.size(),b:l->l.map(x->x)})",
		"numbers(n).map(x->if x=1 then throw(\"e\") else x).multiUse({a:l->l.size(),b:l->l.sum()})",
		"numbers(n).merge(3,(a,b)->a<b).size()",
		"numbers(n).merge(numbers(n),a->a).size()",
		"numbers(n).merge(numbers(n),(a,b)->a).size()",
		"numbers(n).merge(numbers(n),(a,b)->if a=1 then throw(\"e\") else a<b).size()",
		"numbers(n).merge(numbers(n).map(x->if x=1 then throw(\"e\") else x),(a,b)->a<b).size()",
		"numbers(n).merge(numbers(n),(a,b)->a<b).merge(3,(a,b)->a<b).size()",
		"numbers(n).map((x,y)->x).size()",
		"numbers(n).accept(x->x).size()",
	}
	for _, src := range misuse {
		for _, n := range []int{0, 1, 3} {
			emit(pscenario{Src: src, N: n, W: 2})
		}
	}
	for _, src := range []string{"numbers(n).map(x->slow(x)).accept(x->x).size()", "numbers(n).map(x->slow(x)).multiUse({a:l->l.size(),b:3})", "numbers(n).accept(x->if x<12 then slow(x)>=0 else x).size()"} {
		emit(pscenario{Src: src, N: 14, W: 2})
	}
	sizes := []int{13, 15}
	if !quick {
		sizes = []int{0, 1, 12, 13, 14, 15, 16}
	}
	for _, src := range srcs {
		for _, stop := range stops {
			for _, n := range sizes {
				if strings.Contains(src, ".merge(") && n > 4 && !strings.Contains(src, "slow") {
					n = n%4 + 1
				}
				emit(pscenario{Src: fmt.Sprintf(stop, src), N: n, W: 2})
			}
		}
	}
}

func classifyGrowth(sc pscenario) string {
	if strings.Contains(sc.Src, ".merge(") {
		return "F12c-tochan-producer-runs-on"
	}
	return ""
}

func runPipelines(ctx *bex.Ctx) {
	ctx.Space("pipelines-early-stop")
	g := newGen()
	generate := func(src string) (funcGen.Func[value.Value], error) {
		var f funcGen.Func[value.Value]
		var err error
		vsched.RunDefault(func() string { f, _, err = g.Generate(src, "n"); return "" })
		return f, err
	}
	maxExecs := 12000
	if !ctx.Quick() {
		maxExecs = 200000
	}
	var idx int64
	pipelines(ctx.Quick(), func(sc pscenario) {
		idx++
		if !ctx.Mine(idx) || ctx.Expired() {
			return
		}
		repro := map[string]any{"kind": "pipeline", "src": sc.Src, "n": sc.N, "w": sc.W}
		f, err := generate(sc.Src)
		if err != nil {
			ctx.Violate("scenario does not generate", repro, "a function", err.Error(), "")
			return
		}
		vsched.Workers = sc.W
		cfg := vsched.Config{PreemptBound: -1, MaxExecs: maxExecs, Stop: ctx.Expired}
		explore := func(n int) vsched.Stats {
			return vsched.Explore(cfg, func() string {
				o := vrun.Eval(f, []value.Value{value.Int(n)})
				if o.Err {
					return "ERR"
				}
				return o.Canon
			})
		}
		st := explore(sc.N)
		ctx.Eval()
		ctx.Add("states", int64(st.States))
		ctx.Add("transitions", int64(st.Transitions))
		ctx.Add("executions", int64(st.Execs))
		ctx.Add("traces_validated_against_impl", int64(st.Execs))
		ctx.Max("max_threads", int64(st.MaxThreads))
		if st.Capped {
			ctx.Add("scenarios_capped", 1)
		}
		if st.MaxThreads > 2 {
			ctx.Nontrivial(sc.Src + fmt.Sprint(sc.N))
		}
		ctx.Outcome(fmt.Sprintf("threads=%d/leak=%v", st.MaxThreads, st.LeakExecs > 0))
		if ctx.WantSample() && st.MaxThreads > 2 {
			ctx.Sample(map[string]any{"scenario": repro, "executions": st.Execs, "states": st.States, "vthreads": st.MaxThreads, "max_transitions_after_return": st.MaxAfterMain, "outcomes": st.Outcomes})
		}
		if t := st.FirstDeadlock(); t != nil {
			rp := copyMap(repro)
			rp["schedule"] = t.Choices
			ctx.Violate("deadlock: the evaluation never returns", rp, "evaluation returns", t.Leaks, "")
		}
		if t := st.FirstLeak(); t != nil {
			rp := copyMap(repro)
			rp["schedule"] = t.Choices
			ctx.Violate("goroutine left behind after the evaluation returned", rp, "every goroutine started by the call has terminated", t.Leaks, classifyLeak(t.Leaks, sc.Src))
		}
		if t := st.FirstCrash(); t != nil {
			ctx.Violate("panic on a library goroutine", repro, "no panic", t.Crash, "")
		}
		// second pass without state pruning under a preemption bound (history-key pruning is sound only
		// for communication through hooked operations, see DESIGN.md Corrections C-1)
		if !ctx.Expired() {
			pb := 2
			if !ctx.Quick() {
				pb = 3
			}
			full := cfg
			cfg = vsched.Config{PreemptBound: pb, NoPrune: true, MaxExecs: maxExecs / 6, Stop: ctx.Expired}
			su := explore(sc.N)
			cfg = full
			ctx.Add("executions_unpruned_pass", int64(su.Execs))
			ctx.Add("traces_validated_against_impl", int64(su.Execs))
			if su.Capped {
				ctx.Add("scenarios_capped_unpruned_pass", 1)
			}
			rp := copyMap(repro)
			rp["pass"] = fmt.Sprintf("no pruning, <= %d preemptions", pb)
			if t := su.FirstDeadlock(); t != nil {
				rp["schedule"] = t.Choices
				ctx.Violate("deadlock: the evaluation never returns", rp, "evaluation returns", t.Leaks, "")
			}
			if t := su.FirstLeak(); t != nil {
				rp["schedule"] = t.Choices
				ctx.Violate("goroutine left behind after the evaluation returned", rp, "every goroutine started by the call has terminated", t.Leaks, classifyLeak(t.Leaks, sc.Src))
			}
			if t := su.FirstCrash(); t != nil {
				ctx.Violate("panic on a library goroutine", rp, "no panic", t.Crash, "")
			}
		}
		// background work proportional to the unconsumed input: double the source, the number of
		// transitions executed after the call returned must not grow
		if st.MaxAfterMain > 0 && sc.N >= 2 && !st.Capped {
			st2 := explore(sc.N * 2)
			ctx.Add("executions", int64(st2.Execs))
			ctx.Add("transitions", int64(st2.Transitions))
			if !st2.Capped && st2.MaxAfterMain > st.MaxAfterMain+2 {
				rp := copyMap(repro)
				rp["n2"] = sc.N * 2
				ctx.Violate("background work after the call returned grows with the unconsumed input", rp,
					fmt.Sprintf("at most %d scheduler transitions after return (as for n=%d)", st.MaxAfterMain, sc.N),
					fmt.Sprintf("%d transitions after return for n=%d", st2.MaxAfterMain, sc.N*2), classifyGrowth(sc))
			}
		}
	})
	ctx.SpaceDone("29 misuse / error-path programs of multiUse, merge, map, accept (arguments rejected at every position of the validation, failing or wrongly typed consumers, comparators and stages) x sizes 0,1,3; 14 sources (parallel map/accept, failing elements in both phases, merge, number/combine/compact/cross/iir with a slow function) x 17 consumers (first, top, present, indexWhere, single, ~, = with lists, size, reduce, multiUse) x sizes around the switch to parallel execution; all schedules; W=2")
}

func copyMap(m map[string]any) map[string]any {
	o := map[string]any{}
	for k, v := range m {
		o[k] = v
	}
	return o
}

func replay(repro map[string]any) (string, bool) {
	log.SetOutput(io.Discard)
	g := newGen()
	var choices []int
	if l, ok := repro["schedule"].([]any); ok {
		for _, c := range l {
			choices = append(choices, int(c.(float64)))
		}
	}
	src := repro["src"].(string)
	var body func() string
	if repro["kind"] == "parse" {
		gp := genericParser()
		idents := parser2.Identifiers[int](nil).Add("a").Add("x")
		body = func() string {
			if repro["parser"] == "generic" {
				_, err := gp.Parse(src, idents)
				return fmt.Sprint(err)
			}
			if repro["parser"] == "value-comfort" {
				g.SetComfort(true)
			}
			_, _, err := g.Generate(src, "a", "x")
			return fmt.Sprint(err)
		}
	} else {
		var f funcGen.Func[value.Value]
		vsched.RunDefault(func() string { f, _, _ = g.Generate(src, "n"); return "" })
		vsched.Workers = int(repro["w"].(float64))
		n := int(repro["n"].(float64))
		body = func() string { return vrun.Eval(f, []value.Value{value.Int(n)}).String() }
	}
	res := vsched.Replay(choices, body)
	return fmt.Sprintf("result: %s\nvthreads still parked at quiescence: %v\ntransitions after return: %d\nschedule:\n  %s", res.Obs, res.Leaks, res.AfterMain, strings.Join(res.Trace, "\n  ")),
		len(res.Leaks) > 0 || res.Deadlock
}

func main() {
	bex.Main(&bex.Check{
		ID:    "C12",
		Level: "model_checking",
		Rule:  "each case is one Parse/Generate call or one evaluation of a list pipeline on the real code under the controlled scheduler; all interleavings are explored, and at every terminal state (no transition enabled) every vthread must have terminated; evaluations = cases, distinct_nontrivial = parses that stop with an error plus pipelines that start library goroutines",
		Assumptions: []string{"quiescence under the scheduler replaces the wall-clock grace period: a vthread parked when no transition is enabled can never be woken (its channels are referenced by no runnable goroutine)",
			"background CPU work is measured as scheduler transitions executed after the call returned, compared between source lengths n and 2n"},
		QuickBudget: 90e9, ThoroughBudget: 25 * 60e9,
		Run: func(ctx *bex.Ctx) {
			log.SetOutput(io.Discard)
			runParser(ctx)
			runPipelines(ctx)
		},
		Replay:           replay,
		CrashIsViolation: true, // a worker process that dies while it executes a case on the library is a verdict on that case
	})
}
