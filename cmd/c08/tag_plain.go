//go:build !coop

package main

const coopBuild = false
