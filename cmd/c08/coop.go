package main

// C08, second part: the controlled-scheduler ("coop") build.
//
// Scenario: numbers(n).number((i,x)->tick0(x)) -> ONE slow stage (map or accept whose closure tick1
// costs 300 us of virtual time, so MapAuto/FilterAuto hand the items to W = 2 worker goroutines from
// item 12 on) -> short-circuit consumer whose decisive element is the source element m, m in 10..15.
// tick0 counts what the parallel stage pulls from its input, tick1 the closure calls.
//
// Read-ahead of the channel hand-off, derived from iterator.go (MapAuto l.309-359, initParallel
// l.361-432): the feeding loop pulls an item and then offers it to the workers (`for item := range p`
// l.322, `select { case source <- …: case <-done: }` l.335-343): one item is held by the feeder; each of
// the W workers holds one item between `range source` (l.369) and `result <- …` (l.375): W items; the
// collector keeps every result that arrives out of order in a map without any limit (l.392, l.426).
// Because of that map there is NO bound that holds under every schedule: a worker that holds the
// decisive item m and is not scheduled lets the other worker run through the whole source (space
// "coop-all-schedules" reports the maximum it finds: the source length). The bound needed + W + 1 of the
// property is therefore checked under a stated timing assumption only (space "coop-timed"): every
// closure call takes the same time and communication takes none — tick1 waits for a virtual timer that
// fires when nothing else can happen, earliest closure start first. Under that assumption
//   closure calls  <= sequential demand + W        (the W items the workers hold when the collector stops)
//   input pulls    <= closure calls + 1            (the item the feeder holds)
// where the sequential demand is what the sequential evaluation (NumCPU = 1) of the same scenario is
// measured to call: needed, +1 when the consumer is a completely consumed top(k) (finding F08a), +1 for
// the copy loop of multiUse. For the consumers of the property that is <= needed + W + 1 closure calls
// (multiUse: needed + W + 2), and the maxima are the same for n = 30 and n = 10^11.

import (
	"fmt"
	"os"
	"strings"
	"time"

	"github.com/hneemann/parser2/funcGen"
	"github.com/hneemann/parser2/value"
	"verif/internal/bex"
	"verif/vsched"
)

const coopSource = `numbers(n).number((i,x)->tick0(x))`

type coopScenario struct {
	Stage string `json:"stage"`
	Cons  string `json:"consumer"`
	M     int    `json:"m"`
	N     int64  `json:"n"`
	Timed bool   `json:"timed"`
	W     int    `json:"w"`
}

func coopConsDefs() []*consDef {
	defs := consDefs()
	firstRes := func(in stream, k int, v int64) refResult {
		if len(in) <= k {
			return refResult{err: "first"}
		}
		return refResult{val: iv(in[k])}
	}
	defs = append(defs,
		&consDef{name: "skip(k).first", usesK: true, tmpl: func(r string) string { return r + ".skip(k).first()" },
			need: func(in stream, k int, v int64) int { return req(k+1, len(in)) }, result: firstRes, readAhead: 1},
		&consDef{name: "skip(k).single", usesK: true, tmpl: func(r string) string { return r + ".skip(k).single()" },
			need: func(in stream, k int, v int64) int { return req(k+2, len(in)) },
			result: func(in stream, k int, v int64) refResult {
				if len(in) != k+1 {
					return refResult{err: "single"}
				}
				return refResult{val: iv(in[k])}
			}, readAhead: 1})
	return defs
}

// coopCase is a scenario with everything derived from the model.
type coopCase struct {
	sc      coopScenario
	src     string
	k       int
	v       int64
	a       *analysis
	seqNeed int // closure calls of the sequential evaluation (needed, +1 for a completely consumed top)
}

func buildCoopCase(sc coopScenario) (*coopCase, string) {
	var stage *stageDef
	for _, d := range stageDefs() {
		if (sc.Stage == "map" && d.name == "map") || (sc.Stage == "accept" && d.name == "accept(%3!=1)") {
			stage = d
		}
	}
	cons := findCons(coopConsDefs(), sc.Cons)
	if stage == nil || cons == nil {
		return nil, "unknown stage or consumer"
	}
	n := int(sc.N)
	inf := sc.N > window
	if inf {
		n = window
	}
	in := sourceStream(n)
	out := stage.apply(in)
	// p: position in the stage's output of the source element m
	p := -1
	for i := range out {
		if stage.need(in, i+1) == sc.M+1 {
			p = i
		}
	}
	if p < 0 {
		return nil, "the stage does not deliver element m"
	}
	cc := &coopCase{sc: sc}
	switch {
	case cons.name == "first" || cons.name == "single":
		// decisive position fixed by the consumer (stops in the sequential phase): one scenario, m ignored
		if sc.M != 10 {
			return nil, "consumer without a parameter: enumerated once"
		}
	case cons.name == "skip(k).first":
		cc.k = p
	case cons.name == "skip(k).single":
		cc.k = p - 1
	case cons.usesK:
		cc.k = p + 1
	case cons.usesV:
		cc.v = out[p]
	}
	cc.a = analyse([]*stageDef{stage}, cons, cc.k, cc.v, int(sc.N), inf)
	if !cc.a.determined {
		return nil, "result not determined by a finite prefix"
	}
	cc.src = cons.tmpl(stage.tmpl(coopSource, "tick1"))
	// what the sequential evaluation really pulls: the needed prefix plus the read-ahead of a completely
	// consumed top(k) (finding F08a) and of the copy loop of multiUse
	cc.seqNeed = chainRequest([]*stageDef{stage}, cons, cc.a, cc.k, true, true)
	return cc, ""
}

func coopScenarios(quick bool, emit func(coopScenario)) {
	cons := []string{"first", "single", "skip(k).first", "skip(k).single", "top(k).size", "top(k).string", "present", "indexWhere", "v~list", "[v]~list", "multiUse{first,top(k).size}"}
	for _, timed := range []bool{true, false} {
		ns := []int64{30}
		ws := []int{2}
		if timed {
			ns = []int64{30, hugeN}
			if !quick {
				ws = []int{2, 3}
			}
		}
		for _, w := range ws {
			for _, stage := range []string{"map", "accept"} {
				for _, c := range cons {
					for m := 10; m <= 15; m++ {
						for _, n := range ns {
							emit(coopScenario{Stage: stage, Cons: c, M: m, N: n, Timed: timed, W: w})
						}
					}
				}
			}
		}
	}
}

// allSchedulesLimit: in space coop-all-schedules the number of interleavings grows with every item that is
// handed to the workers before the consumer stops (n = 30: 7 000 executions when the consumer stops at
// the first parallel item 12, 20 000 at item 13, 56 000 at item 14, more than 10^5 at 15). Scenarios are
// enumerated up to this last item of the sequential demand; multiUse (7 vthreads) is explored in the
// timed space only (all its interleavings on small sources are C06's family F).
func allSchedulesLimit(quick bool) int {
	if quick {
		return 12
	}
	return 14
}

type coopRunner struct {
	h *harness
	// per exploration
	minAtReturn [nCounters]int64
	maxEver     [nCounters]int64
	startSeq    int64
	timed       bool
}

func newCoopRunner() *coopRunner {
	r := &coopRunner{h: newHarness()}
	h := r.h
	h.generate = func(src string, args ...string) (funcGen.Func[value.Value], error) {
		var f funcGen.Func[value.Value]
		var err error
		vsched.RunDefault(func() string {
			f, _, err = h.g.Generate(src, args...)
			return ""
		})
		return f, err
	}
	// the slow closure: 300 us of virtual time per call
	h.onTick = func(i int, count int64) {
		if count > r.maxEver[i] {
			r.maxEver[i] = count
		}
		if i != 1 {
			return
		}
		if r.timed && vsched.Active() {
			// equal closure durations, instantaneous communication: the timer fires when nothing else can
			// happen, the closure that started first completes first
			seq := r.startSeq
			r.startSeq++
			vsched.NewTimerChan[struct{}](300 + seq).Recv()
		} else {
			vsched.ClockAdvance(300)
		}
	}
	return r
}

func (r *coopRunner) body(f funcGen.Func[value.Value], cc *coopCase) func() string {
	return func() string {
		r.startSeq = 0
		o := r.h.eval(f, cc.sc.N, -1, cc.v, int64(cc.k), noFail, false)
		for i := range o.ticks {
			if o.ticks[i] < r.minAtReturn[i] {
				r.minAtReturn[i] = o.ticks[i]
			}
		}
		if o.aborted {
			return "ABORTED " + o.res
		}
		return o.res
	}
}

func (r *coopRunner) clearStats() {
	for i := range r.minAtReturn {
		r.minAtReturn[i] = 1 << 40
		r.maxEver[i] = 0
	}
}

func runCoop(ctx *bex.Ctx) {
	r := newCoopRunner()
	maxExecs := 30000
	if !ctx.Quick() {
		maxExecs = 200000
	}
	type key struct {
		stage, cons string
		m, w        int
	}
	timedMax := map[key]map[int64][2]int64{}
	var idx, heavy, light int64
	space := ""
	coopScenarios(ctx.Quick(), func(sc coopScenario) {
		name := "coop-all-schedules"
		if sc.Timed {
			name = "coop-timed"
		}
		if name != space {
			if space != "" {
				ctx.SpaceDone(coopBound(space, ctx.Quick()))
			}
			space = name
			ctx.Space(name)
		}
		if only := os.Getenv("C08_ONLY"); only != "" && !strings.Contains(fmt.Sprintf("%s/%s/m=%d/timed=%v/n=%d", sc.Stage, sc.Cons, sc.M, sc.Timed, sc.N), only) {
			return // development aid: run a subset
		}
		cc, skipped := buildCoopCase(sc)
		if cc == nil {
			_ = skipped
			return
		}
		if !sc.Timed && (cc.seqNeed-1 > allSchedulesLimit(ctx.Quick()) || sc.Cons == "multiUse{first,top(k).size}") {
			return
		}
		// sharding: the two source lengths of a timed scenario go to the same shard (they are compared);
		// the expensive all-schedules scenarios (consumer stops in the parallel phase) are dealt out
		// separately from the cheap ones so that every shard gets its share
		var unit int64
		switch {
		case sc.Timed:
			idx++
			unit = (idx + 1) / 2
		case cc.seqNeed-1 >= 12:
			heavy++
			unit = heavy
		default:
			light++
			unit = light
		}
		if !ctx.Mine(unit) || ctx.Expired() {
			return
		}
		repro := map[string]any{"part": "coop", "stage": sc.Stage, "consumer": sc.Cons, "m": sc.M, "n": sc.N, "timed": sc.Timed, "w": sc.W, "src": cc.src, "k": cc.k, "v": cc.v}
		if !ctx.Begin(func() map[string]any { return repro }) {
			return
		}
		f, err := r.h.compile(cc.src)
		if err != nil {
			ctx.Violate("scenario does not generate (or runs closures during Generate)", repro, "a function", err.Error(), "")
			return
		}
		r.timed = sc.Timed
		// sequential reference: the library's own sequential fallback (NumCPU == 1)
		vsched.Workers = 1
		r.clearStats()
		ref := vsched.RunDefault(r.body(f, cc)).Obs
		seqTicks := r.maxEver
		vsched.Workers = sc.W
		r.clearStats()
		t0 := time.Now()
		st := vsched.Explore(vsched.Config{PreemptBound: -1, MaxExecs: maxExecs, Stop: ctx.Expired}, r.body(f, cc))
		ctx.Eval()
		if tf := os.Getenv("C08_TRACE"); tf != "" {
			if fh, err := os.OpenFile(fmt.Sprintf("%s.%d", tf, ctx.Shard), os.O_APPEND|os.O_CREATE|os.O_WRONLY, 0644); err == nil {
				fmt.Fprintf(fh, "%8.0fms execs=%-7d states=%-7d threads=%d capped=%v timed=%v %s/%s m=%d n=%d need=%d/%d seq=%d max=%v min=%v outcomes=%v\n", float64(time.Since(t0).Microseconds())/1000, st.Execs, st.States, st.MaxThreads, st.Capped,
					sc.Timed, sc.Stage, sc.Cons, sc.M, sc.N, cc.a.callsLo[0], cc.a.callsLo[1], cc.seqNeed, r.maxEver[:2], r.minAtReturn[:2], st.Outcomes)
				fh.Close()
			}
		}
		ctx.Add("states", int64(st.States))
		ctx.Add("transitions", int64(st.Transitions))
		ctx.Add("executions", int64(st.Execs))
		ctx.Add("traces_validated_against_impl", int64(st.Execs))
		ctx.Max("max_threads", int64(st.MaxThreads))
		ctx.Max("max_states_per_scenario", int64(st.States))
		if st.Capped {
			ctx.Add("scenarios_capped", 1)
		}
		if st.Diverged > 0 {
			ctx.Violate("REPLAY-DIVERGENCE while replaying a prefix", repro, "", fmt.Sprint(st.Diverged), "")
		}
		if st.MaxThreads > 2 {
			ctx.Nontrivial(fmt.Sprint(sc))
		}
		need0, need1 := int64(cc.a.callsLo[0]), int64(cc.a.callsLo[1])
		ra1 := r.maxEver[1] - need1
		if st.MaxThreads > 2 {
			ctx.Outcome(fmt.Sprintf("%s/parallel/max-closure-calls-beyond-sequential-demand=%d", name, r.maxEver[1]-seqTicks[1]))
		} else {
			ctx.Outcome(name + "/consumer-stops-in-the-sequential-phase")
		}
		if !sc.Timed {
			ctx.Max("max_closure_calls_beyond_needed_any_schedule", ra1)
		} else {
			ctx.Max("max_closure_calls_beyond_needed_timed", ra1)
			ctx.Max("max_input_pulls_beyond_needed_timed", r.maxEver[0]-need0)
		}
		if ctx.WantSample() && st.MaxThreads > 2 {
			ctx.Sample(map[string]any{"scenario": repro, "sequential_reference": ref, "executions": st.Execs, "states": st.States, "transitions": st.Transitions, "vthreads": st.MaxThreads,
				"needed_closure_calls": need1, "max_closure_calls_over_all_schedules": r.maxEver[1], "max_input_pulls_over_all_schedules": r.maxEver[0]})
		}
		// oracle 1: the sequential evaluation agrees with the model (result, needed calls)
		if ref != cc.a.res.String() {
			ctx.Violate("sequential result differs from the value the needed prefix determines", repro, cc.a.res.String(), ref, "")
		}
		// the sequential evaluation needs at least the needed prefix and at most what the read-ahead of a
		// completely consumed top(k) (finding F08a) and of the copy loop of multiUse add
		seq1 := seqTicks[1]
		if seq1 < int64(cc.a.callsLo[1]) || seq1 > int64(cc.seqNeed) {
			ctx.Violate("sequential evaluation: closure calls outside the demand model", repro, fmt.Sprintf("%d..%d", cc.a.callsLo[1], cc.seqNeed), fmt.Sprint(seqTicks), "")
		}
		// oracle 2: every schedule terminates with the sequential result
		for obs := range st.Outcomes {
			if obs != ref {
				rp := copyMap(repro)
				for _, t := range st.Terminals {
					if t.Obs == obs {
						rp["schedule"] = t.Choices
						break
					}
				}
				ctx.Violate("outcome under some schedule differs from the sequential result", rp, ref, obs, "")
			}
		}
		if t := st.FirstDeadlock(); t != nil {
			rp := copyMap(repro)
			rp["schedule"] = t.Choices
			ctx.Violate("deadlock: the evaluation never returns under this schedule", rp, "evaluation returns", t.Leaks, "")
		}
		if t := st.FirstCrash(); t != nil {
			rp := copyMap(repro)
			rp["schedule"] = t.Choices
			ctx.Violate("panic on a library goroutine", rp, "no panic", t.Crash, "")
		}
		// oracle 3: demand. Lower bound under every schedule: when the evaluation returns, the needed
		// elements have been evaluated.
		if r.minAtReturn[1] < need1 || r.minAtReturn[0] < need0 {
			ctx.Violate("fewer closure calls than the result needs under some schedule", repro, fmt.Sprintf("input pulls >= %d, closure calls >= %d", need0, need1), fmt.Sprint(r.minAtReturn), "")
		}
		finite := sc.N <= window
		if finite && (r.maxEver[1] > sc.N || r.maxEver[0] > sc.N) {
			ctx.Violate("more closure calls than the source has elements", repro, fmt.Sprint(sc.N), fmt.Sprint(r.maxEver), "")
		}
		if sc.Timed && !st.Capped {
			// upper bound under the timing assumption (see the head of this file)
			hi1 := seq1 + int64(sc.W)
			hi0 := hi1 + 1
			if finite {
				hi0, hi1 = min64(hi0, sc.N), min64(hi1, sc.N)
			}
			if r.maxEver[1] > hi1 || r.maxEver[0] > hi0 {
				ctx.Violate("parallel stage reads further ahead than the workers and the feeder can hold", repro,
					fmt.Sprintf("closure calls <= %d (sequential demand %d + W), input pulls <= %d", hi1, seq1, hi0), fmt.Sprintf("max over all timed schedules: input pulls %d, closure calls %d", r.maxEver[0], r.maxEver[1]), "")
			}
			// independence of the source length: same maxima for n = 30 and n = 10^11
			k := key{sc.Stage, sc.Cons, sc.M, sc.W}
			if timedMax[k] == nil {
				timedMax[k] = map[int64][2]int64{}
			}
			timedMax[k][sc.N] = [2]int64{r.maxEver[0], r.maxEver[1]}
			if a, ok := timedMax[k][30]; ok {
				if b, ok := timedMax[k][hugeN]; ok {
					// the finite source may cut the read-ahead short, never the other way round
					if b[0] > a[0] && a[0] < 30 || b[1] > a[1] && a[1] < 30 {
						ctx.Violate("read-ahead of the parallel stage depends on the source length", repro, fmt.Sprintf("n=30: %v", a), fmt.Sprintf("n=10^11: %v", b), "")
					}
					ctx.Add("timed_pairs_compared", 1)
				}
			}
		}
	})
	if space != "" {
		ctx.SpaceDone(coopBound(space, ctx.Quick()))
	}
}

func coopBound(space string, quick bool) string {
	if space == "coop-timed" {
		w := "W=2"
		if !quick {
			w = "W in {2,3}"
		}
		return "slow stage in {map, accept} x 11 consumers x decisive source element m in 10..15 x n in {30, 10^11}; " + w + "; all interleavings that respect the timing assumption (equal closure durations, instantaneous communication)"
	}
	return fmt.Sprintf("slow stage in {map, accept} x 10 consumers (no multiUse) x decisive source element m in 10..15 as far as the sequential evaluation stops at item <= %d; n=30; W=2; ALL interleavings (no preemption bound unless scenarios_capped > 0)", allSchedulesLimit(quick))
}

func min64(a, b int64) int64 {
	if a < b {
		return a
	}
	return b
}

func copyMap(m map[string]any) map[string]any {
	o := map[string]any{}
	for k, v := range m {
		o[k] = v
	}
	return o
}

func replayCoop(repro map[string]any) (string, bool) {
	if !coopBuild {
		return "coop scenarios are replayed with build/bin/c08-coop --replay <file>", false
	}
	sc := coopScenario{Stage: repro["stage"].(string), Cons: repro["consumer"].(string), M: int(repro["m"].(float64)), N: int64(repro["n"].(float64)),
		Timed: repro["timed"].(bool), W: int(repro["w"].(float64))}
	cc, skipped := buildCoopCase(sc)
	if cc == nil {
		return skipped, false
	}
	r := newCoopRunner()
	f, err := r.h.compile(cc.src)
	if err != nil {
		return err.Error(), true
	}
	r.timed = sc.Timed
	vsched.Workers = 1
	r.clearStats()
	ref := vsched.RunDefault(r.body(f, cc)).Obs
	var choices []int
	if l, ok := repro["schedule"].([]any); ok {
		for _, c := range l {
			choices = append(choices, int(c.(float64)))
		}
		vsched.Workers = sc.W
		r.clearStats()
		res := vsched.Replay(choices, r.body(f, cc))
		return fmt.Sprintf("sequential reference: %s\nobserved under the recorded schedule: %s (closure calls incl. after return: %v)\nleaks: %v\ncrashes: %v\nschedule (%d transitions):\n  %s",
			ref, res.Obs, r.maxEver, res.Leaks, res.Crashes, len(res.Trace), strings.Join(res.Trace, "\n  ")), res.Obs != ref || res.Deadlock || len(res.Crashes) > 0
	}
	seqTicks := r.maxEver
	vsched.Workers = sc.W
	r.clearStats()
	st := vsched.Explore(vsched.Config{PreemptBound: -1, MaxExecs: 1000000}, r.body(f, cc))
	// the oracles of the check, re-applied
	var bad []string
	if ref != cc.a.res.String() {
		bad = append(bad, fmt.Sprintf("sequential result %s differs from the value the needed prefix determines (%s)", ref, cc.a.res.String()))
	}
	if seqTicks[1] < int64(cc.a.callsLo[1]) || seqTicks[1] > int64(cc.seqNeed) {
		bad = append(bad, fmt.Sprintf("sequential evaluation: %d closure calls, demand model allows %d..%d", seqTicks[1], cc.a.callsLo[1], cc.seqNeed))
	}
	for obs := range st.Outcomes {
		if obs != ref {
			bad = append(bad, "outcome "+obs+" under some schedule differs from the sequential result")
		}
	}
	if st.FirstDeadlock() != nil || st.FirstCrash() != nil {
		bad = append(bad, "deadlock or panic under some schedule")
	}
	if r.minAtReturn[1] < int64(cc.a.callsLo[1]) || r.minAtReturn[0] < int64(cc.a.callsLo[0]) {
		bad = append(bad, "fewer closure calls than the result needs under some schedule")
	}
	if sc.Timed && !st.Capped {
		hi1 := seqTicks[1] + int64(sc.W)
		hi0 := hi1 + 1
		if sc.N <= window {
			hi0, hi1 = min64(hi0, sc.N), min64(hi1, sc.N)
		}
		if r.maxEver[1] > hi1 || r.maxEver[0] > hi0 {
			bad = append(bad, fmt.Sprintf("parallel stage reads further ahead (%v) than the workers and the feeder can hold (input pulls <= %d, closure calls <= %d)", r.maxEver[:2], hi0, hi1))
		}
	}
	return fmt.Sprintf("sequential reference %s with closure calls %v; %d executions, outcomes %v; needed input pulls/closure calls %d/%d, sequential demand allowed up to %d, max over schedules %v, min at return %v; violated: %v",
		ref, seqTicks[:2], st.Execs, st.Outcomes, cc.a.callsLo[0], cc.a.callsLo[1], cc.seqNeed, r.maxEver, r.minAtReturn, bad), len(bad) > 0
}
