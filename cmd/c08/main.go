// C08: laziness — short-circuit consumers demand only the prefix they need.
//
// Plain build (sequential mode), bounded-exhaustive: every pipeline source -> <= 2 (thorough: 3) lazy
// stages -> short-circuit consumer, the decisive element at every position k, a failing element at
// every position around the needed prefix, on finite sources and on numbers(10^11). Demand is measured
// by impure counting host functions tick0 (source closure), tick1..3 (stage closures), tickc (consumer
// predicate); the counter aborts the evaluation after 1000 calls. Oracle: the declarative demand model
// of model.go (transfer functions validated against brute force in space "model-validation").
//
// Coop build (controlled scheduler): the same consumers behind ONE slow map/accept stage that runs in
// parallel from item 12 on, W = 2, all schedules: see coop.go.
package main

import (
	"errors"
	"fmt"
	"io"
	"log"
	"os"
	"regexp"
	"sort"
	"strings"
	"sync/atomic"
	"time"

	"github.com/hneemann/parser2/funcGen"
	"github.com/hneemann/parser2/value"
	"verif/internal/bex"
)

const (
	nCounters = 5
	cCons     = 4 // counter of the consumer predicate
	tickLimit = 1000
	hugeN     = 100000000000
)

var tickNames = [nCounters]string{"tick0", "tick1", "tick2", "tick3", "tickc"}

// failSpec: the call number `call` (0-based) of the closure of `stage` fails (stage 0: the source
// element with that index throws; stages >= 1: the counting host function returns the error).
type failSpec struct{ stage, call int }

var noFail = failSpec{-1, -1}

type harness struct {
	g       *value.FunctionGenerator
	cnt     [nCounters]atomic.Int64
	total   atomic.Int64
	limit   int64
	fail    failSpec
	aborted bool
	// failed: the failing call was really made (and answered with the error)
	failed bool
	// onTick is called on every counted call (counter, new count): the coop part makes tick1 slow
	onTick func(i int, count int64)
	// gen is the generation of the running evaluation: every counting call passes the generation its
	// evaluation was started with (argument g), calls of an older evaluation (a goroutine that a
	// parallel stage left behind) are ignored and counted in stray
	gen, stray atomic.Int64
	stDefs     []*stageDef
	cache      map[string]funcGen.Func[value.Value]
	generate   func(src string, args ...string) (funcGen.Func[value.Value], error)
}

func newHarness() *harness {
	h := &harness{g: value.New(), fail: noFail, limit: tickLimit, cache: map[string]funcGen.Func[value.Value]{}}
	for i := range tickNames {
		i := i
		h.g.AddStaticFunction(tickNames[i], funcGen.Function[value.Value]{
			Func: func(st funcGen.Stack[value.Value], cs []value.Value) (value.Value, error) {
				if g, _ := st.Get(0).(value.Int); int64(g) != h.gen.Load() {
					h.stray.Add(1)
					return st.Get(1), nil
				}
				c := h.cnt[i].Add(1) - 1
				total := h.total.Add(1)
				if h.onTick != nil {
					h.onTick(i, c+1)
				}
				if total > 200*h.limit {
					// an evaluation that swallows the abort error and keeps calling closures: end the worker,
					// the driver reports the journaled case
					fmt.Fprintln(os.Stderr, "RUNAWAY: the evaluation keeps calling closures after the tick budget was exhausted")
					os.Exit(9)
				}
				if total > h.limit {
					h.aborted = true
					return nil, errors.New("tick budget exhausted")
				}
				if i == h.fail.stage && int(c) == h.fail.call {
					h.failed = true
					return nil, errors.New("boom")
				}
				return st.Get(1), nil
			},
			Args: 2, IsPure: false,
		}.SetDescription("g", "x", "impure counting identity (g: generation of the evaluation)"))
	}
	h.generate = func(src string, args ...string) (funcGen.Func[value.Value], error) {
		f, _, err := h.g.Generate(src, args...)
		return f, err
	}
	return h
}

func (h *harness) counts() (c [nCounters]int64) {
	for i := range h.cnt {
		c[i] = h.cnt[i].Load()
	}
	return c
}

func (h *harness) reset(fail failSpec) {
	h.gen.Add(1)
	for i := range h.cnt {
		h.cnt[i].Store(0)
	}
	h.total.Store(0)
	h.aborted = false
	h.failed = false
	h.fail = fail
}

type obs struct {
	res     string // "V:<canonical value>" or "E:<class>"
	msg     string
	ticks   [nCounters]int64
	aborted bool
	failed  bool // the failing element was evaluated
	wall    time.Duration
	lazy    *value.List // the unforced result when keepLazy was requested
}

var argNames = []string{"n", "j", "v", "k", "g"}

var tickCall = regexp.MustCompile(`tick([0-9c])\(`)

// withGen adds the generation argument to every counting call of a source text.
func withGen(src string) string { return tickCall.ReplaceAllString(src, "tick$1(g,") }

func (h *harness) compile(src string) (funcGen.Func[value.Value], error) {
	if f, ok := h.cache[src]; ok {
		return f, nil
	}
	h.reset(noFail)
	f, err := h.generate(withGen(src), argNames...)
	if err != nil {
		return nil, err
	}
	if h.total.Load() != 0 {
		return nil, fmt.Errorf("%d calls of the counting host functions during Generate", h.total.Load())
	}
	if len(h.cache) > 20000 {
		h.cache = map[string]funcGen.Func[value.Value]{}
	}
	h.cache[src] = f
	return f, nil
}

func errClass(msg string) string {
	switch {
	case strings.Contains(msg, "tick budget exhausted"):
		return "abort"
	case strings.Contains(msg, "boom"):
		return "boom"
	case strings.Contains(msg, "iterator timed out"):
		return "timeout" // text of the iterator dependency, pinned by the repository's own tests
	}
	// every other error is the library's own (first/single on a list of the wrong size, …): its wording
	// is not part of any property, only that it is an error and not the injected failure
	return "lib"
}

// canon renders a result without forcing anything but the value itself (lists are forced: only used
// for results that are meant to be forced).
func canon(v value.Value, st funcGen.Stack[value.Value]) (string, error) {
	switch x := v.(type) {
	case value.Int:
		return fmt.Sprintf("i%d", int64(x)), nil
	case value.Bool:
		return fmt.Sprint(bool(x)), nil
	case value.String:
		return fmt.Sprintf("s%q", string(x)), nil
	case *value.List:
		var p []string
		var ierr error
		x.Iterate(st)(func(e value.Value, err error) bool {
			if err != nil {
				ierr = err
				return false
			}
			s, err := canon(e, st)
			if err != nil {
				ierr = err
				return false
			}
			p = append(p, s)
			return true
		})
		if ierr != nil {
			return "", ierr
		}
		return "[" + strings.Join(p, ",") + "]", nil
	case value.Map:
		var p []string
		var ierr error
		x.Iter(func(k string, e value.Value) bool {
			s, err := canon(e, st)
			if err != nil {
				ierr = err
				return false
			}
			p = append(p, k+":"+s)
			return true
		})
		if ierr != nil {
			return "", ierr
		}
		sort.Strings(p)
		return "{" + strings.Join(p, ",") + "}", nil
	case nil:
		return "", errors.New("nil value")
	}
	return fmt.Sprintf("?%T", v), nil
}

// eval evaluates a compiled function; keepLazy: a list result is returned unforced.
func (h *harness) eval(f funcGen.Func[value.Value], n, j, v, k int64, fail failSpec, keepLazy bool) (o obs) {
	h.reset(fail)
	defer func() {
		if rec := recover(); rec != nil {
			o.res, o.msg = "E:panic", fmt.Sprint(rec)
		}
		o.ticks = h.counts()
		o.aborted = h.aborted
		o.failed = h.failed || (j >= 0 && o.ticks[0] > j)
	}()
	t0 := time.Now()
	r, err := f.Eval(value.Int(n), value.Int(j), value.Int(v), value.Int(k), value.Int(h.gen.Load()))
	if err == nil {
		if l, ok := r.(*value.List); ok && keepLazy {
			o.lazy = l
			o.res = "V:<list>"
		} else {
			var s string
			s, err = canon(r, funcGen.NewEmptyStack[value.Value]())
			o.res = "V:" + s
		}
	}
	o.wall = time.Since(t0)
	if err != nil {
		o.msg = err.Error()
		o.res = "E:" + errClass(o.msg)
	}
	return o
}

func (h *harness) evalSrc(src string, n, j, v, k int64, fail failSpec) obs {
	f, err := h.compile(src)
	if err != nil {
		return obs{res: "E:generate", msg: err.Error()}
	}
	return h.eval(f, n, j, v, k, fail, false)
}

// ---------------------------------------------------------------------------------------------
// pipelines

const sourceTmpl = `numbers(n).map(x->if tick0(x)=j then throw("boom") else x)`

// memSuffix materialises the source: the stages behind it work on a list that holds its items in memory
// (the fast paths of the list methods for such lists must be as lazy as the general ones).
const memSuffix = ".eval()"

func pipelineSrcMem(stages []*stageDef, mem bool) string {
	r := sourceTmpl
	if mem {
		r += memSuffix
	}
	for i, s := range stages {
		r = s.tmpl(r, tickNames[i+1])
	}
	return r
}

func pipelineSrc(stages []*stageDef) string {
	r := sourceTmpl
	for i, s := range stages {
		r = s.tmpl(r, tickNames[i+1])
	}
	return r
}

func stageNames(stages []*stageDef) []string {
	out := make([]string, len(stages))
	for i, s := range stages {
		out[i] = s.name
	}
	return out
}

func forEachPipeline(defs []*stageDef, maxStages int, emit func(stages []*stageDef)) {
	var rec func(cur []*stageDef, depth int)
	// simplest first: all pipelines with 0 stages, then 1, then 2 ...
	for n := 0; n <= maxStages; n++ {
		rec = func(cur []*stageDef, depth int) {
			if depth == n {
				emit(append([]*stageDef{}, cur...))
				return
			}
			for _, d := range defs {
				rec(append(cur, d), depth+1)
			}
		}
		rec(nil, 0)
	}
}

type caseID struct {
	Stages    []string `json:"stages"`
	Cons      string   `json:"consumer"`
	K         int      `json:"k"`
	Miss      bool     `json:"miss"`
	N         int      `json:"n"`
	Infinite  bool     `json:"infinite"`
	FailStage int      `json:"failStage"`
	FailCall  int      `json:"failCall"`
	// Mem: the source is materialised with eval() before the stages (finite sources without a failing
	// source element only); the source closure then runs for every element, the stages stay lazy
	Mem bool `json:"mem"`
	// Twice: the pipeline is bound to a local and the consumer runs on it twice in one evaluation; a lazy
	// list starts again from its source each time, so the second run must demand what the first did
	Twice bool `json:"twice"`
}

func (c caseID) repro(src string, v int64) map[string]any {
	n := int64(c.N)
	if c.Infinite {
		n = hugeN
	}
	return map[string]any{"part": "pipeline", "src": src, "n": n, "v": v, "k": c.K, "stages": c.Stages, "consumer": c.Cons, "miss": c.Miss, "mem": c.Mem, "twice": c.Twice,
		"infinite": c.Infinite, "failStage": c.FailStage, "failCall": c.FailCall}
}

func findStages(defs []*stageDef, names []string) []*stageDef {
	var out []*stageDef
	for _, n := range names {
		for _, d := range defs {
			if d.name == n {
				out = append(out, d)
			}
		}
	}
	return out
}

func findCons(defs []*consDef, name string) *consDef {
	for _, d := range defs {
		if d.name == name {
			return d
		}
	}
	return nil
}

const missValue = -999

// verdict of one executed case
type verdict struct {
	what, expected, got string
	// unspecified != "": not a violation, the case is only counted under this reason
	unspecified string
}

// checkCase executes one case and compares with the model; it returns nil when everything holds.
func (h *harness) checkCase(stDefs []*stageDef, cdefs []*consDef, c caseID) (vs []verdict, o obs, a *analysis, src string, v int64, skipped string) {
	stages := findStages(stDefs, c.Stages)
	cons := findCons(cdefs, c.Cons)
	src = caseSrc(stages, cons, c)
	// the value searched for: the element at position k of the consumer's input (or a value that is absent)
	pre := analyse(stages, cons, c.K, 0, c.N, c.Infinite)
	v = missValue
	if cons.usesV && !c.Miss {
		in := pre.streams[len(stages)]
		if c.K >= len(in) {
			return nil, o, nil, src, v, "no element at position k"
		}
		v = in[c.K]
	}
	a = analyse(stages, cons, c.K, v, c.N, c.Infinite)
	if !a.determined {
		return nil, o, a, src, v, "result not determined by a finite prefix of the infinite source"
	}
	if c.Mem {
		// eval() runs the source closure once per element, whatever is demanded behind it
		a.callsLo[0], a.callsHi[0] = c.N, c.N
	}
	if c.Twice && a.res.err == "" {
		for i := range a.callsLo {
			if a.callsLo[i] != unbounded {
				a.callsLo[i] *= 2
			}
			if a.callsHi[i] != unbounded {
				a.callsHi[i] *= 2
			}
		}
	}
	fail := failSpec{c.FailStage, c.FailCall}
	n, j := int64(c.N), int64(-1)
	if c.Infinite {
		n = hugeN
	}
	hostFail := noFail
	if fail.stage == 0 {
		j = int64(fail.call)
	} else if fail.stage > 0 {
		hostFail = fail
	}
	if c.Twice {
		// two complete runs of the consumer: twice the tick budget of one run
		h.limit = 2 * tickLimit
		defer func() { h.limit = tickLimit }()
	}
	f, err := h.compile(src)
	if err != nil {
		return []verdict{{what: "pipeline does not generate (or runs closures during Generate)", expected: "a function, zero ticks", got: err.Error()}}, o, a, src, v, ""
	}
	// sequential mode on the plain build: MapAuto/FilterAuto switch to goroutines when 11 items took
	// more than 2.2 ms of wall-clock time; an evaluation that took longer than that is repeated
	for attempt := 0; attempt < 10; attempt++ {
		o = h.eval(f, n, j, v, int64(c.K), hostFail, false)
		if o.wall < 2*time.Millisecond {
			break
		}
	}
	vs = compare(stages, cons, a, fail, o)
	return vs, o, a, src, v, ""
}

// caseSrc is the program of a case.
func caseSrc(stages []*stageDef, cons *consDef, c caseID) string {
	p := pipelineSrcMem(stages, c.Mem)
	if c.Twice {
		return "let l=" + p + "; let a=" + cons.tmpl("l") + "; let b=" + cons.tmpl("l") + "; if a=b then a else \"the second run of the consumer gives another result\""
	}
	return cons.tmpl(p)
}

func boundText(lo, hi int) string {
	h := fmt.Sprint(hi)
	if hi == unbounded {
		h = "unbounded"
	}
	return fmt.Sprintf("%d..%s", lo, h)
}

func compare(stages []*stageDef, cons *consDef, a *analysis, fail failSpec, o obs) (vs []verdict) {
	mustFail := false
	if fail.stage >= 0 {
		lo := a.callsLo[fail.stage]
		mustFail = lo == unbounded || fail.call < lo
	}
	want := a.res.String()
	if mustFail {
		want = "E:boom"
	}
	if o.aborted {
		vs = append(vs, verdict{what: "evaluation does not stop promptly: the counting host function aborted it after 1000 closure calls",
			expected: fmt.Sprintf("%s with source calls %s", want, boundText(a.callsLo[0], a.callsHi[0])), got: fmt.Sprintf("%s %s; closure calls %v", o.res, o.msg, o.ticks)})
		return vs
	}
	if o.res != want {
		what := "result differs from the value the needed prefix determines"
		switch {
		case mustFail:
			what = "error of a failing element inside the needed prefix does not surface"
		case o.res == "E:boom":
			what = "error of a failing element behind the needed prefix surfaces"
		}
		vs = append(vs, verdict{what: what, expected: want, got: o.res + " " + o.msg})
	}
	unspecDone := false
	for i := 0; i < nCounters; i++ {
		lo, hi := a.callsLo[i], a.callsHi[i]
		if mustFail {
			// evaluation stops at the failing call: upstream of it nothing more than in the clean run is
			// needed; the failing closure itself ran at least fail.call+1 times
			lo = 0
			if i == fail.stage {
				lo = fail.call + 1
			}
		}
		t := int(o.ticks[i])
		// multiUse after a failing element has been evaluated: its copy loop does not stop at an error
		// element, it runs on until it can offer the next element (and combine3/combineN/cross run their
		// closure once more on the element that failed, number does not count it): what is pulled after
		// the failure is outside the model
		if t > hi && cons.multiUse && o.failed {
			if unspecDone {
				continue
			}
			unspecDone = true
			vs = append(vs, verdict{unspecified: "multiUse after a failing element has been evaluated: the copy loop does not stop at the error element but when it offers the next one; the number of further closure calls is not specified (result, termination and lower bounds are still checked)"})
		} else if t > hi {
			vs = append(vs, verdict{what: fmt.Sprintf("%s: more closure calls than needed + read-ahead", tickNames[i]),
				expected: fmt.Sprintf("%s calls (needed %d; one element of read-ahead per stage)", boundText(lo, hi), a.callsLo[i]), got: fmt.Sprintf("%d calls; all counters %v", t, o.ticks)})
		}
		if t < lo && !o.aborted {
			vs = append(vs, verdict{what: fmt.Sprintf("%s: fewer closure calls than the result needs (demand model not met)", tickNames[i]),
				expected: fmt.Sprintf("%s calls", boundText(lo, hi)), got: fmt.Sprintf("%d calls; all counters %v", t, o.ticks)})
		}
	}
	return vs
}

// failSpecs enumerates the failing elements of a case: nowhere, and for the source and every stage
// closure (and the consumer predicate) every call number from 0 to needed+3.
func failSpecs(stages []*stageDef, cons *consDef, a *analysis) []failSpec {
	out := []failSpec{noFail}
	add := func(stage int) {
		lo := a.callsLo[stage]
		if lo == unbounded {
			return
		}
		for q := 0; q <= lo+3; q++ {
			out = append(out, failSpec{stage, q})
		}
	}
	add(0)
	for i, s := range stages {
		if s.closure {
			add(i + 1)
		}
	}
	if cons.predicate {
		add(cCons)
	}
	return out
}

// ---------------------------------------------------------------------------------------------

func finiteLengths(k int) []int {
	m := map[int]bool{}
	var out []int
	for _, n := range []int{0, 1, 2, 5, k + 5, 24} {
		if !m[n] {
			m[n] = true
			out = append(out, n)
		}
	}
	sort.Ints(out)
	return out
}

func runPlain(ctx *bex.Ctx) {
	stDefs := stageDefs()
	cdefs := consDefs()
	validateModel(ctx, stDefs, cdefs)

	h := newHarness()
	h.stDefs = stDefs
	maxStages := 2
	if !ctx.Quick() {
		maxStages = 3
	}
	// (1) pipelines with a short-circuit consumer
	ctx.Space("pipelines")
	var idx int64
	forEachPipeline(stDefs, maxStages, func(stages []*stageDef) {
		for _, cons := range cdefs {
			idx++
			if !ctx.Mine(idx) || ctx.Expired() {
				continue
			}
			h.pipelineCases(ctx, stDefs, cdefs, stages, cons)
		}
	})
	ctx.SpaceDone(fmt.Sprintf("source numbers(n).map(counting closure) -> every sequence of <= %d stages out of %d stage variants -> 9 consumers; decisive position k in 0..6 (+ absent value); n in {0,1,2,5,k+5,24,10^11}, the finite sources also materialised with eval() before the stages; failing call at every position 0..needed+3 of the source and of every stage closure and of the consumer predicate, or nowhere", maxStages, len(stDefs)))

	// (1b) the same pipelines consumed twice in one evaluation
	ctx.Space("consumed-twice")
	idx = 0
	forEachPipeline(stDefs, maxStages, func(stages []*stageDef) {
		for _, cons := range cdefs {
			idx++
			if !ctx.Mine(idx) || ctx.Expired() {
				continue
			}
			h.twiceCases(ctx, stDefs, cdefs, stages, cons)
		}
	})
	ctx.SpaceDone(fmt.Sprintf("`let l=<pipeline>; let a=<consumer on l>; let b=<consumer on l>; if a=b then a else ..`: every sequence of <= %d stages x consumers x k in 0..6 (+ absent value) x n in {0,1,2,5,k+5,24,10^11}, no failing element: the result of one run, every closure exactly within twice the bounds of one run", maxStages))

	// (2) pipelines that are built but not consumed
	ctx.Space("unconsumed")
	idx = 0
	forEachPipeline(stDefs, maxStages, func(stages []*stageDef) {
		idx++
		if !ctx.Mine(idx) || ctx.Expired() {
			return
		}
		h.unconsumedCases(ctx, stages)
	})
	ctx.SpaceDone(fmt.Sprintf("every sequence of <= %d stages: `let p=<pipeline>; 5`, `let p=<pipeline>; let q=p.top(3).skip(1).map(..); 5` and the unforced list as result, n in {5, 10^11}: zero closure calls; forcing top(2) of the returned list afterwards calls closures", maxStages))
}

func (h *harness) pipelineCases(ctx *bex.Ctx, stDefs []*stageDef, cdefs []*consDef, stages []*stageDef, cons *consDef) {
	ks := []int{0}
	if cons.usesK || cons.usesV {
		ks = []int{0, 1, 2, 3, 4, 5, 6}
	}
	type variant struct {
		k    int
		miss bool
	}
	var vars []variant
	for _, k := range ks {
		vars = append(vars, variant{k, false})
	}
	if cons.usesV {
		vars = append(vars, variant{0, true})
	}
	names := stageNames(stages)
	for _, vr := range vars {
		type srcSpec struct {
			n   int
			inf bool
		}
		var srcs []srcSpec
		for _, n := range finiteLengths(vr.k) {
			srcs = append(srcs, srcSpec{n, false})
		}
		srcs = append(srcs, srcSpec{0, true})
		for _, sp := range srcs {
			base := caseID{Stages: names, Cons: cons.name, K: vr.k, Miss: vr.miss, N: sp.n, Infinite: sp.inf, FailStage: -1, FailCall: -1}
			// the model of the clean run decides which failing calls are enumerated
			_, _, a, _, v, skipped := h.probeModel(stDefs, cdefs, base)
			if skipped != "" {
				if sp.inf {
					ctx.Add("infinite_source_cases_without_finite_demand", 1)
				}
				continue
			}
			for _, fs := range failSpecs(stages, cons, a) {
				if ctx.Expired() {
					return
				}
				for _, mem := range []bool{false, true} {
					if mem && (sp.inf || fs.stage == 0 || len(stages) == 0) {
						continue
					}
					c := base
					c.FailStage, c.FailCall, c.Mem = fs.stage, fs.call, mem
					var src string
					if !ctx.Begin(func() map[string]any { return c.repro(cons.tmpl(pipelineSrcMem(stages, mem)), v) }) {
						continue
					}
					vs, o, a, src, v, _ := h.checkCase(stDefs, cdefs, c)
					ctx.Eval()
					if mem {
						ctx.Add("cases_in_memory_source", 1)
					}
					h.account(ctx, c, cons, a, o, src, v)
					for _, vd := range vs {
						if vd.unspecified != "" {
							ctx.Unspecified(vd.unspecified)
							continue
						}
						fid := classify(stages, cons, a, c, o, vd)
						if fid != "" {
							ctx.Add("cases_"+fid, 1)
						}
						ctx.Violate(vd.what, c.repro(src, v), vd.expected, vd.got, fid)
					}
				}
			}
		}
	}
}

// twiceCases: the clean cases of pipelineCases with the consumer running twice on the same lazy list.
func (h *harness) twiceCases(ctx *bex.Ctx, stDefs []*stageDef, cdefs []*consDef, stages []*stageDef, cons *consDef) {
	ks := []int{0}
	if cons.usesK || cons.usesV {
		ks = []int{0, 1, 2, 3, 4, 5, 6}
	}
	names := stageNames(stages)
	for ki := 0; ki <= len(ks); ki++ {
		k, miss := 0, false
		if ki == len(ks) {
			if !cons.usesV {
				continue
			}
			miss = true
		} else {
			k = ks[ki]
		}
		for _, n := range append(finiteLengths(k), -1) {
			c := caseID{Stages: names, Cons: cons.name, K: k, Miss: miss, N: n, FailStage: -1, FailCall: -1, Twice: true}
			if n < 0 {
				c.N, c.Infinite = 0, true
			}
			if _, _, _, _, _, skipped := h.probeModel(stDefs, cdefs, c); skipped != "" {
				continue
			}
			if ctx.Expired() {
				return
			}
			if !ctx.Begin(func() map[string]any { return c.repro(caseSrc(stages, cons, c), 0) }) {
				continue
			}
			vs, o, a, src, v, _ := h.checkCase(stDefs, cdefs, c)
			ctx.Eval()
			if a.callsLo[0] > 0 && (c.Infinite || a.callsLo[0] < 2*c.N) {
				ctx.Nontrivial(fmt.Sprintf("twice|%s|%d|%d|%v|%v", src, c.K, c.N, c.Infinite, c.Miss))
			}
			ctx.Outcome(fmt.Sprintf("twice/source-calls-per-needed-element=%s", ratioText(int(o.ticks[0]), a.callsLo[0])))
			for _, vd := range vs {
				if vd.unspecified != "" {
					ctx.Unspecified(vd.unspecified)
					continue
				}
				fid := classify(stages, cons, a, c, o, vd)
				if fid != "" {
					ctx.Add("cases_"+fid, 1)
				}
				ctx.Violate(vd.what, c.repro(src, v), vd.expected, vd.got, fid)
			}
		}
	}
}

func ratioText(got, need int) string {
	switch {
	case need == 0 || need == unbounded:
		return "n/a"
	case got == need:
		return "exact"
	case got < need:
		return "fewer"
	}
	return "read-ahead"
}

// probeModel computes the model of a case without executing it.
func (h *harness) probeModel(stDefs []*stageDef, cdefs []*consDef, c caseID) (vs []verdict, o obs, a *analysis, src string, v int64, skipped string) {
	stages := findStages(stDefs, c.Stages)
	cons := findCons(cdefs, c.Cons)
	pre := analyse(stages, cons, c.K, 0, c.N, c.Infinite)
	v = missValue
	if cons.usesV && !c.Miss {
		in := pre.streams[len(stages)]
		if c.K >= len(in) {
			return nil, o, nil, "", v, "no element at position k"
		}
		v = in[c.K]
	}
	a = analyse(stages, cons, c.K, v, c.N, c.Infinite)
	if !a.determined {
		return nil, o, a, "", v, "result not determined by a finite prefix of the infinite source"
	}
	return nil, o, a, "", v, ""
}

func (h *harness) account(ctx *bex.Ctx, c caseID, cons *consDef, a *analysis, o obs, src string, v int64) {
	kind := "clean"
	if c.FailStage >= 0 {
		lo := a.callsLo[c.FailStage]
		switch {
		case c.FailCall < lo:
			kind = "fail-inside-needed"
		case c.FailCall < a.callsHi[c.FailStage]:
			kind = "fail-in-read-ahead-zone"
		default:
			kind = "fail-behind"
		}
	}
	srcKind := "finite"
	if c.Infinite {
		srcKind = "10^11"
	}
	// observed read-ahead at the source: elements evaluated beyond the needed prefix
	ra := "n/a"
	if kind != "fail-inside-needed" {
		d := int(o.ticks[0]) - a.callsLo[0]
		ra = fmt.Sprint(d)
		if d > 3 {
			ra = ">3"
		}
	}
	_ = srcKind
	if (kind == "clean" || kind == "fail-behind") && !o.aborted {
		// informational: where the implementation really reads ahead (a completely consumed top(n), the
		// copy loop of multiUse, nowhere else) the source demand is predicted exactly
		if pred := chainRequest(findStages(h.stDefs, c.Stages), cons, a, c.K, true, true); pred != unbounded {
			if int(o.ticks[0]) == pred {
				ctx.Add("source_calls_equal_exact_prediction", 1)
			} else {
				ctx.Add("source_calls_differ_from_exact_prediction", 1)
			}
		}
	}
	ctx.Outcome(fmt.Sprintf("pipeline/%s/source-elements-beyond-needed=%s", kind, ra))
	ctx.Add("cases_consumer_"+cons.name, 1)
	if c.Infinite {
		ctx.Add("cases_source_10^11", 1)
	}
	if a.callsLo[0] > 0 && (c.Infinite || a.callsLo[0] < c.N) {
		// non-trivial: something has to be evaluated and something has to be left unevaluated
		ctx.Nontrivial(fmt.Sprintf("%s|%d|%d|%v|%d|%v|%d|%d", src, c.K, c.N, c.Infinite, c.FailStage, c.Miss, c.FailCall, 0))
	}
	if ctx.WantSample() && len(c.Stages) == 2 && c.FailStage == 0 && c.K >= 2 && kind == "fail-behind" && c.Infinite && c.Stages[0] != c.Stages[1] && a.callsLo[2] > 0 {
		ctx.Sample(map[string]any{"case": c.repro(src, v), "model_needed_calls": a.callsLo, "model_allowed_calls": a.callsHi, "observed_calls": o.ticks, "result": o.res})
	}
}

// classify names the known-finding classifier that matches a failing case (narrow: phrased on the root
// cause, decided by the model, not by the symptom alone).
func classify(stages []*stageDef, cons *consDef, a *analysis, c caseID, o obs, vd verdict) string {
	if !o.aborted || !a.infinite || a.lo[0] == unbounded {
		return ""
	}
	if o.failed {
		// a failing element was evaluated: the elements behind it are not what the model computes (number
		// does not count the failed element, so every later value changes). Only multiUse goes on behind
		// an error element — same root cause as below: its copy loop notices that the consumers have
		// finished (here: reported the error) only when it offers them the next element, and a filter
		// that accepts none of the changed values never delivers one.
		hasFilter := false
		for _, s := range stages {
			if strings.HasPrefix(s.name, "accept") || s.name == "compact" {
				hasFilter = true
			}
		}
		if cons.multiUse && hasFilter {
			return "F08b-multiuse-copy-loop-reads-ahead-behind-filter"
		}
		return ""
	}
	// F08b: the copy loop of multiUse learns that all its consumers have stopped only when it offers
	// them the NEXT element, which it has pulled from its input before. Matches when that read-ahead
	// alone (no read-ahead of any top) already leaves the analysed prefix of the infinite source: a
	// filter upstream has no further element to deliver.
	if cons.multiUse && chainRequest(stages, cons, a, c.K, false, true) == unbounded {
		return "F08b-multiuse-copy-loop-reads-ahead-behind-filter"
	}
	// F08a: a top(c) that is consumed completely asks its input for element c+1 before it stops
	// (iterator.FirstN tests i == n only after pulling the next element). Matches when the demand chain
	// with exactly these read-aheads leaves the analysed prefix although the needed prefix is finite.
	if chainRequest(stages, cons, a, c.K, true, cons.multiUse) == unbounded {
		// F08c: what is left of F08a after its repair (aabc9d5): top(0) still asks for one item, because
		// a multiUse consumer l->l.top(0).size() has to iterate its list or multiUse reports a time-out.
		// Only the consumer can be a top(0) here (the top stages are top(2) and top(5)).
		if cons.exhaustsTop && c.K == 0 && chainRequest(stages, cons, a, c.K, false, cons.multiUse) != unbounded {
			return "F08c-top-zero-asks-for-one-item-behind-filter"
		}
		return "F08a-top-reads-ahead-behind-filter"
	}
	return ""
}

// chainRequest computes how many source elements are requested when read-ahead happens exactly where
// the implementation is known to read ahead: topRA — every completely consumed top(c) pulls element
// c+1; copyRA — multiUse pulls one element after its consumers have stopped. unbounded: the request
// is not satisfied within the analysed prefix of an infinite source.
func chainRequest(stages []*stageDef, cons *consDef, a *analysis, k int, topRA, copyRA bool) int {
	n := len(stages)
	in := a.streams[n]
	r := a.consNeed
	if cons.exhaustsTop && topRA {
		r = maxInt(r, req(k+1, len(in)))
	}
	if cons.multiUse && copyRA {
		r = minInt(r+1, len(in)+1)
	}
	for i := n; i >= 1; i-- {
		s := stages[i-1]
		up := a.streams[i-1]
		down := r
		r = s.need(up, down)
		if s.topN > 0 && topRA && down > s.topN {
			r = req(s.topN+1, len(up))
		}
	}
	if r > len(a.streams[0]) {
		if a.infinite {
			return unbounded
		}
		return len(a.streams[0])
	}
	return r
}

func (h *harness) unconsumedCases(ctx *bex.Ctx, stages []*stageDef) {
	p := pipelineSrc(stages)
	progs := []struct {
		name, src string
		lazy      bool
	}{
		{"let-unused", "let p=" + p + "; 5", false},
		{"let-unused-derived", "let p=" + p + "; let q=p.top(3).skip(1).map(x->tickc(x)); 5", false},
		{"returned-unforced", p, true},
	}
	for _, pr := range progs {
		for _, n := range []int64{5, hugeN} {
			repro := map[string]any{"part": "unconsumed", "src": pr.src, "n": n, "lazy": pr.lazy, "stages": stageNames(stages)}
			if !ctx.Begin(func() map[string]any { return repro }) {
				continue
			}
			f, err := h.compile(pr.src)
			ctx.Eval()
			if err != nil {
				ctx.Violate("pipeline does not generate (or runs closures during Generate)", repro, "a function, zero ticks", err.Error(), "")
				continue
			}
			o := h.eval(f, n, -1, 0, 0, noFail, pr.lazy)
			want := "V:i5"
			if pr.lazy {
				want = "V:<list>"
			}
			ctx.Outcome("unconsumed/" + pr.name + "/" + o.res + fmt.Sprintf("/closure-calls=%d", h.total.Load()))
			if o.res != want {
				ctx.Violate("building a pipeline without consuming it does not give the expected value", repro, want, o.res+" "+o.msg, "")
				continue
			}
			if o.ticks != [nCounters]int64{} {
				ctx.Violate("building a pipeline without consuming it evaluates element closures", repro, "zero closure calls", fmt.Sprint(o.ticks), "")
				continue
			}
			if pr.lazy && canForce(stages, n, 2) {
				// the returned list is really lazy: forcing two elements of it now runs closures
				before := h.total.Load()
				cnt := 0
				o.lazy.Iterate(funcGen.NewEmptyStack[value.Value]())(func(e value.Value, err error) bool {
					cnt++
					return err == nil && cnt < 2
				})
				if h.total.Load() > before {
					ctx.Nontrivial(pr.src + fmt.Sprint(n))
				}
				if h.aborted {
					ctx.Violate("forcing two elements of a returned lazy list does not stop", repro, "a few closure calls", fmt.Sprint(h.counts()), "")
				}
			}
		}
	}
}

// canForce: the model says that the first d elements of the pipeline's output exist and are determined
// by a finite prefix of the source.
func canForce(stages []*stageDef, n int64, d int) bool {
	probe := &consDef{name: "force", need: func(in stream, k int, v int64) int { return req(k, len(in)) },
		result: func(in stream, k int, v int64) refResult { return refResult{} }}
	a := analyse(stages, probe, d, 0, int(minInt(int(minInt64(n, 1<<20)), 1<<20)), n > window)
	return a.determined && a.lo[0] != unbounded && len(a.streams[len(stages)]) >= d && a.lo[len(stages)] == d
}

func minInt64(a, b int64) int64 {
	if a < b {
		return a
	}
	return b
}

// ---------------------------------------------------------------------------------------------
// validation of the transfer functions against brute force

func testStreams() []stream {
	var out []stream
	for n := 0; n <= 9; n++ {
		out = append(out, sourceStream(n))
	}
	out = append(out,
		stream{1, 3, 5, 7, 9, 11, 13},
		stream{0, 0, 1, 1, 2, 2, 3, 3},
		stream{4, 1, 7, 2, 2, 9, 0, 5, 5, 3},
		stream{1, 4, 7, 10, 2, 3},
		stream{6, 7, 8, 1, 2, 9},
		stream{100, 101, 0, 1, 2},
	)
	return out
}

func validateModel(ctx *bex.Ctx, stDefs []*stageDef, cdefs []*consDef) {
	ctx.Space("model-validation")
	var idx int64
	// (a) every stage in isolation
	for _, s := range stDefs {
		for _, in := range testStreams() {
			idx++
			if !ctx.Mine(idx) {
				continue
			}
			out := s.apply(in)
			for d := 0; d <= len(out)+2; d++ {
				ctx.Eval()
				got := s.need(in, d)
				want := bruteNeed(in, func(x stream) string { return viewOf(s.apply(x), d) })
				ctx.Outcome("model/stage-transfer")
				if got != want {
					ctx.Violate("MODEL: transfer function of a stage differs from brute force", map[string]any{"part": "model", "stage": s.name, "in": fmt.Sprint(in), "d": d},
						fmt.Sprintf("brute force: the first %d outputs are determined by %d inputs", d, want), fmt.Sprintf("model: %d", got), "")
				}
			}
		}
	}
	// (b) every consumer in isolation
	for _, c := range cdefs {
		for _, in := range testStreams() {
			idx++
			if !ctx.Mine(idx) {
				continue
			}
			for k := 0; k <= 7; k++ {
				vals := []int64{missValue}
				if c.usesV {
					vals = append(vals, in...)
				}
				for _, v := range vals {
					ctx.Eval()
					got := c.need(in, k, v)
					want := bruteNeed(in, func(x stream) string { return c.result(x, k, v).String() }, v)
					ctx.Outcome("model/consumer-need")
					if got != want {
						ctx.Violate("MODEL: demand of a consumer differs from brute force", map[string]any{"part": "model", "consumer": c.name, "in": fmt.Sprint(in), "k": k, "v": v},
							fmt.Sprintf("brute force: result determined by %d inputs", want), fmt.Sprintf("model: %d", got), "")
					}
				}
				if !c.usesK && !c.usesV {
					break
				}
			}
		}
	}
	// (c) composition: on whole pipelines the composed demand is never below the brute-force minimum
	// (a composition of minimal transfers may exceed the joint minimum when a stage's outputs cannot
	// take the values another stage's predicate distinguishes: counted, not an error)
	forEachPipeline(stDefs, 2, func(stages []*stageDef) {
		for _, c := range cdefs {
			idx++
			if !ctx.Mine(idx) {
				continue
			}
			for _, n := range []int{3, 9} {
				for _, k := range []int{1, 3} {
					src := sourceStream(n)
					pre := analyse(stages, c, k, 0, n, false)
					v := int64(missValue)
					if in := pre.streams[len(stages)]; c.usesV && k < len(in) {
						v = in[k]
					}
					a := analyse(stages, c, k, v, n, false)
					model := a.lo[0]
					if model == n && a.streams != nil {
						// the model may need the end: recompute the unclamped request
						model = unclampedSourceNeed(stages, c, k, v, src)
					}
					ctx.Eval()
					want := bruteNeed(src, func(x stream) string {
						for _, s := range stages {
							x = s.apply(x)
						}
						return c.result(x, k, v).String()
					})
					switch {
					case model < want:
						ctx.Violate("MODEL: composed demand is below the brute-force minimum (lower bound would be unsound)", map[string]any{"part": "model", "stages": stageNames(stages), "consumer": c.name, "n": n, "k": k, "v": v},
							fmt.Sprintf("brute force: %d", want), fmt.Sprintf("model: %d", model), "")
					case model == want:
						ctx.Outcome("model/composition-minimal")
					default:
						ctx.Outcome("model/composition-above-joint-minimum")
					}
				}
			}
		}
	})
	ctx.SpaceDone("transfer function of each of the stage variants x 16 input streams x every d; demand of each consumer x streams x k x v; composed demand of every <=2-stage pipeline x consumer x n in {3,9} x k in {1,3} against brute-force prefix stability over a family of 32 continuations")
}

func unclampedSourceNeed(stages []*stageDef, c *consDef, k int, v int64, src stream) int {
	streams := []stream{src}
	for _, s := range stages {
		streams = append(streams, s.apply(streams[len(streams)-1]))
	}
	r := c.need(streams[len(stages)], k, v)
	for i := len(stages); i >= 1; i-- {
		r = stages[i-1].need(streams[i-1], r)
	}
	return r
}

// ---------------------------------------------------------------------------------------------

func replay(repro map[string]any) (string, bool) {
	log.SetOutput(io.Discard)
	part, _ := repro["part"].(string)
	switch part {
	case "pipeline":
		var names []string
		for _, s := range repro["stages"].([]any) {
			names = append(names, s.(string))
		}
		c := caseID{Stages: names, Cons: repro["consumer"].(string), K: int(repro["k"].(float64)), Miss: repro["miss"].(bool),
			Infinite: repro["infinite"].(bool), FailStage: int(repro["failStage"].(float64)), FailCall: int(repro["failCall"].(float64))}
		if !c.Infinite {
			c.N = int(repro["n"].(float64))
		}
		c.Mem, _ = repro["mem"].(bool)
		c.Twice, _ = repro["twice"].(bool)
		h := newHarness()
		vs, o, a, src, v, skipped := h.checkCase(stageDefs(), consDefs(), c)
		if skipped != "" {
			return skipped, false
		}
		var sb strings.Builder
		fmt.Fprintf(&sb, "%s with n=%v v=%d k=%d fail=%d/%d\n  result %s %s\n  closure calls %v (tick0 source, tick1..3 stages, tickc consumer predicate)\n  model: needed %v allowed %v expected result %s",
			src, repro["n"], v, c.K, c.FailStage, c.FailCall, o.res, o.msg, o.ticks, a.callsLo, a.callsHi, a.res)
		fails := false
		for _, vd := range vs {
			if vd.unspecified != "" {
				continue
			}
			fails = true
			fmt.Fprintf(&sb, "\n  VIOLATED: %s (expected %s, got %s)", vd.what, vd.expected, vd.got)
		}
		return sb.String(), fails
	case "unconsumed":
		h := newHarness()
		src := repro["src"].(string)
		f, err := h.compile(src)
		if err != nil {
			return err.Error(), true
		}
		lazy, _ := repro["lazy"].(bool)
		o := h.eval(f, int64(repro["n"].(float64)), -1, 0, 0, noFail, lazy)
		return fmt.Sprintf("%s -> %s, closure calls %v", src, o.res, o.ticks), o.ticks != [nCounters]int64{}
	case "coop":
		return replayCoop(repro)
	}
	return "model cases are pure functions of the check itself", true
}

func main() {
	if src := os.Getenv("C08_PROBE"); src != "" {
		probeMain(src)
		return
	}
	bex.Main(&bex.Check{
		ID:    "C08",
		Level: "exploration",
		Rule:  "every enumerated pipeline is generated once (in the generated text every counting call tickN(x) is tickN(g,x): g is the generation of the evaluation, calls of an older generation are ignored) and evaluated on the real code for every (k, source length, failing call); closure calls are counted per stage by impure host functions and compared with the bounds of the declarative demand model (needed <= calls <= allowed), the result with the eager reference on the needed prefix: a failing call inside the needed prefix must surface, one behind it (read-ahead zone included) must not. distinct_nontrivial = executed cases in which at least one source element has to be evaluated and at least one must stay unevaluated, plus unconsumed pipelines whose later forcing does call closures, plus coop scenarios with library goroutines. Coop spaces: evaluations = scenarios, each explored over all interleavings (coop-timed: all that respect the timing assumption)",
		Assumptions: []string{
			"read-ahead allowance as in DESIGN.md Appendix B: every stage (and the consumer; multiUse counts as consumer + copy stage) may request one element more than the demand model says; the bounds compose through the transfer functions. Informational counter source_calls_equal_exact_prediction: with read-ahead only at a completely consumed top(n) and at the copy loop of multiUse the source demand is predicted exactly",
			"an 'infinite' source is numbers(10^11); its demand is analysed on the first 40 elements, a demand not satisfied there counts as unbounded and the case is excluded (counter infinite_source_cases_without_finite_demand)",
			"sequential mode on the plain build: an evaluation that took more than 2 ms of wall-clock time (MapAuto could have measured > 200 us per item and started goroutines) is repeated, up to 10 times",
			"the eager reference and the transfer functions are the check's own (model.go); the transfer functions are validated against brute-force prefix stability over a family of 32 continuations (space model-validation)",
			"coop part: scheduler shim and virtual time as in C06. coop-all-schedules makes no timing assumption and asserts no read-ahead bound (none exists: the collector buffers out-of-order results without limit); coop-timed assumes equal closure durations and instantaneous communication (tick1 waits for a virtual timer that fires when nothing else can happen, earliest closure start first) and asserts closure calls <= sequential demand + W, input pulls <= closure calls + 1",
		},
		QuickBudget: 60e9, ThoroughBudget: 25 * 60e9,
		CrashIsViolation: true,
		HangSeconds:      900,
		CoopWorkers:      6,
		Workers:          10,
		Run: func(ctx *bex.Ctx) {
			log.SetOutput(io.Discard)
			if ctx.Coop {
				runCoop(ctx)
			} else {
				runPlain(ctx)
			}
		},
		Replay: replay,
	})
}
