package main

import (
	"fmt"
	"os"
	"strconv"
)

// probeMain is a development aid: C08_PROBE='<expression over n,j,v,k>' [C08_N, C08_J, C08_V, C08_K]
// evaluates one expression on the plain build and prints the result and the tick counters.
func probeMain(src string) {
	geti := func(name string, d int64) int64 {
		if s := os.Getenv(name); s != "" {
			v, _ := strconv.ParseInt(s, 10, 64)
			return v
		}
		return d
	}
	h := newHarness()
	ob := h.evalSrc(src, geti("C08_N", 10), geti("C08_J", -1), geti("C08_V", 0), geti("C08_K", 0), noFail)
	fmt.Printf("%s\n  -> %s  ticks=%v\n", src, ob.res, ob.ticks)
}
