#!/usr/bin/env bash
set -eu
out="${VERIF_OUT:-build/bin/c08}"
go build -tags verif -overlay "$VERIF_OVERLAY" -o "$out" ./cmd/c08
bin/buildcoop.sh c08 "$out-coop"
