package main

// The declarative demand model of C08 and its eager reference semantics (DESIGN.md Appendix B).
//
// A pipeline is source -> stages -> consumer over integer elements. Every stage has
//   apply : the eager meaning of the stage on a finite input (Appendix B),
//   need  : the transfer function of the demand model: how many input elements have to be REQUESTED so
//           that the first d output elements (or, if there are fewer, all of them and the end) are
//           determined; len(in)+1 means "the end of the input has to be seen",
//   calls : how often the stage's closure runs when u inputs were pulled and o outputs requested.
// need is not trusted: space "model-validation" compares it with a brute-force search for the smallest
// input prefix on which the eager result is stable under every continuation of a test family.

import (
	"fmt"
	"strings"
)

type stream = []int64

type stageDef struct {
	name    string
	tmpl    func(recv, tick string) string
	apply   func(in stream) stream
	need    func(in stream, d int) int
	calls   func(in stream, u, o int) int
	closure bool
	// topN > 0: a top(c) stage; it reads one element ahead when more than c outputs are requested
	topN int
}

// req: d elements are requested from a stream of length n.
func req(d, n int) int {
	if d <= n {
		return d
	}
	return n + 1
}

func perInput(in stream, u, o int) int { return u }
func noCalls(in stream, u, o int) int  { return 0 }
func minus(k int) func(in stream, u, o int) int {
	return func(in stream, u, o int) int {
		if u-k < 0 {
			return 0
		}
		return u - k
	}
}

func mapNeed(in stream, d int) int { return req(d, len(in)) }

func filterNeed(keep func(in stream) []int) func(in stream, d int) int {
	return func(in stream, d int) int {
		if d == 0 {
			return 0
		}
		k := keep(in)
		if d <= len(k) {
			return k[d-1] + 1
		}
		return len(in) + 1
	}
}

func pick(in stream, idx []int) stream {
	out := make(stream, 0, len(idx))
	for _, i := range idx {
		out = append(out, in[i])
	}
	return out
}

func acceptIdx(p func(int64) bool) func(in stream) []int {
	return func(in stream) []int {
		var k []int
		for i, x := range in {
			if p(x) {
				k = append(k, i)
			}
		}
		return k
	}
}

func compactIdx(in stream) []int {
	var k []int
	var last int64
	for i, x := range in {
		if i == 0 || (last>>1) != (x>>1) {
			k = append(k, i)
			last = x
		}
	}
	return k
}

func windowNeed(w int) func(in stream, d int) int {
	return func(in stream, d int) int {
		if d == 0 {
			return 0
		}
		return req(d+w-1, len(in))
	}
}

func windowApply(w int, f func(win stream) int64) func(in stream) stream {
	return func(in stream) stream {
		var out stream
		for i := 0; i+w <= len(in); i++ {
			out = append(out, f(in[i:i+w]))
		}
		return out
	}
}

var plusLit = stream{100, 101}

func stageDefs() []*stageDef {
	mod := func(x int64) bool { return x%3 != 1 }
	lt := func(x int64) bool { return x < 5 }
	filter := func(name, pred string, p func(int64) bool) *stageDef {
		idx := acceptIdx(p)
		return &stageDef{name: name, closure: true,
			tmpl:  func(r, t string) string { return fmt.Sprintf("%s.accept(x->%s(x)%s)", r, t, pred) },
			apply: func(in stream) stream { return pick(in, idx(in)) },
			need:  filterNeed(idx), calls: perInput}
	}
	top := func(c int) *stageDef {
		return &stageDef{name: fmt.Sprintf("top(%d)", c), topN: c,
			tmpl: func(r, t string) string { return fmt.Sprintf("%s.top(%d)", r, c) },
			apply: func(in stream) stream {
				if len(in) > c {
					return in[:c]
				}
				return in
			},
			need: func(in stream, d int) int {
				if d > c {
					d = c
				}
				return req(d, len(in))
			}, calls: noCalls}
	}
	skip := func(c int) *stageDef {
		return &stageDef{name: fmt.Sprintf("skip(%d)", c),
			tmpl: func(r, t string) string { return fmt.Sprintf("%s.skip(%d)", r, c) },
			apply: func(in stream) stream {
				if len(in) > c {
					return in[c:]
				}
				return nil
			},
			need: func(in stream, d int) int {
				if d == 0 {
					return 0
				}
				return req(d+c, len(in))
			}, calls: noCalls}
	}
	return []*stageDef{
		{name: "map", closure: true,
			tmpl: func(r, t string) string { return fmt.Sprintf("%s.map(x->%s(x)*2+1)", r, t) },
			apply: func(in stream) stream {
				out := make(stream, len(in))
				for i, x := range in {
					out[i] = x*2 + 1
				}
				return out
			}, need: mapNeed, calls: perInput},
		filter("accept(%3!=1)", "%3!=1", mod),
		filter("accept(<5)", "<5", lt),
		skip(2),
		top(2),
		top(5),
		{name: "combine", closure: true,
			tmpl:  func(r, t string) string { return fmt.Sprintf("%s.combine((a,b)->%s(a)*3+b)", r, t) },
			apply: windowApply(2, func(w stream) int64 { return w[0]*3 + w[1] }), need: windowNeed(2), calls: minus(1)},
		{name: "combine3", closure: true,
			tmpl:  func(r, t string) string { return fmt.Sprintf("%s.combine3((a,b,c)->%s(a)*5+b*3+c)", r, t) },
			apply: windowApply(3, func(w stream) int64 { return w[0]*5 + w[1]*3 + w[2] }), need: windowNeed(3), calls: minus(2)},
		{name: "combineN(3)", closure: true,
			tmpl:  func(r, t string) string { return fmt.Sprintf("%s.combineN(3,w->%s(w[0])*7+w[1]*3+w[2])", r, t) },
			apply: windowApply(3, func(w stream) int64 { return w[0]*7 + w[1]*3 + w[2] }), need: windowNeed(3), calls: minus(2)},
		{name: "combineN(1)", closure: true,
			tmpl:  func(r, t string) string { return fmt.Sprintf("%s.combineN(1,w->%s(w[0])+4)", r, t) },
			apply: windowApply(1, func(w stream) int64 { return w[0] + 4 }), need: windowNeed(1), calls: minus(0)},
		{name: "iir", closure: true,
			tmpl: func(r, t string) string { return fmt.Sprintf("%s.iir(x->%s(x)+1,(x,l)->%s(x)+l*2)", r, t, t) },
			apply: func(in stream) stream {
				out := make(stream, len(in))
				for i, x := range in {
					if i == 0 {
						out[i] = x + 1
					} else {
						out[i] = x + out[i-1]*2
					}
				}
				return out
			}, need: mapNeed, calls: perInput},
		{name: "iirCombine", closure: true,
			tmpl: func(r, t string) string {
				return fmt.Sprintf("%s.iirCombine(x->%s(x)+2,(a,b,l)->a+%s(b)*2+l*3)", r, t, t)
			},
			apply: func(in stream) stream {
				out := make(stream, len(in))
				for i, x := range in {
					if i == 0 {
						out[i] = x + 2
					} else {
						out[i] = in[i-1] + x*2 + out[i-1]*3
					}
				}
				return out
			}, need: mapNeed, calls: perInput},
		{name: "number", closure: true,
			tmpl: func(r, t string) string { return fmt.Sprintf("%s.number((i,v)->i*1000+%s(v))", r, t) },
			apply: func(in stream) stream {
				out := make(stream, len(in))
				for i, x := range in {
					out[i] = int64(i)*1000 + x
				}
				return out
			}, need: mapNeed, calls: perInput},
		{name: "compact", closure: true,
			tmpl:  func(r, t string) string { return fmt.Sprintf("%s.compact((a,b)->(%s(a)>>1)=(b>>1))", r, t) },
			apply: func(in stream) stream { return pick(in, compactIdx(in)) },
			need:  filterNeed(compactIdx), calls: minus(1)},
		{name: "+lit", closure: true,
			tmpl:  func(r, t string) string { return fmt.Sprintf("(%s+[100,101].map(x->%s(x)))", r, t) },
			apply: func(in stream) stream { return append(append(stream{}, in...), plusLit...) },
			need:  func(in stream, d int) int { return req(d, len(in)) },
			calls: func(in stream, u, o int) int {
				c := o - len(in)
				if c < 0 {
					c = 0
				}
				if c > len(plusLit) {
					c = len(plusLit)
				}
				return c
			}},
		{name: "lit+", closure: true,
			tmpl:  func(r, t string) string { return fmt.Sprintf("([100,101].map(x->%s(x))+%s)", t, r) },
			apply: func(in stream) stream { return append(append(stream{}, plusLit...), in...) },
			need: func(in stream, d int) int {
				if d <= len(plusLit) {
					return 0
				}
				return req(d-len(plusLit), len(in))
			},
			calls: func(in stream, u, o int) int {
				if o > len(plusLit) {
					return len(plusLit)
				}
				return o
			}},
		{name: "cross", closure: true,
			tmpl: func(r, t string) string { return fmt.Sprintf("%s.cross([10,20],(a,b)->%s(a)*100+b)", r, t) },
			apply: func(in stream) stream {
				var out stream
				for _, x := range in {
					out = append(out, x*100+10, x*100+20)
				}
				return out
			},
			need: func(in stream, d int) int { return req((d+1)/2, len(in)) },
			calls: func(in stream, u, o int) int {
				if o > 2*u {
					return 2 * u
				}
				return o
			}},
		{name: "fsm", closure: true,
			tmpl: func(r, t string) string {
				return fmt.Sprintf("%s.fsm((s,x)->{state:s.state+%s(x)}).map(m->m.state)", r, t)
			},
			apply: func(in stream) stream {
				out := make(stream, len(in))
				var s int64
				for i, x := range in {
					s += x
					out[i] = s
				}
				return out
			}, need: mapNeed, calls: perInput},
	}
}

// ---------------------------------------------------------------------------------------------
// consumers

// result of the eager reference: a canonical value text or an error class
type refResult struct {
	val string // canonical text when err == ""
	err string // "first" | "single" | "boom"
}

func (r refResult) String() string {
	if r.err != "" {
		if r.err == "first" || r.err == "single" {
			return "E:lib" // a library error; which wording it has is not compared (see errClass)
		}
		return "E:" + r.err
	}
	return "V:" + r.val
}

type consDef struct {
	name string
	tmpl func(recv string) string
	// usesK: top(k); usesV: searches for the value v
	usesK, usesV bool
	// need: elements requested from the input (len+1: the end has to be seen); result: eager meaning
	need   func(in stream, k int, v int64) int
	result func(in stream, k int, v int64) refResult
	// readAhead: how many elements beyond need the consumer may request (Appendix B: one per stage)
	readAhead int
	// predicate: the consumer calls a closure (tickc) once per inspected element
	predicate bool
	// exhaustsTop: the consumer contains top(k) and consumes all of it
	exhaustsTop bool
	multiUse    bool
}

func firstHit(in stream, v int64) int {
	for i, x := range in {
		if x == v {
			return i
		}
	}
	return -1
}

func searchNeed(in stream, k int, v int64) int {
	if h := firstHit(in, v); h >= 0 {
		return h + 1
	}
	return len(in) + 1
}

func iv(x int64) string { return fmt.Sprintf("i%d", x) }

func minInt(a, b int) int {
	if a < b {
		return a
	}
	return b
}

func maxInt(a, b int) int {
	if a > b {
		return a
	}
	return b
}

func consDefs() []*consDef {
	firstRes := func(in stream, k int, v int64) refResult {
		if len(in) == 0 {
			return refResult{err: "first"}
		}
		return refResult{val: iv(in[0])}
	}
	return []*consDef{
		{name: "first", tmpl: func(r string) string { return r + ".first()" },
			need: func(in stream, k int, v int64) int { return req(1, len(in)) }, result: firstRes, readAhead: 1},
		{name: "single", tmpl: func(r string) string { return r + ".single()" },
			need: func(in stream, k int, v int64) int { return req(2, len(in)) },
			result: func(in stream, k int, v int64) refResult {
				if len(in) != 1 {
					return refResult{err: "single"}
				}
				return refResult{val: iv(in[0])}
			}, readAhead: 1},
		{name: "top(k).size", usesK: true, exhaustsTop: true, tmpl: func(r string) string { return r + ".top(k).size()" },
			need:   func(in stream, k int, v int64) int { return req(k, len(in)) },
			result: func(in stream, k int, v int64) refResult { return refResult{val: iv(int64(minInt(k, len(in))))} }, readAhead: 1},
		{name: "top(k).string", usesK: true, exhaustsTop: true, tmpl: func(r string) string { return r + ".top(k).string()" },
			need: func(in stream, k int, v int64) int { return req(k, len(in)) },
			result: func(in stream, k int, v int64) refResult {
				var p []string
				for _, x := range in[:minInt(k, len(in))] {
					p = append(p, fmt.Sprint(x))
				}
				return refResult{val: fmt.Sprintf("s%q", "["+strings.Join(p, ", ")+"]")}
			}, readAhead: 1},
		{name: "present", usesV: true, predicate: true, tmpl: func(r string) string { return r + ".present(x->tickc(x)=v)" },
			need: searchNeed,
			result: func(in stream, k int, v int64) refResult {
				return refResult{val: fmt.Sprint(firstHit(in, v) >= 0)}
			}, readAhead: 1},
		{name: "indexWhere", usesV: true, predicate: true, tmpl: func(r string) string { return r + ".indexWhere(x->tickc(x)=v)" },
			need:   searchNeed,
			result: func(in stream, k int, v int64) refResult { return refResult{val: iv(int64(firstHit(in, v)))} }, readAhead: 1},
		{name: "v~list", usesV: true, tmpl: func(r string) string { return "(v~" + r + ")" },
			need: searchNeed,
			result: func(in stream, k int, v int64) refResult {
				return refResult{val: fmt.Sprint(firstHit(in, v) >= 0)}
			}, readAhead: 1},
		// the list-in-list form of ~ is a different code path (containsAllItems): it must stop at the
		// element that matches the last missing needle
		{name: "[v]~list", usesV: true, tmpl: func(r string) string { return "([v]~" + r + ")" },
			need: searchNeed,
			result: func(in stream, k int, v int64) refResult {
				return refResult{val: fmt.Sprint(firstHit(in, v) >= 0)}
			}, readAhead: 1},
		// the copy loop of multiUse is a stage of its own: it may read one element ahead of its consumers
		{name: "multiUse{first,top(k).size}", usesK: true, exhaustsTop: true, multiUse: true,
			tmpl: func(r string) string { return r + ".multiUse({a:l->l.first(),b:l->l.top(k).size()})" },
			need: func(in stream, k int, v int64) int { return maxInt(req(1, len(in)), req(k, len(in))) },
			result: func(in stream, k int, v int64) refResult {
				if len(in) == 0 {
					return refResult{err: "first"}
				}
				return refResult{val: fmt.Sprintf("{a:%s,b:%s}", iv(in[0]), iv(int64(minInt(k, len(in)))))}
			}, readAhead: 2},
	}
}

// ---------------------------------------------------------------------------------------------
// demand analysis of one pipeline instance

const unbounded = 1 << 30

// window is the length of the prefix of an "infinite" source (numbers(10^11)) on which the reference
// streams are computed; a demand that is not satisfied inside the window counts as unbounded.
const window = 40

type analysis struct {
	streams []stream // streams[0] = source, streams[i] = output of stage i
	// open[i]: streams[i] is only the known beginning of a list that goes on (infinite source): a
	// request beyond it is not satisfied by anything the model knows
	open     []bool
	infinite bool
	// lo[i], hi[i]: number of elements that cross boundary i (requests clamped to what is available);
	// boundary 0 = source output, boundary n = consumer input. unbounded = no finite bound.
	lo, hi []int
	// calls bounds per counter: 0 = source closure, 1..n = stage closures, 4 = consumer predicate
	callsLo, callsHi [nCounters]int
	res              refResult
	consNeed         int // elements the consumer requests from its input (len+1: needs the end)
	// determined is false when the result needs more of an infinite source than the window holds
	determined bool
}

func sourceStream(n int) stream {
	s := make(stream, n)
	for i := range s {
		s[i] = int64(i)
	}
	return s
}

// analyse computes the model's verdicts for stages/consumer on a source of length srcLen (infinite:
// the source is numbers(10^11), analysed on its first `window` elements).
func analyse(stages []*stageDef, cons *consDef, k int, v int64, srcLen int, infinite bool) *analysis {
	a := &analysis{infinite: infinite, determined: true}
	if infinite {
		srcLen = window
	}
	n := len(stages)
	a.streams = make([]stream, n+1)
	a.streams[0] = sourceStream(srcLen)
	a.open = make([]bool, n+1)
	a.open[0] = infinite
	for i, s := range stages {
		a.streams[i+1] = s.apply(a.streams[i])
		// top(c) of a list that has c elements is complete, whatever follows in its input
		a.open[i+1] = a.open[i] && !(s.topN > 0 && len(a.streams[i+1]) == s.topN)
	}
	a.lo = make([]int, n+1)
	a.hi = make([]int, n+1)
	in := a.streams[n]
	c := cons.need(in, k, v)
	a.consNeed = c
	a.res = cons.result(in, k, v)
	// requests (may be len+1 = "needs the end")
	rlo := make([]int, n+1)
	rhi := make([]int, n+1)
	rlo[n] = c
	rhi[n] = minInt(c+cons.readAhead, len(in)+1)
	for i := n; i >= 1; i-- {
		s := stages[i-1]
		up := a.streams[i-1]
		rlo[i-1] = s.need(up, rlo[i])
		rhi[i-1] = minInt(s.need(up, rhi[i])+1, len(up)+1)
	}
	clampTo := func(r int, i int) int {
		if r > len(a.streams[i]) {
			if a.open[i] {
				return unbounded
			}
			return len(a.streams[i])
		}
		return r
	}
	for i := 0; i <= n; i++ {
		a.lo[i] = clampTo(rlo[i], i)
		a.hi[i] = clampTo(rhi[i], i)
	}
	if infinite && a.lo[0] == unbounded {
		a.determined = false
		return a
	}
	// closure calls
	a.callsLo[0], a.callsHi[0] = a.lo[0], a.hi[0]
	for i, s := range stages {
		if !s.closure {
			continue
		}
		up := a.streams[i]
		if a.lo[i] == unbounded {
			a.callsLo[i+1] = unbounded
		} else {
			a.callsLo[i+1] = s.calls(up, a.lo[i], rlo[i+1])
		}
		if a.hi[i] == unbounded || (a.open[i+1] && rhi[i+1] > len(a.streams[i+1])) {
			a.callsHi[i+1] = unbounded
		} else {
			a.callsHi[i+1] = s.calls(up, a.hi[i], rhi[i+1])
		}
	}
	if cons.predicate {
		a.callsLo[cCons], a.callsHi[cCons] = a.lo[n], a.hi[n]
	}
	return a
}

// ---------------------------------------------------------------------------------------------
// brute force: the smallest prefix on which the eager result is stable under every continuation

func continuations(rest stream, extra []int64) []stream {
	cs := []stream{nil, rest}
	for _, x := range append([]int64{-7, 0, 1, 2, 3, 4, 6, 100, 1000}, extra...) {
		cs = append(cs, stream{x}, stream{x, x, x, x, x, x, x, x})
	}
	for _, x := range []int64{-3, 5, 99, 2000} {
		cs = append(cs, stream{x, x + 1, x + 2, x + 3, x + 4, x + 5, x + 6, x + 7, x + 8, x + 9, x + 10, x + 11})
		cs = append(cs, stream{x, x + 2, x + 4, x + 6, x + 8, x + 10, x + 12, x + 14, x + 16, x + 18})
	}
	return cs
}

func viewOf(out stream, d int) string {
	if d <= len(out) {
		return fmt.Sprint(out[:d])
	}
	return fmt.Sprint(out) + "$"
}

// bruteNeed: smallest u (len+1 = "the end has to be seen") such that obs(in[:u] ++ c) is the same for
// every continuation c of the family (and equal to obs(in)).
func bruteNeed(in stream, obs func(stream) string, extra ...int64) int {
	want := obs(in)
	for u := 0; u <= len(in); u++ {
		ok := true
		for _, c := range continuations(in[u:], extra) {
			if obs(append(append(stream{}, in[:u]...), c...)) != want {
				ok = false
				break
			}
		}
		if ok {
			return u
		}
	}
	return len(in) + 1
}
