// C02: constant folding is unobservable (optimizer transparency).
// Differential twin: every enumerated program is generated with the optimizer enabled and with the
// optimizer removed (SetOptimizer(nil) before first use) and evaluated on every argument tuple; the
// outcomes must agree, impure host functions must never run during Generate and must run per
// evaluation exactly as often as in the unoptimized program (and as the reference interpreter says).
package main

import (
	"fmt"
	"strings"

	"github.com/hneemann/parser2/funcGen"
	"github.com/hneemann/parser2/value"
	"verif/internal/bex"
	"verif/internal/refsem"
	"verif/internal/vlang"
	"verif/internal/vrun"
)

type counters struct{ tick, ptick int }

func addHost(c *counters) func(g *value.FunctionGenerator) {
	return func(g *value.FunctionGenerator) {
		g.AddStaticFunction("tick", funcGen.Function[value.Value]{
			Func: func(st funcGen.Stack[value.Value], cs []value.Value) (value.Value, error) {
				c.tick++
				return st.Get(0), nil
			},
			Args: 1, IsPure: false,
		}.SetDescription("x", "impure counting identity"))
		g.AddStaticFunction("ptick", funcGen.Function[value.Value]{
			Func: func(st funcGen.Stack[value.Value], cs []value.Value) (value.Value, error) {
				c.ptick++
				return st.Get(0), nil
			},
			Args: 1, IsPure: true,
		}.SetDescription("x", "pure counting identity"))
	}
}

type harness struct {
	gens [2]*value.FunctionGenerator
	cnt  [2]*counters
	in   *refsem.Interp
	// tickInLazy is set when the reference interpreter ran tick inside a lazy list stage: the number
	// of times a lazy list is re-evaluated is not specified, so the count is then only compared
	// between the two optimizer settings
}

func newHarness() *harness {
	h := &harness{in: refsem.New()}
	for i := range h.gens {
		h.cnt[i] = &counters{}
		h.gens[i] = vrun.NewGen(i == 0, addHost(h.cnt[i]))
	}
	h.in.Statics["tick"] = func(in *refsem.Interp, a []refsem.Val) (refsem.Val, *refsem.Err) {
		in.Ticks["tick"]++
		return a[0], nil
	}
	h.in.Statics["ptick"] = func(in *refsem.Interp, a []refsem.Val) (refsem.Val, *refsem.Err) {
		in.Ticks["ptick"]++
		return a[0], nil
	}
	return h
}

// ---------------------------------------------------------------------------------------------
// classifiers of the findings listed in known_findings.json

func isConst(n *vlang.Node) bool {
	switch n.K {
	case vlang.Int, vlang.Float, vlang.Str, vlang.Bool:
		return true
	case vlang.ListLit, vlang.MapLit:
		for _, a := range n.Args {
			if !isConst(a) {
				return false
			}
		}
		return true
	case vlang.Un:
		return isConst(n.A)
	}
	return false
}

func anyNode(n *vlang.Node, pred func(*vlang.Node) bool) bool {
	found := false
	vlang.Walk(n, func(x *vlang.Node) {
		if pred(x) {
			found = true
		}
	})
	return found
}

// regroupShape: (c1 op x) op c2 or (x op c1) op c2 for the given operators
func regroupShape(n *vlang.Node, ops ...string) bool {
	return anyNode(n, func(x *vlang.Node) bool {
		if x.K != vlang.Bin || !isConst(x.B) || x.A.K != vlang.Bin || x.A.S != x.S {
			return false
		}
		okOp := false
		for _, o := range ops {
			if x.S == o {
				okOp = true
			}
		}
		return okOp && (isConst(x.A.A) || isConst(x.A.B))
	})
}

func nonBoolConst(n *vlang.Node) bool {
	if !isConst(n) {
		return false
	}
	return n.K != vlang.Bool && !(n.K == vlang.Un && n.S == "!")
}

func classify(prog *vlang.Node) string {
	switch {
	case regroupShape(prog, "="):
		return "F02a-eq-regroup"
	case regroupShape(prog, "|", "&"):
		return "F02b-andor-regroup"
	case anyNode(prog, func(x *vlang.Node) bool {
		return x.K == vlang.Bin && (x.S == "&" || x.S == "|") && nonBoolConst(x.A) && nonBoolConst(x.B)
	}):
		return "F02c-andor-nonbool-constants"
	}
	return ""
}

// ---------------------------------------------------------------------------------------------

type argTuple struct {
	names []string
	ref   []refsem.Val
	impl  []value.Value
	text  string
}

func tuple(names []string, text string, vals ...refsem.Val) argTuple {
	t := argTuple{names: names, ref: vals, text: text}
	for _, v := range vals {
		t.impl = append(t.impl, vrun.ToImpl(v))
	}
	return t
}

func (h *harness) check(ctx *bex.Ctx, prog *vlang.Node, names []string, tuples []argTuple, useRef bool) {
	src := vlang.Render(prog)
	ctx.Begin(func() map[string]any { return map[string]any{"src": src} })
	var fs [2]funcGen.Func[value.Value]
	var genErr [2]error
	for i := range h.gens {
		*h.cnt[i] = counters{}
		fs[i], _, genErr[i] = h.gens[i].Generate(src, names...)
		if h.cnt[i].tick != 0 {
			ctx.Violate("impure host function executed during Generate", map[string]any{"src": src, "optimizer": i == 0}, "0 calls of tick during Generate", fmt.Sprint(h.cnt[i].tick), "")
		}
	}
	nontrivial := false
	for _, tu := range tuples {
		var out [2]vrun.Outcome
		var ticks [2]int
		for i := range h.gens {
			ctx.Eval()
			*h.cnt[i] = counters{}
			if genErr[i] != nil {
				out[i] = vrun.Outcome{GenErr: true, Err: true, Msg: genErr[i].Error()}
			} else {
				out[i] = vrun.Eval(fs[i], tu.impl)
			}
			ticks[i] = h.cnt[i].tick
		}
		ctx.Outcome(out[1].Class() + "/" + out[0].Class())
		same := out[0].Err == out[1].Err && (out[0].Err || out[0].Canon == out[1].Canon)
		if !out[1].Err && out[1].Canon != "i0" {
			nontrivial = true
		}
		if !same {
			ctx.Violate("optimizer changes the outcome", map[string]any{"src": src, "args": tu.text},
				"optimizer off: "+out[1].String(), "optimizer on: "+out[0].String(), classify(prog))
			continue
		}
		if ticks[0] != ticks[1] {
			ctx.Violate("optimizer changes how often an impure function runs", map[string]any{"src": src, "args": tu.text},
				fmt.Sprintf("optimizer off: %d calls of tick", ticks[1]), fmt.Sprintf("optimizer on: %d", ticks[0]), "")
			continue
		}
		if useRef {
			h.in.Reset()
			env := (*refsem.Env)(nil)
			for i, n := range names {
				env = env.Bind(n, tu.ref[i])
			}
			rv, rerr := h.in.Eval(prog, env)
			if rerr == nil {
				_, rerr = refsem.DeepForce(rv)
			}
			if h.in.Unspec != "" {
				ctx.Unspecified(h.in.Unspec)
				continue
			}
			// counts are compared when evaluation succeeds (on an error the implementation may have
			// evaluated more or less of a lazy stage before noticing)
			if rerr == nil && !out[1].Err && h.in.Ticks["tick"] != ticks[1] {
				ctx.Violate("impure function runs a different number of times than in the program text", map[string]any{"src": src, "args": tu.text},
					fmt.Sprintf("%d calls of tick by the reference semantics", h.in.Ticks["tick"]), fmt.Sprintf("%d (both optimizer settings)", ticks[1]), "")
			}
		}
	}
	if nontrivial {
		ctx.Nontrivial(src)
		if ctx.WantSample() && len(src) > 10 {
			ctx.Sample(map[string]any{"src": src})
		}
	}
}

var allOps = []string{"|", "&", "=", "!=", "~", "<", ">", "<=", ">=", "+", "-", "<<", ">>", "*", "%", "/", "^"}

func constPool() []*vlang.Node {
	return []*vlang.Node{vlang.I(0), vlang.I(1), vlang.I(2), vlang.I(3), vlang.Fl(0.5), vlang.Fl(2), vlang.Bo(true), vlang.Bo(false),
		vlang.S("a"), vlang.S("b"), vlang.ListN(vlang.I(1)), vlang.MapN([]string{"k"}, vlang.I(1))}
}

func chainTuples() []argTuple {
	n := []string{"x"}
	return []argTuple{
		tuple(n, "x=0", refsem.IntV(0)), tuple(n, "x=2", refsem.IntV(2)), tuple(n, "x=0.5", refsem.FloatV(0.5)),
		tuple(n, "x=true", refsem.BoolV(true)), tuple(n, "x=false", refsem.BoolV(false)), tuple(n, "x=\"a\"", refsem.StrV{S: "a"}),
		tuple(n, "x=[1]", refsem.Eager([]refsem.Val{refsem.IntV(1)})), tuple(n, "x={k:1}", &refsem.MapV{Keys: []string{"k"}, Vals: []refsem.Val{refsem.IntV(1)}}),
	}
}

func run(ctx *bex.Ctx) {
	h := newHarness()
	runTemplates(ctx, h)

	// (1) chains: the whole input space of the regrouping rule and of binary/unary constant folding
	ctx.Space("operator-chains")
	cs := constPool()
	tuples := chainTuples()
	x := vlang.V("x")
	var idx int64
	emit := func(p *vlang.Node) {
		idx++
		if !ctx.Mine(idx) || ctx.Expired() {
			return
		}
		// "^" overflow and out-of-range conversions are excluded by the property: they behave the
		// same in both settings anyway (the same Go code runs), so no exclusion is needed here
		h.check(ctx, p, []string{"x"}, tuples, false)
	}
	for _, op := range allOps {
		for _, c1 := range cs {
			emit(vlang.Op(op, c1, x))
			emit(vlang.Op(op, x, c1))
			for _, c2 := range cs {
				emit(vlang.Op(op, c1, c2))
				emit(vlang.Op(op, vlang.Op(op, c1, x), c2))
				emit(vlang.Op(op, vlang.Op(op, x, c1), c2))
				emit(vlang.Op(op, c1, vlang.Op(op, x, c2)))
				emit(vlang.Op(op, c1, vlang.Op(op, c2, x)))
				emit(vlang.Op(op, vlang.Op(op, x, c1), vlang.Op(op, x, c2)))
			}
		}
	}
	// mixed chains of two different operators around a variable
	if !ctx.Quick() {
		for _, op1 := range allOps {
			for _, op2 := range allOps {
				if op1 == op2 {
					continue
				}
				for _, c1 := range cs {
					for _, c2 := range cs {
						emit(vlang.Op(op2, vlang.Op(op1, c1, x), c2))
						emit(vlang.Op(op2, c1, vlang.Op(op1, x, c2)))
					}
				}
			}
		}
	}
	for _, c := range cs {
		emit(vlang.Neg(c))
		emit(vlang.Not(c))
		emit(vlang.Neg(vlang.Neg(c)))
		emit(vlang.IfN(c, vlang.I(1), vlang.StaticN("tick", vlang.I(2))))
		emit(vlang.IfN(c, vlang.StaticN("tick", vlang.I(1)), vlang.I(2)))
		emit(vlang.IfN(vlang.Op("=", c, x), vlang.StaticN("tick", vlang.I(1)), vlang.I(2)))
		emit(vlang.SwitchN(c, vlang.I(9), vlang.I(1), vlang.StaticN("tick", vlang.I(1)), vlang.S("a"), vlang.StaticN("tick", vlang.I(2))))
		emit(vlang.SwitchN(x, vlang.I(9), c, vlang.StaticN("tick", vlang.I(1))))
		emit(vlang.IndexN(vlang.ListN(vlang.I(1), vlang.I(2)), c))
		emit(vlang.IndexN(c, vlang.I(0)))
		emit(vlang.MemberN(c, "k"))
		emit(vlang.MethodN(c, "size"))
		emit(vlang.MethodN(c, "string"))
		emit(vlang.StaticN("string", c))
		emit(vlang.StaticN("min", c, vlang.I(1)))
		emit(vlang.CallN(vlang.LamN([]string{"y"}, vlang.Op("+", vlang.V("y"), vlang.I(1))), c))
		emit(vlang.CallN(vlang.LamN([]string{"y"}, vlang.StaticN("tick", vlang.V("y"))), c))
		emit(vlang.CallN(vlang.LamN([]string{"y"}, vlang.StaticN("ptick", vlang.V("y"))), c))
		emit(vlang.CallN(c, vlang.I(1)))
		emit(vlang.TryN(vlang.Op("+", vlang.I(1), c), vlang.I(7)))
		emit(vlang.TryN(vlang.StaticN("throw", c), vlang.I(7)))
	}
	ctx.SpaceDone("every operator x {c op x, x op c, c1 op c2, (c1 op x) op c2, (x op c1) op c2, c1 op (x op c2), c1 op (c2 op x), (x op c1) op (x op c2)} over 12 constants of every sort x 8 argument values; unary/if/switch/index/member/method/closure-application/try on every constant")

	// (2) typed grammar with counting host functions, constants and a single int argument
	// (1b) switch: the first label equal to the subject wins, whatever is constant; labels and results count
	ctx.Space("switch-matrix")
	{
		I, op, tick := vlang.I, vlang.Op, func(i int64) *vlang.Node { return vlang.StaticN("tick", vlang.I(i)) }
		subjects := []*vlang.Node{I(2), vlang.Bo(true), vlang.S("a"), x, vlang.V("k"), op("+", I(1), I(1))}
		labels := []*vlang.Node{I(2), I(1), op("+", I(1), I(1)), x, op("=", x, I(2)), vlang.Bo(true), vlang.S("a"), vlang.V("k"), tick(2)}
		wrap := func(n *vlang.Node) *vlang.Node { return vlang.LetN("k", I(2), n) }
		idx = 0
		for _, sub := range subjects {
			for _, l1 := range labels {
				for _, l2 := range labels {
					emit(wrap(vlang.SwitchN(sub, tick(99), l1, tick(11), l2, tick(12))))
					for _, l3 := range labels {
						emit(wrap(vlang.SwitchN(sub, I(99), l1, I(11), l2, tick(12), l3, I(13))))
					}
				}
			}
		}
	}
	ctx.SpaceDone("switch with 2 and 3 cases: 6 subjects (constants, constant expression, the argument, a let-bound constant) x 9 labels per case (constants, constant expressions, the argument, a comparison with it, a counting call) with counting results x 8 argument values")

	ctx.Space("typed-grammar-with-counters")
	maxN := 7
	if !ctx.Quick() {
		maxN = 8
	}
	en := vlang.DefaultEnum()
	en.UnaryStatics = []string{"tick", "ptick"}
	names := []string{"a"}
	sorts := map[string]vlang.Sort{"a": vlang.SI}
	tu := []argTuple{tuple(names, "a=0", refsem.IntV(0)), tuple(names, "a=3", refsem.IntV(3))}
	idx = 0
	for n := 1; n <= maxN && !ctx.Expired(); n++ {
		en.Gen(vlang.SI, n, vlang.NewScope(sorts, names), true, func(p *vlang.Node) bool {
			idx++
			if !ctx.Mine(idx) {
				return true
			}
			if ctx.Expired() {
				return false
			}
			h.check(ctx, p, names, tu, true)
			return true
		})
	}
	ctx.SpaceDone(fmt.Sprintf("every int-sorted program of the typed grammar (constants 1,2, argument a, tick/ptick/throw/min, let/func/closures/if/switch/try/lists/maps) with <= %d nodes; a in {0,3}", maxN))
}

// checkSeq generates src on both generators ONCE and evaluates the two functions on a sequence of
// argument values; outcomes and tick counts of every evaluation must agree, no tick during Generate,
// and every result observed again after all later evaluations must still be what it was.
func (h *harness) checkSeq(ctx *bex.Ctx, src string, seq []int64) {
	ctx.Begin(func() map[string]any { return map[string]any{"src": src} })
	var fs [2]funcGen.Func[value.Value]
	var genErr [2]error
	for i := range h.gens {
		*h.cnt[i] = counters{}
		fs[i], _, genErr[i] = h.gens[i].Generate(src, "a")
		if h.cnt[i].tick != 0 {
			ctx.Violate("impure host function executed during Generate", map[string]any{"src": src, "optimizer": i == 0, "seq": true}, "0 calls of tick during Generate", fmt.Sprint(h.cnt[i].tick), "")
		}
	}
	if (genErr[0] != nil) != (genErr[1] != nil) {
		ctx.Eval()
		ctx.Violate("optimizer changes whether the program generates", map[string]any{"src": src, "seq": true}, fmt.Sprint("optimizer off: ", genErr[1]), fmt.Sprint("optimizer on: ", genErr[0]), "")
		return
	}
	if genErr[0] != nil {
		ctx.Eval()
		ctx.Outcome("seq:generate-error/both")
		return
	}
	var held [2][]value.Value
	var first [2][]string
	nontrivial := false
	for _, a := range seq {
		var out [2]vrun.Outcome
		var ticks [2]int
		for i := range h.gens {
			ctx.Eval()
			*h.cnt[i] = counters{}
			v, err := fs[i].Eval(value.Int(a))
			if err != nil {
				out[i] = vrun.Outcome{Err: true, Msg: err.Error()}
				held[i] = append(held[i], nil)
			} else {
				held[i] = append(held[i], v)
				r, ferr, _ := vrun.ToRef(v)
				if ferr != nil {
					out[i] = vrun.Outcome{Err: true, Msg: ferr.Error()}
				} else {
					out[i] = vrun.Outcome{Canon: refsem.Canon(r)}
				}
			}
			first[i] = append(first[i], out[i].String())
			ticks[i] = h.cnt[i].tick
		}
		ctx.Outcome("seq:" + out[1].Class() + "/" + out[0].Class())
		if !out[1].Err && out[1].Canon != "i0" {
			nontrivial = true
		}
		same := out[0].Err == out[1].Err && (out[0].Err || out[0].Canon == out[1].Canon)
		if !same {
			ctx.Violate("optimizer changes the outcome", map[string]any{"src": src, "a": a, "sequence": seq, "seq": true}, "optimizer off: "+out[1].String(), "optimizer on: "+out[0].String(), classify0(src))
			return
		}
		if ticks[0] != ticks[1] {
			ctx.Violate("optimizer changes how often an impure function runs", map[string]any{"src": src, "a": a, "sequence": seq, "seq": true},
				fmt.Sprintf("optimizer off: %d calls of tick", ticks[1]), fmt.Sprintf("optimizer on: %d", ticks[0]), "")
			return
		}
	}
	// results kept across later evaluations
	for i := range h.gens {
		for k, v := range held[i] {
			if v == nil {
				continue
			}
			r, ferr, _ := vrun.ToRef(v)
			now := "error"
			if ferr == nil {
				now = refsem.Canon(r)
			}
			was := first[i][k]
			if strings.HasPrefix(was, "error") {
				was = "error"
			}
			if now != was {
				ctx.Violate("a result changed after later evaluations of the same function", map[string]any{"src": src, "sequence": seq, "evaluation": k, "optimizer": i == 0, "seq": true}, was, now, "")
				return
			}
		}
	}
	if nontrivial {
		ctx.Nontrivial("seq|" + src)
		if ctx.WantSample() {
			ctx.Sample(map[string]any{"src": src, "evaluated_with_a": seq})
		}
	}
}

func classify0(src string) string { return "" }

// runTemplates: the cooperating-sites families that the size-bounded grammar cannot reach.
func runTemplates(ctx *bex.Ctx, h *harness) {
	ctx.Space("higher-order-and-shared-constant-templates")
	var idx int64
	emit := func(src string) {
		idx++
		if !ctx.Mine(idx) || ctx.Expired() {
			return
		}
		h.checkSeq(ctx, src, []int64{0, 1, 2, 1})
	}
	// (a) impure / pure counting closures used through pure higher-order built-ins, inside functions
	// and closures (with and without captured parameters) applied to constants and to the argument
	bodies := []string{
		"[1,2,3].map(e->TICK(e*k)).sum()", "[1,2,3].map(e->TICK(e*k))[a]", "[1,2,3].map(e->TICK(e)).sum()+k",
		"[1,2].accept(e->TICK(e)>k).size()", "[1,2,3].reduce((p,q)->TICK(p+q*k))", "(e->TICK(e*k)).invoke([3])",
		"[1,2].visit(0,(v,e)->v+TICK(e*k))", "{x:1}.map((kk,v)->TICK(v*k)).x", "[2,1].order(e->TICK(e*k)).size()",
		"[1,2].mapReduce(k,(s,e)->s+TICK(e))", "[1,2,3].indexWhere(e->TICK(e)>k)", "[1,2].number((i,e)->TICK(i+e*k)).sum()",
		"[1,2,3].combine((p,q)->TICK(p*k+q)).sum()", "[1,2].minMax(e->TICK(e*k)).max", "[1,2,3].present(e->TICK(e)>k)",
		"try TICK(k) catch 0", "if k>1 then TICK(k) else 0", "min(TICK(k),5)", "switch k case 2: TICK(1) default TICK(2)",
		"[TICK(k),2].size()", "{x:TICK(k)}.x", "(j->TICK(j+k))(1)", "(j->i->TICK(i+j+k))(1)(2)", "[1,2].map(e->[e].map(d->TICK(d*k)).sum()).sum()",
	}
	wrappers := []string{"func f(k) BODY; f(2)+a", "func f(k) BODY; f(a)", "(k->BODY)(2)+a", "let g=k->BODY; g(2)+g(a)", "(k->(j->BODY)(k))(2)+a",
		"func f(k) BODY; func g(j) f(j)+1; g(2)", "let k=2; BODY", "let k=a; BODY", "[2,3].map(k->BODY).sum()+a", "{h:k->BODY}.h(2)+a"}
	for _, w := range wrappers {
		for _, b := range bodies {
			for _, t := range []string{"tick", "ptick"} {
				emit(strings.ReplaceAll(w, "BODY", strings.ReplaceAll(b, "TICK", t)))
			}
		}
	}
	// (b) one constant list used in two places, one of them through a method that must work on a copy
	consts := []string{"[3,1,2]", "[3,1,2].map(e->e)", "[2,1,3].reverse()", "[3,1].append(2)", "numbers(4).skip(1).map(e->4-e)"}
	methods := []string{"order(e->e)[0]", "orderRev(e->e)[0]", "order(e->e*(a+1))[0]", "orderLess((p,q)->p<q)[0]", "reverse()[0]", "set(0,9)[0]", "append(a).size()",
		"append(a)[3]", "top(2).size()", "skip(1)[0]", "map(e->e*2)[0]", "accept(e->e>1).size()", "sum()", "size()", "string().len()", "eval()[2]", "first()", "last()",
		"combineN(2,w->w[0])[0]", "combine((p,q)->p-q)[0]", "iir(e->e,(e,l)->e+l).last()", "compact((p,q)->p=q).size()", "minMax(e->e).min", "indexWhere(e->e=1)"}
	for _, c := range consts {
		for _, m := range methods {
			emit("let c=" + c + "; c[a]*100+c." + m + "*10+c[a]")
			emit("let c=" + c + "; c." + m + "*10+c[a]")
			emit("let c=" + c + "; c." + m)
			emit("let c=" + c + "; [c." + m + ",c.string()].string()")
		}
	}
	// (c) names: a local named like a static function, a closure stored in a constant map under a method's
	// name, a lazy constant iterated more than once — what the folded program does must be what the
	// unfolded one does
	for _, src := range []string{
		"(sqrt->sqrt(16))(x->x+1)+a", "let sqrt=x->x+1; sqrt(16)+a", "let abs=x->x*100; abs(0-3)+a", "func abs(x) x*2; abs(0-3)+a", "func min(x,y) x*10+y; min(1,2)+a",
		"(abs->[1,2].map(e->abs(0-e)).sum())(x->x+a)", "let sqrt=x->x+a; sqrt(16)", "(sqrt->(y->sqrt(y))(16))(x->x+1)+a", "let string=x->7; string(1)+a",
		"{get:k->42,a:7}.get(\"a\")+a", "{put:(k,v)->5}.put(\"a\",1)+a", "let m={get:k->42,k:7}; m.get(\"k\")+a", "{size:k->99,a:1}.size(0)+a", "{map:f->5,a:1}.map(3)+a",
		"{k:7,get:k->42}.get(\"k\")*10+{k:7}.get(\"k\")+a", "let m={list:k->[k]}; m.list(a)[0]",
		"let t=numbers(10).top(3); t.map(x->x*a).sum()+t.map(x->x+a).sum()", "let t=[1,2,3,4].map(e->e).top(3); [t.sum(),t.sum(),t.size()].string()", "numbers(10).top(3).map(x->x*a).sum()",
		"let t=numbers(10).skip(7); t.sum()+t.sum()+a", "let f=(x->numbers(10).top(3).map(y->y*x).sum()); f(a)+f(a+1)",
	} {
		emit(src)
	}
	// (d) a constant lazy stage that runs its function on the stack it is handed, stored in a let and consumed
	// behind later lets (folded: evaluated on a private stack; unfolded: on the evaluation stack, later)
	stackStages := []string{"[1,2,3,4].combine((p,q)->p+q)", "[1,2,3,4].combine3((p,q,r)->p+q+r)", "[1,2,3].number((n,e)->n*10+e)", "[1,1,2,3].compact((p,q)->p=q)",
		"[1,2].cross([10,20],(p,q)->p+q)", "[2,2,2].iir(e->e,(e,l)->e+l)", "[1,2,3,4].combineN(2,l->l[0]+l[1])", "[1,2,3].map(e->e*2)", "[1,2,3].accept(e->e>1)",
		"[1,3].merge([2,4],(p,q)->p<q)", "[1,2,3].visit(0,(v,e)->v+e)", "[3,1,2].orderLess((p,q)->p<q)"}
	for _, st := range stackStages {
		for _, use := range []string{"c.sum()", "c.string()", "c.size()", "c.first()", "[c.sum(),c.sum()].string()"} {
			if strings.Contains(st, "visit") {
				use = "c"
			}
			emit("let c=" + st + "; let p=a; let q=a*2; let r=a*3; " + use + "+p+q+r")
			emit("let c=" + st + "; let f=(p,q,r)->" + use + "+p+q+r; f(a,a*2,a*3)")
			emit("let c=" + st + "; let p=a; let q=[a,a*2].map(e->e+1); let r=a*3; " + use + "+p+q.sum()+r")
		}
	}
	// (e) ill-formed applications of constant closures: too many / too few constant arguments
	for _, src := range []string{
		"(x->x+1)(1,2)+a", "(x->x+1)()+a", "((x,y)->x+y)(1)+a", "((x,y)->x+y)(1,2,3)+a", "func mul(p,q) p*q; [mul(2,3), mul(2,3,4)].string()+a", "func mul(p,q) p*q; mul(2)+a",
		"let m={f:(p,q)->p+q}; try (m.f)(1,2,3) catch \"failed\"", "let m={f:(p,q)->p+q}; try m.f(1,2,3) catch \"failed\"", "let m={f:(p,q)->p+q}; try m.f(1) catch \"failed\"",
		"try (x->x+1)(1,2) catch a", "let g=x->x*2; g(1,2)+a", "let g=x->x*2; [1,2].map(g).sum()+g(3,4)+a", "abs(1,2)+a", "try sqrt() catch a", "[1,2].size(1)+a", "\"ab\".len(1)+a",
	} {
		emit(src)
	}
	ctx.SpaceDone(fmt.Sprintf("12 constant lazy stages stored in a let and consumed behind later lets / inside a closure x 5 uses x 3 forms; 16 ill-formed applications (too many / too few constant arguments of constant closures, funcs, map-field closures, static functions, methods); 21 programs with locals named like static functions, closures under method names in constant maps and lazy constants iterated twice; %d wrappers x %d bodies x {tick, ptick} (counting closures used through pure higher-order built-ins inside functions/closures applied to constants and to the argument), %d constants x %d methods x 4 placements (one constant list used twice, once through a copying method); each function generated once and evaluated on a = 0,1,2,1; results re-observed after the later evaluations", len(wrappers), len(bodies), len(consts), len(methods)))
}

func replay(repro map[string]any) (string, bool) {
	if isSeq, _ := repro["seq"].(bool); isSeq {
		src, _ := repro["src"].(string)
		var out [2][]string
		for i := 0; i < 2; i++ {
			c := &counters{}
			g := vrun.NewGen(i == 0, addHost(c))
			f, _, err := g.Generate(src, "a")
			gen := c.tick
			if err != nil {
				out[i] = append(out[i], "generate error: "+err.Error())
				continue
			}
			for _, a := range []int64{0, 1, 2, 1} {
				c.tick = 0
				o := vrun.Eval(f, []value.Value{value.Int(a)})
				out[i] = append(out[i], fmt.Sprintf("a=%d: %s (%d ticks)", a, o.String(), c.tick))
			}
			out[i] = append(out[i], fmt.Sprintf("ticks during Generate: %d", gen))
		}
		return fmt.Sprintf("optimizer on: %v | optimizer off: %v", out[0], out[1]), fmt.Sprint(out[0]) != fmt.Sprint(out[1])
	}
	src, _ := repro["src"].(string)
	args, _ := repro["args"].(string)
	names := []string{"x"}
	tuples := chainTuples()
	if len(args) > 0 && args[0] == 'a' {
		names = []string{"a"}
		tuples = []argTuple{tuple(names, "a=0", refsem.IntV(0)), tuple(names, "a=3", refsem.IntV(3))}
	}
	var out [2]string
	for _, tu := range tuples {
		if tu.text != args {
			continue
		}
		for i := 0; i < 2; i++ {
			c := &counters{}
			g := vrun.NewGen(i == 0, addHost(c))
			o := vrun.Run(g, src, names, tu.impl)
			out[i] = fmt.Sprintf("%s (tick calls incl. Generate: %d)", o.String(), c.tick)
		}
	}
	return fmt.Sprintf("Generate(%q) with %s: optimizer on: %s | optimizer off: %s", src, args, out[0], out[1]), out[0] != out[1]
}

func main() {
	bex.Main(&bex.Check{
		ID:    "C02",
		Level: "exploration",
		Rule:  "each enumerated program is generated twice (optimizer on / removed) on generators with counting host functions tick (declared impure) and ptick (declared pure) and evaluated on every argument tuple; outcomes (forced value by kind and content, or error) and tick counts must agree, tick must not run during Generate, and on successful evaluations the tick count must equal the reference interpreter's. distinct_nontrivial = distinct source texts whose unoptimized outcome on some tuple is a value other than 0",
		Assumptions: []string{"float constants are dyadic (0.5, 2.0) so regrouped arithmetic is exact and the rounding allowance of the property is never needed",
			"the float and bool instantiations of the generic generator are covered by C19's check (optimizer on/off against direct evaluation)"},
		QuickBudget: 60e9, ThoroughBudget: 25 * 60e9,
		Run:              run,
		Replay:           replay,
		CrashIsViolation: true, // a worker process that dies while it executes a case on the library is a verdict on that case
	})
}
