// C17: JSON export is always valid JSON that preserves structure and text.
//
// Bounded-exhaustive: every single-code-point string of the whole Unicode range (surrogates
// excluded), every short string over a trouble alphabet as value and as key in every list / map
// representation the public API can construct, every scalar of a boundary pool, and every value
// tree up to a height bound. The document produced by export.Export(.., export.JSON()) is handed
// to encoding/json (json.Valid + a token-level decode that keeps key order and duplicates) and the
// decoded structure is compared with the tree description (internal/exptree), never with anything
// the library computed.
package main

import (
	"bytes"
	"encoding/json"
	"errors"
	"fmt"
	"hash/fnv"
	"io"
	"runtime/debug"
	"sort"
	"strings"
	"unicode/utf8"

	"github.com/hneemann/parser2/funcGen"
	"github.com/hneemann/parser2/value"
	"github.com/hneemann/parser2/value/export"
	"verif/internal/bex"
	et "verif/internal/exptree"
)

// ---------------------------------------------------------------------------------------------
// oracle

type jnode struct {
	kind byte // 's' string, 'a' array, 'o' object, 'x' any other token (number, bool, null)
	s    string
	arr  []*jnode
	keys []string
	vals []*jnode
}

func parseJSON(doc []byte) (*jnode, error) {
	if !utf8.Valid(doc) {
		return nil, errors.New("document is not valid UTF-8")
	}
	if !json.Valid(doc) {
		var v any
		err := json.Unmarshal(doc, &v)
		if err == nil {
			err = errors.New("json.Valid reports an invalid document")
		}
		return nil, err
	}
	dec := json.NewDecoder(bytes.NewReader(doc))
	dec.UseNumber()
	n, err := parseVal(dec)
	if err != nil {
		return nil, err
	}
	if _, err := dec.Token(); err != io.EOF {
		return nil, fmt.Errorf("trailing data after the value (%v)", err)
	}
	return n, nil
}

func parseVal(dec *json.Decoder) (*jnode, error) {
	t, err := dec.Token()
	if err != nil {
		return nil, err
	}
	switch v := t.(type) {
	case string:
		return &jnode{kind: 's', s: v}, nil
	case json.Delim:
		switch v {
		case '[':
			n := &jnode{kind: 'a'}
			for dec.More() {
				e, err := parseVal(dec)
				if err != nil {
					return nil, err
				}
				n.arr = append(n.arr, e)
			}
			if t, err := dec.Token(); err != nil || t != json.Delim(']') {
				return nil, fmt.Errorf("array not closed: %v %v", t, err)
			}
			return n, nil
		case '{':
			n := &jnode{kind: 'o'}
			for dec.More() {
				kt, err := dec.Token()
				if err != nil {
					return nil, err
				}
				k, ok := kt.(string)
				if !ok {
					return nil, fmt.Errorf("object key is not a string: %v", kt)
				}
				e, err := parseVal(dec)
				if err != nil {
					return nil, err
				}
				n.keys = append(n.keys, k)
				n.vals = append(n.vals, e)
			}
			if t, err := dec.Token(); err != nil || t != json.Delim('}') {
				return nil, fmt.Errorf("object not closed: %v %v", t, err)
			}
			return n, nil
		}
		return nil, fmt.Errorf("unexpected delimiter %v", v)
	default:
		return &jnode{kind: 'x', s: fmt.Sprint(t)}, nil
	}
}

// compare returns "" if the decoded document j is the image of n the property describes, else a
// description of the first difference.
func compare(n *et.Node, j *jnode, path string) (diff, want, got string) {
	switch n.K {
	case et.List:
		if j.kind != 'a' {
			return path + ": list not exported as array", "array", kindName(j)
		}
		if len(j.arr) != len(n.Kids) {
			return path + ": array length differs", fmt.Sprint(len(n.Kids)), fmt.Sprint(len(j.arr))
		}
		for i, k := range n.Kids {
			if d, w, g := compare(k, j.arr[i], fmt.Sprintf("%s[%d]", path, i)); d != "" {
				return d, w, g
			}
		}
		return "", "", ""
	case et.Map:
		if j.kind != 'o' {
			return path + ": map not exported as object", "object", kindName(j)
		}
		seen := map[string]int{}
		for i, k := range j.keys {
			if _, dup := seen[k]; dup {
				return path + ": duplicate key in object", "distinct keys", fmt.Sprintf("%q twice", k)
			}
			seen[k] = i
		}
		wantKeys := append([]string(nil), n.Keys...)
		gotKeys := append([]string(nil), j.keys...)
		sort.Strings(wantKeys)
		sort.Strings(gotKeys)
		if !equalStrings(wantKeys, gotKeys) {
			return path + ": key set differs", fmt.Sprintf("%q", wantKeys), fmt.Sprintf("%q", gotKeys)
		}
		for i, k := range n.Keys {
			if d, w, g := compare(n.Kids[i], j.vals[seen[k]], fmt.Sprintf("%s{%q}", path, k)); d != "" {
				return d, w, g
			}
		}
		return "", "", ""
	default:
		want := n.ScalarString()
		if j.kind != 's' {
			return path + ": scalar not exported as JSON string", fmt.Sprintf("string %q", want), kindName(j) + " " + j.s
		}
		if j.s != want {
			return path + ": string decodes differently", fmt.Sprintf("%q", want), fmt.Sprintf("%q", j.s)
		}
		return "", "", ""
	}
}

func kindName(j *jnode) string {
	switch j.kind {
	case 's':
		return "string"
	case 'a':
		return "array"
	case 'o':
		return "object"
	}
	return "non-string scalar"
}

func equalStrings(a, b []string) bool {
	if len(a) != len(b) {
		return false
	}
	for i := range a {
		if a[i] != b[i] {
			return false
		}
	}
	return true
}

type verdict struct {
	ok       bool
	class    string // outcome class
	what     string
	expected string
	got      string
	doc      []byte
}

// verify builds the value, runs the real exporter and applies the oracle.
func verify(b *et.Builder, n *et.Node) (v verdict) {
	defer func() {
		if r := recover(); r != nil {
			v = verdict{class: "panic", what: "exporter panicked", expected: "a JSON document", got: fmt.Sprint(r)}
		}
	}()
	val, err := b.Build(n)
	if err != nil {
		return verdict{class: "build-error", what: "harness could not build the value", expected: "a value", got: err.Error()}
	}
	ex := export.JSON()
	if err := export.Export(funcGen.NewEmptyStack[value.Value](), val, ex); err != nil {
		return verdict{class: "export-error", what: "Export returned an error", expected: "a JSON document", got: err.Error()}
	}
	doc := ex.Result()
	j, err := parseJSON(doc)
	if err != nil {
		return verdict{class: "rejected", what: "encoding/json rejects the document", expected: "a document a standard JSON parser accepts",
			got: fmt.Sprintf("%v; document %q", err, trunc(doc)), doc: doc}
	}
	if d, w, g := compare(n, j, "$"); d != "" {
		return verdict{class: "decodes-differently", what: "decoded document differs from the value: " + stripPath(d), expected: w,
			got: fmt.Sprintf("%s at %s; document %q", g, d, trunc(doc)), doc: doc}
	}
	return verdict{ok: true, class: "ok", doc: doc}
}

func stripPath(d string) string {
	if i := strings.LastIndex(d, ": "); i >= 0 {
		return d[i+2:]
	}
	return d
}

func trunc(b []byte) string {
	if len(b) > 200 {
		return string(b[:200]) + "…"
	}
	return string(b)
}

// ---------------------------------------------------------------------------------------------
// classifier of finding F17-json-escape

// f17Trigger: the hand-written escaper (value/export/json.go jsonExporter.String) has cases for
// '"', TAB, CR and LF only; a backslash or any other control character U+0000–U+001F is copied raw.
func f17Rune(r rune) bool {
	return r == '\\' || (r < 0x20 && r != '\t' && r != '\n' && r != '\r')
}

func hasF17Trigger(n *et.Node) bool {
	found := false
	n.EachString(func(role, s string) {
		for _, r := range s {
			if f17Rune(r) {
				found = true
			}
		}
	})
	return found
}

// sanitizeF17 replaces exactly the characters of the root cause by a harmless, injective spelling.
func sanitizeF17(n *et.Node) *et.Node {
	c := n.Clone()
	c.MapStrings(func(role, s string) string {
		var sb strings.Builder
		for _, r := range s {
			if f17Rune(r) {
				fmt.Fprintf(&sb, "_%02x_", r)
			} else {
				sb.WriteRune(r)
			}
		}
		return sb.String()
	})
	return c
}

// classify names the finding if — and only if — the case contains a character the escaper lacks
// and the same case with exactly those characters replaced passes the complete oracle.
func classify(b *et.Builder, n *et.Node, v verdict) string {
	if v.class != "rejected" && v.class != "decodes-differently" {
		return ""
	}
	if !hasF17Trigger(n) {
		return ""
	}
	if verify(b, sanitizeF17(n)).ok {
		return "F17-json-escape"
	}
	return ""
}

// ---------------------------------------------------------------------------------------------
// enumeration

type runner struct {
	ctx *bex.Ctx
	b   *et.Builder
	// sampling: worker w writes its samples in space number w mod nSpaces, so that the merged
	// evidence shows cases of every space
	nspace, cnt, pending int
	sampleHere           bool
	// the document of the previous case as the exporter returned it, a copy taken at once, and its tree:
	// a document must stay what it was when later values are exported
	prevDoc, prevCopy []byte
	prevTree          *et.Node
}

const nSpaces = 7

func (r *runner) space(name string) {
	r.ctx.Space(name)
	r.sampleHere = r.nspace%nSpaces == r.ctx.Shard%nSpaces
	r.nspace++
	r.cnt, r.pending = 0, 0
}

func nontrivialDoc(n *et.Node, doc []byte) bool {
	if n.Depth() >= 2 {
		return true
	}
	for _, c := range doc {
		if c == '\\' || c >= 0x80 || c < 0x20 {
			return true
		}
	}
	return false
}

func (r *runner) check(n *et.Node, _ bool, countNontrivial bool) {
	ctx := r.ctx
	r.cnt++
	if r.sampleHere && (r.cnt == 30 || r.cnt == 300 || r.cnt == 3000) {
		r.pending++ // the next passing case becomes a sample
	}
	ctx.Begin(func() map[string]any { return map[string]any{"tree": n.ToRepro()} })
	ctx.Eval()
	v := verify(r.b, n)
	ctx.Outcome(v.class)
	if r.prevTree != nil && !bytes.Equal(r.prevDoc, r.prevCopy) {
		ctx.Outcome("earlier-document-changed")
		ctx.Violate("the document of an earlier export changed when a later value was exported", map[string]any{"tree": n.ToRepro(), "earlier": r.prevTree.ToRepro()},
			fmt.Sprintf("%q", trunc(r.prevCopy)), fmt.Sprintf("%q", trunc(r.prevDoc)), "")
	}
	r.prevTree, r.prevDoc, r.prevCopy = nil, nil, nil
	if v.doc != nil {
		r.prevTree, r.prevDoc, r.prevCopy = n, v.doc, append([]byte(nil), v.doc...)
	}
	if v.ok {
		if countNontrivial && nontrivialDoc(n, v.doc) {
			h := fnv.New64a()
			h.Write(v.doc)
			ctx.NontrivialH(h.Sum64())
		}
		if r.pending > 0 && ctx.WantSample() {
			r.pending--
			ctx.Sample(map[string]any{"tree": n.ToRepro(), "document": string(v.doc)})
		}
		return
	}
	ctx.Violate(v.what, map[string]any{"tree": n.ToRepro()}, v.expected, v.got, classify(r.b, n, v))
}

func (r *runner) codepoints() {
	ctx := r.ctx
	r.space("codepoints")
	for cp := rune(0); cp <= 0x10FFFF; cp++ {
		if cp >= 0xD800 && cp <= 0xDFFF {
			continue
		}
		if !ctx.Mine(int64(cp)) {
			continue
		}
		if ctx.Expired() {
			break
		}
		s := string(cp)
		r.check(et.L(et.LEager, et.S(s)), cp%70001 == 0x41, true)
		r.check(et.M(et.MListMap, []string{s}, et.S(s)), false, false)
		r.check(et.M(et.MAppend, []string{"k" + s}, et.S("x"+s+"y")), false, false)
	}
	ctx.SpaceDone("every Unicode scalar value U+0000..U+10FFFF except surrogates (1 112 064) as a one-code-point string: list element, map key and value, embedded between ASCII letters")
}

func (r *runner) strings(maxSym int) {
	ctx := r.ctx
	r.space("strings")
	strs := et.Strings(et.JSONAlphabet, maxSym)
	var idx int64
	for _, s := range strs {
		idx++
		if !ctx.Mine(idx) {
			continue
		}
		if ctx.Expired() {
			break
		}
		r.check(et.S(s), false, true)
		for rep := 0; rep < et.NListReps; rep++ {
			r.check(et.L(rep, et.S(s)), idx%97 == 5, true)
		}
		for rep := 0; rep < et.NMapReps; rep++ {
			r.check(et.M(rep, []string{s}, et.S(s)), idx%89 == 7, true)
			r.check(et.M(rep, []string{s, s + "a"}, et.I(5), et.S(s)), false, true)
		}
		// Go structs behind the map: reflection wrapper, alone and as list of maps
		sm := et.M(et.MReflect, []string{"A"}, et.S(s))
		r.check(sm, false, true)
		r.check(et.L(et.LOfMaps, sm, sm), false, true)
	}
	ctx.SpaceDone(fmt.Sprintf("every string of <= %d symbols over the %d-symbol trouble alphabet (%d strings) as top-level scalar, as element of a list in each of %d list representations, as key and value of maps in each of %d map representations, as field of a Go struct behind a reflection map wrapper (alone and in a NewListOfMaps list)",
		maxSym, len(et.JSONAlphabet), len(strs), et.NListReps, et.NMapReps))
}

func (r *runner) scalars() {
	ctx := r.ctx
	r.space("scalars")
	var idx int64
	for _, sc := range et.Scalars() {
		idx++
		if !ctx.Mine(idx) {
			continue
		}
		r.check(sc, false, true)
		for rep := 0; rep < et.NListReps; rep++ {
			r.check(et.L(rep, sc, sc), idx == 10 && rep == 1, true)
		}
		for rep := 0; rep < et.NMapReps; rep++ {
			r.check(et.M(rep, []string{"k", "\""}, sc, sc), false, true)
		}
	}
	ctx.SpaceDone(fmt.Sprintf("%d boundary ints / floats (incl. -0, NaN, ±Inf, extremes) / bools, top-level, in every list and map representation", len(et.Scalars())))
}

// treePools holds no character the escaper is known to miss (finding F17): a tree that already
// fails for F17 could not show a second, structural defect. trigPools adds such characters; it is
// used on the small shapes only.
var treePools = &et.Pools{
	Strs:    []string{"a", "q\"q", "\u00e9 ", "", "\t\n\r", "</script>", "\U0001F600", "[{,:}]", "\u2028", "\x7f"},
	Keys:    []string{"k", "", "\"", "k k", "\u00e9", ",", ":", "}{", " ", "\n", "\"}"},
	Scalars: []*et.Node{et.I(5), et.Bo(true), et.F(1.5), et.I(-1), et.F(1e21), et.Bo(false)},
}

var trigPools = &et.Pools{
	Strs:    []string{"a\\b", "\x01", "\\\"", "\\", "x", "\x00\x1f", "\\u0041", "\b\f"},
	Keys:    []string{"\\", "k", "\x02", "\\n", "a\\", "\"\\"},
	Scalars: []*et.Node{et.I(5), et.Bo(true), et.F(1.5)},
}

func (r *runner) trees(leaves []et.Kind, height, variants int) {
	ctx := r.ctx
	r.space("trees")
	sp := &et.ShapeSpace{Leaves: leaves}
	low := sp.Count(height - 1)
	var idx int64
	sp.Each(height, func(s *et.Shape) bool {
		idx++
		if !ctx.Mine(idx) {
			return true
		}
		if ctx.Expired() {
			return false
		}
		for v := 0; v < variants; v++ {
			n := treePools.Instantiate(s, v)
			r.check(n, idx%100003 == 50 && v == 1, v == 0)
		}
		if idx <= low {
			for v := 0; v < len(trigPools.Strs); v++ {
				r.check(trigPools.Instantiate(s, v), false, false)
			}
		}
		return true
	})
	ctx.SpaceDone(fmt.Sprintf("all %d tree shapes of height <= %d with <= 2 children per container over %d leaf classes x lists / maps, each in %d variants (variant v gives the j-th node, in preorder, list representation (j+v) mod %d, map representation (j+v) mod %d, string / key / scalar (j+v) of the pools); the %d shapes of height < %d additionally in %d variants over a pool of strings and keys with backslashes and control characters",
		sp.Count(height), height, len(leaves), variants, et.NListReps, et.NMapReps, low, height, len(trigPools.Strs)))
}

// deep: every tree shape of height <= base below every chain of 1..2 further lists / maps, which
// reaches the depth the property names (5) with full binary trees at the bottom.
func (r *runner) deep(base, variants int) {
	ctx := r.ctx
	r.space("deep-trees")
	sp := &et.ShapeSpace{Leaves: []et.Kind{et.Str, et.Int}}
	chains := et.Chains(2)
	var idx int64
	sp.Each(base, func(s *et.Shape) bool {
		for ci, ch := range chains {
			idx++
			if !ctx.Mine(idx) {
				continue
			}
			if ctx.Expired() {
				return false
			}
			sh := et.Deepen(s, ch)
			for v := 0; v < variants; v++ {
				vv := v
				if variants < et.NMapReps {
					vv = int(idx)*5 + v
				}
				r.check(treePools.Instantiate(sh, vv), idx%40009 == 17 && ci == 5, v == 0)
			}
		}
		return true
	})
	ctx.SpaceDone(fmt.Sprintf("all %d tree shapes of height <= %d, each below every chain of 1..2 additional lists / maps (%d chains; an added container holds a string and the deeper tree): heights up to %d, %d variant(s) each",
		sp.Count(base), base, len(chains), base+2, variants))
}

func run(ctx *bex.Ctx) {
	debug.SetGCPercent(400)
	r := &runner{ctx: ctx, b: et.NewBuilder()}
	if ctx.Quick() {
		r.scalars()
		r.strings(2)
		r.trees([]et.Kind{et.Str, et.Int}, 3, 3)
		r.deep(2, et.NMapReps)
		r.afterFailure(2)
		r.longStrings(200)
		r.codepoints()
	} else {
		r.scalars()
		r.strings(3)
		r.trees([]et.Kind{et.Str, et.Int}, 3, et.NMapReps)
		r.deep(3, 1)
		r.afterFailure(3)
		r.longStrings(1100)
		r.codepoints()
		r.treesWide()
	}
}

// poisons: values whose export fails (or panics) after part of the document has been written.
func poisons() []*et.Node {
	failing := func(at int, panics bool, kids ...*et.Node) *et.Node {
		l := et.L(et.LLazy, kids...)
		if panics {
			l.PanicAt = at
		} else {
			l.FailAt = at
		}
		return l
	}
	var out []*et.Node
	for _, p := range []bool{false, true} {
		out = append(out,
			failing(1, p, et.S("x")),
			failing(2, p, et.S("x"), et.S("y")),
			et.L(et.LEager, et.S("a"), failing(2, p, et.I(1), et.I(2))),
			et.M(et.MListMap, []string{"k"}, failing(1, p, et.I(1))),
			et.M(et.MAppend, []string{"a", "b"}, et.S("v"), failing(2, p, et.S("q"), et.S("r"))),
			et.L(et.LEager, et.M(et.MListMap, []string{"k", "l"}, et.L(et.LEager, et.S("in")), failing(1, p, et.S("z")))))
	}
	return out
}

// exportIgnoringFailure runs the exporter on a value whose export is expected to fail.
func exportIgnoringFailure(b *et.Builder, n *et.Node) (failed bool) {
	defer func() {
		if r := recover(); r != nil {
			failed = true
		}
	}()
	val, err := b.Build(n)
	if err != nil {
		return false
	}
	return export.Export(funcGen.NewEmptyStack[value.Value](), val, export.JSON()) != nil
}

// afterFailure: every small tree is exported directly after an export that failed half way.
func (r *runner) afterFailure(height int) {
	ctx := r.ctx
	r.space("after-failed-export")
	sp := &et.ShapeSpace{Leaves: []et.Kind{et.Str, et.Int}}
	ps := poisons()
	var idx int64
	sp.Each(height, func(s *et.Shape) bool {
		for pi, p := range ps {
			idx++
			if !ctx.Mine(idx) {
				continue
			}
			if ctx.Expired() {
				return false
			}
			n := treePools.Instantiate(s, pi)
			ctx.Begin(func() map[string]any { return map[string]any{"tree": n.ToRepro(), "after_failed_export_of": p.ToRepro()} })
			ctx.Eval()
			if exportIgnoringFailure(r.b, p) {
				ctx.Add("preceding_exports_failed", 1)
			} else {
				ctx.Add("preceding_exports_did_not_fail", 1)
			}
			v := verify(r.b, n)
			ctx.Outcome("after-failure/" + v.class)
			r.prevTree = nil
			if !v.ok {
				ctx.Violate("after an export that failed half way: "+v.what, map[string]any{"tree": n.ToRepro(), "after_failed_export_of": p.ToRepro()}, v.expected, v.got, classify(r.b, n, v))
			}
		}
		return true
	})
	ctx.SpaceDone(fmt.Sprintf("all %d tree shapes of height <= %d x %d preceding exports that fail or panic after part of the document was written (failing lazy list at top level, nested in a list, as map value behind other entries)", sp.Count(height), height, len(ps)))
}

// longStrings: every trouble symbol behind a filler of every length up to maxLen (buffers, chunking and
// offsets inside an exporter are invisible to short strings).
func (r *runner) longStrings(maxLen int) {
	ctx := r.ctx
	r.space("long-strings")
	var idx int64
	fillers := []string{"x", "é", "\u20ac"}
	suffixes := []string{"", "f", "0041"}
	for p := 0; p <= maxLen; p++ {
		for _, fill := range fillers {
			for _, sym := range et.JSONAlphabet {
				idx++
				if !ctx.Mine(idx) {
					continue
				}
				if ctx.Expired() {
					return
				}
				for _, suf := range suffixes {
					s := strings.Repeat(fill, p) + sym + suf
					r.check(et.S(s), false, p%17 == 3)
					r.check(et.L(et.LEager, et.S("a"), et.S(s)), false, false)
					r.check(et.M(et.MListMap, []string{s}, et.S(s+sym)), false, false)
				}
			}
		}
	}
	ctx.SpaceDone(fmt.Sprintf("every symbol of the %d-symbol trouble alphabet behind a filler (x, é, €) of every length 0..%d, followed by nothing / a hex digit / four hex digits: as top-level scalar, list element, map key and value", len(et.JSONAlphabet), maxLen))
}

// treesWide (thorough): four leaf classes at height <= 3.
func (r *runner) treesWide() {
	ctx := r.ctx
	r.space("trees-4-leaf-classes")
	sp := &et.ShapeSpace{Leaves: []et.Kind{et.Str, et.Int, et.Float, et.Bool}}
	pools := *treePools
	var idx int64
	sp.Each(3, func(s *et.Shape) bool {
		idx++
		if !ctx.Mine(idx) {
			return true
		}
		if ctx.Expired() {
			return false
		}
		n := pools.Instantiate(s, int(idx%int64(et.NMapReps*et.NListReps)))
		r.check(n, false, false)
		return true
	})
	ctx.SpaceDone(fmt.Sprintf("all %d tree shapes of height <= 3 over 4 leaf classes, one variant each (variant = shape index mod %d)", sp.Count(3), et.NMapReps*et.NListReps))
}

func replay(repro map[string]any) (string, bool) {
	n, err := et.FromRepro(repro["tree"])
	if err != nil {
		return "cannot decode the case: " + err.Error(), true
	}
	if e, ok := repro["earlier"]; ok {
		en, err := et.FromRepro(e)
		if err != nil {
			return "cannot decode the earlier case: " + err.Error(), true
		}
		b := et.NewBuilder()
		ev := verify(b, en)
		kept := append([]byte(nil), ev.doc...)
		verify(b, n)
		if !bytes.Equal(ev.doc, kept) {
			return fmt.Sprintf("the document %q of the earlier export reads %q after the later export", trunc(kept), trunc(ev.doc)), true
		}
		return fmt.Sprintf("the document %q of the earlier export is unchanged after the later export", trunc(kept)), false
	}
	b := et.NewBuilder()
	if pr, ok := repro["after_failed_export_of"]; ok {
		pn, err := et.FromRepro(pr)
		if err != nil {
			return "cannot decode the preceding case: " + err.Error(), true
		}
		exportIgnoringFailure(b, pn)
	}
	v := verify(b, n)
	if v.ok {
		return fmt.Sprintf("document %q decodes to the value", v.doc), false
	}
	return v.what + ": " + v.got, true
}

func main() {
	bex.Main(&bex.Check{
		ID:    "C17",
		Level: "exploration",
		Rule: "a case is one value tree (description in internal/exptree) built through the public API in a named representation, exported by export.Export(…, export.JSON()) and decoded by encoding/json (json.Valid, then a token-level decode that keeps duplicates); pass = arrays in order, objects with exactly the map's key set and no duplicate, every scalar the JSON string of its string form; the document of every case is kept (as returned) and must be unchanged after the next case has been exported. " +
			"distinct_nontrivial = distinct exported documents that contain an escape sequence, a non-ASCII byte or nesting depth >= 2 (tree spaces: counted for variant 0 only); counted per worker by a hash of the document and summed — all representations of one string / shape run in the same worker, so equal documents are not counted twice",
		Assumptions: []string{
			"strings and keys are valid UTF-8 (the property's domain); map keys are distinct (duplicate keys are C13's subject)",
			"the string form of a scalar is the documented one: Int decimal, Float strconv 'g' shortest round-trip, Bool true/false — computed by the oracle with strconv, not taken from the library",
			"encoding/json (Go standard library) is the standard JSON parser; additionally the document must be valid UTF-8",
			"trees of height 4 and 5 are covered as every tree of height <= 2 (quick) / <= 3 (thorough) below one or two further containers, not as all binary trees of that height (7e11); the exporter is structurally recursive with per-container separator state",
		},
		QuickBudget: 55e9, ThoroughBudget: 24 * 60e9,
		Run:              run,
		Replay:           replay,
		CrashIsViolation: true,
	})
}
