// C18: XML and HTML export are well-formed and data can never inject markup.
//
// Bounded-exhaustive: every short string over a markup alphabet in every position of the XML and
// HTML exporters (text, map key, attribute value, link target, style string, style-map key/value,
// file name, mime type), every value tree of the C17 generator up to a height bound in every
// list / map representation, every wrapper tree (Format / Link / File, style strings, maps and
// closures) up to a height bound, list sizes around the maxListSize cut-off, table formats, and
// failing producers / closures. The real output of export.Export(…, export.XML()) and
// export.ToHtml is tokenised completely by encoding/xml (strict, raw tokens) and compared with a
// reference tree computed from the case description alone (model.go).
package main

import (
	"fmt"
	"hash/fnv"
	"runtime/debug"
	"strings"

	"github.com/hneemann/parser2/funcGen"
	"github.com/hneemann/parser2/value"
	"github.com/hneemann/parser2/value/export"
	"verif/internal/bex"
	et "verif/internal/exptree"
)

const (
	F18a = "F18a-map-key-as-attr-name"
	F18b = "F18b-whitespace-chars-raw"
)

type kase struct {
	n      *et.Node
	html   bool
	max    int  // ToHtml maxListSize
	inline bool // ToHtml inlineStyle
}

func (c kase) repro() map[string]any {
	m := map[string]any{"tree": c.n.ToRepro(), "exporter": "xml"}
	if c.html {
		m["exporter"] = "html"
		m["maxListSize"] = c.max
		m["inlineStyle"] = c.inline
	}
	return m
}

type verdict struct {
	class  string // outcome class
	diffs  []diff
	notes  map[string]bool
	doc    string
	raw    []byte // XML: the document as the exporter returned it (not copied)
	unspec string // != "": the whole case is outside the specification
}

func (v verdict) ok() bool { return len(v.diffs) == 0 }

const noteAttrWS = "ToHtml: literal TAB/LF inside an attribute value (kept by HTML parsers and by encoding/xml, turned into a blank only by an XML processor's attribute-value normalisation)"

// verify runs the real exporter on the case and applies the oracle.
func verify(b *et.Builder, c kase) (v verdict) {
	d := &diffs{}
	defer func() {
		if r := recover(); r != nil {
			v = verdict{class: "panic", diffs: []diff{{dError, "", "exporter panicked", "no panic", fmt.Sprint(r)}}}
		}
	}()
	if !c.html {
		disputed := false
		xmlSimpleMaps(c.n, func(m *et.Node) {
			for _, k := range m.Keys {
				if _, dis := nameStatus(k); dis {
					disputed = true
				}
			}
		})
		if disputed {
			return verdict{class: "unspecified", unspec: noteEdition}
		}
	}
	val, err := b.Build(c.n)
	if err != nil {
		return verdict{class: "build-error", diffs: []diff{{dError, "", "harness could not build the value", "a value", err.Error()}}}
	}
	if !c.html {
		ex := export.XML()
		if err := export.Export(funcGen.NewEmptyStack[value.Value](), val, ex); err != nil {
			return verdict{class: "export-error", diffs: []diff{{dError, "", "Export returned an error", "a document", err.Error()}}}
		}
		doc := ex.Result()
		root, err := parseMarkup(doc, false)
		if err != nil {
			return verdict{class: "malformed", doc: string(doc), diffs: []diff{{dMalformed, "", "output is not well-formed", "well-formed XML", err.Error()}}}
		}
		checkXMLDoc(c.n, root, d)
		v = verdict{class: "ok", diffs: d.list, notes: d.notes, doc: string(doc), raw: doc}
		if len(d.list) > 0 {
			v.class = d.list[0].kind
		}
		return v
	}
	// HTML
	m := newModel(c.max, c.inline)
	wantErr := m.toHtml(c.n, nil)
	for n := range m.notes {
		d.note(n)
	}
	res, classList, err := export.ToHtml(val, c.max, nil, c.inline)
	if wantErr != nil {
		if err == nil || res != "" {
			return verdict{class: "error", doc: string(res), diffs: []diff{{dError, "", "ToHtml does not report the failure (" + wantErr.Error() + ")", "an error and no markup", fmt.Sprintf("err=%v markup %q", err, trunc(string(res), 80))}}}
		}
		return verdict{class: "ok-error-reported", notes: d.notes}
	}
	if err != nil {
		return verdict{class: "error", diffs: []diff{{dError, "", "ToHtml fails", "markup", "error: " + err.Error()}}}
	}
	root, perr := parseMarkup([]byte(res), true)
	if perr != nil {
		return verdict{class: "malformed", doc: string(res), diffs: []diff{{dMalformed, "", "output is not well-formed", "well-formed markup", perr.Error()}}}
	}
	htmlVocabulary(root, d)
	classes := map[string]string{}
	for _, cl := range classList {
		if _, dup := classes[cl.Name]; dup {
			d.add(dStructure, "classList", "class defined twice", "distinct class names", cl.Name)
		}
		classes[cl.Name] = string(cl.Style)
	}
	compareHTML(m.stack[0], root, "", classes, c.inline, d)
	// literal TAB/LF in attribute values: specified for XML processors only
	var kept []diff
	for _, x := range d.list {
		if x.kind == dAttrWS {
			d.note(noteAttrWS)
			continue
		}
		kept = append(kept, x)
	}
	v = verdict{class: "ok", diffs: kept, notes: d.notes, doc: string(res)}
	if len(kept) > 0 {
		v.class = kept[0].kind
	}
	return v
}

// ---------------------------------------------------------------------------------------------
// classifiers

// F18a: value/export/xml.go xmlMapExporter.Add writes the keys of a "simple" map (isSimpleMap: no
// value is a list, map or Format) as raw attribute names through XMLWriter.Attr, which escapes the
// value only. Trigger: the XML exporter, a simple map, a key that is not an XML name.
func trigA(c kase) bool {
	if c.html {
		return false
	}
	found := false
	xmlSimpleMaps(c.n, func(m *et.Node) {
		for _, k := range m.Keys {
			if ok, _ := nameStatus(k); !ok {
				found = true
			}
		}
	})
	return found
}

// sanA forces every triggering map into the element form (<entry key=…>) by adding an entry whose
// value is an empty list; the keys themselves stay as they are, so a CR / TAB / LF in a key still
// has to survive as attribute value (that is F18b's subject).
func sanA(c kase) kase {
	n := c.n.Clone()
	xmlSimpleMaps(n, func(m *et.Node) {
		trig := false
		used := map[string]bool{}
		for _, k := range m.Keys {
			used[k] = true
			if ok, _ := nameStatus(k); !ok {
				trig = true
			}
		}
		if trig {
			nk := "verif-not-simple"
			for used[nk] {
				nk += "_"
			}
			m.Keys = append(m.Keys, nk)
			m.Kids = append(m.Kids, et.L(et.LEager))
		}
	})
	c.n = n
	return c
}

// F18b: value/export/xmlWriter/xmlWriter.go writeEsc copies CR, TAB and LF raw. A CR is turned
// into LF by every XML (and HTML) parser (line-end normalisation), in text and in attribute values;
// a TAB or LF inside an attribute value is turned into a blank by every XML processor
// (attribute-value normalisation). Trigger: a CR in any exported string; for the XML exporter also
// a TAB / LF in a string that is written as attribute value (map keys, values of simple maps).
func attrPositionsXML(n *et.Node, f func(s *string)) {
	var keys func(n *et.Node)
	keys = func(n *et.Node) {
		if n.K == et.Map {
			for i := range n.Keys {
				f(&n.Keys[i])
			}
		}
		for _, k := range n.Kids {
			keys(k)
		}
	}
	keys(n)
	xmlSimpleMaps(n, func(m *et.Node) {
		for _, k := range m.Kids {
			k = unwrap(k)
			if k.K == et.Str || k.K == et.File {
				f(&k.S)
			}
		}
	})
}

func trigB(c kase) bool {
	found := false
	c.n.EachString(func(role, s string) {
		if strings.Contains(s, "\r") {
			found = true
		}
	})
	if !c.html {
		attrPositionsXML(c.n, func(s *string) {
			if strings.ContainsAny(*s, "\t\n") {
				found = true
			}
		})
	}
	return found
}

func sanB(c kase) kase {
	n := c.n.Clone()
	// the replacement is no XML name either, so that it does not remove F18a's trigger
	n.MapStrings(func(role, s string) string { return strings.ReplaceAll(s, "\r", "{0d}") })
	if !c.html {
		attrPositionsXML(n, func(s *string) {
			*s = strings.ReplaceAll(strings.ReplaceAll(*s, "\t", "{09}"), "\n", "{0a}")
		})
	}
	c.n = n
	return c
}

// classify returns the findings that explain the violation: a finding is named only if the case
// has its trigger and the same case with exactly the triggering characters / keys replaced passes
// the complete oracle.
func classify(b *et.Builder, c kase, v verdict) []string {
	for _, x := range v.diffs {
		if x.kind == dError {
			return nil
		}
	}
	// the two repairs are independent of each other (neither removes the other's trigger), so the
	// smallest set of findings whose repair makes the case pass is well defined
	a, bb := trigA(c), trigB(c)
	if a && verify(b, sanA(c)).ok() {
		return []string{F18a}
	}
	if bb && verify(b, sanB(c)).ok() {
		return []string{F18b}
	}
	if a && bb && verify(b, sanB(sanA(c))).ok() {
		return []string{F18a, F18b}
	}
	return nil
}

// ---------------------------------------------------------------------------------------------
// enumeration

type runner struct {
	ctx *bex.Ctx
	b   *et.Builder
	// sampling: worker w writes its samples in space number w mod nSpaces, so that the merged
	// evidence shows cases of every space
	nspace, cnt, pending int
	sampleHere           bool
	// the XML document of the previous XML case as returned, its content at that time, and the case:
	// a document must stay what it was when later values are exported
	prevRaw  []byte
	prevText string
	prevCase kase
}

const nSpaces = 10

func (r *runner) space(name string) {
	r.ctx.Space(name)
	r.sampleHere = r.nspace%nSpaces == r.ctx.Shard%nSpaces
	r.nspace++
	r.cnt, r.pending = 0, 0
}

func (r *runner) violate(c kase, what, want, got, finding string) {
	r.ctx.Violate(what, c.repro(), want, got, finding)
}

func (r *runner) check(c kase, _, countNontrivial bool) {
	ctx := r.ctx
	r.cnt++
	if r.sampleHere && (r.cnt == 30 || r.cnt == 300 || r.cnt == 3000) {
		r.pending++ // the next passing case becomes a sample
	}
	ctx.Begin(c.repro)
	ctx.Eval()
	v := verify(r.b, c)
	ctx.Outcome(v.class)
	if r.prevRaw != nil && string(r.prevRaw) != r.prevText {
		ctx.Outcome("earlier-document-changed")
		m := c.repro()
		m["earlier"] = r.prevCase.repro()
		ctx.Violate("the document of an earlier export changed when a later value was exported", m, fmt.Sprintf("%q", trunc(r.prevText, 300)), fmt.Sprintf("%q", trunc(string(r.prevRaw), 300)), "")
	}
	r.prevRaw = nil
	if v.raw != nil {
		r.prevRaw, r.prevText, r.prevCase = v.raw, v.doc, c
	}
	if v.unspec != "" {
		ctx.Unspecified(v.unspec)
		return
	}
	for n := range v.notes {
		ctx.Unspecified(n)
	}
	if v.ok() {
		if countNontrivial && (strings.Contains(v.doc, "&") || c.n.Depth() >= 2) {
			h := fnv.New64a()
			h.Write([]byte(v.doc))
			ctx.NontrivialH(h.Sum64())
		}
		if r.pending > 0 && ctx.WantSample() {
			r.pending--
			m := c.repro()
			m["output"] = v.doc
			ctx.Sample(m)
		}
		return
	}
	x := v.diffs[0]
	what := x.what // kept free of case data, the driver groups violations by it
	got := x.got
	if x.path != "" {
		got += " at " + x.path
	}
	if v.doc != "" {
		got += "; output " + fmt.Sprintf("%q", trunc(v.doc, 300))
	}
	fs := classify(r.b, c, v)
	if len(fs) == 0 {
		r.violate(c, what, x.want, got, "")
		return
	}
	for _, f := range fs {
		r.violate(c, what, x.want, got, f)
	}
}

func (r *runner) both(n *et.Node, sample, nt bool) {
	r.check(kase{n: n}, sample, nt)
	r.check(kase{n: n, html: true, max: 10, inline: true}, sample, nt)
}

func xmlStrings(max int) []string {
	var out []string
	for _, s := range et.Dedup(et.Strings(et.XMLAlphabet, max)) {
		if et.LegalXML(s) {
			out = append(out, s)
		}
	}
	return out
}

func (r *runner) xmlStringSpace(maxSym int) {
	ctx := r.ctx
	r.space("xml-strings")
	strs := xmlStrings(maxSym)
	var idx int64
	for _, s := range strs {
		idx++
		if !ctx.Mine(idx) {
			continue
		}
		if ctx.Expired() {
			break
		}
		smp := idx%53 == 9
		for rep := 0; rep < et.NListReps; rep++ {
			r.check(kase{n: et.L(rep, et.S(s))}, smp, true)
		}
		for rep := 0; rep < et.NMapReps; rep++ {
			r.check(kase{n: et.M(rep, []string{"k"}, et.S(s))}, smp, true)                                 // attribute value
			r.check(kase{n: et.M(rep, []string{s}, et.S("v"))}, smp, true)                                 // key of a simple map
			r.check(kase{n: et.M(rep, []string{s}, et.L(et.LEager))}, false, true)                         // key attribute of an entry
			r.check(kase{n: et.M(rep, []string{"k", "l"}, et.S(s), et.L(et.LLazy, et.S(s)))}, false, true) // entry text
			r.check(kase{n: et.M(rep, []string{s, s + "a"}, et.S(s), et.I(5))}, false, true)
		}
		r.check(kase{n: et.L(et.LEager, et.Fil(s, "", 0), et.Lnk(s, et.S(s)), et.Fmt(&et.Style{K: et.SStr, S: s}, false, 0, et.S(s)))}, false, true)
		r.check(kase{n: et.M(et.MListMap, []string{"f", "l"}, et.Fil(s, s, 2), et.Lnk(s, et.S(s)))}, false, true)
		// Go structs behind the map: reflection wrapper, alone and as list of maps
		sm := et.M(et.MReflect, []string{"A"}, et.S(s))
		r.both(sm, false, true)
		r.both(et.L(et.LOfMaps, sm, sm), false, true)
	}
	ctx.SpaceDone(fmt.Sprintf("XML exporter: every string of <= %d symbols over the %d-symbol markup alphabet (%d distinct strings, legal XML characters only) as list entry (x %d list representations), as value / key of a simple map, key of an entry element, entry text (x %d map representations), as File name / mime type, Link target and style string, as field of a Go struct behind a reflection map wrapper (alone and in a NewListOfMaps list; these also through ToHtml)",
		maxSym, len(et.XMLAlphabet), len(strs), et.NListReps, et.NMapReps))
}

// longStringSpace: every symbol of the markup alphabet behind a filler of every length (buffers, chunking and
// offsets inside a writer are invisible to short strings), XML exporter and ToHtml.
func (r *runner) longStringSpace(maxLen int) {
	ctx := r.ctx
	r.space("long-strings")
	var idx int64
	for p := 0; p <= maxLen; p++ {
		for _, fill := range []string{"x", "\u00e9"} {
			for _, sym := range et.XMLAlphabet {
				idx++
				if !ctx.Mine(idx) {
					continue
				}
				if ctx.Expired() {
					return
				}
				for _, suf := range []string{"", "amp;", "#65;"} {
					s := strings.Repeat(fill, p) + sym + suf
					r.check(kase{n: et.L(et.LEager, et.S(s))}, false, p%23 == 4)
					r.check(kase{n: et.M(et.MListMap, []string{"k"}, et.S(s))}, false, false)
					r.check(kase{n: et.M(et.MListMap, []string{s}, et.L(et.LEager))}, false, false)
					r.check(kase{n: et.L(et.LEager, et.S(s)), html: true, max: 10, inline: true}, false, false)
					r.check(kase{n: et.L(et.LEager, et.Lnk(s, et.S(s))), html: true, max: 10, inline: false}, false, false)
				}
			}
		}
	}
	ctx.SpaceDone(fmt.Sprintf("every symbol of the %d-symbol markup alphabet behind a filler (x, \u00e9) of every length 0..%d, followed by nothing / 'amp;' / '#65;': XML list entry, attribute value, key attribute; ToHtml cell, link target and text", len(et.XMLAlphabet), maxLen))
}

func sstr(s string) *et.Style { return &et.Style{K: et.SStr, S: s} }

// htmlContexts puts s into every position of the HTML exporter that takes data.
func htmlContexts(s string) []*et.Node {
	t := et.S("t")
	return []*et.Node{
		et.L(et.LEager, et.S(s)),                                                                                          // simple list cell
		et.L(et.LLazy, et.L(et.LEager, et.S(s), et.S(s))),                                                                 // table cell
		et.M(et.MListMap, []string{s}, et.I(5)),                                                                           // key cell
		et.M(et.MAppend, []string{"k"}, et.S(s)),                                                                          // value cell
		et.L(et.LEager, et.Lnk(s, t)),                                                                                     // href
		et.L(et.LEager, et.Lnk("u", et.S(s))),                                                                             // link text
		et.L(et.LEager, et.Fmt(sstr(s), false, 0, t)),                                                                     // td style
		et.Fmt(sstr(s), false, 0, et.L(et.LEager, t)),                                                                     // table style
		et.M(et.MListMap, []string{"k"}, et.Fmt(sstr(s), true, 2, t)),                                                     // td style + colspan
		et.Fmt(sstr("plainList"), false, 0, et.L(et.LEager, et.Fmt(sstr(s), false, 0, et.S(s)))),                          // span style, top level
		et.Fmt(sstr("plainList"), false, 0, et.L(et.LEager, et.S(s), et.Lnk(s, et.S(s)), et.S(s))),                        // mixed content
		et.Fmt(&et.Style{K: et.SMap, Keys: []string{"x" + s}, Vals: []*et.Node{et.S("v")}}, false, 0, et.L(et.LEager, t)), // style-map key
		et.Fmt(&et.Style{K: et.SMap, Keys: []string{"color", "w_h"}, Vals: []*et.Node{et.S(s), et.F(1.5)}}, false, 0, et.M(et.MListMap, []string{"k"}, t)), // style-map value
		et.L(et.LEager, et.Fil(s, "text/plain", 3)),                                                                                              // file name
		et.L(et.LEager, et.Fil("f.txt", s, 0)),                                                                                                   // mime type
		et.L(et.LEager, et.S("http://"+s), et.S("https://"+s)),                                                                                   // automatic link
		et.Fmt(&et.Style{K: et.SFunc, Fn: et.FnLink, S: s}, false, 0, et.L(et.LEager, t)),                                                        // closure result: link
		et.L(et.LEager, et.L(et.LEager, et.Fmt(&et.Style{K: et.SFunc, Fn: et.FnStyle, S: s}, false, 0, et.L(et.LEager, t)))),                     // closure result: style
		et.Fmt(&et.Style{K: et.SFunc, Fn: et.FnConst, S: s}, false, 0, et.L(et.LEager, t)),                                                       // closure result: text
		et.Fmt(&et.Style{K: et.STable, Cells: []et.Cell{{Name: "all", Style: sstr(s)}}}, false, 0, et.L(et.LEager, et.L(et.LEager, t, et.S(s)))), // table format
		et.Fmt(&et.Style{K: et.STable, Keys: []string{"color"}, Vals: []*et.Node{et.S(s)},
			Cells: []et.Cell{{Name: "c2", Style: &et.Style{K: et.SFunc, Fn: et.FnCell3, S: s}}}}, false, 0, et.L(et.LEager, et.L(et.LEager, t, et.S(s)))),
	}
}

func (r *runner) htmlStringSpace(maxSym int) {
	ctx := r.ctx
	r.space("html-strings")
	strs := xmlStrings(maxSym)
	var idx int64
	nctx := 0
	for _, s := range strs {
		idx++
		if !ctx.Mine(idx) {
			continue
		}
		if ctx.Expired() {
			break
		}
		cs := htmlContexts(s)
		nctx = len(cs)
		for i, n := range cs {
			for _, inline := range []bool{true, false} {
				r.check(kase{n: n, html: true, max: 10, inline: inline}, idx%41 == 3 && i%5 == int(idx/41)%5, true)
			}
		}
	}
	if nctx == 0 {
		nctx = len(htmlContexts(""))
	}
	ctx.SpaceDone(fmt.Sprintf("ToHtml: the same %d strings in %d data positions (list / table / key / value cells, link target and text, style string on table / td / span, style-map key and value, File name and mime type, automatic http(s) link, results of style closures, table formats) x inlineStyle on/off",
		len(strs), nctx))
}

// pools of the tree spaces. A tree that already fails for one of the known findings F18a / F18b
// cannot show a second defect, therefore the main pools avoid their triggers: no CR / TAB / LF in
// strings, and maps that the XML exporter writes in attribute form take their keys from
// SimpleKeys (XML names). Hostile keys go to the maps written as <entry key=…> elements. trigPools
// has the triggers everywhere; it is used on the small shapes only. The string spaces put every
// hostile string into every position anyway.
var pools = &et.Pools{
	Strs:       []string{"a", "<b>", "a&b", "]]>", " x ", "\"'", "\u00e9", "", "&amp;", "<!--", "</td>", "\" x=\"", "-->", "<![CDATA[", "&#65;", "'>", "<a/>"},
	Keys:       []string{"k", "a b", "<", "\u00e9", "", "k=\"v\" x", "1a", "a&b", "-->", "/>", "'", "k2", "\"", "<a/>", ">", "&lt;"},
	SimpleKeys: []string{"k", "\u00e9", "k2", "a-b", "_", "K.1", "a\u00b7", "k3", "kk", "e", "f", "g", "h", "i", "j"},
	Scalars:    []*et.Node{et.I(5), et.Bo(true), et.F(1.5), et.I(-1), et.F(1e21), et.Bo(false)},
}

var trigPools = &et.Pools{
	Strs:    []string{"a\rb", "a\tb", "l\nb", "x", "\r\n", "<\r>", "\t", "&\n"},
	Keys:    []string{"a b", "k", "<", "a\tb", "", "a\rb", "k=\"v\" x", "1a", "\n"},
	Scalars: []*et.Node{et.I(5), et.Bo(true), et.F(1.5)},
}

func container(n *et.Node) bool { k := unwrap(n).K; return k == et.List || k == et.Map }

func (r *runner) trees(height, variantsLow, variantsTop int) {
	ctx := r.ctx
	r.space("trees")
	sp := &et.ShapeSpace{Leaves: []et.Kind{et.Str, et.Int}}
	low := sp.Count(height - 1)
	var idx int64
	sp.Each(height, func(s *et.Shape) bool {
		if s.K != et.List && s.K != et.Map {
			return true
		}
		idx++
		if !ctx.Mine(idx) {
			return true
		}
		if ctx.Expired() {
			return false
		}
		nv := variantsTop
		if idx <= low {
			nv = variantsLow
		}
		for v := 0; v < nv; v++ {
			vv := v
			if nv < et.NMapReps {
				vv = int(idx)*7 + v
			}
			n := pools.Instantiate(s, vv)
			r.both(n, idx%50021 == 77, v == 0)
		}
		if idx <= low {
			for v := 0; v < len(trigPools.Keys); v++ {
				r.both(trigPools.Instantiate(s, v), false, false)
			}
		}
		return true
	})
	ctx.SpaceDone(fmt.Sprintf("XML exporter and ToHtml on all list / map tree shapes of height <= %d (<= 2 children per container, string and non-string leaves; %d shapes incl. scalars): shapes of height < %d in %d variants, the others in %d (variant v: j-th node in preorder takes representation / string / key / scalar number j+v of its pool: %d list, %d map representations, %d strings, %d keys; maps written in attribute form take XML names as keys); shapes of height < %d additionally in %d variants over a pool with CR / TAB / LF strings and non-name keys everywhere",
		height, sp.Count(height), height, variantsLow, variantsTop, et.NListReps, et.NMapReps, len(pools.Strs), len(pools.Keys), height, len(trigPools.Keys)))
}

// deep: every list / map tree shape of height <= base below every chain of 1..2 further containers.
func (r *runner) deep(base, variants int) {
	ctx := r.ctx
	r.space("deep-trees")
	sp := &et.ShapeSpace{Leaves: []et.Kind{et.Str, et.Int}}
	chains := et.Chains(2)
	var idx int64
	sp.Each(base, func(s *et.Shape) bool {
		for _, ch := range chains {
			idx++
			if !ctx.Mine(idx) {
				continue
			}
			if ctx.Expired() {
				return false
			}
			sh := et.Deepen(s, ch)
			for v := 0; v < variants; v++ {
				r.both(pools.Instantiate(sh, int(idx)*5+v), false, v == 0)
			}
		}
		return true
	})
	ctx.SpaceDone(fmt.Sprintf("XML exporter and ToHtml on all %d tree shapes of height <= %d, each below every chain of 1..2 additional lists / maps (%d chains; an added container holds a string and the deeper tree): heights up to %d, %d variant(s) each",
		sp.Count(base), base, len(chains), base+2, variants))
}

func (r *runner) wrappers(leaves []et.Kind, wr []int, height int, maxes []int) {
	ctx := r.ctx
	r.space("wrapper-trees")
	sp := &et.ShapeSpace{Leaves: leaves, Wrappers: wr}
	var idx int64
	sp.Each(height, func(s *et.Shape) bool {
		idx++
		if !ctx.Mine(idx) {
			return true
		}
		if ctx.Expired() {
			return false
		}
		n := pools.Instantiate(s, int(idx))
		if !container(n) {
			return true
		}
		smp := idx%1009 == 500
		r.check(kase{n: n}, false, true)
		for _, mx := range maxes {
			r.check(kase{n: n, html: true, max: mx, inline: idx%2 == 0}, smp, true)
		}
		r.check(kase{n: n, html: true, max: 10, inline: idx%2 != 0}, false, true)
		return true
	})
	ctx.SpaceDone(fmt.Sprintf("all trees of height <= %d over %d leaf kinds, lists and maps with <= 2 children and %d unary wrappers (Link, style string / cell style / style map / style closures / plainList / colspan / table formats; a wrapper is one level; %d shapes, those that are lists or maps possibly under wrappers are run): XML exporter, ToHtml with maxListSize in %v and both inlineStyle settings",
		height, len(leaves), len(wr), sp.Count(height), maxes))
}

func (r *runner) cutoff() {
	ctx := r.ctx
	r.space("html-cutoff")
	var idx int64
	cell := func(i int) *et.Node { return et.S(pools.Strs[i%len(pools.Strs)]) }
	for max := 0; max <= 3; max++ {
		// simple lists of length 0..max+2
		for n := 0; n <= max+2; n++ {
			for rep := 0; rep < et.NListReps; rep++ {
				idx++
				if !ctx.Mine(idx) {
					continue
				}
				l := et.L(rep)
				for i := 0; i < n; i++ {
					l.Kids = append(l.Kids, cell(i))
				}
				r.check(kase{n: l, html: true, max: max, inline: true}, n == max+1 && rep == 1, true)
			}
		}
		// tables: up to 4 rows, each row a list of 0..4 cells or (not the first row) a scalar
		var rows func(cur []int)
		rows = func(cur []int) {
			if len(cur) > 0 {
				idx++
				if ctx.Mine(idx) {
					l := et.L(int(idx) % et.NListReps)
					k := 0
					for ri, w := range cur {
						if w < 0 {
							l.Kids = append(l.Kids, cell(k))
							k++
							continue
						}
						row := et.L((int(idx) + ri) % et.NListReps)
						for c := 0; c < w; c++ {
							row.Kids = append(row.Kids, cell(k))
							k++
						}
						l.Kids = append(l.Kids, row)
					}
					r.check(kase{n: l, html: true, max: max, inline: true}, idx%301 == 7, true)
				}
			}
			if len(cur) == max+2 || len(cur) == 4 {
				return
			}
			for w := -1; w <= max+2 && w <= 4; w++ {
				if w < 0 && len(cur) == 0 {
					continue
				}
				rows(append(append([]int(nil), cur...), w))
			}
		}
		rows(nil)
	}
	ctx.SpaceDone("ToHtml with maxListSize 0..3: simple lists of length 0..max+2 in every list representation; tables of 1..min(max+2,4) rows, every row a list of 0..min(max+2,4) cells or a scalar")
}

func (r *runner) tableFormats() {
	ctx := r.ctx
	r.space("html-table-formats")
	var idx int64
	styles := []*et.Style{sstr("a:\"<b>"), {K: et.SMap, Keys: []string{"c_d"}, Vals: []*et.Node{et.S("'&'")}},
		{K: et.SFunc, Fn: et.FnLink, S: "u?a=1&b=<2>"}, {K: et.SFunc, Fn: et.FnStyle, S: "s\"s"}, {K: et.SFunc, Fn: et.FnConst, S: "<td>"},
		{K: et.SFunc, Fn: et.FnCell3, S: "x<"}, {K: et.SFunc, Fn: et.FnErr}, {K: et.SFunc, Fn: et.FnArgs2}, {K: et.SFunc, Fn: et.FnPanic}}
	names := []string{"all", "r1", "r2", "c1", "c2", "r1c1", "r2c2", "r3", "c3"}
	table := func(i int) *et.Node {
		return et.L(i%et.NListReps,
			et.L(et.LEager, et.S("<1>"), et.I(2)),
			et.L(et.LLazy, et.S("a&b"), et.Fmt(sstr("own"), false, 2, et.S("\"q\""))))
	}
	for i, s1 := range styles {
		for _, n1 := range names {
			for j, s2 := range styles {
				for _, n2 := range names {
					if n2 <= n1 && !(n1 == n2 && i == j) {
						continue
					}
					idx++
					if !ctx.Mine(idx) {
						continue
					}
					cells := []et.Cell{{Name: n1, Style: s1}}
					if n1 != n2 {
						cells = append(cells, et.Cell{Name: n2, Style: s2})
					}
					st := &et.Style{K: et.STable, Cells: cells}
					if idx%3 == 0 {
						st.Keys, st.Vals = []string{"border"}, []*et.Node{et.I(1)}
					}
					for _, inline := range []bool{true, false} {
						r.check(kase{n: et.Fmt(st, false, 0, table(int(idx))), html: true, max: 10, inline: inline}, idx%97 == 11, true)
					}
				}
			}
		}
	}
	ctx.SpaceDone(fmt.Sprintf("ToHtml on a 2x2 table under a style map {table:{…}} with every one and every pair of cell formats out of %d names x %d format kinds (string, map, closures of 1 / 2 / 3 arguments, failing and panicking closures), inlineStyle on/off", len(names), len(styles)))
}

func (r *runner) failures() {
	ctx := r.ctx
	r.space("html-failures")
	var idx int64
	run := func(n *et.Node) {
		idx++
		if !ctx.Mine(idx) {
			return
		}
		for max := 1; max <= 3; max++ {
			r.check(kase{n: n, html: true, max: max, inline: idx%2 == 0}, max == 2 && idx%7 == 1, true)
		}
	}
	leaf := func(i int) *et.Node { return et.S(pools.Strs[i%len(pools.Strs)]) }
	for _, rep := range []int{et.LLazy, et.LSized} {
		for n := 1; n <= 4; n++ {
			for at := 1; at <= n; at++ {
				for kind := 0; kind < 2; kind++ {
					mk := func() *et.Node {
						l := et.L(rep)
						for i := 0; i < n; i++ {
							l.Kids = append(l.Kids, leaf(i))
						}
						if kind == 0 {
							l.FailAt = at
						} else {
							l.PanicAt = at
						}
						return l
					}
					run(mk())                                                                  // simple list
					run(et.L(et.LEager, mk()))                                                 // first row of a table
					run(et.L(et.LEager, et.L(et.LEager, leaf(1)), mk()))                       // second row
					run(et.L(et.LEager, leaf(0), mk()))                                        // nested in a cell
					run(et.M(et.MListMap, []string{"a", "b"}, leaf(2), mk()))                  // map value
					run(et.Fmt(sstr("plainList"), false, 0, mk()))                             // plain list
					run(et.Lnk("u", mk()))                                                     // under a link
					run(et.L(et.LEager, et.Fmt(sstr("s"), false, 0, mk())))                    // styled list in a cell
					run(et.Fmt(&et.Style{K: et.SFunc, Fn: et.FnLink, S: "u"}, false, 0, mk())) // through a closure
				}
			}
		}
	}
	for _, fn := range []string{et.FnErr, et.FnPanic} {
		st := &et.Style{K: et.SFunc, Fn: fn}
		l := et.L(et.LEager, leaf(1), leaf(2))
		run(et.Fmt(st, false, 0, l))
		run(et.Fmt(st, false, 0, et.M(et.MListMap, []string{"k"}, leaf(1))))
		run(et.L(et.LEager, et.Fmt(st, false, 0, l)))                             // list under td: closure applied
		run(et.L(et.LEager, et.Fmt(st, false, 0, leaf(3))))                       // scalar under td: closure is no style text
		run(et.L(et.LEager, leaf(0), et.Lnk("u", et.Fmt(st, false, 0, leaf(3))))) // under link
		run(et.M(et.MListMap, []string{"k"}, et.Lnk("u", et.Fmt(st, true, 0, l))))
		run(et.Fmt(sstr("plainList"), false, 0, et.L(et.LEager, leaf(1), et.Fmt(st, false, 0, leaf(2)))))
		run(et.Fmt(&et.Style{K: et.STable, Cells: []et.Cell{{Name: "r2c1", Style: st}}}, false, 0, et.L(et.LEager, et.L(et.LEager, leaf(1)), et.L(et.LEager, leaf(2)))))
	}
	ctx.SpaceDone("ToHtml, maxListSize 1..3: lazy / sized lists of 1..4 elements whose producer fails or panics at each position, in 9 surroundings (top level, table row, cell, map value, plainList, link, styled, closure); failing and panicking style closures in 8 positions: an error must be returned exactly when the failing element lies before the cut-off, never a panic")
}

func run(ctx *bex.Ctx) {
	debug.SetGCPercent(400)
	r := &runner{ctx: ctx, b: et.NewBuilder()}
	quickWr := []int{et.WLink, et.WStyle, et.WStyleCell, et.WStyleMap, et.WFuncLink, et.WPlainList, et.WColSpan}
	var allWr []int
	for w := 0; w < et.NWrappers; w++ {
		allWr = append(allWr, w)
	}
	r.cutoff()
	r.failures()
	r.tableFormats()
	if ctx.Quick() {
		r.xmlStringSpace(2)
		r.htmlStringSpace(2)
		r.longStringSpace(150)
		r.wrappers([]et.Kind{et.Str, et.Int, et.File}, quickWr, 2, []int{1, 2})
		r.trees(3, et.NMapReps, 1)
		r.deep(2, 3)
	} else {
		r.xmlStringSpace(3)
		r.htmlStringSpace(3)
		r.longStringSpace(700)
		r.wrappers([]et.Kind{et.Str, et.Int, et.File, et.Float}, allWr, 2, []int{1, 2, 3})
		r.trees(3, et.NMapReps, et.NMapReps)
		r.deep(3, 1)
		r.wrappersDeep(quickWr)
	}
}

// wrappersDeep (thorough): height 3 over two leaf kinds.
func (r *runner) wrappersDeep(wr []int) {
	ctx := r.ctx
	r.space("wrapper-trees-height-3")
	sp := &et.ShapeSpace{Leaves: []et.Kind{et.Str, et.Int}, Wrappers: wr}
	var idx int64
	sp.Each(3, func(s *et.Shape) bool {
		idx++
		if !ctx.Mine(idx) {
			return true
		}
		if ctx.Expired() {
			return false
		}
		n := pools.Instantiate(s, int(idx))
		if !container(n) {
			return true
		}
		if idx%2 == 0 {
			r.check(kase{n: n}, false, false)
		}
		r.check(kase{n: n, html: true, max: 1 + int(idx)%3, inline: idx%2 == 0}, false, false)
		return true
	})
	ctx.SpaceDone(fmt.Sprintf("all %d trees of height <= 3 over string / int leaves, lists, maps and %d wrappers: ToHtml (maxListSize 1..3 and inlineStyle by shape index), XML exporter on every second shape", sp.Count(3), len(wr)))
}

func caseOf(repro map[string]any) (kase, error) {
	n, err := et.FromRepro(repro["tree"])
	if err != nil {
		return kase{}, err
	}
	c := kase{n: n}
	if repro["exporter"] == "html" {
		c.html = true
		if f, ok := repro["maxListSize"].(float64); ok {
			c.max = int(f)
		}
		c.inline, _ = repro["inlineStyle"].(bool)
	}
	return c, nil
}

func replay(repro map[string]any) (string, bool) {
	c, err := caseOf(repro)
	if err != nil {
		return "cannot decode the case: " + err.Error(), true
	}
	if e, ok := repro["earlier"].(map[string]any); ok {
		ec, err := caseOf(e)
		if err != nil {
			return "cannot decode the earlier case: " + err.Error(), true
		}
		b := et.NewBuilder()
		ev := verify(b, ec)
		verify(b, c)
		if string(ev.raw) != ev.doc {
			return fmt.Sprintf("the document %q of the earlier export reads %q after the later export", trunc(ev.doc, 300), trunc(string(ev.raw), 300)), true
		}
		return fmt.Sprintf("the document %q of the earlier export is unchanged after the later export", trunc(ev.doc, 300)), false
	}
	v := verify(et.NewBuilder(), c)
	if v.ok() {
		return fmt.Sprintf("output %q agrees with the value", v.doc), false
	}
	x := v.diffs[0]
	return fmt.Sprintf("%s at %s: want %s, got %s; output %q", x.what, x.path, x.want, x.got, v.doc), true
}

func main() {
	bex.Main(&bex.Check{
		ID:    "C18",
		Level: "exploration",
		Rule: "a case is one value tree (description in internal/exptree: lists and maps in a named representation, scalars, Format / Link / File wrappers with style strings, maps and closures) and one exporter (export.XML through export.Export, or export.ToHtml with maxListSize and inlineStyle). The complete output is tokenised by encoding/xml (strict, raw tokens; the harness adds end-tag matching, attribute uniqueness, single root, no comment / PI / directive / CDATA) and compared with the tree the property prescribes: XML list -> <list><entry>…, map -> <map> with the keys as attributes (only if every key is an XML name and every value a scalar) or <entry key=…> children, scalars as character data; HTML against a reference model of the documented table layout, with element / attribute names restricted to the exporter's vocabulary. Every text and attribute value must decode to exactly the string of the value; the XML document of every case is kept as returned and must be unchanged after the next cases have been exported. " +
			"distinct_nontrivial = distinct outputs that contain at least one escaped character or come from a tree of depth >= 2 (counted per worker by a hash of the output and summed; all variants of one string / shape run in the same worker)",
		Assumptions: []string{
			"strings, keys, styles, link targets, file names consist of legal XML characters (the property's domain); map keys are distinct",
			"decoding = what encoding/xml reports (entity / character references, line-end normalisation §2.11) and, for the XML exporter, additionally attribute-value normalisation §3.3.3 computed by the harness from the raw start tag; for ToHtml literal TAB/LF in attribute values are counted as unspecified",
			"the HTML reference model restates the documented layout (index / key cells, 'more...' cut-off, plainList, colspan, style / class attributes, table formats); decoration texts ('1.', 'more...', 'Link') and float formatting are accepted as any non-empty character data",
			"not modelled: strings with the prefix 'host:', custom renderers (raw HTML is the caller's responsibility), values implementing ToHtmlInterface",
			"well-formedness is XML 1.0 without name spaces; keys containing ':' or starting with 'xml' used as attribute names are counted as unspecified",
		},
		QuickBudget: 55e9, ThoroughBudget: 24 * 60e9,
		Run:              run,
		Replay:           replay,
		CrashIsViolation: true,
	})
}
