package main

import (
	"encoding/base64"
	"fmt"
	"regexp"
	"sort"
	"strconv"
	"strings"

	et "verif/internal/exptree"
)

// diff is one difference between the parsed output and what the property demands.
type diff struct {
	kind string // malformed | structure | text | attr | attr-ws | error
	path string
	what string
	want string
	got  string
}

const (
	dMalformed = "malformed"
	dStructure = "structure"
	dText      = "text"
	dAttr      = "attr"
	dAttrWS    = "attr-ws" // differs only for a parser that normalises attribute values (XML 1.0 §3.3.3)
	dError     = "error"
)

type diffs struct {
	list []diff
	// notes collects reasons for which a part of the case was left to the specification's silence
	notes map[string]bool
}

func (d *diffs) add(kind, path, what, want, got string) {
	if len(d.list) < 8 {
		d.list = append(d.list, diff{kind, path, what, want, got})
	}
}

func (d *diffs) note(why string) {
	if d.notes == nil {
		d.notes = map[string]bool{}
	}
	d.notes[why] = true
}

// attrValue compares an attribute value with the string it must decode to.
func (d *diffs) attrValue(path string, a pattr, want string) {
	if a.val != want {
		d.add(dAttr, path, "attribute value does not decode to the string of the value", strconv.Quote(want), strconv.Quote(a.val))
	} else if a.norm != want {
		d.add(dAttrWS, path, "attribute value holds a literal TAB/LF that attribute-value normalisation turns into a blank", strconv.Quote(want), strconv.Quote(a.norm))
	}
}

func unwrap(n *et.Node) *et.Node {
	for n.K == et.Format || n.K == et.Link {
		n = n.Kids[0]
	}
	return n
}

func onlyWS(s string) bool { return strings.Trim(s, " \t\r\n") == "" }

// ---------------------------------------------------------------------------------------------
// XML

const (
	noteNS      = "a map key that contains ':' or starts with 'xml' became an attribute name: well-formed XML 1.0, its name-space meaning is not specified by the property"
	noteEdition = "a map key is an XML name in the fifth edition of XML 1.0 but not for encoding/xml (fourth-edition name alphabet): whether it may serve as attribute name is not specified"
)

// checkXMLDoc compares the parsed XML document with the value.
func checkXMLDoc(n *et.Node, root *elem, d *diffs) {
	xmlContainer(unwrap(n), root, "/", d)
}

func xmlContainer(n *et.Node, e *elem, path string, d *diffs) {
	path += e.name
	switch n.K {
	case et.List:
		if e.name != "list" {
			d.add(dStructure, path, "list not exported as <list>", "<list>", "<"+e.name+">")
			return
		}
		if len(e.attrs) != 0 {
			d.add(dStructure, path, "<list> carries attributes", "none", attrNames(e))
		}
		if t := e.allText(); !onlyWS(t) {
			d.add(dText, path, "text directly inside <list>", "only indentation", strconv.Quote(t))
		}
		kids := e.elemKids()
		if len(kids) != len(n.Kids) {
			d.add(dStructure, path, "number of list entries", fmt.Sprint(len(n.Kids)), fmt.Sprint(len(kids)))
			return
		}
		for i, k := range kids {
			p := fmt.Sprintf("%s/entry[%d]", path, i+1)
			if k.name != "entry" {
				d.add(dStructure, p, "list entry element", "<entry>", "<"+k.name+">")
				continue
			}
			if len(k.attrs) != 0 {
				d.add(dStructure, p, "list <entry> carries attributes", "none", attrNames(k))
			}
			xmlContent(n.Kids[i], k, p, d)
		}
	case et.Map:
		if e.name != "map" {
			d.add(dStructure, path, "map not exported as <map>", "<map>", "<"+e.name+">")
			return
		}
		if t := e.allText(); !onlyWS(t) {
			d.add(dText, path, "text directly inside <map>", "only indentation", strconv.Quote(t))
		}
		kids := e.elemKids()
		if len(kids) == 0 {
			// attribute form: legal only if every value is a scalar and every key an XML name
			if len(e.attrs) != len(n.Keys) {
				d.add(dStructure, path, "attributes of <map> are not exactly the map's keys", fmt.Sprintf("%q", sorted(n.Keys)), attrNames(e))
				return
			}
			for i, k := range n.Keys {
				a, ok := e.attr(k)
				if !ok {
					d.add(dStructure, path, "attributes of <map> are not exactly the map's keys", fmt.Sprintf("%q", sorted(n.Keys)), attrNames(e))
					return
				}
				v := unwrap(n.Kids[i])
				if !v.IsScalar() {
					d.add(dStructure, path+"/@"+k, "a list or map value exported as attribute", "child element", "attribute")
					continue
				}
				if strings.Contains(k, ":") || strings.HasPrefix(strings.ToLower(k), "xml") {
					d.note(noteNS)
				}
				d.attrValue(path+"/@"+k, a, v.ScalarString())
			}
			return
		}
		// element form
		if len(e.attrs) != 0 {
			d.add(dStructure, path, "<map> with entry elements also carries attributes", "none", attrNames(e))
		}
		seen := map[string]*elem{}
		for i, k := range kids {
			p := fmt.Sprintf("%s/entry[%d]", path, i+1)
			if k.name != "entry" {
				d.add(dStructure, p, "map entry element", "<entry key=…>", "<"+k.name+">")
				return
			}
			a, ok := k.attr("key")
			if !ok || len(k.attrs) != 1 {
				d.add(dStructure, p, "map <entry> must carry exactly the attribute key", "key", attrNames(k))
				return
			}
			// identify the entry by the decoded key; a key the parser decodes differently is reported below
			if _, dup := seen[a.val]; dup {
				d.add(dStructure, p, "two map entries with the same key", "distinct keys", strconv.Quote(a.val))
				return
			}
			seen[a.val] = k
		}
		if len(kids) != len(n.Keys) {
			d.add(dStructure, path, "number of map entries", fmt.Sprint(len(n.Keys)), fmt.Sprint(len(kids)))
			return
		}
		for i, key := range n.Keys {
			k, ok := seen[key]
			if !ok {
				var got []string
				for g := range seen {
					got = append(got, g)
				}
				d.add(dAttr, path, "no map entry whose key attribute decodes to the key", strconv.Quote(key), fmt.Sprintf("%q", sorted(got)))
				continue
			}
			a, _ := k.attr("key")
			p := fmt.Sprintf("%s/entry[@key=%q]", path, key)
			d.attrValue(p+"/@key", a, key)
			xmlContent(n.Kids[i], k, p, d)
		}
	default:
		d.add(dStructure, path, "harness: container expected", "list or map", n.K.String())
	}
}

// xmlContent checks the content of an <entry>.
func xmlContent(n *et.Node, e *elem, path string, d *diffs) {
	n = unwrap(n)
	kids := e.elemKids()
	if n.IsScalar() {
		if len(kids) != 0 {
			d.add(dStructure, path, "scalar exported with child elements", "character data only", "<"+kids[0].name+">")
			return
		}
		if got, want := e.allText(), n.ScalarString(); got != want {
			d.add(dText, path, "character data does not decode to the string of the value", strconv.Quote(want), strconv.Quote(got))
		}
		return
	}
	if len(kids) != 1 {
		d.add(dStructure, path, "container entry must hold exactly one element", "1", fmt.Sprint(len(kids)))
		return
	}
	if t := e.allText(); !onlyWS(t) {
		d.add(dText, path, "text next to a nested container", "only indentation", strconv.Quote(t))
	}
	xmlContainer(n, kids[0], path+"/", d)
}

func attrNames(e *elem) string {
	var l []string
	for _, a := range e.attrs {
		l = append(l, a.name)
	}
	return fmt.Sprintf("%q", l)
}

func sorted(l []string) []string {
	c := append([]string(nil), l...)
	sort.Strings(c)
	return c
}

// xmlSimpleMaps calls f for every map of the tree that the XML exporter may write in attribute
// form (all values scalars), cf. value/export/xml.go isSimpleMap.
func xmlSimpleMaps(n *et.Node, f func(m *et.Node)) {
	if n.K == et.Map {
		simple := true
		for _, k := range n.Kids {
			if k.K == et.Format || !unwrap(k).IsScalar() {
				simple = false
			}
		}
		if simple {
			f(n)
		}
	}
	for _, k := range n.Kids {
		xmlSimpleMaps(k, f)
	}
}

// ---------------------------------------------------------------------------------------------
// HTML reference model: the tree ToHtml is documented to produce for a value

type hx struct {
	name  string // "" = text
	segs  []seg  // text node: literal pieces and "any non-empty text" pieces
	attrs []hattr
	kids  []*hx
}

// seg is a piece of expected character data. any: decoration written by the exporter (row number,
// "more...", "Link") or number formatting — any non-empty character data is accepted there.
type seg struct {
	any bool
	s   string
}

func (x *hx) hasAny() bool {
	for _, s := range x.segs {
		if s.any {
			return true
		}
	}
	return false
}

func (x *hx) literal() string {
	var sb strings.Builder
	for _, s := range x.segs {
		sb.WriteString(s.s)
	}
	return sb.String()
}

// matches reports whether character data t is what the text node describes; indent allows the
// pretty-printer's TAB/LF around it (mixed content).
func (x *hx) matches(t string, indent bool) bool {
	if !x.hasAny() {
		if indent {
			return stripIndent(x.literal()) == stripIndent(t)
		}
		return x.literal() == t
	}
	var sb strings.Builder
	sb.WriteString("(?s)^")
	if indent {
		sb.WriteString(`[\t\n]*`)
	}
	for _, s := range x.segs {
		if s.any {
			sb.WriteString(".+")
		} else {
			sb.WriteString(regexp.QuoteMeta(s.s))
		}
	}
	if indent {
		sb.WriteString(`[\t\n]*`)
	}
	sb.WriteString("$")
	re, ok := reCache[sb.String()]
	if !ok {
		re = regexp.MustCompile(sb.String())
		if len(reCache) < 4096 {
			reCache[sb.String()] = re
		}
	}
	return re.MatchString(t)
}

var reCache = map[string]*regexp.Regexp{}

type hattr struct {
	name  string
	val   string
	style bool // style attribute: with inlineStyle=false a class attribute naming a class of that style
}

type hmodel struct {
	max    int
	inline bool
	stack  []*hx
	notes  map[string]bool
}

type modelErr struct{ why string }

func (e *modelErr) Error() string { return e.why }

func newModel(max int, inline bool) *hmodel {
	if max < 1 {
		max = 1
	}
	return &hmodel{max: max, inline: inline, stack: []*hx{{name: fragRoot}}, notes: map[string]bool{}}
}

func (m *hmodel) top() *hx { return m.stack[len(m.stack)-1] }

func (m *hmodel) open(name string) *hx {
	e := &hx{name: name}
	m.top().kids = append(m.top().kids, e)
	m.stack = append(m.stack, e)
	return e
}

func (m *hmodel) close() { m.stack = m.stack[:len(m.stack)-1] }

func (m *hmodel) seg(sg seg) {
	t := m.top()
	if n := len(t.kids); n > 0 && t.kids[n-1].name == "" {
		t.kids[n-1].segs = append(t.kids[n-1].segs, sg)
		return
	}
	t.kids = append(t.kids, &hx{segs: []seg{sg}})
}

func (m *hmodel) text(s string) {
	if s != "" {
		m.seg(seg{s: s})
	}
}

func (m *hmodel) deco() { m.seg(seg{any: true}) }

func (m *hmodel) attr(name, val string) {
	m.top().attrs = append(m.top().attrs, hattr{name: name, val: val})
}

func (m *hmodel) styleAttr(st *et.Style) {
	if s, ok := styleString(st); ok {
		m.top().attrs = append(m.top().attrs, hattr{name: "style", val: s, style: true})
	}
}

// styleString is the CSS text of a style value: a string as it is, a map as "key:value;" pairs
// sorted by key with '_' written as '-' (string, int and float values only).
func styleString(st *et.Style) (string, bool) {
	if st == nil {
		return "", false
	}
	switch st.K {
	case et.SStr:
		return st.S, true
	case et.SMap, et.STable:
		type kv struct{ k, v string }
		var l []kv
		for i, k := range st.Keys {
			v := st.Vals[i]
			switch v.K {
			case et.Str:
				l = append(l, kv{strings.ReplaceAll(k, "_", "-"), v.S})
			case et.Int:
				l = append(l, kv{strings.ReplaceAll(k, "_", "-"), v.Num})
			case et.Float:
				l = append(l, kv{strings.ReplaceAll(k, "_", "-"), strconv.FormatFloat(v.FloatVal(), 'f', -1, 64)})
			}
		}
		if len(l) == 0 {
			return "", false
		}
		sort.SliceStable(l, func(i, j int) bool { return l[i].k < l[j].k })
		var sb strings.Builder
		for _, e := range l {
			sb.WriteString(e.k + ":" + e.v + ";")
		}
		return sb.String(), true
	}
	return "", false
}

func hasKey(st *et.Style, key string) bool {
	if st == nil {
		return false
	}
	switch st.K {
	case et.SStr:
		return st.S == key
	case et.SMap, et.STable:
		for _, k := range st.Keys {
			if k == key {
				return true
			}
		}
		return st.K == et.STable && key == "table"
	}
	return false
}

// applyFn is the meaning of a style closure.
func applyFn(st *et.Style, v *et.Node) (*et.Node, error) {
	switch st.Fn {
	case et.FnLink:
		return et.Lnk(st.S, v), nil
	case et.FnStyle:
		return et.Fmt(&et.Style{K: et.SStr, S: st.S}, false, 0, v), nil
	case et.FnConst:
		return et.S(st.S), nil
	case et.FnErr:
		return nil, &modelErr{"style closure returns an error"}
	case et.FnPanic:
		return nil, &modelErr{"style closure panics"}
	}
	panic("applyFn " + st.Fn)
}

func oneArg(st *et.Style) bool {
	return st != nil && st.K == et.SFunc && st.Fn != et.FnArgs2 && st.Fn != et.FnCell3
}

func byteSize(n int) string {
	units := []string{"Bytes", "kBytes", "MBytes", "GBytes", "TBytes"}
	u := 0
	for n > 10000 && u < len(units)-1 {
		u++
		n /= 1024
	}
	return strconv.Itoa(n) + " " + units[u]
}

func (m *hmodel) toHtml(v *et.Node, style *et.Style) error {
	if oneArg(style) {
		res, err := applyFn(style, v)
		if err != nil {
			return err
		}
		return m.toHtml(res, nil)
	}
	switch v.K {
	case et.Format:
		return m.toHtml(v.Kids[0], v.Style)
	case et.Link:
		m.open("a")
		m.attr("href", v.S)
		err := m.toHtml(v.Kids[0], style)
		m.close()
		return err
	case et.File:
		mime := v.Mime
		if mime == "" {
			mime = "application/octet-stream"
		}
		m.open("a")
		m.attr("href", "data:"+mime+";base64,"+base64.StdEncoding.EncodeToString(et.FileData(v.Data)))
		m.attr("download", v.S)
		m.text("File: " + v.S + " (" + byteSize(v.Data) + ")")
		m.close()
	case et.List:
		if hasKey(style, "plainList") {
			for i, k := range v.Kids {
				if err := listFailure(v, i); err != nil {
					return err
				}
				if err := m.toHtml(k, nil); err != nil {
					return err
				}
			}
			return nil
		}
		return m.list(v, style)
	case et.Map:
		m.open("table")
		m.styleAttr(style)
		idx := make([]int, len(v.Keys))
		for i := range idx {
			idx[i] = i
		}
		sort.SliceStable(idx, func(a, b int) bool { return v.Keys[idx[a]] < v.Keys[idx[b]] })
		for _, i := range idx {
			m.open("tr")
			m.open("td")
			m.text(v.Keys[i] + ":")
			m.close()
			if err := m.toTD(v.Kids[i]); err != nil {
				return err
			}
			m.close()
		}
		m.close()
	case et.Float:
		// "a Unicode representation of the float value": number formatting is not the property's subject
		// (floats that print without exponent in <= 6 digits are nevertheless compared exactly)
		if g := strconv.FormatFloat(v.FloatVal(), 'g', 6, 64); g == v.ScalarString() && !strings.ContainsAny(g, "eIN") {
			m.text(g)
		} else {
			m.deco()
		}
	default:
		m.str(v.ScalarString(), style)
	}
	return nil
}

func listFailure(l *et.Node, i int) error {
	if l.PanicAt == i+1 {
		return &modelErr{"list producer panics"}
	}
	if l.FailAt == i+1 {
		return &modelErr{"list producer yields an error"}
	}
	return nil
}

const noteHost = "a string starting with 'host:' is shown as a link to the rest of the string: documented special case, the property is silent"

func (m *hmodel) str(s string, style *et.Style) {
	switch {
	case strings.HasPrefix(s, "http://") || strings.HasPrefix(s, "https://"):
		m.open("a")
		m.attr("href", s)
		m.attr("target", "_blank")
		m.deco()
		m.close()
	case strings.HasPrefix(s, "host:"):
		m.notes[noteHost] = true
		m.open("a")
		m.attr("href", s[5:])
		m.attr("target", "_blank")
		m.deco()
		m.close()
	default:
		if _, ok := styleString(style); ok {
			m.open("span")
			m.styleAttr(style)
			m.text(s)
			m.close()
		} else {
			m.text(s)
		}
	}
}

func (m *hmodel) list(v *et.Node, style *et.Style) error {
	opened, table := false, false
	var cells []et.Cell
	row := 0
	for i, item := range v.Kids {
		if err := listFailure(v, i); err != nil {
			return err
		}
		if !opened {
			opened = true
			table = item.K == et.List
			m.open("table")
			m.styleAttr(style)
			if table && style != nil && style.K == et.STable {
				cells = append([]et.Cell{}, style.Cells...)
			}
		}
		row++
		m.open("tr")
		more := false
		if !table {
			m.open("td")
			m.deco() // "1."
			m.close()
			if row <= m.max {
				if err := m.toTD(item); err != nil {
					return err
				}
			} else {
				more = true
			}
		} else if row <= m.max {
			rowItems := []*et.Node{item}
			rowList := &et.Node{K: et.List}
			if item.K == et.List {
				rowItems, rowList = item.Kids, item
			}
			for c, cell := range rowItems {
				if err := listFailure(rowList, c); err != nil {
					return err
				}
				col := c + 1
				if col <= m.max {
					f, err := m.format(cells, cells != nil, row, col, cell)
					if err != nil {
						return err
					}
					if err := m.toTD(f); err != nil {
						return err
					}
				} else {
					m.open("td")
					m.deco() // "more..."
					m.close()
					break
				}
			}
		} else {
			more = true
		}
		if more {
			m.open("td")
			m.deco() // "more..."
			m.close()
		}
		m.close() // tr
		if row > m.max {
			break
		}
	}
	if opened {
		m.close()
	}
	return nil
}

// format applies the table format of a style map {table:{rNcM|rN|cM|all: format}} to one cell.
func (m *hmodel) format(cells []et.Cell, active bool, row, col int, item *et.Node) (*et.Node, error) {
	if !active {
		return item, nil
	}
	var f *et.Style
	for _, name := range []string{fmt.Sprintf("r%dc%d", row, col), fmt.Sprintf("r%d", row), fmt.Sprintf("c%d", col), "all"} {
		for _, c := range cells {
			if c.Name == name {
				f = c.Style
				break
			}
		}
		if f != nil {
			break
		}
	}
	if f == nil {
		return item, nil
	}
	if f.K == et.SFunc {
		switch f.Fn {
		case et.FnCell3:
			return et.Fmt(&et.Style{K: et.SStr, S: f.S + strconv.Itoa(row) + strconv.Itoa(col)}, false, 0, item), nil
		case et.FnArgs2:
		case et.FnPanic:
			return nil, &modelErr{"cell format closure panics"}
		case et.FnErr:
			// "if the closure fails the format is used as a plain style": a closure is no style text
		default:
			return applyFn(f, item)
		}
	}
	return et.Fmt(f, true, 0, item), nil
}

func (m *hmodel) toTD(d *et.Node) error {
	m.open("td")
	defer m.close()
	if d.K == et.Format {
		if d.ColSpan > 1 {
			m.attr("colspan", strconv.Itoa(d.ColSpan))
		}
		if d.Kids[0].K == et.List && !d.Cell {
			return m.toHtml(d.Kids[0], d.Style)
		}
		m.styleAttr(d.Style)
		return m.toHtml(d.Kids[0], nil)
	}
	return m.toHtml(d, nil)
}

// ---------------------------------------------------------------------------------------------
// comparison of the parsed fragment with the model tree

const noteMixed = "plainList output mixes text and elements: leading/trailing TAB/LF of a text item cannot be told from the pretty-printer's indentation"

var classRE = regexp.MustCompile(`^c[0-9]+$`)

func stripIndent(s string) string { return strings.Trim(s, "\t\n") }

// canonical content of a parsed element: child elements and text; in element content the
// pretty-printer's indentation (TAB/LF-only text) is dropped, in mixed content it is trimmed.
func parsedKids(e *elem) (kids []*elem, mixed bool) {
	if len(e.elemKids()) == 0 {
		return e.kids, false
	}
	for _, k := range e.kids {
		if k.name != "" {
			kids = append(kids, k)
			continue
		}
		if t := stripIndent(k.text); t != "" {
			kids = append(kids, &elem{text: t})
			mixed = true
		}
	}
	return kids, mixed
}

func modelKids(x *hx, d *diffs) []*hx {
	hasElem, hasText := false, false
	for _, k := range x.kids {
		if k.name != "" {
			hasElem = true
		} else {
			hasText = true
		}
	}
	if !hasElem || !hasText {
		return x.kids
	}
	var kids []*hx
	for _, k := range x.kids {
		if k.name != "" || k.hasAny() {
			kids = append(kids, k)
			continue
		}
		t := stripIndent(k.literal())
		if t != k.literal() {
			d.note(noteMixed)
		}
		if t != "" {
			kids = append(kids, k)
		}
	}
	return kids
}

func describe(e *elem) string {
	if e.name == "" {
		return "text " + strconv.Quote(trunc(e.text, 60))
	}
	return "<" + e.name + ">"
}

func describeX(x *hx) string {
	if x.name == "" {
		var sb strings.Builder
		for _, sg := range x.segs {
			if sg.any {
				sb.WriteString("<some text>")
			} else {
				sb.WriteString(sg.s)
			}
		}
		return "text " + strconv.Quote(trunc(sb.String(), 60))
	}
	return "<" + x.name + ">"
}

func compareHTML(x *hx, e *elem, path string, classes map[string]string, inline bool, d *diffs) {
	path += "/" + e.name
	// attributes
	if len(e.attrs) != len(x.attrs) {
		var want []string
		for _, a := range x.attrs {
			want = append(want, a.name)
		}
		d.add(dStructure, path, "attribute set of the element", fmt.Sprintf("%q", want), attrNames(e))
	} else {
		for _, wa := range x.attrs {
			name := wa.name
			if wa.style && !inline {
				name = "class"
			}
			a, ok := e.attr(name)
			if !ok {
				d.add(dStructure, path, "attribute missing", name, attrNames(e))
				continue
			}
			if wa.style && !inline {
				if !classRE.MatchString(a.val) {
					d.add(dAttr, path+"/@class", "class attribute is not a generated class name", "c<number>", strconv.Quote(a.val))
				} else if st, ok := classes[a.val]; !ok || st != wa.val {
					d.add(dAttr, path+"/@class", "class list does not map the class to the style of the value", strconv.Quote(wa.val), strconv.Quote(st))
				}
				continue
			}
			d.attrValue(path+"/@"+name, a, wa.val)
		}
	}
	// content
	pk, mixed := parsedKids(e)
	mk := modelKids(x, d)
	if len(pk) != len(mk) {
		var want, got []string
		for _, k := range mk {
			want = append(want, describeX(k))
		}
		for _, k := range pk {
			got = append(got, describe(k))
		}
		d.add(dStructure, path, "content of the element", strings.Join(want, " "), strings.Join(got, " "))
		return
	}
	for i, k := range mk {
		p := pk[i]
		if (k.name == "") != (p.name == "") || (k.name != "" && k.name != p.name) {
			d.add(dStructure, fmt.Sprintf("%s/node[%d]", path, i+1), "content of the element", describeX(k), describe(p))
			return
		}
		if k.name == "" {
			if !k.matches(p.text, mixed) {
				d.add(dText, fmt.Sprintf("%s/text[%d]", path, i+1), "character data does not decode to the string of the value", describeX(k), strconv.Quote(p.text))
			}
			continue
		}
		compareHTML(k, p, fmt.Sprintf("%s[%d]", path, i+1), classes, inline, d)
	}
}

// htmlVocabulary checks element and attribute names against the exporter's fixed vocabulary.
var htmlAllowed = map[string][]string{fragRoot: {}, "table": {"style", "class"}, "tr": {}, "td": {"style", "class", "colspan"},
	"a": {"href", "target", "download"}, "span": {"style", "class"}}

func htmlVocabulary(e *elem, d *diffs) {
	allowed := htmlAllowed
	if e.name == "" {
		return
	}
	al, ok := allowed[e.name]
	if !ok {
		d.add(dStructure, "//"+e.name, "element outside the exporter's vocabulary", "table tr td a span", "<"+e.name+">")
	}
	for _, a := range e.attrs {
		found := false
		for _, n := range al {
			if n == a.name {
				found = true
			}
		}
		if !found && ok {
			d.add(dStructure, "//"+e.name+"/@"+a.name, "attribute outside the exporter's vocabulary", fmt.Sprintf("%q", al), a.name)
		}
	}
	for _, k := range e.kids {
		htmlVocabulary(k, d)
	}
}
