package main

import (
	"bytes"
	"encoding/xml"
	"fmt"
	"io"
	"strconv"
	"strings"
	"unicode/utf8"
)

// elem is a node of the parsed output: an element (name != "") or a text node.
type elem struct {
	name  string
	attrs []pattr
	kids  []*elem
	text  string
}

// pattr is one parsed attribute: val is the value as encoding/xml decodes it (entity and character
// references resolved, line ends normalised: XML 1.0 §2.11); norm is the value a conforming XML
// processor hands to the application, i.e. additionally with literal TAB / LF / CR replaced by
// blanks (§3.3.3 attribute-value normalisation, which encoding/xml does not perform).
type pattr struct {
	name string
	val  string
	norm string
}

func (e *elem) attr(name string) (pattr, bool) {
	for _, a := range e.attrs {
		if a.name == name {
			return a, true
		}
	}
	return pattr{}, false
}

func (e *elem) elemKids() []*elem {
	var out []*elem
	for _, k := range e.kids {
		if k.name != "" {
			out = append(out, k)
		}
	}
	return out
}

// allText concatenates the text nodes directly below e.
func (e *elem) allText() string {
	var sb strings.Builder
	for _, k := range e.kids {
		if k.name == "" {
			sb.WriteString(k.text)
		}
	}
	return sb.String()
}

func qname(n xml.Name) string {
	if n.Space != "" {
		return n.Space + ":" + n.Local
	}
	return n.Local
}

const fragRoot = "verif-root"

// parseMarkup tokenises the complete output with encoding/xml (strict mode, raw tokens: no name-space
// translation) and builds the element tree, checking what the tokeniser does not: matching end
// tags, nothing left open, unique attribute names, no comments / processing instructions /
// directives (the exporters never write any, apart from the XML declaration), a single root and
// no text outside it. fragment = true wraps the text into a synthetic root element (ToHtml returns
// a fragment).
func parseMarkup(doc []byte, fragment bool) (*elem, error) {
	if !utf8.Valid(doc) {
		return nil, fmt.Errorf("output is not valid UTF-8")
	}
	if fragment {
		doc = []byte("<" + fragRoot + ">" + string(doc) + "</" + fragRoot + ">")
	}
	d := xml.NewDecoder(bytes.NewReader(doc))
	d.Strict = true
	top := &elem{name: "#document"}
	stack := []*elem{top}
	first := true
	for {
		off0 := d.InputOffset()
		tok, err := d.RawToken()
		if err == io.EOF {
			break
		}
		if err != nil {
			return nil, fmt.Errorf("encoding/xml: %v", err)
		}
		off1 := d.InputOffset()
		cur := stack[len(stack)-1]
		switch t := tok.(type) {
		case xml.ProcInst:
			if !(first && !fragment && t.Target == "xml") {
				return nil, fmt.Errorf("processing instruction <?%s …?> in the output", t.Target)
			}
		case xml.Comment:
			return nil, fmt.Errorf("comment <!--%s--> in the output", trunc(string(t), 40))
		case xml.Directive:
			return nil, fmt.Errorf("directive <!%s> in the output", trunc(string(t), 40))
		case xml.CharData:
			s := string(t)
			if len(stack) == 1 {
				if strings.Trim(s, " \t\r\n") != "" {
					return nil, fmt.Errorf("text %q outside the root element", trunc(s, 40))
				}
				break
			}
			if bytes.Contains(doc[off0:off1], []byte("<![CDATA[")) {
				return nil, fmt.Errorf("CDATA section in the output")
			}
			if n := len(cur.kids); n > 0 && cur.kids[n-1].name == "" {
				cur.kids[n-1].text += s
			} else {
				cur.kids = append(cur.kids, &elem{text: s})
			}
		case xml.StartElement:
			e := &elem{name: qname(t.Name)}
			raw, err := rawAttrs(doc[off0:off1])
			if err != nil {
				return nil, err
			}
			if len(raw) != len(t.Attr) {
				return nil, fmt.Errorf("harness: raw scan of %q finds %d attributes, encoding/xml %d", doc[off0:off1], len(raw), len(t.Attr))
			}
			seen := map[string]bool{}
			for i, a := range t.Attr {
				if raw[i].name != qname(a.Name) {
					return nil, fmt.Errorf("harness: raw scan of %q: attribute %q vs %q", doc[off0:off1], raw[i].name, qname(a.Name))
				}
				if seen[raw[i].name] {
					return nil, fmt.Errorf("attribute %q appears twice in <%s>", raw[i].name, e.name)
				}
				seen[raw[i].name] = true
				norm, err := normAttr(raw[i].raw)
				if err != nil {
					return nil, err
				}
				e.attrs = append(e.attrs, pattr{name: raw[i].name, val: a.Value, norm: norm})
			}
			cur.kids = append(cur.kids, e)
			stack = append(stack, e)
		case xml.EndElement:
			if len(stack) == 1 {
				return nil, fmt.Errorf("end tag </%s> without start tag", qname(t.Name))
			}
			if cur.name != qname(t.Name) {
				return nil, fmt.Errorf("end tag </%s> closes <%s>", qname(t.Name), cur.name)
			}
			stack = stack[:len(stack)-1]
		}
		first = false
	}
	if len(stack) != 1 {
		return nil, fmt.Errorf("element <%s> is never closed", stack[len(stack)-1].name)
	}
	roots := top.elemKids()
	if len(roots) != 1 {
		return nil, fmt.Errorf("%d root elements", len(roots))
	}
	if fragment && roots[0].name != fragRoot {
		return nil, fmt.Errorf("fragment escaped its wrapper")
	}
	return roots[0], nil
}

type rawAttr struct{ name, raw string }

func isWS(c byte) bool { return c == ' ' || c == '\t' || c == '\n' || c == '\r' }

// rawAttrs scans the source text of a start tag that encoding/xml has already accepted.
func rawAttrs(tag []byte) ([]rawAttr, error) {
	bad := func() ([]rawAttr, error) { return nil, fmt.Errorf("harness: cannot scan start tag %q", tag) }
	if len(tag) < 3 || tag[0] != '<' {
		return bad()
	}
	i := 1
	for i < len(tag) && !isWS(tag[i]) && tag[i] != '/' && tag[i] != '>' {
		i++
	}
	var out []rawAttr
	for {
		for i < len(tag) && isWS(tag[i]) {
			i++
		}
		if i >= len(tag) {
			return bad()
		}
		if tag[i] == '>' || tag[i] == '/' {
			return out, nil
		}
		s := i
		for i < len(tag) && !isWS(tag[i]) && tag[i] != '=' {
			i++
		}
		name := string(tag[s:i])
		for i < len(tag) && isWS(tag[i]) {
			i++
		}
		if i >= len(tag) || tag[i] != '=' {
			return bad()
		}
		i++
		for i < len(tag) && isWS(tag[i]) {
			i++
		}
		if i >= len(tag) || (tag[i] != '"' && tag[i] != '\'') {
			return bad()
		}
		q := tag[i]
		i++
		s = i
		for i < len(tag) && tag[i] != q {
			i++
		}
		if i >= len(tag) {
			return bad()
		}
		out = append(out, rawAttr{name, string(tag[s:i])})
		i++
	}
}

// normAttr decodes the source text of an attribute value as XML 1.0 §3.3.3 prescribes for CDATA
// attributes: line ends normalised first (§2.11), a character reference yields the character, an
// entity reference its replacement, a literal TAB / LF / CR a blank.
func normAttr(raw string) (string, error) {
	raw = strings.ReplaceAll(raw, "\r\n", "\n")
	raw = strings.ReplaceAll(raw, "\r", "\n")
	var sb strings.Builder
	for i := 0; i < len(raw); {
		c := raw[i]
		switch {
		case c == '&':
			j := strings.IndexByte(raw[i:], ';')
			if j < 0 {
				return "", fmt.Errorf("harness: unterminated reference in %q", raw)
			}
			ref := raw[i+1 : i+j]
			i += j + 1
			switch {
			case ref == "lt":
				sb.WriteByte('<')
			case ref == "gt":
				sb.WriteByte('>')
			case ref == "amp":
				sb.WriteByte('&')
			case ref == "apos":
				sb.WriteByte('\'')
			case ref == "quot":
				sb.WriteByte('"')
			case strings.HasPrefix(ref, "#x"):
				n, err := strconv.ParseUint(ref[2:], 16, 32)
				if err != nil {
					return "", fmt.Errorf("harness: reference &%s;", ref)
				}
				sb.WriteRune(rune(n))
			case strings.HasPrefix(ref, "#"):
				n, err := strconv.ParseUint(ref[1:], 10, 32)
				if err != nil {
					return "", fmt.Errorf("harness: reference &%s;", ref)
				}
				sb.WriteRune(rune(n))
			default:
				return "", fmt.Errorf("undefined entity &%s; in attribute value", ref)
			}
		case c == '\t' || c == '\n':
			sb.WriteByte(' ')
			i++
		default:
			sb.WriteByte(c)
			i++
		}
	}
	return sb.String(), nil
}

func trunc(s string, n int) string {
	if len(s) > n {
		return s[:n] + "…"
	}
	return s
}

// ---------------------------------------------------------------------------------------------
// XML names

// isName5 is the Name production of XML 1.0 (fifth edition).
func isName5(s string) bool {
	if s == "" || !utf8.ValidString(s) {
		return false
	}
	start := func(r rune) bool {
		return r == ':' || r == '_' || r >= 'A' && r <= 'Z' || r >= 'a' && r <= 'z' ||
			r >= 0xC0 && r <= 0xD6 || r >= 0xD8 && r <= 0xF6 || r >= 0xF8 && r <= 0x2FF || r >= 0x370 && r <= 0x37D ||
			r >= 0x37F && r <= 0x1FFF || r >= 0x200C && r <= 0x200D || r >= 0x2070 && r <= 0x218F || r >= 0x2C00 && r <= 0x2FEF ||
			r >= 0x3001 && r <= 0xD7FF || r >= 0xF900 && r <= 0xFDCF || r >= 0xFDF0 && r <= 0xFFFD || r >= 0x10000 && r <= 0xEFFFF
	}
	for i, r := range s {
		if start(r) {
			continue
		}
		if i > 0 && (r == '-' || r == '.' || r >= '0' && r <= '9' || r == 0xB7 || r >= 0x300 && r <= 0x36F || r >= 0x203F && r <= 0x2040) {
			continue
		}
		return false
	}
	return true
}

var probeCache = map[string]bool{}

// probeName asks the property's observer (encoding/xml) whether it reads key as an attribute name.
func probeName(key string) bool {
	if v, ok := probeCache[key]; ok {
		return v
	}
	ok := false
	d := xml.NewDecoder(strings.NewReader("<x " + key + "=\"1\"/>"))
	d.Strict = true
	if tok, err := d.RawToken(); err == nil {
		if se, isStart := tok.(xml.StartElement); isStart && len(se.Attr) == 1 && qname(se.Attr[0].Name) == key && se.Attr[0].Value == "1" {
			if _, err := d.RawToken(); err == nil { // the synthesised end element
				if _, err := d.RawToken(); err == io.EOF {
					ok = true
				}
			}
		}
	}
	if len(probeCache) < 1<<16 {
		probeCache[key] = ok
	}
	return ok
}

// nameStatus: valid = an XML name by both the fifth-edition production and the observer;
// disputed = the two disagree (the fourth edition, which encoding/xml follows, has a narrower
// name alphabet, e.g. no supplementary-plane characters).
func nameStatus(key string) (valid, disputed bool) {
	five, probe := isName5(key), probeName(key)
	return five && probe, five != probe
}
