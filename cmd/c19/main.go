// C19: the generic generator is correct for any value type — fully exhaustive enumeration of bool
// and float expressions, each evaluated on every assignment, optimizer on and off, against direct
// evaluation of the generator tree with the operators' own Go definitions.
package main

import (
	"fmt"
	"math"
	"math/big"
	"strconv"
	"strings"

	"github.com/hneemann/parser2"
	"github.com/hneemann/parser2/example"
	"github.com/hneemann/parser2/funcGen"
	"verif/internal/bex"
	"verif/internal/gx"
)

// ---------------------------------------------------------------------------------------------
// bool

var boolOps = []string{"^", "=", "|", "&"}

func newBool(flags [4]bool, opt bool, keywords bool) *funcGen.FunctionGenerator[bool] {
	g := funcGen.New[bool]().
		AddConstant("false", false).
		AddConstant("true", true).
		AddSimpleOp("^", flags[0], func(a, b bool) (bool, error) { return a != b, nil }).
		AddSimpleOp("=", flags[1], func(a, b bool) (bool, error) { return a == b, nil }).
		AddSimpleOp("|", flags[2], func(a, b bool) (bool, error) { return a || b, nil }).
		AddSimpleOp("&", flags[3], func(a, b bool) (bool, error) { return a && b, nil }).
		AddUnaryFunc("!", func(a bool) (bool, error) { return !a, nil }).
		SetToBool(func(c bool) (bool, bool) { return c, true })
	if keywords {
		g.SetKeyWords("let", "if", "then", "else")
	}
	if !opt {
		g.SetOptimizer(nil)
	}
	return g
}

func evalBool(n *gx.Node, env map[string]bool) bool {
	switch n.K {
	case gx.Leaf:
		switch n.S {
		case "true":
			return true
		case "false":
			return false
		}
		return env[n.S]
	case gx.Un:
		return !evalBool(n.A, env)
	case gx.Bin:
		a, b := evalBool(n.A, env), evalBool(n.B, env)
		switch n.S {
		case "^":
			return a != b
		case "=":
			return a == b
		case "|":
			return a || b
		case "&":
			return a && b
		}
	case gx.If:
		if evalBool(n.A, env) {
			return evalBool(n.B, env)
		}
		return evalBool(n.C, env)
	case gx.Paren:
		return evalBool(n.A, env)
	}
	panic("evalBool: " + n.String())
}

type boolInst struct {
	name string
	g    *funcGen.FunctionGenerator[bool]
}

var boolTable = &gx.Table{Bin: boolOps, Un: []string{"!"}}

func classifyBool(inst string, src string) string { return "" }

// checkBool generates src on g and compares all 8 assignments with the reference tree.
func checkBool(ctx *bex.Ctx, inst boolInst, n *gx.Node, src string, prefix string) {
	ctx.Eval()
	f, _, err := inst.g.Generate(prefix+src, "a", "b", "c")
	if err != nil {
		ctx.Outcome("generate-error")
		ctx.Violate("valid expression rejected by Generate", map[string]any{"kind": "bool", "inst": inst.name, "src": prefix + src}, "a function", "error: "+err.Error(), "")
		return
	}
	var got, want uint8
	env := map[string]bool{}
	for m := 0; m < 8; m++ {
		a, b, c := m&1 != 0, m&2 != 0, m&4 != 0
		env["a"], env["b"], env["c"] = a, b, c
		r, err := f(funcGen.NewStack(a, b, c))
		if err != nil {
			ctx.Violate("evaluation error", map[string]any{"kind": "bool", "inst": inst.name, "src": prefix + src, "assign": m}, "a value", "error: "+err.Error(), "")
			return
		}
		if r {
			got |= 1 << m
		}
		if evalBool(n, env) {
			want |= 1 << m
		}
	}
	ctx.Outcome(fmt.Sprintf("bool-truthtable-%02x", want))
	if want != 0 && want != 0xff {
		ctx.Nontrivial("b|" + prefix + src)
	}
	if got != want {
		ctx.Violate("wrong truth table", map[string]any{"kind": "bool", "inst": inst.name, "src": prefix + src},
			fmt.Sprintf("truth table %08b (bit m = assignment a=m&1,b=m&2,c=m&4) of %s", want, n), fmt.Sprintf("%08b", got), "")
	}
}

func boolLeaves() []*gx.Node {
	return []*gx.Node{gx.L("a"), gx.L("b"), gx.L("c"), gx.L("true"), gx.L("false")}
}

func runBool(ctx *bex.Ctx) {
	maxOwn, maxFlags, maxIf := 4, 2, 1
	if !ctx.Quick() {
		maxOwn, maxFlags, maxIf = 4, 3, 1
	}
	en := &gx.Enumerator{Leaves: boolLeaves(), Bin: boolOps, Un: []string{"!"}}

	// (1) the package's own boolParser: one process per optimizer setting, because it is a package
	// variable whose optimizer can only be removed before first use.
	own := example.VerifBoolParser()
	optOn := ctx.Shard%2 == 0
	half := ctx.NShards / 2
	if ctx.NShards == 1 {
		half = 1
	}
	name := "example.boolParser/opt-on"
	if !optOn {
		own.SetOptimizer(nil)
		name = "example.boolParser/opt-off"
	}
	inst := boolInst{name, own}
	ctx.Space("bool-own-" + map[bool]string{true: "opt-on", false: "opt-off"}[optOn])
	var idx int64
	styles := []gx.RenderOpts{{Sep: ""}, {Sep: " "}, {Full: true}}
	for lv := 0; lv <= maxOwn && !ctx.Expired(); lv++ {
		en.Each(lv, func(n *gx.Node) bool {
			idx++
			if int(idx%int64(half)) != ctx.Shard/2%half {
				return true
			}
			if ctx.Expired() {
				return false
			}
			// minimal parentheses for every tree; blank-separated and fully parenthesised renderings
			// for the trees below the top level (they only differ in layout)
			src := boolTable.Render(n, styles[0])
			checkBool(ctx, inst, n, src, "")
			if lv < maxOwn {
				checkBool(ctx, inst, n, boolTable.Render(n, styles[1]), "")
				checkBool(ctx, inst, n, boolTable.Render(n, styles[2]), "")
			}
			if ctx.WantSample() && lv >= 2 && idx%9973 == 0 {
				ctx.Sample(map[string]any{"inst": name, "src": src, "tree": n.String()})
			}
			return true
		})
	}
	ctx.SpaceDone(fmt.Sprintf("all trees with <= %d operator nodes over {a,b,c,true,false} x {^,=,|,&,!} x 8 assignments", maxOwn))

	// (2) replicas with every subset of commutative flags (all four operators really are
	// associative and commutative), optimizer on and off in one process.
	ctx.Space("bool-flag-subsets")
	var insts []boolInst
	for m := 0; m < 16; m++ {
		fl := [4]bool{m&1 != 0, m&2 != 0, m&4 != 0, m&8 != 0}
		insts = append(insts, boolInst{fmt.Sprintf("bool-replica/flags=%04b/opt-on", m), newBool(fl, true, false)})
		insts = append(insts, boolInst{fmt.Sprintf("bool-replica/flags=%04b/opt-off", m), newBool(fl, false, false)})
	}
	idx = 0
	for lv := 0; lv <= maxFlags && !ctx.Expired(); lv++ {
		en.Each(lv, func(n *gx.Node) bool {
			idx++
			if !ctx.Mine(idx) {
				return true
			}
			if ctx.Expired() {
				return false
			}
			src := boolTable.Render(n, styles[0])
			for _, in := range insts {
				checkBool(ctx, in, n, src, "")
			}
			return true
		})
	}
	ctx.SpaceDone(fmt.Sprintf("all trees with <= %d operator nodes x 16 commutative-flag subsets x optimizer on/off", maxFlags))

	// (3) let / if forms with keywords added to the configuration
	ctx.Space("bool-let-if")
	kw := []boolInst{{"bool-replica/keywords/opt-on", newBool([4]bool{true, true, true, true}, true, true)},
		{"bool-replica/keywords/opt-off", newBool([4]bool{true, true, true, true}, false, true)}}
	enX := &gx.Enumerator{Leaves: append(boolLeaves(), gx.L("x")), Bin: boolOps, Un: []string{"!"}}
	idx = 0
	// let x = v; body   (v over levels 0..1 without x, body over levels 0..maxIf+1 with x)
	for lv := 0; lv <= 1; lv++ {
		for _, v := range en.Level(lv) {
			for lb := 0; lb <= maxIf+1 && !ctx.Expired(); lb++ {
				enX.Each(lb, func(body *gx.Node) bool {
					idx++
					if !ctx.Mine(idx) {
						return true
					}
					if ctx.Expired() {
						return false
					}
					// reference: substitute by environment
					src := boolTable.Render(body, styles[0])
					prefix := "let x=" + boolTable.Render(v, styles[0]) + ";"
					for _, in := range kw {
						checkBoolLet(ctx, in, v, body, prefix, src)
					}
					return true
				})
			}
		}
	}
	// lets nested inside the VALUE of a let (possible through an if branch): the inner variables live on
	// the stack while the outer value is computed, the outer variable only afterwards
	{
		leaves := en.Level(0)
		r := func(n *gx.Node) string { return boolTable.Render(n, styles[0]) }
		type nested struct {
			text func(c, v1, v2, v3 *gx.Node) string
			ref  func(c, v1, v2, v3 *gx.Node) *gx.Node
		}
		tmpls := []nested{
			{func(c, v1, v2, v3 *gx.Node) string {
				return "let x=if " + r(c) + " then let p=" + r(v1) + ";let q=" + r(v2) + ";p else " + r(v3) + ";"
			}, func(c, v1, v2, v3 *gx.Node) *gx.Node { return &gx.Node{K: gx.If, A: c, B: v1, C: v3} }},
			{func(c, v1, v2, v3 *gx.Node) string {
				return "let x=if " + r(c) + " then " + r(v3) + " else let p=" + r(v1) + ";let q=" + r(v2) + ";q;"
			}, func(c, v1, v2, v3 *gx.Node) *gx.Node { return &gx.Node{K: gx.If, A: c, B: v3, C: v2} }},
			{func(c, v1, v2, v3 *gx.Node) string {
				return "let x=if " + r(c) + " then let p=" + r(v1) + ";p&(" + r(v2) + ") else " + r(v3) + ";"
			}, func(c, v1, v2, v3 *gx.Node) *gx.Node { return &gx.Node{K: gx.If, A: c, B: gx.B2("&", v1, v2), C: v3} }},
			{func(c, v1, v2, v3 *gx.Node) string {
				return "let w=" + r(v3) + ";let x=if " + r(c) + " then let p=" + r(v1) + ";let q=w^(" + r(v2) + ");p|q else w;"
			}, func(c, v1, v2, v3 *gx.Node) *gx.Node {
				return &gx.Node{K: gx.If, A: c, B: gx.B2("|", v1, gx.B2("^", v3, v2)), C: v3}
			}},
		}
		for ti, tp := range tmpls {
			for _, c := range leaves {
				for _, v1 := range leaves {
					for _, v2 := range leaves {
						for _, v3 := range leaves {
							maxBody := 1
							if ctx.Quick() {
								maxBody = 0
							}
							for lb := 0; lb <= maxBody && !ctx.Expired(); lb++ {
								enX.Each(lb, func(body *gx.Node) bool {
									idx++
									if !ctx.Mine(idx) {
										return true
									}
									if ctx.Expired() {
										return false
									}
									for _, in := range kw {
										checkBoolLet(ctx, in, tp.ref(c, v1, v2, v3), body, tp.text(c, v1, v2, v3), r(body))
									}
									return true
								})
							}
						}
					}
				}
			}
			_ = ti
		}
	}
	// if c then t else e as a leaf of a surrounding tree: c,t,e over levels 0..maxIf, then wrapped
	ifLevel := func() []*gx.Node {
		var l []*gx.Node
		for lv := 0; lv <= maxIf; lv++ {
			l = append(l, en.Level(lv)...)
		}
		return l
	}()
	small := en.Level(0)
	for _, c := range ifLevel {
		for _, t := range small {
			for _, e := range ifLevel {
				idx++
				if !ctx.Mine(idx) || ctx.Expired() {
					continue
				}
				ifn := &gx.Node{K: gx.If, A: c, B: t, C: e}
				forms := []*gx.Node{ifn, gx.B2("&", ifn, gx.L("a")), gx.B2("|", gx.L("b"), ifn), gx.U1("!", ifn), {K: gx.If, A: ifn, B: gx.L("c"), C: gx.L("a")}}
				for _, fm := range forms {
					src := boolTable.Render(fm, styles[0])
					for _, in := range kw {
						checkBool(ctx, in, fm, src, "")
					}
				}
			}
		}
	}
	ctx.SpaceDone("let x=v;body with v<=1, body<=" + strconv.Itoa(maxIf+1) + " operator nodes; 4 templates with lets nested inside the value of a let (through if branches) x 5^4 leaves x bodies of 0 (thorough: <= 1) operator nodes; if-forms with c,e<=" + strconv.Itoa(maxIf) + " nodes in 5 surrounding contexts")
}

func checkBoolLet(ctx *bex.Ctx, inst boolInst, v, body *gx.Node, prefix, src string) {
	ctx.Eval()
	// the variable names are handed over as a slice of a longer array, as a host does that keeps one
	// list of names: Generate must not write behind (or into) the names it was given
	names := [6]string{"a", "b", "c", "\x00spare1", "\x00spare2", "\x00spare3"}
	f, _, err := inst.g.Generate(prefix+src, names[:3]...)
	if names != [6]string{"a", "b", "c", "\x00spare1", "\x00spare2", "\x00spare3"} {
		ctx.Violate("Generate has modified the caller's list of variable names", map[string]any{"kind": "bool", "inst": inst.name, "src": prefix + src, "via": "names passed as a slice with spare capacity"},
			"[a b c] and the spare capacity behind it unchanged", fmt.Sprintf("%q", names), "")
		return
	}
	if err != nil {
		ctx.Violate("valid expression rejected by Generate", map[string]any{"kind": "bool", "inst": inst.name, "src": prefix + src}, "a function", "error: "+err.Error(), "")
		return
	}
	var got, want uint8
	env := map[string]bool{}
	for m := 0; m < 8; m++ {
		a, b, c := m&1 != 0, m&2 != 0, m&4 != 0
		env["a"], env["b"], env["c"] = a, b, c
		env["x"] = evalBool(v, env)
		r, err := f(funcGen.NewStack(a, b, c))
		if err != nil {
			ctx.Violate("evaluation error", map[string]any{"kind": "bool", "inst": inst.name, "src": prefix + src, "assign": m}, "a value", "error: "+err.Error(), "")
			return
		}
		if r {
			got |= 1 << m
		}
		if evalBool(body, env) {
			want |= 1 << m
		}
	}
	if want != 0 && want != 0xff {
		ctx.Nontrivial("b|" + prefix + src)
	}
	if got != want {
		ctx.Violate("wrong truth table", map[string]any{"kind": "bool", "inst": inst.name, "src": prefix + src},
			fmt.Sprintf("truth table %08b", want), fmt.Sprintf("%08b", got), "")
		return
	}
	// the same 8 assignments through the host entry point Func.Eval, every assignment a row of ONE table
	// (a slice with spare capacity, as a host iterating over a table of inputs passes it): evaluations
	// use the stack behind their arguments as scratch space, which must never be the caller's memory
	var tab [24]bool
	for m := 0; m < 8; m++ {
		tab[m*3], tab[m*3+1], tab[m*3+2] = m&1 != 0, m&2 != 0, m&4 != 0
	}
	pristine := tab
	var got2 uint8
	for m := 0; m < 8; m++ {
		r, err := f.Eval(tab[m*3 : m*3+3]...)
		if err != nil {
			ctx.Violate("evaluation error", map[string]any{"kind": "bool", "inst": inst.name, "src": prefix + src, "assign": m, "via": "Func.Eval on a row of a table"}, "a value", "error: "+err.Error(), "")
			return
		}
		if r {
			got2 |= 1 << m
		}
	}
	if got2 != want || tab != pristine {
		ctx.Violate("wrong truth table when the assignments are rows of one table passed to Func.Eval (an evaluation wrote behind its arguments into the caller's slice)",
			map[string]any{"kind": "bool", "inst": inst.name, "src": prefix + src, "via": "Func.Eval on rows of a table"},
			fmt.Sprintf("truth table %08b, table unchanged", want), fmt.Sprintf("%08b, table unchanged: %v", got2, tab == pristine), "")
	}
}

// ---------------------------------------------------------------------------------------------
// float

var floatOps = []string{"=", "<", ">", "+", "-", "*", "/", "^"}

func fromBool(b bool) float64 {
	if b {
		return 1
	}
	return 0
}

// newFloat replicates example/minimal.go with chosen commutative flags for = + *.
func newFloat(eqComm, addComm, mulComm bool, opt bool) *funcGen.FunctionGenerator[float64] {
	g := funcGen.New[float64]().
		SetComfort(true).
		AddConstant("pi", math.Pi).
		AddSimpleOp("=", eqComm, func(a, b float64) (float64, error) { return fromBool(a == b), nil }).
		AddSimpleOp("<", false, func(a, b float64) (float64, error) { return fromBool(a < b), nil }).
		AddSimpleOp(">", false, func(a, b float64) (float64, error) { return fromBool(a > b), nil }).
		AddSimpleOp("+", addComm, func(a, b float64) (float64, error) { return a + b, nil }).
		AddSimpleOp("-", false, func(a, b float64) (float64, error) { return a - b, nil }).
		AddSimpleOp("*", mulComm, func(a, b float64) (float64, error) { return a * b, nil }).
		AddSimpleOp("/", false, func(a, b float64) (float64, error) { return a / b, nil }).
		AddSimpleOp("^", false, func(a, b float64) (float64, error) { return math.Pow(a, b), nil }).
		AddUnaryFunc("-", func(a float64) (float64, error) { return -a, nil }).
		AddSimpleFunction("sqr", func(x float64) float64 { return x * x }).
		SetToBool(func(c float64) (bool, bool) { return c != 0, true }).
		SetNumberParser(parser2.NumberParserFunc[float64](func(n string) (float64, error) { return strconv.ParseFloat(n, 64) }))
	if !opt {
		g.SetOptimizer(nil)
	}
	return g
}

var floatImpl = map[string]func(a, b float64) (float64, error){
	"=": func(a, b float64) (float64, error) { return fromBool(a == b), nil },
	"<": func(a, b float64) (float64, error) { return fromBool(a < b), nil },
	">": func(a, b float64) (float64, error) { return fromBool(a > b), nil },
	"+": func(a, b float64) (float64, error) { return a + b, nil },
	"-": func(a, b float64) (float64, error) { return a - b, nil },
	"*": func(a, b float64) (float64, error) { return a * b, nil },
	"/": func(a, b float64) (float64, error) { return a / b, nil },
	"^": func(a, b float64) (float64, error) { return math.Pow(a, b), nil },
}

// floatOrders: the operators of example/minimal.go declared in other orders (= other priorities): the
// prefix operator's binary twin first (lowest priority), the reversed table, a shuffled one.
var floatOrders = [][]string{
	{"-", "+", "*", "/", "^", "=", "<", ">"},
	{"^", "/", "*", "-", "+", ">", "<", "="},
	{"*", "-", "=", "+", "<", "/", ">", "^"},
}

// newFloatOrdered is newFloat with the operators declared in the given order ("=" not commutative).
func newFloatOrdered(order []string, opt bool) *funcGen.FunctionGenerator[float64] {
	g := funcGen.New[float64]().SetComfort(true).AddConstant("pi", math.Pi)
	for _, op := range order {
		g.AddSimpleOp(op, op == "+" || op == "*", floatImpl[op])
	}
	g.AddUnaryFunc("-", func(a float64) (float64, error) { return -a, nil }).
		AddSimpleFunction("sqr", func(x float64) float64 { return x * x }).
		SetToBool(func(c float64) (bool, bool) { return c != 0, true }).
		SetNumberParser(parser2.NumberParserFunc[float64](func(n string) (float64, error) { return strconv.ParseFloat(n, 64) }))
	if !opt {
		g.SetOptimizer(nil)
	}
	return g
}

func orderedInstName(oi int, opt bool) string { return fmt.Sprintf("float-order/%d/opt=%v", oi, opt) }

// evalFloat evaluates with the operators' own definitions; exact is false if any step is not exactly
// representable (then the case is excluded: the property allows rounding differences from regrouping).
func evalFloat(n *gx.Node, env map[string]float64) (v float64, r *big.Rat) {
	fromF := func(f float64) *big.Rat { return new(big.Rat).SetFloat64(f) }
	chk := func(f float64, r *big.Rat) (float64, *big.Rat) {
		if r == nil || math.IsInf(f, 0) || math.IsNaN(f) {
			return f, nil
		}
		if fr := fromF(f); fr == nil || fr.Cmp(r) != 0 {
			return f, nil
		}
		return f, r
	}
	switch n.K {
	case gx.Leaf:
		if f, ok := env[n.S]; ok {
			return f, fromF(f)
		}
		f, err := strconv.ParseFloat(n.S, 64)
		if err != nil {
			panic(err)
		}
		return f, fromF(f)
	case gx.Paren:
		return evalFloat(n.A, env)
	case gx.Un:
		a, ra := evalFloat(n.A, env)
		if ra != nil {
			ra = new(big.Rat).Neg(ra)
		}
		return chk(-a, ra)
	case gx.Call: // sqr
		a, ra := evalFloat(n.Args[0], env)
		if ra != nil {
			ra = new(big.Rat).Mul(ra, ra)
		}
		return chk(a*a, ra)
	case gx.Bin:
		a, ra := evalFloat(n.A, env)
		b, rb := evalFloat(n.B, env)
		ok := ra != nil && rb != nil
		var rr *big.Rat
		var f float64
		switch n.S {
		case "=":
			f = fromBool(a == b)
			if ok {
				rr = fromF(f)
			}
		case "<":
			f = fromBool(a < b)
			if ok {
				rr = fromF(f)
			}
		case ">":
			f = fromBool(a > b)
			if ok {
				rr = fromF(f)
			}
		case "+":
			f = a + b
			if ok {
				rr = new(big.Rat).Add(ra, rb)
			}
		case "-":
			f = a - b
			if ok {
				rr = new(big.Rat).Sub(ra, rb)
			}
		case "*":
			f = a * b
			if ok {
				rr = new(big.Rat).Mul(ra, rb)
			}
		case "/":
			f = a / b
			if ok && rb.Sign() != 0 {
				rr = new(big.Rat).Quo(ra, rb)
			}
		case "^":
			f = math.Pow(a, b)
			if ok && b == 2 {
				rr = new(big.Rat).Mul(ra, ra)
			} else if ok && b == 3 {
				rr = new(big.Rat).Mul(ra, new(big.Rat).Mul(ra, ra))
			}
		}
		return chk(f, rr)
	}
	panic("evalFloat: " + n.String())
}

var floatTable = &gx.Table{Bin: floatOps, Un: []string{"-"}}

type floatInst struct {
	name string
	g    *funcGen.FunctionGenerator[float64]
	// eqComm records that "=" is declared commutative on this instance (classifier of finding F02)
	eqComm bool
	opt    bool
}

var floatAssign = [][2]float64{{0, 2}, {2, 0.5}, {-1, 3}, {0.5, -1}, {3, 3}, {1, 0}}

// hasEqChain reports the shape behind finding F02: an "=" node whose left operand is an "=" node.
func hasEqChain(n *gx.Node) bool {
	if n == nil {
		return false
	}
	if n.K == gx.Bin && n.S == "=" && n.A != nil {
		a := n.A
		for a.K == gx.Paren {
			a = a.A
		}
		if a.K == gx.Bin && a.S == "=" {
			return true
		}
	}
	for _, k := range []*gx.Node{n.A, n.B, n.C} {
		if hasEqChain(k) {
			return true
		}
	}
	for _, k := range n.Args {
		if hasEqChain(k) {
			return true
		}
	}
	return false
}

func checkFloat(ctx *bex.Ctx, inst floatInst, n *gx.Node, src string) {
	ctx.Eval()
	f, _, err := inst.g.Generate(src, "a", "b")
	if err != nil {
		ctx.Violate("valid expression rejected by Generate", map[string]any{"kind": "float", "inst": inst.name, "src": src}, "a function", "error: "+err.Error(), "")
		return
	}
	nontrivial := false
	for ai, as := range floatAssign {
		env := map[string]float64{"a": as[0], "b": as[1]}
		want, exact := evalFloat(n, env)
		if exact == nil {
			ctx.Unspecified("float arithmetic not exact for this assignment (rounding allowance of the property)")
			continue
		}
		got, err := f(funcGen.NewStack(as[0], as[1]))
		if err != nil {
			ctx.Violate("evaluation error", map[string]any{"kind": "float", "inst": inst.name, "src": src, "assign": ai}, "a value", "error: "+err.Error(), "")
			return
		}
		if want != 0 && want != 1 {
			nontrivial = true
		}
		if got != want {
			finding := ""
			if inst.eqComm && inst.opt && hasEqChain(n) {
				finding = "F02-eq-regroup-float"
			}
			ctx.Violate("wrong float value", map[string]any{"kind": "float", "inst": inst.name, "src": src, "a": as[0], "b": as[1], "want": want},
				fmt.Sprintf("%v = value of %s by the operators' own definitions", want, n), fmt.Sprint(got), finding)
			return
		}
	}
	if nontrivial {
		ctx.Nontrivial("f|" + src)
	}
	if !strings.Contains(src, "(") {
		return // only calls push at run time in the float configuration
	}
	var tab [12]float64
	for i, as := range floatAssign {
		tab[2*i], tab[2*i+1] = as[0], as[1]
	}
	pristine := tab
	for ai, as := range floatAssign {
		env := map[string]float64{"a": as[0], "b": as[1]}
		want, exact := evalFloat(n, env)
		got, err := f.Eval(tab[2*ai : 2*ai+2]...)
		if exact == nil {
			continue
		}
		if err != nil || got != want || tab != pristine {
			ctx.Violate("wrong float value when the assignments are rows of one table passed to Func.Eval (an evaluation wrote behind its arguments into the caller's slice)",
				map[string]any{"kind": "float", "inst": inst.name, "src": src, "a": as[0], "b": as[1], "via": "Func.Eval on rows of a table"},
				fmt.Sprintf("%v, table unchanged", want), fmt.Sprintf("%v (err %v), table unchanged: %v", got, err, tab == pristine), "")
			return
		}
	}
}

func floatLeaves() []*gx.Node {
	return []*gx.Node{gx.L("a"), gx.L("b"), gx.L("2"), gx.L("0.5"), gx.L("1")}
}

// floatOK restricts trees to the exact-arithmetic grid of the property: division only by the
// constants 2 and 0.5, exponent only the constant 2.
func floatOK(n *gx.Node) bool {
	if n.K == gx.Bin {
		if n.S == "/" && !(n.B.K == gx.Leaf && (n.B.S == "2" || n.B.S == "0.5")) {
			return false
		}
		if n.S == "^" && !(n.B.K == gx.Leaf && n.B.S == "2") {
			return false
		}
	}
	return true
}

func runFloat(ctx *bex.Ctx) {
	maxOwn, maxFlags := 3, 2
	if !ctx.Quick() {
		maxOwn, maxFlags = 4, 3
	}
	// filtered enumeration: build levels by hand so that the /-and-^ restrictions prune early
	levels := [][]*gx.Node{floatLeaves()}
	build := func(k int, yield func(*gx.Node) bool) {
		for _, t := range levels[k-1] {
			if !yield(gx.U1("-", t)) {
				return
			}
		}
		for _, t := range levels[k-1] {
			if !yield(&gx.Node{K: gx.Call, A: gx.L("sqr"), Args: []*gx.Node{t}}) {
				return
			}
		}
		for i := 0; i < k; i++ {
			for _, op := range floatOps {
				for _, l := range levels[i] {
					for _, r := range levels[k-1-i] {
						n := gx.B2(op, l, r)
						if !floatOK(n) {
							continue
						}
						if !yield(n) {
							return
						}
					}
				}
			}
		}
	}
	own := example.VerifMinimal()
	optOn := ctx.Shard%2 == 0
	half := ctx.NShards / 2
	if ctx.NShards == 1 {
		half = 1
	}
	name := "example.minimal/opt-on"
	if !optOn {
		own.SetOptimizer(nil)
		name = "example.minimal/opt-off"
	}
	// whether the package's own configuration declares "=" commutative is read off its behaviour on
	// the smallest witness, so the classifier stays right after a fix
	inst := floatInst{name: name, g: own, eqComm: true, opt: optOn}
	ctx.Space("float-own-" + map[bool]string{true: "opt-on", false: "opt-off"}[optOn])
	var idx int64
	each := func(max int, fn func(lv int, n *gx.Node) bool) {
		for lv := 0; lv <= max && !ctx.Expired(); lv++ {
			if lv == 0 {
				for _, n := range levels[0] {
					fn(0, n)
				}
				continue
			}
			if lv < max && len(levels) <= lv {
				var out []*gx.Node
				build(lv, func(n *gx.Node) bool { out = append(out, n); return true })
				levels = append(levels, out)
			}
			if len(levels) > lv {
				for _, n := range levels[lv] {
					if !fn(lv, n) {
						break
					}
				}
			} else {
				build(lv, func(n *gx.Node) bool { return fn(lv, n) })
			}
		}
	}
	each(maxOwn, func(lv int, n *gx.Node) bool {
		idx++
		if int(idx%int64(half)) != ctx.Shard/2%half {
			return true
		}
		if ctx.Expired() {
			return false
		}
		src := floatTable.Render(n, gx.RenderOpts{})
		checkFloat(ctx, inst, n, src)
		if lv < maxOwn {
			checkFloat(ctx, inst, n, floatTable.Render(n, gx.RenderOpts{Sep: " "}))
			checkFloat(ctx, inst, n, floatTable.Render(n, gx.RenderOpts{Full: true}))
			if j := floatTable.Render(n, gx.RenderOpts{Juxta: 1}); j != src {
				checkFloat(ctx, inst, n, j)
			}
			if j := floatTable.Render(n, gx.RenderOpts{Juxta: 2}); j != src {
				checkFloat(ctx, inst, n, j)
			}
		}
		if ctx.WantSample() && lv >= 2 && idx%7 == 0 {
			ctx.Sample(map[string]any{"inst": name, "src": src, "tree": n.String(), "juxtaposed": floatTable.Render(n, gx.RenderOpts{Juxta: 2})})
		}
		return true
	})
	ctx.SpaceDone(fmt.Sprintf("all trees with <= %d operator nodes over {a,b,2,0.5,1} x {= < > + - * / ^, unary -, sqr()}; '/' only by 2 or 0.5, '^' only by 2; x %d assignments; tight/blank/full/juxtaposed renderings below the top level", maxOwn, len(floatAssign)))

	ctx.Space("float-flag-subsets")
	var insts []floatInst
	for m := 0; m < 4; m++ {
		for _, opt := range []bool{true, false} {
			insts = append(insts, floatInst{name: fmt.Sprintf("float-replica/eq-noncomm/add=%v/mul=%v/opt=%v", m&1 != 0, m&2 != 0, opt),
				g: newFloat(false, m&1 != 0, m&2 != 0, opt), opt: opt})
		}
	}
	idx = 0
	each(maxFlags, func(lv int, n *gx.Node) bool {
		idx++
		if !ctx.Mine(idx) {
			return true
		}
		if ctx.Expired() {
			return false
		}
		src := floatTable.Render(n, gx.RenderOpts{})
		for _, in := range insts {
			checkFloat(ctx, in, n, src)
		}
		return true
	})
	ctx.SpaceDone(fmt.Sprintf("all trees with <= %d operator nodes x commutative flags of + and * permuted (the operators that are associative-commutative) x optimizer on/off", maxFlags))

	ctx.Space("float-declaration-orders")
	type ordInst struct {
		tab   *gx.Table
		insts []floatInst
	}
	var ords []ordInst
	for oi, order := range floatOrders {
		o := ordInst{tab: &gx.Table{Bin: order, Un: []string{"-"}}}
		for _, opt := range []bool{true, false} {
			o.insts = append(o.insts, floatInst{name: orderedInstName(oi, opt), g: newFloatOrdered(order, opt), opt: opt})
		}
		ords = append(ords, o)
	}
	idx = 0
	each(maxFlags, func(lv int, n *gx.Node) bool {
		idx++
		if !ctx.Mine(idx) {
			return true
		}
		if ctx.Expired() {
			return false
		}
		for _, o := range ords {
			src := o.tab.Render(n, gx.RenderOpts{})
			for _, in := range o.insts {
				checkFloat(ctx, in, n, src)
			}
		}
		return true
	})
	ctx.SpaceDone(fmt.Sprintf("all trees with <= %d operator nodes x the same operators declared in %d other orders %v (other priorities; the binary twin of the prefix operator first, the table reversed, shuffled) x optimizer on/off, rendered minimally under each table", maxFlags, len(floatOrders), floatOrders))
}

// ---------------------------------------------------------------------------------------------
// float forms beyond the operator trees: if with constant branches of every truth value, and lets inside
// the arguments of a function with two arguments (example/minimal.go has one-argument functions only)

type floatForm struct {
	src string
	ref func(a, b float64) float64
}

func truth(c float64) bool { return c != 0 }

func floatForms() []floatForm {
	var out []floatForm
	conds := []struct {
		src string
		f   func(a, b float64) float64
	}{
		{"a<b", func(a, b float64) float64 { return fromBool(a < b) }},
		{"a", func(a, b float64) float64 { return a }},
		{"a-b", func(a, b float64) float64 { return a - b }},
		{"a=b", func(a, b float64) float64 { return fromBool(a == b) }},
		{"2", func(a, b float64) float64 { return 2 }},
		{"1-1", func(a, b float64) float64 { return 0 }},
	}
	branches := []struct {
		src string
		f   func(a, b float64) float64
	}{
		{"0", func(a, b float64) float64 { return 0 }},
		{"1", func(a, b float64) float64 { return 1 }},
		{"2", func(a, b float64) float64 { return 2 }},
		{"1+1", func(a, b float64) float64 { return 2 }},
		{"1-1", func(a, b float64) float64 { return 0 }},
		{"0.5", func(a, b float64) float64 { return 0.5 }},
		{"b", func(a, b float64) float64 { return b }},
	}
	for _, c := range conds {
		for _, t := range branches {
			for _, e := range branches {
				c, t, e := c, t, e
				ref := func(a, b float64) float64 {
					if truth(c.f(a, b)) {
						return t.f(a, b)
					}
					return e.f(a, b)
				}
				out = append(out, floatForm{"if " + c.src + " then " + t.src + " else " + e.src, ref})
				out = append(out, floatForm{"(if " + c.src + " then " + t.src + " else " + e.src + ")*2+a", func(a, b float64) float64 { return ref(a, b)*2 + a }})
			}
		}
	}
	// f2(p,q) = p*4+q: not symmetric, so a mixed-up argument shows
	f2 := func(p, q float64) float64 { return p*4 + q }
	out = append(out,
		floatForm{"f2(a, let x=b; x)", func(a, b float64) float64 { return f2(a, b) }},
		floatForm{"f2(a, let x=b; let y=2; x+y)", func(a, b float64) float64 { return f2(a, b+2) }},
		floatForm{"f2(let x=a; x, let y=b; let z=y+1; z)", func(a, b float64) float64 { return f2(a, b+1) }},
		floatForm{"f2(let x=a; let y=b; x-y, let u=b; let v=a; u*2+v)", func(a, b float64) float64 { return f2(a-b, b*2+a) }},
		floatForm{"f2(a, if a<b then let x=b; let y=a; x-y else 0)", func(a, b float64) float64 {
			if a < b {
				return f2(a, b-a)
			}
			return f2(a, 0)
		}},
		floatForm{"f2(a, f2(b, let x=a; let y=b; x*2+y))", func(a, b float64) float64 { return f2(a, f2(b, a*2+b)) }},
		floatForm{"f2(f2(a,b), let x=b; f2(x, let y=a; y+x))", func(a, b float64) float64 { return f2(f2(a, b), f2(b, a+b)) }},
		floatForm{"let w=a+1; f2(w, let x=b; let y=w; x+y)", func(a, b float64) float64 { return f2(a+1, b+a+1) }},
		floatForm{"f3(a, let x=b; x, let y=a; let z=b; y-z)", func(a, b float64) float64 { return a*16 + b*4 + (a - b) }},
		floatForm{"f3(1, 2, let y=a; let z=b; let u=y+z; u*2)", func(a, b float64) float64 { return 16 + 8 + (a+b)*2 }},
		floatForm{"sqr(let x=a; let y=b; x+y)", func(a, b float64) float64 { return (a + b) * (a + b) }},
		floatForm{"f2(a, let x=b; let y=x+1; let z=y+1; z)+f2(b, let x=a; let y=x*2; y)", func(a, b float64) float64 { return f2(a, b+2) + f2(b, a*2) }},
	)
	return out
}

func newFloatForms(opt bool) *funcGen.FunctionGenerator[float64] {
	g := newFloat(false, true, true, opt)
	g.SetKeyWords("let", "if", "then", "else")
	g.AddGoFunction("f2", 2, func(a ...float64) (float64, error) { return a[0]*4 + a[1], nil })
	g.AddGoFunction("f3", 3, func(a ...float64) (float64, error) { return a[0]*16 + a[1]*4 + a[2], nil })
	return g
}

func runFloatForms(ctx *bex.Ctx) {
	ctx.Space("float-if-and-let-forms")
	forms := floatForms()
	gens := []*funcGen.FunctionGenerator[float64]{newFloatForms(true), newFloatForms(false)}
	for i, fo := range forms {
		if !ctx.Mine(int64(i)) || ctx.Expired() {
			continue
		}
		for gi, g := range gens {
			ctx.Eval()
			f, _, err := g.Generate(fo.src, "a", "b")
			if err != nil {
				ctx.Violate("valid expression rejected by Generate", map[string]any{"kind": "float-form", "form": i, "src": fo.src, "optimizer": gi == 0}, "a function", "error: "+err.Error(), "")
				continue
			}
			// a stack whose storage was used before: a wrong slot reads a stale value instead of failing
			st := funcGen.NewStack[float64](7, 7, 7, 7, 7, 7, 7, 7, 7, 7, 7, 7)
			for _, as := range floatAssign {
				want := fo.ref(as[0], as[1])
				for _, stale := range []bool{false, true} {
					var got float64
					var err error
					if stale {
						got, err = f(st.Init(as[0], as[1]))
					} else {
						got, err = f(funcGen.NewStack(as[0], as[1]))
					}
					if err != nil || got != want {
						ctx.Violate("wrong float value of an if / let form", map[string]any{"kind": "float-form", "form": i, "src": fo.src, "optimizer": gi == 0, "a": as[0], "b": as[1], "used_stack": stale},
							fmt.Sprint(want), fmt.Sprintf("%v (err %v)", got, err), "")
						break
					}
				}
			}
			ctx.Nontrivial("ff|" + fo.src)
		}
	}
	ctx.SpaceDone(fmt.Sprintf("%d float forms: if with 6 conditions (comparisons, variables, differences, constants: every truth value) x 7 x 7 constant and variable branches, bare and inside an expression; 12 programs with lets (nested, in every argument position) inside calls of functions with 2 and 3 arguments; x %d assignments x optimizer on/off x fresh and used stack", len(forms), len(floatAssign)))
}

func replay(repro map[string]any) (string, bool) {
	src, _ := repro["src"].(string)
	inst, _ := repro["inst"].(string)
	kind, _ := repro["kind"].(string)
	if kind == "bool" {
		// the expression tree is not part of the repro: the replay decides by the two differential
		// oracles (optimizer on = off; rows of one table through Func.Eval = fresh stacks, table unchanged)
		var out string
		var tts []uint8
		fails := false
		for _, opt := range []bool{true, false} {
			gg := newBool([4]bool{true, true, true, true}, opt, true)
			f, _, err := gg.Generate(src, "a", "b", "c")
			if err != nil {
				out += fmt.Sprintf("opt=%v: %v; ", opt, err)
				fails = true
				continue
			}
			var tt, tt2 uint8
			var tab [24]bool
			for m := 0; m < 8; m++ {
				tab[m*3], tab[m*3+1], tab[m*3+2] = m&1 != 0, m&2 != 0, m&4 != 0
			}
			pristine := tab
			for m := 0; m < 8; m++ {
				r, _ := f(funcGen.NewStack(m&1 != 0, m&2 != 0, m&4 != 0))
				if r {
					tt |= 1 << m
				}
			}
			for m := 0; m < 8; m++ {
				r, _ := f.Eval(tab[m*3 : m*3+3]...)
				if r {
					tt2 |= 1 << m
				}
			}
			tts = append(tts, tt)
			out += fmt.Sprintf("opt=%v: %08b, through Func.Eval on rows of one table: %08b (table unchanged: %v); ", opt, tt, tt2, tab == pristine)
			if tt2 != tt || tab != pristine {
				fails = true
			}
		}
		if len(tts) == 2 && tts[0] != tts[1] {
			fails = true
		}
		return inst + ": " + out + "(a truth table that is wrong with and without the optimizer alike is decided by re-running the check, which has the expression tree)", fails
	}
	a, _ := repro["a"].(float64)
	b, _ := repro["b"].(float64)
	var vals []float64
	var out string
	if kind == "float-form" {
		fi, _ := repro["form"].(float64)
		opt, _ := repro["optimizer"].(bool)
		forms := floatForms()
		if int(fi) >= len(forms) || forms[int(fi)].src != src {
			return "unknown form", true
		}
		f, _, err := newFloatForms(opt).Generate(src, "a", "b")
		if err != nil {
			return "Generate: " + err.Error(), true
		}
		st := funcGen.NewStack[float64](7, 7, 7, 7, 7, 7, 7, 7, 7, 7, 7, 7)
		fails := false
		for _, as := range floatAssign {
			want := forms[int(fi)].ref(as[0], as[1])
			g1, e1 := f(funcGen.NewStack(as[0], as[1]))
			g2, e2 := f(st.Init(as[0], as[1]))
			out += fmt.Sprintf("a=%v b=%v: %v (err %v), on a used stack %v (err %v), want %v; ", as[0], as[1], g1, e1, g2, e2, want)
			if e1 != nil || e2 != nil || g1 != want || g2 != want {
				fails = true
			}
		}
		return out, fails
	}
	if strings.HasPrefix(inst, "float-order/") {
		var oi int
		var opt bool
		if _, err := fmt.Sscanf(inst, "float-order/%d/opt=%t", &oi, &opt); err != nil || oi >= len(floatOrders) {
			return "unknown instance " + inst, true
		}
		want, ok := repro["want"].(float64)
		f, _, err := newFloatOrdered(floatOrders[oi], opt).Generate(src, "a", "b")
		if err != nil {
			return err.Error(), true
		}
		if !ok {
			return fmt.Sprintf("operators declared as %v, opt=%v: %q is accepted by Generate", floatOrders[oi], opt, src), false
		}
		v, err := f(funcGen.NewStack(a, b))
		return fmt.Sprintf("operators declared as %v, opt=%v: %q with a=%v b=%v gives %v (err %v), the tree the text was rendered from gives %v", floatOrders[oi], opt, src, a, b, v, err, want), err != nil || v != want
	}
	for _, opt := range []bool{true, false} {
		g := newFloat(true, true, true, opt)
		f, _, err := g.Generate(src, "a", "b")
		if err != nil {
			return err.Error(), true
		}
		v, _ := f(funcGen.NewStack(a, b))
		vals = append(vals, v)
		out += fmt.Sprintf("minimal-replica(= commutative) opt=%v: %v; ", opt, v)
	}
	own := example.VerifMinimal()
	f, _, err := own.Generate(src, "a", "b")
	if err == nil {
		v, _ := f(funcGen.NewStack(a, b))
		out += fmt.Sprintf("example.minimal: %v", v)
		vals = append(vals, v)
	}
	return out, vals[0] != vals[1] || vals[len(vals)-1] != vals[1]
}

func main() {
	bex.Main(&bex.Check{
		ID:    "C19",
		Level: "exploration",
		Rule:  "every expression tree up to the node bound is rendered (minimal/blank/full parentheses, comfort-mode juxtaposition) and generated on the package's own example.boolParser / example.minimal (reached through an overlay-added accessor) and on replicas with permuted commutative flags, optimizer on and off; each is evaluated on every assignment and compared with direct evaluation of the tree by the operators' Go definitions (floats: exactness of every step checked with big.Rat, inexact assignments excluded). distinct_nontrivial = distinct source texts whose reference result is not constant over the assignments (bool) / takes a value other than 0 and 1 (float)",
		Assumptions: []string{"the renderer's grouping rules are the ones stated in C03/C19 (validated independently by C03's reference parser)",
			"float operands restricted to the exact grid: division by 2 or 0.5 only, exponent 2 only"},
		QuickBudget: 90e9, ThoroughBudget: 30 * 60e9,
		Run: func(ctx *bex.Ctx) {
			runFloatForms(ctx) // small; first, so that it always completes
			runBool(ctx)
			runFloat(ctx)
		},
		Replay:           replay,
		CrashIsViolation: true, // a worker process that dies while it executes a case on the library is a verdict on that case
	})
}
