#!/usr/bin/env bash
set -eu
bin/mkoverlay.sh
go build -tags verif -overlay build/overlay-plain.json -o build/bin/c19 ./cmd/c19
