#!/usr/bin/env bash
set -eu
out="${VERIF_OUT:-build/bin/c05}"
go build -tags verif -overlay "$VERIF_OVERLAY" -o "$out" ./cmd/c05
go build -race -tags verif -overlay "$VERIF_OVERLAY" -o "$out-race" ./cmd/c05
bin/buildcoop.sh c05 "$out-coop"
