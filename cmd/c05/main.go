// C05: no program can crash the host — every runtime fault is an ordinary, catchable error.
//
// (a) plain build, bounded-exhaustive table: every binary/unary operator, every static function and
// every method of every built-in type (enumerated from the library's own documentation tables) applied
// to every combination of argument values from a pool with one representative per sort plus boundary
// values, each in 7 contexts (top level, try/catch, inside a called closure, inside a sequential map,
// inside a let under a pending call argument, try around the closure / the map). Oracle: the worker
// process survives and the call returns; all contexts agree on ok-vs-error; wherever the bare
// expression is an error, every try-variant yields the catch value 42; a table of arithmetic and
// indexing faults named by the property must be errors.
// (b) coop build: fault kinds {returned error, panicking operator, panicking host function} x positions
// {upstream stage, parallel mapper, downstream stage, terminal closure, merge comparator, merge
// operand, multiUse consumer} x item {sequential phase, first parallel item, last item}, all schedules
// under the controlled scheduler: no panic may reach the top of a library goroutine, the evaluation
// returns an error, and a surrounding try yields the catch value.
package main

import (
	"fmt"
	"io"
	"log"
	"math"
	"os"
	"os/exec"
	"runtime/debug"
	"sort"
	"strings"
	"time"

	"github.com/hneemann/parser2/funcGen"
	"github.com/hneemann/parser2/listMap"
	"github.com/hneemann/parser2/value"
	"verif/internal/bex"
	"verif/vsched"
)

// ---------------------------------------------------------------------------------------------
// value pool

type pv struct {
	name string
	mk   func() value.Value
	sort string
}

func clo(g *value.FunctionGenerator, src string) func() value.Value {
	return func() value.Value {
		f, _, err := g.Generate(src)
		if err != nil {
			panic(err)
		}
		v, err := f.Eval()
		if err != nil {
			panic(err)
		}
		return v
	}
}

func pool(g *value.FunctionGenerator) []pv {
	c := func(v value.Value) func() value.Value { return func() value.Value { return v } }
	return []pv{
		{"0", c(value.Int(0)), "int"}, {"-1", c(value.Int(-1)), "int"}, {"1", c(value.Int(1)), "int"}, {"2", c(value.Int(2)), "int"},
		{"63", c(value.Int(63)), "int"}, {"64", c(value.Int(64)), "int"}, {"2^62", c(value.Int(1 << 62)), "int"},
		{"0.0", c(value.Float(0)), "float"}, {"-0.5", c(value.Float(-0.5)), "float"}, {"+Inf", c(value.Float(math.Inf(1))), "float"}, {"NaN", c(value.Float(math.NaN())), "float"},
		{`""`, c(value.String("")), "string"}, {`"a"`, c(value.String("a")), "string"}, {`"%d"`, c(value.String("%d")), "string"},
		{"true", c(value.Bool(true)), "bool"},
		{"[]", func() value.Value { return value.NewList() }, "list"},
		{"[1,2]", func() value.Value { return value.NewList(value.Int(1), value.Int(2)) }, "list"},
		{`[1,"a"]`, func() value.Value { return value.NewList(value.Int(1), value.String("a")) }, "list"},
		{"{}", func() value.Value { return value.NewMap(listMap.New[value.Value](0)) }, "map"},
		{"{k:1}", func() value.Value { return value.NewMap(listMap.New[value.Value](1).Append("k", value.Int(1))) }, "map"},
		{"x->x", clo(g, "x->x"), "closure"}, {"(x,y)->x", clo(g, "(x,y)->x"), "closure"}, {"x->x%0", clo(g, "x->x%0"), "closure"},
		{"x->true", clo(g, "x->true"), "closure"},
	}
}

func reducedPool(p []pv) []pv {
	var out []pv
	for _, v := range p {
		switch v.name {
		case "1", `"a"`, "[1,2]", "x->x", "(x,y)->x", "0.0":
			out = append(out, v)
		}
	}
	return out
}

// ---------------------------------------------------------------------------------------------
// observation

// observe evaluates f and forces the result with a cap (a huge lazy list must not hang the harness).
func observe(f funcGen.Func[value.Value], args []value.Value) (class string, val string) {
	defer func() {
		if rec := recover(); rec != nil {
			class, val = "PANIC-ESCAPED", fmt.Sprint(rec)
		}
	}()
	v, err := f.Eval(args...)
	if err != nil {
		return "error", ""
	}
	ok, s := forceCapped(v, 0)
	if !ok {
		// the evaluation returned a lazy list; the fault is raised when the host iterates it
		return "error-when-forced", ""
	}
	return "value", s
}

func forceCapped(v value.Value, depth int) (bool, string) {
	if depth > 4 {
		return true, "…"
	}
	switch x := v.(type) {
	case *value.List:
		n := 0
		ok := true
		var parts []string
		st := funcGen.NewEmptyStack[value.Value]()
		x.Iterate(st)(func(e value.Value, err error) bool {
			if err != nil {
				ok = false
				return false
			}
			n++
			if n > 50 {
				parts = append(parts, "…")
				return false
			}
			o, s := forceCapped(e, depth+1)
			if !o {
				ok = false
				return false
			}
			parts = append(parts, s)
			return true
		})
		return ok, "[" + strings.Join(parts, ",") + "]"
	case value.Map:
		ok := true
		var parts []string
		x.Iter(func(k string, e value.Value) bool {
			o, s := forceCapped(e, depth+1)
			if !o {
				ok = false
				return false
			}
			parts = append(parts, k+":"+s)
			return true
		})
		sort.Strings(parts)
		return ok, "{" + strings.Join(parts, ",") + "}"
	case value.Closure:
		return true, "closure"
	case nil:
		return true, "nil"
	}
	s, err := v.ToString(funcGen.NewEmptyStack[value.Value]())
	if err != nil {
		return false, ""
	}
	return true, s
}

// contexts: %s = the expression over the arguments a, b, c
var contexts = []struct{ name, tmpl string }{
	{"top", "%s"},
	{"try", "try %s catch 42"},
	{"closure", "(x->%s)(0)"},
	{"map", "[0].map(x->%s).sum()"},
	{"let-under-arg", "((p,q)->q)(1, let z=0; %s)"},
	{"try-closure", "try (x->%s)(0) catch 42"},
	{"try-map", "try [0].map(x->%s).sum() catch 42"},
}

type tmplFuncs struct {
	expr string
	fs   []funcGen.Func[value.Value]
	err  []error
}

func compile(g *value.FunctionGenerator, expr string, nargs int) *tmplFuncs {
	t := &tmplFuncs{expr: expr}
	names := []string{"a", "b", "c", "d", "e", "f", "g", "h", "i", "j"}[:nargs]
	for _, c := range contexts {
		f, _, err := g.Generate(fmt.Sprintf(c.tmpl, expr), names...)
		t.fs = append(t.fs, f)
		t.err = append(t.err, err)
	}
	return t
}

// panicShape classifies finding F05a: the fault is a Go panic (not a returned error), so it escapes
// try/catch. The classifier re-evaluates the bare expression with a recover-free path and looks at
// the error text that the top-level recover produced.
func isPanicError(f funcGen.Func[value.Value], args []value.Value) bool {
	_, err := f.Eval(args...)
	if err == nil {
		return false
	}
	m := err.Error()
	return strings.HasPrefix(m, "runtime error:") || strings.Contains(m, "interface conversion") || strings.Contains(m, "invalid argument to Intn") ||
		strings.Contains(m, "nil pointer") || strings.HasPrefix(m, "stack overflow;") || strings.Contains(m, "makeslice") || strings.Contains(m, "out of range")
}

func checkCase(ctx *bex.Ctx, t *tmplFuncs, argNames []string, args func() []value.Value, mustFail bool) {
	repro := func() map[string]any { return map[string]any{"expr": t.expr, "args": argNames} }
	if !ctx.Begin(repro) {
		return
	}
	var classes [7]string
	var vals [7]string
	for i := range contexts {
		ctx.Eval()
		if t.err[i] != nil {
			classes[i] = "generate-error"
			continue
		}
		classes[i], vals[i] = observe(t.fs[i], args())
		if classes[i] == "PANIC-ESCAPED" && (strings.Contains(vals[i], "makeslice") || strings.Contains(vals[i], "out of memory")) && contains(argNames, "2^62") {
			ctx.Unspecified("allocation of 2^62 elements requested (resource exhaustion is not a fault class of the property)")
			classes[i] = "error-when-forced"
		}
		if classes[i] == "PANIC-ESCAPED" {
			ctx.Violate("a Go panic escaped into the host (while it iterates a lazily returned list)", map[string]any{"expr": t.expr, "args": argNames, "context": contexts[i].name}, "value or error", vals[i], "F05d-panic-in-lazy-result")
		}
	}
	ctx.Outcome(classes[0] + "/" + classes[1])
	if classes[0] == "generate-error" {
		return
	}
	if classes[0] == "error" || classes[0] == "error-when-forced" {
		ctx.Nontrivial(t.expr + "|" + strings.Join(argNames, ","))
		if ctx.WantSample() {
			ctx.Sample(map[string]any{"expr": t.expr, "args": argNames, "bare": "error", "in_try": classes[1] + " " + vals[1]})
		}
	}
	if mustFail && classes[0] != "error" {
		ctx.Violate("a fault named by the property is not reported as an error", map[string]any{"expr": t.expr, "args": argNames, "context": "top"}, "error", "value "+vals[0], "")
	}
	for i := 1; i < len(contexts); i++ {
		name := contexts[i].name
		isTry := strings.HasPrefix(name, "try")
		rp := map[string]any{"expr": t.expr, "args": argNames, "context": name}
		switch {
		case classes[0] == "error" && isTry:
			if classes[i] != "value" || vals[i] != "42" {
				finding := ""
				if isPanicError(t.fs[0], args()) {
					finding = "F05a-panic-not-catchable"
				}
				ctx.Violate("a runtime fault is not catchable by try/catch", rp, "42 (the catch value), because the bare expression is an error", classes[i]+" "+vals[i], finding)
			}
		case classes[0] == "error" && !isTry:
			if classes[i] != "error" && !(name == "map" && classes[i] == "error-when-forced") {
				ctx.Violate("a fault at top level is not a fault in another context", rp, "error", classes[i]+" "+vals[i], "")
			}
		case classes[0] == "error-when-forced":
			// the expression returns a lazy list whose iteration fails: a try around the expression has
			// nothing to catch (the fault is raised after it returned), and sum() of a one-element list
			// hands the inner lazy list on; demand only that no context turns the fault into a value
			if classes[i] != "error-when-forced" && classes[i] != "error" && !(isTry && classes[i] == "value" && vals[i] == "42") {
				ctx.Violate("a fault raised while a lazy list is consumed is lost in another context", rp, "error, error-when-forced or the catch value", classes[i]+" "+vals[i], "")
			}
		case classes[0] == "value":
			if classes[i] != "value" {
				ctx.Violate("an expression that evaluates at top level fails in another context", rp, "value "+vals[0], classes[i], "")
			}
		}
	}
}

var binOps = []string{"|", "&", "=", "!=", "~", "<", ">", "<=", ">=", "+", "-", "<<", ">>", "*", "%", "/", "^"}

func typeOfPool(p []pv, sortName string) []pv {
	var out []pv
	for _, v := range p {
		if v.sort == sortName {
			out = append(out, v)
		}
	}
	return out
}

func runPlain(ctx *bex.Ctx) {
	g := value.New()
	p := pool(g)
	rp := reducedPool(p)
	var idx int64
	mine := func() bool {
		idx++
		return ctx.Mine(idx) && !ctx.Expired()
	}
	mk := func(vs ...pv) ([]string, func() []value.Value) {
		names := make([]string, len(vs))
		for i, v := range vs {
			names[i] = v.name
		}
		return names, func() []value.Value {
			out := make([]value.Value, len(vs))
			for i, v := range vs {
				out[i] = v.mk()
			}
			return out
		}
	}

	ctx.Space("operators")
	for _, op := range binOps {
		t := compile(g, "a"+op+"b", 2)
		for _, x := range p {
			for _, y := range p {
				if !mine() {
					continue
				}
				n, a := mk(x, y)
				must := (op == "%" && x.sort == "int" && y.name == "0") || ((op == "<<" || op == ">>") && x.sort == "int" && y.name == "-1")
				checkCase(ctx, t, n, a, must)
			}
		}
	}
	for _, op := range []string{"-", "!"} {
		t := compile(g, op+"a", 1)
		for _, x := range p {
			if !mine() {
				continue
			}
			n, a := mk(x)
			checkCase(ctx, t, n, a, false)
		}
	}
	for _, tm := range []string{"a[b]", "a.k", "a(b)", "a(b,b)", "if a then 1 else 2", "switch a case b: 1 default 2", "a.f(b)", "[a,b].order(e->e).size()", "{x:a}.x(b)"} {
		t := compile(g, tm, 2)
		for _, x := range p {
			for _, y := range p {
				if !mine() {
					continue
				}
				n, a := mk(x, y)
				must := tm == "a[b]" && x.name == "[1,2]" && (y.name == "-1" || y.name == "2")
				checkCase(ctx, t, n, a, must)
			}
		}
	}
	ctx.SpaceDone(fmt.Sprintf("17 binary operators x %d^2 operand pairs, 2 unary x %d, 9 access/call/control forms x %d^2; 7 contexts each", len(p), len(p), len(p)))

	// statics and methods from the library's own documentation tables
	ctx.Space("statics-and-methods")
	skip := map[string]bool{"random": false, "randomConst": false}
	docs := g.GetDocumentation()
	nMethods := 0
	for _, td := range docs {
		for _, fd := range td.Functions {
			if skip[fd.Name] {
				continue
			}
			nMethods++
			arity := 0
			if fd.Description != nil {
				arity = len(fd.Description.Args)
			}
			isMethod := td.Type == "Methods"
			var recvs []pv
			if isMethod {
				recvs = typeOfPool(p, td.Name)
				if len(recvs) == 0 {
					continue
				}
			} else {
				recvs = []pv{{name: "-", mk: func() value.Value { return value.Int(0) }, sort: "int"}}
			}
			// arities: the documented one, and one less / one more (wrong argument counts)
			for _, ar := range []int{arity, arity - 1, arity + 1} {
				if ar < 0 || ar > 9 {
					continue
				}
				argPool := p
				if ar >= 3 {
					argPool = rp
				}
				if ar >= 5 {
					argPool = rp[:3]
				}
				if ar != arity {
					argPool = rp[:2]
				}
				names := []string{"b", "c", "d", "e", "f", "g", "h", "i", "j"}[:ar]
				var expr string
				if isMethod {
					expr = "a." + fd.Name + "(" + strings.Join(names, ",") + ")"
				} else {
					expr = fd.Name + "(" + strings.Join(names, ",") + ")"
				}
				t := compile(g, expr, ar+1)
				// all argument tuples
				tuple := make([]pv, ar)
				var rec func(i int)
				rec = func(i int) {
					if i == ar {
						for _, r := range recvs {
							if !mine() {
								continue
							}
							n, a := mk(append([]pv{r}, tuple...)...)
							must := fd.Name == "random" && ar == 1 && tuple[0].name == "0"
							checkCase(ctx, t, n, a, must)
						}
						return
					}
					for _, v := range argPool {
						tuple[i] = v
						rec(i + 1)
					}
				}
				rec(0)
			}
		}
	}
	ctx.Add("methods_and_functions_enumerated_from_documentation", int64(nMethods))
	ctx.SpaceDone(fmt.Sprintf("every static function and every method of every built-in type listed by GetDocumentation() x documented arity and arity +-1 x every argument tuple from the pool (%d values for arity <= 2, %d for 3..4, 3 for >= 5); 7 contexts each", len(p), len(rp)))

	// lazy lists that DECLARE a huge size and fail at their first item: a consumer that materialises the
	// list must fail at that item, not ask the runtime for memory for all declared items first (the
	// runtime's "out of memory" is a fatal error no recover sees)
	ctx.Space("huge-declared-size")
	{
		stages := []string{"map(x->FAULT)", "number((i,v)->(x->FAULT)(v))", "iir(x->FAULT,(x,l)->x)", "map(x->x).map(x->FAULT)", "fsm((s,x)->goto(FAULT)).map(m->m.state)"}
		consumers := []string{".size()", ".eval().size()", "[0]", ".reverse().first()", "=[]", ".append(1).size()", ".order(x->x).first()", ".set(0,1).size()", ".movingWindow(x->x).size()", ".sum()", ".first()"}
		for _, fault := range []string{"x.e", "1%x", "throw(\"e\")"} {
			for _, st := range stages {
				for _, c := range consumers {
					if !mine() {
						continue
					}
					expr := "(numbers(a)." + strings.ReplaceAll(st, "FAULT", fault) + ")" + c
					t := compile(g, expr, 1)
					huge := pv{name: "2^40", mk: func() value.Value { return value.Int(1 << 40) }, sort: "int"}
					n, a := mk(huge)
					checkCase(ctx, t, n, a, true)
				}
			}
		}
	}
	ctx.SpaceDone("5 size-preserving lazy stages over numbers(2^40) failing at their first item (type error, modulo by zero, throw) x 11 consumers (9 of them materialise the list); 7 contexts each: the evaluation returns the error, the process does not die")

	// recursion shapes
	ctx.Space("recursion")
	{
		for _, src := range []string{
			"func f(x) f(x+1); f(a)",
			"func f(x) 1+f(x+1); f(a)",
			"func f(x) if x>100000 then x else f(x+1); f(a)",
			"func f(x) let y=x+1; f(y); f(a)",
			"func f(x) (y->f(y))(x+1); f(a)",
			"func f(x) g(x); func g(x) 1; f(a)",
			"func f(x) try f(x+1) catch 0; f(a)",
			"func f(x) [f(x+1)]; f(a)",
			"func f(x) {k:f(x+1)}; f(a)",
			"func f(x) [x].map(e->f(e+1)).sum(); f(a)",
			"func f(x) [x].accept(e->f(e+1)).size(); f(a)",
			"func f(x) [x,x].reduce((p,q)->f(p+q)); f(a)",
			"func f(x) [x].visit(0,(v,e)->f(e+1)); f(a)",
			"func f(x) [x,x].orderLess((p,q)->f(p+q)).size(); f(a)",
			"func f(x) {k:x}.map((k,v)->f(v+1)).size(); f(a)",
			"func f(x) [x].multiUse({m:l->l.map(e->f(e+1)).sum()}).m; f(a)",
			"func f(x) [x].indexWhere(e->f(e+1)); f(a)",
			"func f(x) [x].present(e->f(e+1)); f(a)",
			"func f(x) [x].minMax(e->f(e+1)).min; f(a)",
			"func f(x) [x].groupByInt(e->f(e+1)).size(); f(a)",
			"func f(x) [x].iir(e->f(e+1),(e,l)->e).size(); f(a)",
			"func f(x) [x].number((i,e)->f(e+1)).size(); f(a)",
			"func f(x) [x].mapReduce(0,(s,e)->f(e+1)); f(a)",
			"func f(x) [x].replaceList(l->f(x+1)); f(a)",
			"func f(x) (g->g(x+1))(f); f(a)",
			"func f(x) f.invoke([x+1]); f(a)",
			// through the two-argument callbacks of the lazy stages (they run on the stack of the consumer)
			"func f(x) [1].merge([2],(p,q)->f(p)).size(); f(a)",
			"func f(x) [1,x].combine((p,q)->f(p+q)).size(); f(a)",
			"func f(x) [1].cross([x],(p,q)->f(p+q)).size(); f(a)",
			"func f(x) [1,x].compact((p,q)->f(p+q)).size(); f(a)",
			"func f(x) try [1].merge([2],(p,q)->f(p)).size() catch 0; f(a)",
		} {
			if !mine() {
				continue
			}
			// the fatal shapes cost a worker restart each: the quick tier keeps four of them
			fatalShape := strings.Contains(src, "[x") || strings.Contains(src, "{k:x}")
			if ctx.Quick() && fatalShape && (strings.Contains(src, "multiUse") || !strings.Contains(src, ".map(e->f")) && !strings.Contains(src, ".reduce(") && !strings.Contains(src, ".visit(") && !strings.Contains(src, "orderLess") {
				continue
			}
			t := compile(g, src, 1)
			n, a := mk(p[2])
			// a try inside the recursion catches the overflow at the innermost level: a value is fine
			checkCase(ctx, t, n, a, !strings.Contains(src, "try"))
		}
	}
	ctx.SpaceDone("32 non-terminating recursion shapes: growing the value stack (plain, through let, closures, try, literals) and not growing it (through every closure-calling list/map method, invoke); 7 contexts each")
}

// ---------------------------------------------------------------------------------------------
// (b) coop: faults x goroutines

func coopGen() *value.FunctionGenerator {
	g := value.New()
	g.AddStaticFunction("slow", funcGen.Function[value.Value]{
		Func: func(st funcGen.Stack[value.Value], cs []value.Value) (value.Value, error) {
			vsched.ClockAdvance(300)
			return st.Get(0), nil
		},
		Args: 1, IsPure: false,
	}.SetDescription("x", "identity with a virtual cost of 300us"))
	g.AddStaticFunction("boom", funcGen.Function[value.Value]{
		Func: func(st funcGen.Stack[value.Value], cs []value.Value) (value.Value, error) {
			panic("host function panicked")
		},
		Args: 1, IsPure: false,
	}.SetDescription("x", "a host function that panics"))
	return g
}

type cscenario struct {
	Pos, Fault string
	K, N       int
	Src        string
	Try        bool
	// Any: no fault is injected; the program uses an operation in an unusual way and may yield a value or
	// an error, but must not kill the host, deadlock or leave the evaluation hanging
	Any bool
}

func coopScenarios(quick bool, emit func(cscenario)) {
	faults := map[string]string{"throw": `throw("e")`, "panicking-operator": "x%0", "panicking-host-function": "boom(x)"}
	fnames := []string{"throw", "panicking-operator", "panicking-host-function"}
	// F(x) = if x=K then FAULT else x; written with the closure's own variable name
	F := func(v string, k int, fault string) string {
		return fmt.Sprintf("(if %s=%d then %s else %s)", v, k, strings.ReplaceAll(fault, "x", v), v)
	}
	type pos struct {
		name  string
		n     int
		ks    []int
		build func(k int, fault string) string
	}
	parKs := []int{5, 12, 13}
	positions := []pos{
		{"upstream-stage", 14, parKs, func(k int, f string) string {
			return "numbers(n).number((i,v)->" + F("v", k, f) + ").map(x->slow(x)).sum()"
		}},
		{"parallel-mapper", 14, parKs, func(k int, f string) string { return "numbers(n).map(x->slow(" + F("x", k, f) + ")).sum()" }},
		{"parallel-filter", 14, parKs, func(k int, f string) string { return "numbers(n).accept(x->slow(" + F("x", k, f) + ")>=0).size()" }},
		{"downstream-stage", 14, parKs, func(k int, f string) string {
			return "numbers(n).map(x->slow(x)).number((i,v)->" + F("v", k, f) + ").sum()"
		}},
		{"terminal-closure", 14, parKs, func(k int, f string) string {
			return "numbers(n).map(x->slow(x)).reduce((p,q)->p+" + F("q", k, f) + ")"
		}},
		{"terminal-loop-body", 14, parKs, func(k int, f string) string {
			return "numbers(n).map(x->slow(x)).map(x->" + F("x", k, f) + ").minMax(x->x).max"
		}},
		{"merge-comparator", 3, []int{0, 2}, func(k int, f string) string {
			return "numbers(n).merge(numbers(n),(a,b)->" + F("a", k, f) + "<b).sum()"
		}},
		{"merge-operand", 3, []int{0, 2}, func(k int, f string) string {
			return "numbers(n).map(x->" + F("x", k, f) + ").merge(numbers(n),(a,b)->a<b).sum()"
		}},
		{"merge-second-operand", 3, []int{0, 2}, func(k int, f string) string {
			return "numbers(n).merge(numbers(n).number((i,v)->" + F("v", k, f) + "),(a,b)->a<b).sum()"
		}},
		{"multiUse-consumer", 3, []int{0, 2}, func(k int, f string) string {
			return "numbers(n).multiUse({a:l->l.map(x->" + F("x", k, f) + ").sum(),b:l->l.size()}).a"
		}},
		{"multiUse-source", 3, []int{0, 2}, func(k int, f string) string {
			return "numbers(n).map(x->" + F("x", k, f) + ").multiUse({a:l->l.sum(),b:l->l.size()}).a"
		}},
		// the fault sits in a lazy list INSIDE the result of a multiUse consumer: multiUse forces such
		// results on the consumer's goroutine and has to report the first failure, wherever it sits
		{"multiUse-result-lazy-list", 3, []int{0, 2}, func(k int, f string) string {
			return "numbers(n).multiUse({a:l->l.map(x->" + F("x", k, f) + "),b:l->l.size()}).b"
		}},
		{"multiUse-result-map-first-entry", 3, []int{0, 2}, func(k int, f string) string {
			return "numbers(n).multiUse({a:l->{x:l.map(x->" + F("x", k, f) + "),y:3},b:l->l.size()}).a.y"
		}},
		{"multiUse-result-map-last-entry", 3, []int{0, 2}, func(k int, f string) string {
			return "numbers(n).multiUse({a:l->{y:3,x:l.map(x->" + F("x", k, f) + ")},b:l->l.size()}).a.y"
		}},
		{"multiUse-result-map-middle-entry", 3, []int{0, 2}, func(k int, f string) string {
			return "numbers(n).multiUse({a:l->{w:[1],x:l.map(x->" + F("x", k, f) + "),y:3,z:[2].map(e->e)},b:l->l.size()}).a.y"
		}},
		{"multiUse-result-nested-list", 3, []int{0, 2}, func(k int, f string) string {
			return "numbers(n).multiUse({a:l->[l.map(x->" + F("x", k, f) + "),[1],2],b:l->l.size()}).b"
		}},
		{"multiUse-result-map-in-list-in-map", 3, []int{0, 2}, func(k int, f string) string {
			return "numbers(n).multiUse({a:l->l.size(),b:l->{p:[{q:l.map(x->" + F("x", k, f) + "),r:1}],s:2}}).a"
		}},
	}
	// closure provenance: the callback reaches the goroutine-running operation as a let-bound closure, a
	// func declaration, a RECURSIVE func that passes itself, a curried closure, a map field — with the
	// fault raised directly in its own body
	provs := []struct{ name, decl, use string }{
		{"let-bound", "let cb=x->BODY;", "cb"},
		{"func", "func cb(x) BODY;", "cb"},
		{"recursive-func", "func cb(x) if x<0 then cb(x+1) else BODY;", "cb"},
		{"curried", "let mk=k->x->BODY;", "mk(1)"},
		{"map-field", "let o={cb:x->BODY};", "o.cb"},
		{"returned-from-func", "func mk(k) x->BODY;", "mk(1)"},
	}
	for _, pv := range provs {
		for _, fn := range fnames[1:] {
			body := F("x", 12, faults[fn])
			decl := strings.ReplaceAll(pv.decl, "BODY", "slow("+body+")")
			emitBoth := func(pos, src string, n int) {
				emit(cscenario{Pos: pos + "/" + pv.name, Fault: fn, K: 12, N: n, Src: src})
				emit(cscenario{Pos: pos + "/" + pv.name, Fault: fn, K: 12, N: n, Src: "try " + src + " catch 42", Try: true})
			}
			emitBoth("parallel-mapper", decl+"numbers(n).map("+pv.use+").sum()", 14)
			declS := strings.ReplaceAll(pv.decl, "BODY", F("x", 1, faults[fn]))
			emitBoth("merge-operand", declS+"numbers(n).map("+pv.use+").merge(numbers(n),(a,b)->a<b).sum()", 3)
			declL := strings.ReplaceAll(strings.ReplaceAll(pv.decl, "x<0", "x.size()<0"), "BODY", strings.ReplaceAll(faults[fn], "x", "x.size()"))
			emitBoth("multiUse-consumer", declL+"numbers(n).multiUse({a:"+pv.use+",b:l->l.size()}).a", 3)
		}
	}
	// a recursive function that passes ITSELF (the self reference inside its own body) to the operation
	for _, fn := range fnames[1:] {
		both := func(pos, src string, n int) {
			emit(cscenario{Pos: pos, Fault: fn, K: 112, N: n, Src: src})
			emit(cscenario{Pos: pos, Fault: fn, K: 112, N: n, Src: "try " + src + " catch 42", Try: true})
		}
		both("parallel-mapper/recursive-func-passing-itself", "func cb(x) if x<100 then numbers(n).map(e->e+100).map(cb).sum() else slow("+F("x", 112, faults[fn])+"); cb(0)", 14)
		both("merge-operand/recursive-func-passing-itself", "func cb(x) if x<100 then numbers(n).map(e->e+100).map(cb).merge(numbers(n),(a,b)->a<b).sum() else "+F("x", 101, faults[fn])+"; cb(0)", 3)
		both("multiUse-consumer/recursive-func-passing-itself", "func cb(l) if l.size()>2 then numbers(2).multiUse({a:cb,b:q->q.size()}).a else "+strings.ReplaceAll(faults[fn], "x", "l.size()")+"; cb(numbers(n))", 3)
	}
	// every closure-calling lazy stage fails in the MIDDLE of its list (more items would follow), consumed
	// in each context where the consumer's loop does not run under a recover of the evaluating goroutine:
	// a stage that goes on after its consumer has stopped raises Go's range-function panic in library code
	{
		type stg struct {
			name string
			tmpl func(f func(v string) string) string // f(v) = the failing expression over variable v
		}
		stages := []stg{
			{"map", func(f func(string) string) string { return "map(x->" + f("x") + ")" }},
			{"accept", func(f func(string) string) string { return "accept(x->" + f("x") + ">=0)" }},
			{"number", func(f func(string) string) string { return "number((i,v)->" + f("v") + ")" }},
			{"combine", func(f func(string) string) string { return "combine((p,q)->" + f("q") + ")" }},
			{"combine3", func(f func(string) string) string { return "combine3((p,q,r)->" + f("r") + ")" }},
			{"combineN", func(f func(string) string) string { return "combineN(2,w->(v->" + f("v") + ")(w[1]))" }},
			{"iir", func(f func(string) string) string { return "iir(x->x,(x,l)->" + f("x") + ")" }},
			{"iirCombine", func(f func(string) string) string { return "iirCombine(x->x,(x,xl,yl)->" + f("x") + ")" }},
			{"compact", func(f func(string) string) string { return "compact((p,q)->" + f("q") + "=p)" }},
			{"cross", func(f func(string) string) string { return "cross([0],(x,y)->" + f("x") + "+y)" }},
			{"fsm", func(f func(string) string) string { return "fsm((s,x)->goto(" + f("x") + ")).map(m->m.state)" }},
		}
		type cx struct {
			name string
			n, k int
			tmpl string // S = the failing stage
		}
		ctxs := []cx{
			{"consumed-at-once", 5, 2, "numbers(n).S.sum()"},
			{"returned-lazily-to-the-host", 5, 2, "numbers(n).S"},
			{"returned-by-a-multiUse-function", 5, 2, "numbers(n).multiUse({a:l->l.S,b:l->l.size()}).b"},
			{"behind-it-a-parallel-map", 17, 14, "numbers(n).S.map(x->slow(x)).sum()"},
			{"merge-operand-behind-top", 5, 2, "numbers(n).S.top(100).merge(numbers(3),(a,b)->a<b).sum()"},
			{"second-merge-operand", 5, 2, "numbers(3).merge(numbers(n).S.skip(0),(a,b)->a<b).sum()"},
		}
		for _, st := range stages {
			for _, c := range ctxs {
				for _, fn := range fnames {
					if quick && fn == "panicking-host-function" && c.name != "behind-it-a-parallel-map" {
						continue
					}
					src := strings.ReplaceAll(c.tmpl, "S", st.tmpl(func(v string) string { return F(v, c.k, faults[fn]) }))
					any := c.name == "returned-lazily-to-the-host" // the fault surfaces when the host iterates the result
					emit(cscenario{Pos: "failing-" + st.name + "/" + c.name, Fault: fn, K: c.k, N: c.n, Src: src, Any: any})
					emit(cscenario{Pos: "failing-" + st.name + "/" + c.name, Fault: fn, K: c.k, N: c.n, Src: "try " + src + " catch 42", Try: true, Any: any})
				}
			}
		}
	}
	// multiUse functions that use their list in every way but the intended one (once, completely)
	for _, body := range []string{
		"[1,2].cross(l,(x,y)->x+y)", "l.cross(l,(x,y)->x+y)", "l.cross([1,2],(x,y)->x+y)", "l.sum()+l.sum()", "l.merge(l,(a,b)->a<b)", "l+l", "[l,l]", "{p:l,q:l}",
		"l.map(x->l.size())", "l.top(2)+l.skip(2)", "l", "l.top(1)", "l.first()+l.first()", "[l.first(),l.size()]", "l.eval().size()+l.eval().size()",
		"l.multiUse({p:q->q.sum(),r:q->q.size()})", "l.map(x->slow(x)).sum()", "l.accept(x->slow(x)>=0).top(1)", "l.combine((p,q)->[p,q])", "l.movingWindow(x->x)",
		"l.iir(x->x,(x,y)->x+y)", "l.groupByInt(x->x%2)", "l.order(x->0-x)", "l.reverse()", "l.replaceList(q->q.map(x->x+1))", "l.size()+l[0]", "l[0]+l[1]",
		"try l.sum()+l.sum() catch l.size()", "(l~l)", "(l=l)", "l.string()+l.string()", "x->l", "{f:x->l.size()}",
	} {
		for _, n := range []int{0, 1, 3} {
			src := "numbers(n).multiUse({a:l->" + body + ",b:l->l.size()})"
			emit(cscenario{Pos: "multiUse-function-misusing-its-list", Fault: "none", N: n, Src: src, Any: true})
			emit(cscenario{Pos: "multiUse-function-misusing-its-list", Fault: "none", N: n, Src: "try " + src + " catch 42", Any: true})
		}
	}
	for _, p := range positions {
		for _, fn := range fnames {
			for _, k := range p.ks {
				src := p.build(k, faults[fn])
				emit(cscenario{Pos: p.name, Fault: fn, K: k, N: p.n, Src: src})
				emit(cscenario{Pos: p.name, Fault: fn, K: k, N: p.n, Src: "try " + src + " catch 42", Try: true})
			}
		}
	}
}

func classifyCoop(sc cscenario, crash string) string {
	if sc.Fault == "throw" {
		return ""
	}
	if crash != "" {
		return "F05b-panic-on-library-goroutine"
	}
	return "F05a-panic-not-catchable"
}

func runCoop(ctx *bex.Ctx) {
	ctx.Space("faults-on-goroutines")
	g := coopGen()
	var idx int64
	coopScenarios(ctx.Quick(), func(sc cscenario) {
		idx++
		if !ctx.Mine(idx) || ctx.Expired() {
			return
		}
		repro := map[string]any{"position": sc.Pos, "fault": sc.Fault, "k": sc.K, "n": sc.N, "src": sc.Src, "coop": true}
		// heartbeat of the hang watchdog and journal entry: one scenario is one case
		if !ctx.Begin(func() map[string]any { return repro }) {
			return
		}
		var f funcGen.Func[value.Value]
		var err error
		vsched.RunDefault(func() string { f, _, err = g.Generate(sc.Src, "n"); return "" })
		if err != nil {
			ctx.Violate("scenario does not generate", repro, "a function", err.Error(), "")
			return
		}
		vsched.Workers = 2
		maxExecs := 40000
		if ctx.Quick() {
			maxExecs = 10000 // the 9-vthread scenarios (two parallel stages) hit any cap; counted in scenarios_capped
		}
		if sc.Any {
			maxExecs = 4000
		}
		t0 := time.Now()
		st := vsched.Explore(vsched.Config{PreemptBound: -1, MaxExecs: maxExecs, Stop: ctx.Expired}, func() string {
			c, v := observe(f, []value.Value{value.Int(sc.N)})
			return c + " " + v
		})
		ctx.Eval()
		if tf := os.Getenv("C05_TRACE"); tf != "" {
			if fh, err := os.OpenFile(fmt.Sprintf("%s.%d", tf, ctx.Shard), os.O_APPEND|os.O_CREATE|os.O_WRONLY, 0644); err == nil {
				fmt.Fprintf(fh, "%8.0fms execs=%-6d states=%-6d threads=%d capped=%v n=%d %s\n", float64(time.Since(t0).Microseconds())/1000, st.Execs, st.States, st.MaxThreads, st.Capped, sc.N, sc.Src)
				fh.Close()
			}
		}
		ctx.Add("states", int64(st.States))
		ctx.Add("transitions", int64(st.Transitions))
		ctx.Add("executions", int64(st.Execs))
		ctx.Add("traces_validated_against_impl", int64(st.Execs))
		ctx.Max("max_threads", int64(st.MaxThreads))
		if st.Capped {
			ctx.Add("scenarios_capped", 1)
		}
		ctx.Nontrivial(sc.Src)
		ctx.Outcome(fmt.Sprintf("coop:%s:%s", sc.Pos, sc.Fault))
		if ctx.WantSample() {
			ctx.Sample(map[string]any{"scenario": repro, "executions": st.Execs, "states": st.States, "vthreads": st.MaxThreads, "outcomes": st.Outcomes})
		}
		if t := st.FirstCrash(); t != nil {
			rp := copyMap(repro)
			rp["schedule"] = t.Choices
			ctx.Violate("a panic reaches the top of a library goroutine: the host process dies", rp, "the evaluation returns an error", t.Crash, classifyCoop(sc, t.Crash))
		}
		want := "error "
		if sc.Try {
			want = "value 42"
		}
		for o := range st.Outcomes {
			if o != want && st.Crashes == 0 && !sc.Any {
				ctx.Violate("fault on a library goroutine is not an ordinary (catchable) error", repro, want, o, classifyCoop(sc, ""))
			}
		}
		if t := st.FirstDeadlock(); t != nil && st.Crashes == 0 {
			rp := copyMap(repro)
			rp["schedule"] = t.Choices
			ctx.Violate("deadlock after a fault", rp, "the evaluation returns", t.Leaks, "")
		}
	})
	ctx.SpaceDone("11 closure-calling lazy stages failing in the middle of their list x 6 contexts whose consumer loop is not under a recover of the evaluating goroutine; 33 multiUse functions misusing their list (twice, through cross/merge/+, kept in the result, nested multiUse, never) x 3 sizes, bare and inside try/catch; 3 fault kinds x 17 positions (incl. lazy lists inside the result of a multiUse function: map first/middle/last entry, nested lists and maps) x fault at {sequential phase, first parallel item, last item} x {bare, inside try/catch}; all schedules; W=2")
	runCoopMethods(ctx)
}

// runCoopMethods: every list method behind a map stage that really runs parallel. The Go code of a
// method that consumes such a list runs, element by element, on a goroutine of the iterator library
// (the loop body of a range-over-func is called by whoever yields), where no closure guard protects it:
// a Go panic in the METHOD's own code (a type assertion on a failed comparison, an index computed from
// NaN) kills the host there although the same method behind a sequential list only returns an error.
func runCoopMethods(ctx *bex.Ctx) {
	ctx.Space("list-methods-behind-a-parallel-stage")
	g := coopGen()
	p := pool(g)
	pick := func(names ...string) []pv {
		var out []pv
		for _, n := range names {
			for _, v := range p {
				if v.name == n {
					out = append(out, v)
				}
			}
		}
		return out
	}
	small := pick("1", "0.0", `"a"`, "[1,2]", "x->x", "(x,y)->x", "x->x%0", "NaN", "{k:1}")
	tiny := pick("1", "x->x", "(x,y)->x")
	recvs := []struct{ name, src string }{
		{"ints", "numbers(16)"},
		// the poison sits behind item 12: the first 12 items are always processed sequentially
		{"incomparable", `numbers(16).map(x->if x<13 then x else if x=13 then "s" else {k:x})`},
		{"incomparable-mixed", `numbers(16).map(x->if x<12 then x%3 else if x%2=0 then [x] else x->x)`},
		{"floats-NaN-Inf", "numbers(16).map(x->if x=13 then 0.0/0.0 else if x=14 then 1.0/0.0 else x*0.5)"},
		{"lists", "numbers(16).map(x->[x,x+1])"},
		{"records", "numbers(16).map(x->{x:x*1.0,y:x,w:1})"},
	}
	var idx int64
	nMethods := 0
	for _, td := range g.GetDocumentation() {
		if td.Type != "Methods" || td.Name != "list" {
			continue
		}
		for _, fd := range td.Functions {
			nMethods++
			arity := 0
			if fd.Description != nil {
				arity = len(fd.Description.Args)
			}
			argPool := small
			if arity >= 3 {
				argPool = tiny
			}
			if arity > 6 {
				continue
			}
			names := []string{"b", "c", "d", "e", "f", "g"}[:arity]
			for ri, rc := range recvs {
				par := ".map(x->slow(x))."
				if ri < 3 && arity <= 2 {
					// the first three receivers also behind a parallel FILTER
					par = ".accept(x->slow(1)=1)."
					if (len(fd.Name)+ri)%2 == 0 {
						par = ".map(x->slow(x))."
					}
				}
				expr := rc.src + par + fd.Name + "(" + strings.Join(names, ",") + ")"
				var f, ft funcGen.Func[value.Value]
				var err error
				vsched.RunDefault(func() string {
					f, _, err = g.Generate(expr, names...)
					if err == nil {
						ft, _, err = g.Generate("try "+expr+" catch 42", names...)
					}
					return ""
				})
				if err != nil {
					continue
				}
				tuple := make([]pv, arity)
				var rec func(i int)
				rec = func(i int) {
					if i < arity {
						for _, v := range argPool {
							tuple[i] = v
							rec(i + 1)
						}
						return
					}
					idx++
					if !ctx.Mine(idx) || ctx.Expired() {
						return
					}
					argNames := make([]string, arity)
					for k, v := range tuple {
						argNames[k] = v.name
					}
					repro := map[string]any{"coop": true, "methods": true, "src": expr, "arg_values": argNames, "receiver": rc.name}
					if !ctx.Begin(func() map[string]any { return repro }) {
						return
					}
					mkArgs := func() []value.Value {
						out := make([]value.Value, arity)
						for k, v := range tuple {
							out[k] = v.mk()
						}
						return out
					}
					vsched.Workers = 2
					run := func(fn funcGen.Func[value.Value]) vsched.Stats {
						return vsched.Explore(vsched.Config{PreemptBound: 0, MaxExecs: 8, Stop: ctx.Expired}, func() string {
							c, v := observe(fn, mkArgs())
							if c == "error" {
								v = ""
							}
							return c + " " + v
						})
					}
					st := run(f)
					ctx.Eval()
					ctx.Add("executions", int64(st.Execs))
					ctx.Add("states", int64(st.States))
					ctx.Add("transitions", int64(st.Transitions))
					ctx.Add("traces_validated_against_impl", int64(st.Execs))
					isErr := false
					for o := range st.Outcomes {
						if strings.HasPrefix(o, "error ") { // not "error-when-forced": raised when the host iterates the lazily returned list
							isErr = true
						}
					}
					ctx.Outcome(fmt.Sprintf("method-behind-parallel:%s:error=%v", rc.name, isErr))
					if st.MaxThreads > 2 {
						ctx.Nontrivial(expr + strings.Join(argNames, ","))
					}
					if t := st.FirstCrash(); t != nil {
						ctx.Violate("a Go panic in the code of a list method reaches the top of a library goroutine (the method runs behind a parallel stage): the host process dies", repro, "the evaluation returns a value or an error", t.Crash, classifyMethodCrash(fd.Name, t.Crash))
						return
					}
					if t := st.FirstDeadlock(); t != nil {
						ctx.Violate("deadlock in a list method behind a parallel stage", repro, "the evaluation returns", t.Leaks, "")
						return
					}
					if isErr {
						st2 := run(ft)
						ctx.Add("executions", int64(st2.Execs))
						for o := range st2.Outcomes {
							if o != "value 42" && st2.Crashes == 0 {
								ctx.Violate("a fault in a list method behind a parallel stage is not an ordinary (catchable) error", repro, "value 42 inside try/catch", o, "")
							}
						}
						if t := st2.FirstCrash(); t != nil {
							ctx.Violate("a Go panic in the code of a list method reaches the top of a library goroutine (inside try/catch)", repro, "value 42", t.Crash, classifyMethodCrash(fd.Name, t.Crash))
						}
					}
				}
				rec(0)
			}
		}
	}
	ctx.Add("list_methods_enumerated_from_documentation", int64(nMethods))
	ctx.SpaceDone(fmt.Sprintf("every method of the list type listed by GetDocumentation() x every argument tuple from a pool of %d values (%d for arity >= 3) x 6 receivers of 16 items (ints; ints followed by a string and a map resp. lists and closures from item 13; floats with NaN and Inf at items 13/14; lists; records) produced by a map (or accept) stage that runs parallel from item 13; non-preemptive schedules (<= 8); no panic on a library goroutine, no deadlock, a fault is catchable", len(small), len(tiny)))
}

// replayCoopMethod re-runs a case of space list-methods-behind-a-parallel-stage.
func replayCoopMethod(repro map[string]any) (string, bool) {
	g := coopGen()
	p := pool(g)
	expr, _ := repro["src"].(string)
	var tuple []pv
	if l, ok := repro["arg_values"].([]any); ok {
		for _, a := range l {
			for _, v := range p {
				if v.name == a.(string) {
					tuple = append(tuple, v)
				}
			}
		}
	}
	names := []string{"b", "c", "d", "e", "f", "g"}[:len(tuple)]
	var f, ft funcGen.Func[value.Value]
	var err error
	vsched.RunDefault(func() string {
		f, _, err = g.Generate(expr, names...)
		if err == nil {
			ft, _, err = g.Generate("try "+expr+" catch 42", names...)
		}
		return ""
	})
	if err != nil {
		return "does not generate: " + err.Error(), true
	}
	vsched.Workers = 2
	run := func(fn funcGen.Func[value.Value]) vsched.Stats {
		return vsched.Explore(vsched.Config{PreemptBound: 0, MaxExecs: 8}, func() string {
			args := make([]value.Value, len(tuple))
			for k, v := range tuple {
				args[k] = v.mk()
			}
			c, v := observe(fn, args)
			if c == "error" {
				v = ""
			}
			return c + " " + v
		})
	}
	st, st2 := run(f), run(ft)
	var bad []string
	for _, x := range []*vsched.Stats{&st, &st2} {
		if t := x.FirstCrash(); t != nil {
			bad = append(bad, "panic on a library goroutine: "+t.Crash)
		}
		if t := x.FirstDeadlock(); t != nil {
			bad = append(bad, "deadlock: "+t.Leaks)
		}
	}
	isErr := false
	for o := range st.Outcomes {
		if strings.HasPrefix(o, "error ") {
			isErr = true
		}
	}
	if isErr {
		for o := range st2.Outcomes {
			if o != "value 42" {
				bad = append(bad, "inside try/catch: "+o)
			}
		}
	}
	return fmt.Sprintf("bare: %v (vthreads %d); inside try/catch: %v; violated: %v", st.Outcomes, st.MaxThreads, st2.Outcomes, bad), len(bad) > 0
}

// classifyMethodCrash names the known finding a crash belongs to ("" = not listed).
func classifyMethodCrash(method, crash string) string {
	if strings.Contains(crash, "value.Value is nil, not value.Bool") && strings.Contains(crash, "value.Equal.func") {
		return "F05e-equal-wrapper-panics-on-incomparable"
	}
	return ""
}

func contains(l []string, s string) bool {
	for _, x := range l {
		if x == s {
			return true
		}
	}
	return false
}

// runRace is the free-running pass on the -race build (real goroutines, the Go race detector sees ALL
// memory): the fault-injection scenarios of the coop part, with a slow() that really sleeps so that the
// library's wall-clock measurement goes parallel, plus type-error faults raised by several workers at
// once. A race report is a true positive whatever location it concerns; a dead process is a verdict.
func runRace(ctx *bex.Ctx) {
	ctx.Space("race-detector-pass")
	g := value.New()
	g.AddStaticFunction("slow", funcGen.Function[value.Value]{
		Func: func(st funcGen.Stack[value.Value], cs []value.Value) (value.Value, error) {
			time.Sleep(300 * time.Microsecond)
			return st.Get(0), nil
		},
		Args: 1, IsPure: false,
	}.SetDescription("x", "identity that really sleeps 300us"))
	g.AddStaticFunction("boom", funcGen.Function[value.Value]{
		Func: func(st funcGen.Stack[value.Value], cs []value.Value) (value.Value, error) {
			panic("host function panicked")
		},
		Args: 1, IsPure: false,
	}.SetDescription("x", "a host function that panics"))
	var all []cscenario
	coopScenarios(ctx.Quick(), func(sc cscenario) { all = append(all, sc) })
	// type errors (whose messages are built from the operand types) raised by every worker at once
	for _, fault := range []string{"sin(\"a\"+x)", "x.foo", "x(1)", "[x][1]", "!x", "(1<\"a\"+x)", "{k:x}.k.j", "\"s\".len(x)"} {
		for _, shape := range []string{
			"numbers(n).map(x->slow(if x>11 then FAULT else x)).sum()",
			"numbers(n).map(x->try slow(if x>11 then FAULT else x) catch 0).sum()",
			"numbers(n).accept(x->slow(if x>11 then FAULT else x)>=0).size()",
			"numbers(n).multiUse({a:l->l.map(x->try FAULT catch 0).sum(),b:l->l.map(x->try FAULT catch 1).sum(),c:l->l.map(x->try FAULT catch 2).sum()}).a",
			"numbers(n).map(x->try FAULT catch 0).merge(numbers(n).map(x->try FAULT catch 1),(a,b)->a<b).sum()",
		} {
			n := 40
			if !strings.Contains(shape, "slow") {
				n = 5
			}
			all = append(all, cscenario{Pos: "type-error-on-all-workers", Fault: fault, N: n, Src: strings.ReplaceAll(shape, "FAULT", fault), Try: strings.Contains(shape, "try")})
		}
	}
	var idx int64
	for _, sc := range all {
		idx++
		if !ctx.Mine(idx) || ctx.Expired() {
			continue
		}
		repro := map[string]any{"position": sc.Pos, "fault": sc.Fault, "n": sc.N, "src": sc.Src, "racebuild": true}
		if !ctx.Begin(func() map[string]any { return repro }) {
			continue
		}
		f, _, err := g.Generate(sc.Src, "n")
		if err != nil {
			continue
		}
		reps := 3
		if !ctx.Quick() {
			reps = 10
		}
		if sc.Any {
			if strings.Contains(sc.Src, "x->l") {
				continue // never iterates its list: the pinned 5 s time-out, in real time here
			}
			reps = 1
		}
		n := sc.N
		if strings.HasPrefix(sc.Pos, "parallel") || strings.HasPrefix(sc.Pos, "upstream") || strings.HasPrefix(sc.Pos, "downstream") || strings.HasPrefix(sc.Pos, "terminal") {
			n = 40 // several elements in the parallel phase on 4 real cores
		}
		for r := 0; r < reps; r++ {
			ctx.Eval()
			c, v := observe(f, []value.Value{value.Int(n)})
			ctx.Add("race_build_runs", 1)
			if c == "PANIC-ESCAPED" {
				ctx.Violate("a Go panic escaped from the evaluation call (race build)", repro, "value or error", v, "")
			}
		}
		ctx.Nontrivial("race|" + sc.Src)
		ctx.Outcome("racebuild:" + sc.Pos)
		if rep := ctx.RaceReports(); rep != "" {
			finding := ""
			if strings.Contains(rep, "value.(*List).Eval") {
				finding = "F11-lazy-constant-materialisation-race"
			}
			if len(rep) > 2500 {
				rep = rep[:2500] + "…"
			}
			ctx.Violate("the Go race detector reports a data race (free-running -race build)", repro, "no report", rep, finding)
		}
	}
	ctx.SpaceDone("every fault-injection scenario of the coop part plus 8 type-error faults x 5 shapes raised on all workers at once, each evaluated 3 (thorough: 10) times free-running on the -race build with GOMAXPROCS=4")
}

func copyMap(m map[string]any) map[string]any {
	o := map[string]any{}
	for k, v := range m {
		o[k] = v
	}
	return o
}

func classifyCrash(repro map[string]any) string {
	expr, _ := repro["expr"].(string)
	// the shapes that die on the pinned tree: the recursive call sits in the function of map or accept
	// (the two methods that run their function on a fresh value stack)
	if strings.HasPrefix(expr, "func f(x)") && (strings.Contains(expr, ".map(e->f(") || strings.Contains(expr, ".accept(e->f(")) {
		return "F05c-recursion-through-fresh-stacks"
	}
	return ""
}

// replayChild evaluates a scenario of the free-running passes in a process of its own (it may die).
func replayChild() {
	log.SetOutput(io.Discard)
	g := value.New()
	g.AddStaticFunction("slow", funcGen.Function[value.Value]{
		Func: func(st funcGen.Stack[value.Value], cs []value.Value) (value.Value, error) {
			time.Sleep(300 * time.Microsecond)
			return st.Get(0), nil
		},
		Args: 1, IsPure: false,
	}.SetDescription("x", "identity that really sleeps 300us"))
	g.AddStaticFunction("boom", funcGen.Function[value.Value]{
		Func: func(st funcGen.Stack[value.Value], cs []value.Value) (value.Value, error) {
			panic("host function panicked")
		},
		Args: 1, IsPure: false,
	}.SetDescription("x", "a host function that panics"))
	var n int
	fmt.Sscan(os.Getenv("C05_REPLAY_N"), &n)
	f, _, err := g.Generate(os.Getenv("C05_REPLAY_SRC"), "n")
	if err != nil {
		fmt.Println("GENERATE-ERROR", err)
		return
	}
	for r := 0; r < 10; r++ {
		c, v := observe(f, []value.Value{value.Int(n)})
		fmt.Println("OUTCOME", c, v)
	}
}

func replay(repro map[string]any) (string, bool) {
	log.SetOutput(io.Discard)
	if c, _ := repro["coop"].(bool); c {
		if !bex.ReplayCoop {
			return "coop scenarios are replayed with build/bin/c05-coop --replay", false
		}
		if m, _ := repro["methods"].(bool); m {
			return replayCoopMethod(repro)
		}
		// all schedules of the scenario again, same oracles as the check
		src, _ := repro["src"].(string)
		n, _ := repro["n"].(float64)
		g := coopGen()
		var f funcGen.Func[value.Value]
		var err error
		vsched.RunDefault(func() string { f, _, err = g.Generate(src, "n"); return "" })
		if err != nil {
			return "scenario does not generate: " + err.Error(), true
		}
		vsched.Workers = 2
		st := vsched.Explore(vsched.Config{PreemptBound: -1, MaxExecs: 40000}, func() string {
			c, v := observe(f, []value.Value{value.Int(int(n))})
			return c + " " + v
		})
		want := "error "
		if strings.HasPrefix(src, "try ") && strings.HasSuffix(src, " catch 42") {
			want = "value 42"
		}
		var bad []string
		if t := st.FirstCrash(); t != nil {
			bad = append(bad, "a panic reaches the top of a library goroutine: "+t.Crash)
		}
		for o := range st.Outcomes {
			if o != want && st.Crashes == 0 {
				bad = append(bad, fmt.Sprintf("outcome %q instead of %q", o, want))
			}
		}
		if t := st.FirstDeadlock(); t != nil && st.Crashes == 0 {
			bad = append(bad, "deadlock after the fault: "+t.Leaks)
		}
		return fmt.Sprintf("%d executions, outcomes %v; violated: %v", st.Execs, st.Outcomes, bad), len(bad) > 0
	}
	if _, hasExpr := repro["expr"]; !hasExpr {
		// scenario of the race-detector pass: evaluated free-running in a child process, whose death is the verdict
		src, _ := repro["src"].(string)
		n, _ := repro["n"].(float64)
		self, _ := os.Executable()
		cmd := exec.Command(self)
		cmd.Env = append(os.Environ(), "C05_REPLAY_CHILD=1", "C05_REPLAY_SRC="+src, fmt.Sprintf("C05_REPLAY_N=%d", int(n)), "GOMAXPROCS=4")
		out, err := cmd.CombinedOutput()
		text := string(out)
		if len(text) > 1500 {
			text = text[:1500] + "…"
		}
		if err != nil {
			return fmt.Sprintf("the evaluating process died (%v): %s", err, text), true
		}
		return "10 evaluations in a child process: " + strings.ReplaceAll(strings.TrimSpace(text), "\n", "; "), strings.Contains(text, "PANIC-ESCAPED") || strings.Contains(text, "DATA RACE")
	}
	g := value.New()
	expr := repro["expr"].(string)
	var names []string
	for _, a := range repro["args"].([]any) {
		names = append(names, a.(string))
	}
	p := pool(g)
	find := func(n string) value.Value {
		for _, v := range p {
			if v.name == n {
				return v.mk()
			}
		}
		return value.Int(0)
	}
	t := compile(g, expr, len(names))
	var out []string
	fails := false
	for i, c := range contexts {
		if t.err[i] != nil {
			out = append(out, c.name+": generate error")
			continue
		}
		var args []value.Value
		for _, n := range names {
			args = append(args, find(n))
		}
		cl, v := observe(t.fs[i], args)
		out = append(out, fmt.Sprintf("%s: %s %s", c.name, cl, v))
		if strings.HasPrefix(c.name, "try") && strings.HasPrefix(out[0], "top: error") && v != "42" {
			fails = true
		}
	}
	return strings.Join(out, " | "), fails
}

func main() {
	if os.Getenv("C05_REPLAY_CHILD") != "" {
		replayChild()
		return
	}
	bex.Main(&bex.Check{
		ID:    "C05",
		Level: "exploration",
		Rule:  "plain workers enumerate the operator/function/method x argument-tuple table (methods taken from the library's documentation tables, so new built-ins are covered automatically) in 7 contexts each, in subprocesses whose death is a verdict; coop workers explore all schedules of fault-injection scenarios under the controlled scheduler. distinct_nontrivial = distinct (expression, argument tuple) cases whose bare evaluation is an error, plus coop scenarios",
		Assumptions: []string{"a fault is recognised by the library itself (the bare expression returns an error); that the right inputs are faults is checked for the arithmetic/indexing faults the property names, the rest is C07/C14's oracle",
			"coop part: see C06 (scheduler shim, virtual time)"},
		QuickBudget: 120e9, ThoroughBudget: 25 * 60e9,
		CrashIsViolation: true,
		ClassifyCrash:    classifyCrash,
		HangSeconds:      60,
		CoopWorkers:      5,
		RaceWorkers:      2,
		Workers:          9,
		Run: func(ctx *bex.Ctx) {
			log.SetOutput(io.Discard)
			// a host with a 64 MB goroutine stack limit: runaway recursion that is not stopped by the
			// library dies quickly instead of filling Go's default 1 GB first
			debug.SetMaxStack(64 << 20)
			if ctx.Race {
				runRace(ctx)
			} else if ctx.Coop {
				runCoop(ctx)
			} else {
				runPlain(ctx)
			}
		},
		Replay: replay,
	})
}
