package main

// Conversion of parser2.AST into the check's own tree, and the rule which token's line every node kind
// records (read off parser2.go):
//
//	Let            name identifier (let and func form)      If          the `else` keyword
//	TryCatch       the `catch` keyword                      Switch      the `default` keyword
//	Operate/Unary  the operator token                       FunctionCall the "("
//	MapAccess      the key identifier                       MethodCall  the method name identifier
//	ListAccess     the closing "]"                          ListLiteral the opening "["
//	MapLiteral     the closing "}"                          Ident/Const the identifier/number/string token
//	ClosureLiteral x->e: the identifier; (a,b)->e: the "->"; func f(..): the name identifier

import (
	"fmt"
	"strings"

	"github.com/hneemann/parser2"
	"github.com/hneemann/parser2/value"
)

type node struct {
	kind  string
	label string
	line  int
	kids  []*node
	// filled by bind(): index of the token whose line the node records; -1 for the multiplication
	// that comfort mode inserts (then lo..hi is the token range in which its line must lie)
	tok    int
	lo, hi int
	// span of token indices of the subtree (own token included)
	min, max int
	// closures only
	names []string
	this  string
	// string constants only
	isStr bool
	sval  string
}

func convert(a parser2.AST) *node {
	n := &node{line: int(a.GetLine()), tok: -2}
	add := func(k ...parser2.AST) {
		for _, c := range k {
			n.kids = append(n.kids, convert(c))
		}
	}
	switch t := a.(type) {
	case *parser2.Let:
		n.kind, n.label = "Let", t.Name
		add(t.Value, t.Inner)
	case *parser2.If:
		n.kind = "If"
		add(t.Cond, t.Then, t.Else)
	case *parser2.TryCatch:
		n.kind = "TryCatch"
		add(t.Try, t.Catch)
	case *parser2.Switch[value.Value]:
		n.kind, n.label = "Switch", fmt.Sprint(len(t.Cases))
		add(t.SwitchValue)
		for _, c := range t.Cases {
			add(c.CaseConst, c.Value)
		}
		add(t.Default)
	case *parser2.Operate:
		n.kind, n.label = "Operate", t.Operator
		add(t.A, t.B)
	case *parser2.Unary:
		n.kind, n.label = "Unary", t.Operator
		add(t.Value)
	case *parser2.MapAccess:
		n.kind, n.label = "MapAccess", t.Key
		add(t.MapValue)
	case *parser2.MethodCall:
		n.kind, n.label = "MethodCall", t.Name
		add(t.Value)
		add(t.Args...)
	case *parser2.ListAccess:
		n.kind = "ListAccess"
		add(t.List, t.Index)
	case *parser2.ClosureLiteral:
		n.kind = "Closure"
		n.label = fmt.Sprintf("%q this=%q rec=%v outer=%q", t.Names, t.ThisName, t.Recursive, t.OuterIdents)
		n.names, n.this = t.Names, t.ThisName
		add(t.Func)
	case *parser2.MapLiteral:
		n.kind = "MapLiteral"
		var keys []string
		t.Map.Iter(func(key string, v parser2.AST) bool {
			keys = append(keys, key)
			add(v)
			return true
		})
		n.label = fmt.Sprintf("%q", keys)
	case *parser2.ListLiteral:
		n.kind = "ListLiteral"
		add(t.List...)
	case *parser2.Ident:
		n.kind, n.label = "Ident", t.Name
	case *parser2.Const[value.Value]:
		n.kind, n.label = "Const", fmt.Sprintf("%T:%#v", t.Value, t.Value)
		if sv, ok := t.Value.(value.String); ok {
			n.isStr, n.sval = true, string(sv)
		}
	case *parser2.FunctionCall:
		n.kind = "FunctionCall"
		add(t.Func)
		add(t.Args...)
	default:
		n.kind, n.label = "?", fmt.Sprintf("%T", a)
	}
	return n
}

// shape renders the tree without lines.
func (n *node) shape(sb *strings.Builder) {
	sb.WriteString(n.kind)
	if n.label != "" {
		sb.WriteByte('<')
		sb.WriteString(n.label)
		sb.WriteByte('>')
	}
	if len(n.kids) > 0 {
		sb.WriteByte('(')
		for i, k := range n.kids {
			if i > 0 {
				sb.WriteByte(',')
			}
			k.shape(sb)
		}
		sb.WriteByte(')')
	}
}

func (n *node) Shape() string {
	var sb strings.Builder
	n.shape(&sb)
	return sb.String()
}

// preorder lists the nodes in a fixed order.
func (n *node) preorder(out []*node) []*node {
	out = append(out, n)
	for _, k := range n.kids {
		out = k.preorder(out)
	}
	return out
}

func unquoteIdent(t token) string {
	if t.kind == kQId {
		return t.text[1 : len(t.text)-1]
	}
	return t.text
}

// recordsToken is the rule of the header comment: may node n record the line of token t?
func recordsToken(n *node, t token) bool {
	isIdent := func(name string) bool {
		return (t.kind == kQId || (t.kind == kWord && !keywords[t.text])) && unquoteIdent(t) == name
	}
	switch n.kind {
	case "Let":
		return isIdent(n.label)
	case "If":
		return t.kind == kWord && t.text == "else"
	case "TryCatch":
		return t.kind == kWord && t.text == "catch"
	case "Switch":
		return t.kind == kWord && t.text == "default"
	case "Operate", "Unary":
		return t.kind == kOp && t.text == n.label
	case "MapAccess", "MethodCall", "Ident":
		return isIdent(n.label)
	case "FunctionCall":
		return t.text == "(" && t.kind == kPunct
	case "ListAccess":
		return t.text == "]" && t.kind == kPunct
	case "ListLiteral":
		return t.text == "[" && t.kind == kPunct
	case "MapLiteral":
		return t.text == "}" && t.kind == kPunct
	case "Closure":
		if n.this != "" { // func f(..)
			return isIdent(n.this)
		}
		if len(n.names) == 1 { // x->e
			return isIdent(n.names[0])
		}
		return t.kind == kOp && t.text == "->"
	case "Const":
		return t.kind == kNum || t.kind == kStr || t.kind == kQId || (t.kind == kWord && !keywords[t.text])
	}
	return false
}

// bind determines for every node of the reference tree the token it records, from the parse of the
// one-token-per-line rendering (lineToks[l] = indices of the tokens on line l), validated against
// recordsToken and against the order of the subtrees. It returns a description of the first
// inconsistency, "" if there is none.
func bind(root *node, toks []token, lineToks map[int][]int, comfort bool) string {
	var problem string
	fail := func(n *node, f string, a ...any) {
		if problem == "" {
			problem = fmt.Sprintf("%s<%s> line %d: ", n.kind, n.label, n.line) + fmt.Sprintf(f, a...)
		}
	}
	var walk func(n *node)
	walk = func(n *node) {
		for _, k := range n.kids {
			walk(k)
		}
		n.tok = -2
		for _, ti := range lineToks[n.line] {
			if recordsToken(n, toks[ti]) {
				if n.tok >= 0 {
					fail(n, "ambiguous token on its line")
				}
				n.tok = ti
			}
		}
		n.min, n.max = 1<<30, -1
		for _, k := range n.kids {
			if k.min < n.min {
				n.min = k.min
			}
			if k.max > n.max {
				n.max = k.max
			}
		}
		if n.tok == -2 {
			if comfort && n.kind == "Operate" && n.label == "*" && len(n.kids) == 2 {
				// inserted multiplication: the property does not say which line it has; it must lie
				// between its operands
				n.tok = -1
				n.lo, n.hi = n.kids[0].max, n.kids[1].min
				if ts := lineToks[n.line]; len(ts) == 0 || ts[0] < n.lo || ts[0] > n.hi {
					fail(n, "line of the inserted multiplication is outside of its operands")
				}
				return
			}
			fail(n, "records line %d, on which there is no token this node kind may record (tokens on that line: %v)", n.line, lineToks[n.line])
			return
		}
		// order of own token and subtrees
		k := n.kids
		before := func(i int) bool { return k[i].max < n.tok }
		after := func(i int) bool { return k[i].min > n.tok }
		ok := true
		switch n.kind {
		case "Let":
			// func f(..) body; inner: Let and its closure record the same token
			ok = (after(0) || (k[0].kind == "Closure" && k[0].this != "" && k[0].tok == n.tok)) && after(1)
		case "If":
			ok = before(0) && before(1) && after(2)
		case "TryCatch":
			ok = before(0) && after(1)
		case "Switch":
			for i := 0; i < len(k)-1; i++ {
				ok = ok && before(i)
			}
			ok = ok && after(len(k)-1)
		case "Operate":
			ok = before(0) && after(1)
		case "Unary":
			ok = after(0)
		case "MapAccess":
			ok = before(0)
		case "MethodCall", "FunctionCall":
			ok = before(0)
			for i := 1; i < len(k); i++ {
				ok = ok && after(i)
			}
		case "ListAccess":
			ok = before(0) && before(1)
		case "ListLiteral", "Closure":
			for i := range k {
				ok = ok && after(i)
			}
		case "MapLiteral":
			for i := range k {
				ok = ok && before(i)
			}
		}
		if !ok {
			fail(n, "token %d (%s) is not where this node's token lies relative to its subtrees", n.tok, toks[n.tok].text)
		}
		if n.tok < n.min {
			n.min = n.tok
		}
		if n.tok > n.max {
			n.max = n.tok
		}
	}
	walk(root)
	return problem
}
