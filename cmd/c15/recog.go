package main

// A recogniser for the token grammar of parser2 as configured by value.New (read off parser2.go). It is
// only used to prune the enumeration of token sequences: a prefix that it rejects before reaching its
// end is not extended. It must accept at least what the real parser accepts (checked in space
// "enumerator-selfcheck" against the unpruned enumeration); what it accepts beyond that is filtered out
// by the real parser, which alone decides validity.

type recog struct {
	t      []token
	pos    int
	hitEOF bool // the first failure was caused by the end of the sequence
	failed bool
}

var eofTok = token{"", kEOF}

func (r *recog) peekN(k int) token {
	if r.pos+k < len(r.t) {
		return r.t[r.pos+k]
	}
	return eofTok
}
func (r *recog) peek() token { return r.peekN(0) }
func (r *recog) next() token {
	t := r.peek()
	if t.kind != kEOF {
		r.pos++
	}
	return t
}

// fail records the first failure; at is the offending token.
func (r *recog) fail(at token) bool {
	if !r.failed {
		r.failed = true
		r.hitEOF = at.kind == kEOF
	}
	return false
}

func isIdentTok(t token) bool     { return t.kind == kQId || (t.kind == kWord && !keywords[t.text]) }
func isKw(t token, s string) bool { return t.kind == kWord && t.text == s }
func isP(t token, s string) bool  { return t.kind == kPunct && t.text == s }
func isOp(t token, s string) bool { return t.kind == kOp && t.text == s }

func (r *recog) expect(ok bool, t token) bool {
	if !ok {
		return r.fail(t)
	}
	return true
}

func (r *recog) let() bool {
	t := r.peek()
	switch {
	case isKw(t, "let"):
		r.next()
		if t = r.next(); !r.expect(isIdentTok(t), t) {
			return false
		}
		if t = r.next(); !r.expect(isOp(t, "="), t) {
			return false
		}
		if !r.expression() {
			return false
		}
		if t = r.next(); !r.expect(isP(t, ";"), t) {
			return false
		}
		return r.let()
	case isKw(t, "func"):
		r.next()
		if t = r.next(); !r.expect(isIdentTok(t), t) {
			return false
		}
		if t = r.next(); !r.expect(isP(t, "("), t) {
			return false
		}
		if !r.identList() || !r.let() {
			return false
		}
		if t = r.next(); !r.expect(isP(t, ";"), t) {
			return false
		}
		return r.let()
	}
	return r.expression()
}

func (r *recog) identList() bool {
	for {
		t := r.next()
		if !r.expect(isIdentTok(t), t) {
			return false
		}
		t = r.next()
		if isP(t, ")") {
			return true
		}
		if !r.expect(isP(t, ","), t) {
			return false
		}
	}
}

func isBinary(t token) bool {
	return t.kind == kOp && t.text != "!" && t.text != "->"
}

func (r *recog) expression() bool {
	if !r.unary() {
		return false
	}
	for isBinary(r.peek()) {
		r.next()
		if !r.unary() {
			return false
		}
	}
	return true
}

func (r *recog) unary() bool {
	t := r.peek()
	if isOp(t, "-") {
		r.next()
		return r.unary()
	}
	if isOp(t, "!") {
		r.next()
	}
	return r.nonOperator()
}

func (r *recog) nonOperator() bool {
	if !r.literal() {
		return false
	}
	for {
		t := r.peek()
		switch {
		case isP(t, "."):
			r.next()
			if t = r.next(); !r.expect(isIdentTok(t), t) {
				return false
			}
			if isP(r.peek(), "(") {
				r.next()
				if !r.args(")") {
					return false
				}
			}
		case isP(t, "("):
			r.next()
			if !r.args(")") {
				return false
			}
		case isP(t, "["):
			r.next()
			if !r.expression() {
				return false
			}
			if t = r.next(); !r.expect(isP(t, "]"), t) {
				return false
			}
		default:
			return true
		}
	}
}

func (r *recog) args(close string) bool {
	if isP(r.peek(), close) {
		r.next()
		return true
	}
	for {
		if !r.let() {
			return false
		}
		t := r.next()
		if isP(t, close) {
			return true
		}
		if !r.expect(isP(t, ","), t) {
			return false
		}
		if isP(r.peek(), close) {
			r.next()
			return true
		}
	}
}

func (r *recog) literal() bool {
	t := r.next()
	switch {
	case isIdentTok(t):
		if isOp(r.peek(), "->") {
			r.next()
			return r.let()
		}
		return true
	case isKw(t, "try"):
		if !r.let() {
			return false
		}
		if t = r.next(); !r.expect(isKw(t, "catch"), t) {
			return false
		}
		return r.let()
	case isKw(t, "if"):
		if !r.expression() {
			return false
		}
		if t = r.next(); !r.expect(isKw(t, "then"), t) {
			return false
		}
		if !r.let() {
			return false
		}
		if t = r.next(); !r.expect(isKw(t, "else"), t) {
			return false
		}
		return r.let()
	case isKw(t, "switch"):
		if !r.expression() {
			return false
		}
		for {
			t = r.next()
			switch {
			case isKw(t, "case"):
				if !r.expression() {
					return false
				}
				if t = r.next(); !r.expect(isP(t, ":"), t) {
					return false
				}
				if !r.let() {
					return false
				}
			case isKw(t, "default"):
				return r.let()
			default:
				return r.fail(t)
			}
		}
	case isP(t, "{"):
		for {
			t = r.next()
			switch {
			case isP(t, "}"):
				return true
			case isIdentTok(t):
				if t = r.next(); !r.expect(isP(t, ":"), t) {
					return false
				}
				if !r.let() {
					return false
				}
				if isP(r.peek(), ",") {
					r.next()
				} else if !isP(r.peek(), "}") {
					return r.fail(r.peek())
				}
			default:
				return r.fail(t)
			}
		}
	case isP(t, "["):
		return r.args("]")
	case t.kind == kNum, t.kind == kStr:
		return true
	case isP(t, "("):
		if isIdentTok(r.peek()) && isP(r.peekN(1), ",") {
			if !r.identList() {
				return false
			}
			if t = r.next(); !r.expect(isOp(t, "->"), t) {
				return false
			}
			return r.let()
		}
		if !r.expression() {
			return false
		}
		t = r.next()
		return r.expect(isP(t, ")"), t)
	}
	return r.fail(t)
}

// insertStars mimics what comfort mode does to the token stream: a "*" between number/identifier/")"
// and number/identifier, and before "(" after number/")" — after an identifier only if there is a
// blank (tightCalls=false).
func insertStars(toks []token, tightCalls bool) []token {
	out := make([]token, 0, len(toks)+4)
	star := token{"*", kOp}
	last := 0 // 1 number, 2 plain identifier, 3 ")"
	for _, t := range toks {
		this := 0
		switch {
		case t.kind == kNum:
			if last != 0 {
				out = append(out, star)
			}
			this = 1
		case t.kind == kWord && !keywords[t.text]:
			if last != 0 {
				out = append(out, star)
			}
			this = 2
		case isP(t, "("):
			if last == 1 || last == 3 || (last == 2 && !tightCalls) {
				out = append(out, star)
			}
		case isP(t, ")"):
			this = 3
		}
		out = append(out, t)
		last = this
	}
	return out
}

// recognise returns (accepted as a complete program, may be the prefix of a program).
func recognise(toks []token, comfort bool) (bool, bool) {
	try := func(t []token) (bool, bool) {
		r := &recog{t: t}
		ok := r.let()
		if ok {
			if r.pos == len(t) {
				return true, true
			}
			return false, false // stopped before the end: the parser expects EOF there
		}
		return false, r.hitEOF
	}
	if !comfort {
		return try(toks)
	}
	a1, v1 := try(insertStars(toks, false))
	a2, v2 := try(insertStars(toks, true))
	return a1 || a2, v1 || v2
}
