package main

// String literals, quoted identifiers, typographic aliases, comfort-mode juxtaposition.

import (
	"fmt"
	"strings"

	"github.com/hneemann/parser2/value"
	"verif/internal/bex"
)

// the symbols strings and quoted identifiers are built from (× and – are typographic aliases of
// operators: inside a literal they are ordinary characters)
var symbols = []string{"a", "\"", "\\", "/", "*", "'", "n", "\n", "\r", "\t", " ", "ä", "€", "×", "–", "\uFFFD", "😀"}

var aliasRunes = map[rune]rune{'•': '*', '×': '*', '÷': '/', '–': '-', 'ˆ': '^'}

func mapAliases(s string) string {
	return strings.Map(func(r rune) rune {
		if a, ok := aliasRunes[r]; ok {
			return a
		}
		return r
	}, s)
}

func containsAlias(s string) bool { return mapAliases(s) != s }

// literals returns every spelling of s as a string literal with the five escapes: TAB may be written
// raw or as \t, everything else has one spelling.
func literals(s string) []string {
	out := []string{"\""}
	for _, r := range s {
		var alt []string
		switch r {
		case '\\':
			alt = []string{`\\`}
		case '"':
			alt = []string{`\"`}
		case '\n':
			alt = []string{`\n`}
		case '\r':
			alt = []string{`\r`}
		case '\t':
			alt = []string{`\t`, "\t"}
		default:
			alt = []string{string(r)}
		}
		var next []string
		for _, o := range out {
			for _, a := range alt {
				next = append(next, o+a)
			}
		}
		out = next
	}
	for i := range out {
		out[i] += "\""
	}
	return out
}

func eachSymbolString(maxLen int, syms []string, fn func(s string, idx int64) bool) {
	var idx int64
	var rec func(prefix string, left int) bool
	for n := 0; n <= maxLen; n++ {
		rec = func(prefix string, left int) bool {
			if left == 0 {
				idx++
				return fn(prefix, idx)
			}
			for _, s := range syms {
				if !rec(prefix+s, left-1) {
					return false
				}
			}
			return true
		}
		if !rec("", n) {
			return
		}
	}
}

// findConsts collects the string constants of a tree in preorder.
func stringConsts(n *node) []string {
	var out []string
	for _, k := range n.preorder(nil) {
		if k.kind == "Const" && k.isStr {
			out = append(out, k.sval)
		}
	}
	return out
}

func evalSrc(c *config, src string) (value.Value, error) {
	f, _, err := c.g.Generate(src, freeIdents[0], freeIdents[1])
	if err != nil {
		return nil, err
	}
	return f.Eval(value.Int(1), value.Int(2))
}

type textCase struct {
	space, cfg, src, want, mode string
}

// checkText runs one text case: mode "string-consts": want = the expected string constants joined by
// \x00; "eval-string": the evaluated value must be the string want; "shape": the AST shape must be want;
// "same-as": src must parse to the same tree with the same lines as the program want.
func checkText(c *config, tc textCase) (what, exp, got string) {
	switch tc.mode {
	case "string-consts":
		o := c.parse(tc.src)
		if o.isErr {
			return "literal rejected", "a constant", o.String()
		}
		g := strings.Join(stringConsts(o.root), "\x00")
		if g != tc.want {
			return "string literal denotes another string", fmt.Sprintf("%q", tc.want), fmt.Sprintf("%q", g)
		}
	case "eval-string", "eval-int":
		v, err := evalSrc(c, tc.src)
		if err != nil {
			return "evaluation failed", tc.want, "error: " + err.Error()
		}
		if tc.mode == "eval-int" {
			if i, ok := v.(value.Int); !ok || fmt.Sprint(int(i)) != tc.want {
				return "wrong value", tc.want, fmt.Sprintf("%T %v", v, v)
			}
			return
		}
		if s, ok := v.(value.String); !ok {
			return "string literal evaluates to another type", fmt.Sprintf("%q", tc.want), fmt.Sprintf("%T", v)
		} else if string(s) != tc.want {
			return "string literal evaluates to another string", fmt.Sprintf("%q", tc.want), fmt.Sprintf("%q", string(s))
		}
	case "shape":
		o := c.parse(tc.src)
		if o.isErr {
			return "program rejected", tc.want, o.String()
		}
		if s := o.root.Shape(); s != tc.want {
			return "wrong AST", tc.want, s
		}
	case "same-as", "same-shape-as":
		o, w := c.parse(tc.src), c.parse(tc.want)
		if w.isErr {
			return "CHECK DEFECT: reference spelling rejected", "valid", w.String()
		}
		if o.isErr {
			return "rejected, but the reference spelling is accepted", w.String(), o.String()
		}
		if o.root.Shape() != w.root.Shape() {
			return "AST differs from the reference spelling", w.root.Shape(), o.root.Shape()
		}
		if tc.mode == "same-as" {
			on, wn := o.root.preorder(nil), w.root.preorder(nil)
			for i := range on {
				if on[i].line != wn[i].line {
					return "line differs from the reference spelling", fmt.Sprintf("%s<%s> line %d", wn[i].kind, wn[i].label, wn[i].line), fmt.Sprint(on[i].line)
				}
			}
		}
	}
	return
}

func (r *runner) text(c *config, tc textCase, nontrivial bool, classify func(what, exp, got string) string) {
	ctx := r.ctx
	tc.cfg = c.name
	ctx.Eval()
	if nontrivial {
		ctx.Nontrivial(tc.space + "\x00" + tc.cfg + "\x00" + tc.mode + "\x00" + tc.src)
	}
	what, exp, got := checkText(c, tc)
	if what == "" {
		ctx.Outcome(tc.space + ": ok")
		return
	}
	ctx.Outcome("violation: " + what)
	finding := ""
	if classify != nil {
		finding = classify(what, exp, got)
	}
	ctx.Violate(what, map[string]any{"space": tc.space, "cfg": tc.cfg, "src": tc.src, "want": tc.want, "mode": tc.mode}, exp, got, finding)
}

func replayText(repro map[string]any) (string, bool) {
	g := func(k string) string { s, _ := repro[k].(string); return s }
	c := configByName(g("cfg"))
	if c == nil {
		return "unknown configuration", true
	}
	what, exp, got := checkText(c, textCase{space: g("space"), src: g("src"), want: g("want"), mode: g("mode")})
	if what == "" {
		return fmt.Sprintf("%q: as expected (%s %q)", g("src"), g("mode"), g("want")), false
	}
	return fmt.Sprintf("%q: %s: expected %s, got %s", g("src"), what, exp, got), true
}

func allConfigs() []*config {
	return []*config{getConfig(false, false), getConfig(false, true), getConfig(true, false), getConfig(true, true)}
}

func runText(ctx *bex.Ctx, r *runner) {
	b := boundsFor(ctx)

	// ---- string literals
	ctx.Space("strings")
	eachSymbolString(b.strLen, symbols, func(s string, idx int64) bool {
		if !ctx.Mine(idx) {
			return true
		}
		if ctx.Expired() {
			return false
		}
		// F15e: an alias character inside the literal is replaced by its ASCII operator
		classify := func(want string) func(what, exp, got string) string {
			return func(what, exp, got string) string {
				if containsAlias(s) && got == fmt.Sprintf("%q", mapAliases(want)) {
					return "F15e-alias-inside-literal"
				}
				return ""
			}
		}
		for _, lit := range literals(s) {
			for _, c := range allConfigs() {
				r.text(c, textCase{space: "strings", src: lit, want: s, mode: "string-consts"}, len(s) > 0, classify(s))
				r.text(c, textCase{space: "strings", src: lit, want: s, mode: "eval-string"}, false, classify(s))
				// between other literals that contain comment openers/closers, tight and spaced
				joined := strings.Join([]string{"/*", s, "*/", "//", s}, "\x00")
				r.text(c, textCase{space: "strings", src: `["/*",` + lit + `,"*/","//",` + lit + "]", want: joined, mode: "string-consts"}, false, classify(joined))
				r.text(c, textCase{space: "strings", src: lit + ` + "|" + ` + lit, want: s + "|" + s, mode: "eval-string"}, false, classify(s+"|"+s))
			}
		}
		return true
	})
	ctx.SpaceDone(fmt.Sprintf("every string of <= %d symbols over %q, every spelling with the escapes \\\\ \\\" \\n \\r \\t (TAB raw or escaped), alone / inside a list between literals containing /* */ // / concatenated; AST constant and evaluated value; 4 configurations", b.strLen, symbols))

	// ---- quoted identifiers
	ctx.Space("quoted-identifiers")
	var qsyms []string
	for _, s := range symbols {
		if s != "'" && s != "\n" && s != "\r" {
			qsyms = append(qsyms, s)
		}
	}
	eachSymbolString(b.strLen, qsyms, func(s string, idx int64) bool {
		if len(s) == 0 || !ctx.Mine(idx) {
			return true
		}
		if ctx.Expired() {
			return false
		}
		q := "'" + s + "'"
		// F15e: the tree is the expected one with the alias characters of the name replaced
		classify := func(what, exp, got string) string {
			if containsAlias(s) && got == mapAliases(exp) {
				return "F15e-alias-inside-literal"
			}
			return ""
		}
		for _, c := range allConfigs() {
			r.text(c, textCase{space: "quoted-identifiers", src: "let " + q + " = a ; " + q, mode: "shape",
				want: fmt.Sprintf("Let<%s>(Ident<a>,Ident<%s>)", s, s)}, true, classify)
			r.text(c, textCase{space: "quoted-identifiers", src: "let " + q + "=7;" + q, mode: "eval-int", want: "7"}, false, nil)
			r.text(c, textCase{space: "quoted-identifiers", src: "{" + q + ":a}." + q, mode: "shape",
				want: fmt.Sprintf("MapAccess<%s>(MapLiteral<%q>(Ident<a>))", s, []string{s})}, false, classify)
			r.text(c, textCase{space: "quoted-identifiers", src: "{ " + q + " : 7 } . " + q, mode: "eval-int", want: "7"}, false, nil)
			r.text(c, textCase{space: "quoted-identifiers", src: q + "->" + q, mode: "shape",
				want: fmt.Sprintf("Closure<%q this=\"\" rec=false outer=[]>(Ident<%s>)", []string{s}, s)}, false, classify)
		}
		return true
	})
	ctx.SpaceDone(fmt.Sprintf("every quoted identifier of 1..%d symbols over the same alphabet without ' CR LF, as let name, map key + member access, closure parameter; AST names and evaluated value; 4 configurations", b.strLen))

	// ---- typographic aliases and superscripts
	ctx.Space("aliases")
	var idx int64
	binTemplates := []string{"a@b", "a @ b", "2@3", "( a )@( b )", "a@b@2", "[ a@b , 1 ]", "a\n@\nb", "a@\n\nb . k", "a . k@1", "\"s\"@'q/*'", "a@-b", "-a@b"}
	unTemplates := []string{"@a", "a * @b", "a@@b", "( @1 )", "@\n( a )"}
	for alias, ascii := range map[string]string{"•": "*", "×": "*", "÷": "/", "–": "-", "ˆ": "^"} {
		tpl := binTemplates
		if ascii == "-" {
			tpl = append(append([]string{}, binTemplates...), unTemplates...)
		}
		for _, t := range tpl {
			for _, c := range allConfigs() {
				idx++
				if !ctx.Mine(idx) {
					continue
				}
				r.text(c, textCase{space: "aliases", src: strings.ReplaceAll(t, "@", alias), want: strings.ReplaceAll(t, "@", ascii), mode: "same-as"}, true, nil)
			}
		}
	}
	// an alias with comments tight against it (comments enabled): the alias is an operator token like its
	// ASCII spelling, and the comment is layout; the reference spelling has a blank or the comment's line
	// break in the comment's place (the ASCII spelling of ÷ followed by a comment would itself be a comment)
	cmtTemplates := []string{"a@#b", "a#@b", "a#@#b", "2@#3", "( a )#@#( b )", "a . k@#1", "[ a@#b , 1 ]", "a@#- b"}
	cmtUnTemplates := []string{"@#a", "a * @#b", "#@a"}
	comments := []struct{ text, layout string }{{"/*c*/", " "}, {"//c\n", "\n"}, {"/*\n*/", "\n"}, {"/**/", " "}, {"/*/*/", " "}, {"//\n", "\n"}}
	for _, al := range [][2]string{{"•", "*"}, {"×", "*"}, {"÷", "/"}, {"–", "-"}, {"ˆ", "^"}} {
		tpl := cmtTemplates
		if al[1] == "-" {
			tpl = append(append([]string{}, cmtTemplates...), cmtUnTemplates...)
		}
		for _, t := range tpl {
			for _, cm := range comments {
				for _, c := range []*config{getConfig(false, true), getConfig(true, true)} {
					idx++
					if !ctx.Mine(idx) {
						continue
					}
					src := strings.ReplaceAll(strings.ReplaceAll(t, "@", al[0]), "#", cm.text)
					want := strings.ReplaceAll(strings.ReplaceAll(t, "@", al[1]), "#", cm.layout)
					r.text(c, textCase{space: "aliases", src: src, want: want, mode: "same-as"}, true, nil)
				}
			}
		}
	}
	supTemplates := []string{"a@", "2@", "( a )@", "a@+b", "a . k@", "a@ * 2", "- a@", "a\n@", "a [ 0 ]@", "a( )@", "[ a@ , b@ ]", "'q/*'@"}
	for d, sup := range []string{"⁰", "¹", "²", "³", "⁴", "⁵", "⁶", "⁷", "⁸", "⁹"} {
		for _, t := range supTemplates {
			for _, c := range allConfigs() {
				idx++
				if !ctx.Mine(idx) {
					continue
				}
				r.text(c, textCase{space: "aliases", src: strings.ReplaceAll(t, "@", sup), want: strings.ReplaceAll(t, "@", fmt.Sprintf("^%d", d)), mode: "same-as"}, true, nil)
			}
		}
	}
	ctx.SpaceDone(fmt.Sprintf("5 operator aliases x %d binary (+ %d unary for –) templates and 10 superscript digits x %d templates, each against its ASCII spelling (same tree, same lines); 4 configurations; with comments enabled also %d (+ %d) templates x 6 comments written tight before and/or behind the alias", len(binTemplates), len(unTemplates), len(supTemplates), len(cmtTemplates), len(cmtUnTemplates)))

	// ---- comfort mode juxtaposition
	ctx.Space("juxtaposition")
	type operand struct{ text, first, last string }
	ops := []operand{{"2", "number", "number"}, {"a", "ident", "ident"}, {"( b )", "(", ")"}, {"3.5", "number", "number"}, {"b", "ident", "ident"}, {"( 2 + a )", "(", ")"}}
	contexts := []string{"@", "1 + @ ^ 2", "- @", "[ @ , @ ]", "let x = @ ; x"}
	idx = 0
	for _, comments := range []bool{false, true} {
		c := getConfig(true, comments)
		// comment-free separators, and comments set off by blanks; comments written tight against the
		// operands are the subject of the layout spaces (which run in comfort mode too)
		seps := append(append([]string{}, sepsPlain...), sepsExtPlain...)
		if comments {
			seps = append(seps, " /*c*/ ", " //c\n", " /*\n\n*/ ")
		}
		for n := 2; n <= 3; n++ {
			sel := make([]int, n)
			for {
				// operands sel[0..n-1]; every assignment of separators to the n-1 gaps
				gsel := make([]int, n-1)
				for {
					idx++
					if ctx.Mine(idx) && !ctx.Expired() {
						var jx, ex strings.Builder
						ok := true
						for i := 0; i < n; i++ {
							o := ops[sel[i]]
							if i > 0 {
								prev := ops[sel[i-1]]
								s := seps[gsel[i-1]]
								at, _ := refLex(prev.text, false)
								bt, _ := refLex(o.text, false)
								a, b := at[len(at)-1], bt[0]
								if !admissible(a, s, b, comments) {
									ok = false
									break
								}
								if prev.last == "ident" && o.first == "(" && !hasBlank(s) {
									// the documented exception: no blank between identifier and "(" is a call
									ex.WriteString("")
								} else {
									ex.WriteString(" * ")
								}
								jx.WriteString(s)
							}
							jx.WriteString(o.text)
							ex.WriteString(o.text)
						}
						if ok {
							for _, cx := range contexts {
								src, want := strings.ReplaceAll(cx, "@", jx.String()), strings.ReplaceAll(cx, "@", ex.String())
								r.text(c, textCase{space: "juxtaposition", src: src, want: want, mode: "same-shape-as"}, true, nil)
							}
						}
					}
					g := 0
					for ; g < n-1; g++ {
						gsel[g]++
						if gsel[g] < len(seps) {
							break
						}
						gsel[g] = 0
					}
					if g == n-1 {
						break
					}
				}
				g := 0
				for ; g < n; g++ {
					sel[g]++
					if sel[g] < len(ops) {
						break
					}
					sel[g] = 0
				}
				if g == n {
					break
				}
			}
		}
	}
	// quoted identifiers are identifiers, but the tokenizer applies the juxtaposition rules to plain ones
	// only: observed, not judged
	for _, src := range []string{"2 'q/*'", "'q/*' 2", "a 'q/*'", "'q/*' (a)", "( a ) 'q/*'"} {
		for _, comments := range []bool{false, true} {
			if ctx.Shard != 0 {
				continue
			}
			ctx.Unspecified("comfort mode: juxtaposition next to a QUOTED identifier (the property says identifier; the tokenizer treats only plain identifiers that way)")
			if o := getConfig(true, comments).parse(src); o.isErr {
				ctx.Outcome("juxtaposition with quoted identifier: syntax error (observed only)")
			} else {
				ctx.Outcome("juxtaposition with quoted identifier: " + o.root.kind + " (observed only)")
			}
		}
	}
	ctx.SpaceDone(fmt.Sprintf("comfort mode: every sequence of 2..3 operands from %d (numbers, identifiers, parenthesised) = all 9 patterns {number, identifier, ')'} x {number, identifier, '('}, x every admissible comment-free separator (with comments on also blank-set-off comments) in every gap, in %d contexts, against the spelling with explicit '*' (identifier directly before '(' without blank: a call)", len(ops), len(contexts)))
}
