package main

// The check's own lexical model of the value language: token kinds, a reference lexer (comments are
// separators, exactly like blanks; maximal munch for words, numbers and operators) and the separator
// sets of the layout spaces. Nothing here calls /repo.

import (
	"strings"
	"unicode"
	"unicode/utf8"
)

type kind int

const (
	kWord  kind = iota // identifier or keyword: letters, digits, '_'
	kNum               // number
	kStr               // "…"
	kQId               // '…'
	kPunct             // ( ) [ ] { } . , : ;
	kOp                // operator of the value language, "=" and "->"
	kBad               // a character that is no token of the language (used in the error space)
	kEOF               // pseudo token after the last token
)

func (k kind) String() string {
	return [...]string{"word", "number", "string", "quoted-ident", "punct", "operator", "invalid-char", "end-of-input"}[k]
}

type token struct {
	text string
	kind kind
}

// the operators of value.New plus the two the parser adds itself
var valueOps = []string{"|", "&", "=", "!=", "~", "<", ">", "<=", ">=", "+", "-", "<<", ">>", "*", "%", "/", "^", "!", "->"}

var keywords = map[string]bool{"let": true, "func": true, "if": true, "then": true, "else": true, "switch": true, "case": true,
	"default": true, "const": true, "try": true, "catch": true}

func isWordStart(r rune) bool { return unicode.IsLetter(r) || r == '_' }
func isWordPart(r rune) bool  { return unicode.IsLetter(r) || unicode.IsDigit(r) || r == '_' }

// refLex splits s into tokens. ok is false if s contains something that is no token.
func refLex(s string, comments bool) (toks []token, ok bool) {
	i := 0
	for i < len(s) {
		c := s[i]
		switch {
		case c == ' ' || c == '\t' || c == '\r' || c == '\n':
			i++
		case comments && strings.HasPrefix(s[i:], "//"):
			for i < len(s) && s[i] != '\n' && s[i] != '\r' {
				i++
			}
		case comments && strings.HasPrefix(s[i:], "/*"):
			e := strings.Index(s[i+2:], "*/")
			if e < 0 {
				i = len(s)
			} else {
				i += 2 + e + 2
			}
		case c == '"':
			j := i + 1
			for j < len(s) && s[j] != '"' {
				if s[j] == '\\' {
					j++
				}
				if j < len(s) && (s[j] == '\n' || s[j] == '\r') {
					return toks, false
				}
				j++
			}
			if j >= len(s) {
				return toks, false
			}
			toks = append(toks, token{s[i : j+1], kStr})
			i = j + 1
		case c == '\'':
			e := strings.IndexByte(s[i+1:], '\'')
			if e < 0 {
				return toks, false
			}
			toks = append(toks, token{s[i : i+e+2], kQId})
			i += e + 2
		case strings.IndexByte("()[]{}.,:;", c) >= 0:
			toks = append(toks, token{s[i : i+1], kPunct})
			i++
		case c >= '0' && c <= '9':
			j := i
			for j < len(s) {
				d := s[j]
				if (d >= '0' && d <= '9') || d == '.' || d == 'e' || ((d == '+' || d == '-') && s[j-1] == 'e') {
					j++
				} else {
					break
				}
			}
			toks = append(toks, token{s[i:j], kNum})
			i = j
		default:
			r, n := utf8.DecodeRuneInString(s[i:])
			if isWordStart(r) {
				j := i + n
				for j < len(s) {
					r2, n2 := utf8.DecodeRuneInString(s[j:])
					if !isWordPart(r2) {
						break
					}
					j += n2
				}
				toks = append(toks, token{s[i:j], kWord})
				i = j
				continue
			}
			// longest operator
			best := ""
			for _, op := range valueOps {
				if len(op) > len(best) && strings.HasPrefix(s[i:], op) {
					best = op
				}
			}
			if best == "" {
				toks = append(toks, token{s[i : i+n], kBad})
				i += n
				ok = false
				continue
			}
			toks = append(toks, token{best, kOp})
			i += len(best)
		}
	}
	for _, t := range toks {
		if t.kind == kBad {
			return toks, false
		}
	}
	return toks, true
}

// lexesAs reports that s is read by the reference lexer as exactly the given tokens (kBad tokens are
// compared as single characters).
func lexesAs(s string, comments bool, want ...token) bool {
	got, _ := refLex(s, comments)
	if len(got) != len(want) {
		return false
	}
	for i := range got {
		if got[i].text != want[i].text {
			return false
		}
	}
	return true
}

// mustLex tokenises a canonical (blank separated) program text of the fixed program list.
func mustLex(s string) []token {
	t, ok := refLex(s, false)
	if !ok {
		panic("fixed program does not lex: " + s)
	}
	return t
}

// ---------------------------------------------------------------------------------------------
// separators

// sepsPlain are the separators that exist with comments disabled, sepsCore adds the comment
// separators named by the property, sepsExt further ones used where the number of combinations allows.
var sepsPlain = []string{"", " ", "\t", "\r", "\n"}
var sepsCore = []string{"", " ", "\t", "\r", "\n", "/*c*/", " /*c*/ ", "//c\n", " //c\n", "/*\n\n*/", "/*\"*/", "/* * / */", "//\"\n"}
var sepsExtPlain = []string{"\r\n", "  ", " \n\t"}
var sepsExtComment = []string{"//c\r\n", "/**/", "/***/", "//\n", "/*'*/", "/*c*/\n", "\n/*c*/", "/*a*/ /*b*/", "//a\n//b\n", "/*a*//*b*/", "/*a*///b\n", " /*\n*/ //c\n\t"}

// separators after the last token and before the first one
var trailPlain = []string{"", " ", "\n", "\r\n", " \n\n"}
var trailComment = []string{"//c", "//c\n", " //c", " //c\n", "/*c*/", "/*c*/\n", " /*c*/ ", "/*\n\n*/", " /*\n\n*/\n", "//\"", "/*\"*/", "/*a*//*b*/", "/*c*/ //c"}
var leadPlain = []string{"", " ", "\n", "\n\n \t"}
var leadComment = []string{"/*c*/", "//c\n", "/*\n\n*/", " /*\n*/ ", "//\"\n"}

// commentSpans returns the [start,end) byte ranges of the comments in a separator.
func commentSpans(sep string) [][2]int {
	var out [][2]int
	i := 0
	for i < len(sep) {
		switch {
		case strings.HasPrefix(sep[i:], "//"):
			j := i
			for j < len(sep) && sep[j] != '\n' && sep[j] != '\r' {
				j++
			}
			out = append(out, [2]int{i, j})
			i = j
		case strings.HasPrefix(sep[i:], "/*"):
			e := strings.Index(sep[i+2:], "*/")
			j := len(sep)
			if e >= 0 {
				j = i + 2 + e + 2
			}
			out = append(out, [2]int{i, j})
			i = j
		default:
			i++
		}
	}
	return out
}

func hasComment(sep string) bool { return strings.Contains(sep, "//") || strings.Contains(sep, "/*") }

// hasBlank reports a blank, tab, CR or LF outside of comments (the line break that ends a // comment is
// outside of it).
func hasBlank(sep string) bool {
	spans := commentSpans(sep)
	for i := 0; i < len(sep); i++ {
		in := false
		for _, s := range spans {
			if i >= s[0] && i < s[1] {
				in = true
			}
		}
		if !in && (sep[i] == ' ' || sep[i] == '\t' || sep[i] == '\r' || sep[i] == '\n') {
			return true
		}
	}
	return false
}

// admissible decides with the reference lexer whether sep may stand between a and b: the text
// a+sep+b must still be the two tokens a and b (b.kind == kEOF: the single token a).
func admissible(a token, sep string, b token, comments bool) bool {
	if !comments && hasComment(sep) {
		return false
	}
	if b.kind == kEOF {
		return lexesAs(a.text+sep, comments, a)
	}
	if a.kind == kEOF {
		return lexesAs(sep+b.text, comments, b)
	}
	return lexesAs(a.text+sep+b.text, comments, a, b)
}
