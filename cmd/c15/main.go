// C15: token layout, comments and literal escapes do not change meaning.
//
// Bounded-exhaustive: every valid program up to a token bound over a token alphabet of the value
// language (validity decided by the parser on the canonical single-blank rendering, candidates
// enumerated through a recogniser of the token grammar that is itself checked against the unpruned
// enumeration), plus a
// fixed list of longer programs, times separator assignments to the gaps between tokens, times
// comments on/off and comfort mode on/off. Oracle: same AST as the canonical rendering; every node's
// line (and every syntax error's line) is the line on which the token it records starts, computed by
// the renderer. Further spaces: string literals, quoted identifiers, typographic aliases, comfort-mode
// juxtaposition. See the Rule text in main().
package main

import (
	"fmt"
	"hash/fnv"
	"runtime"
	"strings"

	"github.com/hneemann/parser2"
	"github.com/hneemann/parser2/value"
	"verif/internal/bex"
)

// ---------------------------------------------------------------------------------------------
// configurations of the real parser

type config struct {
	name              string
	comfort, comments bool
	g                 *value.FunctionGenerator
	p                 *parser2.Parser[value.Value]
	ids               parser2.Identifiers[value.Value]
}

// identifiers every program may use freely
var freeIdents = []string{"a", "b", "q/*"}

func newConfig(comfort, comments bool) *config {
	g := value.New()
	g.SetOptimizer(nil) // the property is about tokenizer and parser; folding would hide nodes
	if comfort {
		g.SetComfort(true)
	}
	p := g.GetParser()
	if comments {
		p.AllowComments()
	}
	ids := g.Identifier()
	for _, n := range freeIdents {
		ids = ids.Add(n)
	}
	return &config{name: fmt.Sprintf("comfort=%v,comments=%v", comfort, comments), comfort: comfort, comments: comments, g: g, p: p, ids: ids}
}

var cfgCache = map[string]*config{}

func getConfig(comfort, comments bool) *config {
	k := fmt.Sprintf("comfort=%v,comments=%v", comfort, comments)
	if c, ok := cfgCache[k]; ok {
		return c
	}
	c := newConfig(comfort, comments)
	cfgCache[k] = c
	return c
}

func configByName(name string) *config {
	for _, cf := range []bool{false, true} {
		for _, cm := range []bool{false, true} {
			if c := getConfig(cf, cm); c.name == name {
				return c
			}
		}
	}
	return nil
}

type outcome struct {
	root  *node
	isErr bool
	msg   string // error message without line
	line  int    // error line, <= 0: none
}

func (o outcome) String() string {
	if o.isErr {
		return fmt.Sprintf("error %q line %d", o.msg, o.line)
	}
	return o.root.Shape()
}

var nFailingParses int64

func (c *config) parse(src string) outcome {
	ast, err := c.p.Parse(src, c.ids)
	if err != nil {
		nFailingParses++
		msg, line, ok := parser2.VerifC15ErrLine(err)
		if !ok {
			msg, line = err.Error(), 0
		}
		return outcome{isErr: true, msg: msg, line: line}
	}
	return outcome{root: convert(ast)}
}

// ---------------------------------------------------------------------------------------------
// programs, renderings, references

// callGaps lists the gaps i (between token i and i+1) where comfort mode gives a blank a meaning:
// a plain identifier followed by "(".
func callGaps(toks []token, comfort bool) []int {
	if !comfort {
		return nil
	}
	var g []int
	for i := 0; i+1 < len(toks); i++ {
		if toks[i].kind == kWord && !keywords[toks[i].text] && toks[i+1].text == "(" && toks[i+1].kind == kPunct {
			g = append(g, i)
		}
	}
	return g
}

// render concatenates the tokens with the separators (seps[i] between token i and i+1) and returns
// the text and, for every token, 1 + the number of LF before its first byte.
func render(toks []token, lead string, seps []string, trail string) (string, []int) {
	var sb strings.Builder
	lines := make([]int, len(toks))
	line := 1
	put := func(s string) {
		sb.WriteString(s)
		line += strings.Count(s, "\n")
	}
	put(lead)
	for i, t := range toks {
		lines[i] = line
		put(t.text)
		if i+1 < len(toks) {
			put(seps[i])
		}
	}
	put(trail)
	return sb.String(), lines
}

// maskOf is the set of call gaps that are written without a blank.
func maskOf(cg []int, seps []string) uint32 {
	var m uint32
	for bit, g := range cg {
		if !hasBlank(seps[g]) {
			m |= 1 << bit
		}
	}
	return m
}

func baseSeps(n int, cg []int, mask uint32, blank string) []string {
	s := make([]string, n-1)
	for i := range s {
		s[i] = blank
	}
	for bit, g := range cg {
		if mask&(1<<bit) != 0 {
			s[g] = ""
		}
	}
	return s
}

type reference struct {
	valid   bool // the class is a program of the expected sort (valid program / erroneous program)
	isErr   bool
	shape   string
	nodes   []*node // preorder, bound to tokens
	msg     string
	errToks []int  // tokens on the line the error reports in the one-token-per-line rendering; nil: no line
	problem string // the two reference renderings are inconsistent (reported as a violation)
	canon   string
	// the tree contains a multiplication inserted by comfort mode
	weakLines bool
}

// buildRef parses the canonical rendering (single blanks, no blank at the call gaps of mask) and the
// one-token-per-line rendering and binds nodes to tokens.
func buildRef(c *config, toks []token, cg []int, mask uint32) *reference {
	canon, _ := render(toks, "", baseSeps(len(toks), cg, mask, " "), "")
	r := &reference{canon: canon}
	oc := c.parse(canon)
	perLine, lines := render(toks, "", baseSeps(len(toks), cg, mask, "\n"), "")
	lineToks := map[int][]int{}
	for i, l := range lines {
		lineToks[l] = append(lineToks[l], i)
	}
	r.valid = true
	if oc.isErr {
		r.isErr, r.msg = true, oc.msg
		op := c.parse(perLine)
		if !op.isErr || op.msg != oc.msg {
			r.problem = fmt.Sprintf("canonical rendering %q gives %v, one token per line %q gives %v", canon, oc, perLine, op)
			return r
		}
		if op.line > 0 {
			r.errToks = lineToks[op.line]
			if len(r.errToks) == 0 {
				r.problem = fmt.Sprintf("error line %d of %q is beyond the last token", op.line, perLine)
			}
		}
		if oc.line > 0 != (op.line > 0) || (oc.line > 0 && oc.line != 1) {
			r.problem = fmt.Sprintf("canonical rendering %q reports line %d, one token per line %q reports line %d", canon, oc.line, perLine, op.line)
		}
		return r
	}
	r.shape = oc.root.Shape()
	op := c.parse(perLine)
	if op.isErr || op.root.Shape() != r.shape {
		r.problem = fmt.Sprintf("canonical rendering %q gives %v, one token per line %q gives %v", canon, oc, perLine, op)
		return r
	}
	for _, n := range oc.root.preorder(nil) {
		if n.line != 1 {
			r.problem = fmt.Sprintf("canonical one-line rendering %q: node %s<%s> reports line %d", canon, n.kind, n.label, n.line)
			return r
		}
	}
	if p := bind(op.root, toks, lineToks, c.comfort); p != "" {
		r.problem = fmt.Sprintf("one token per line %q: %s", perLine, p)
		return r
	}
	r.nodes = op.root.preorder(nil)
	for _, n := range r.nodes {
		if n.tok == -1 {
			r.weakLines = true
		}
	}
	return r
}

// checkVariant compares the parse of text with the reference. It returns "" if the property holds,
// else (what, expected, got).
func checkVariant(c *config, ref *reference, text string, lines []int) (what, expected, got string) {
	o := c.parse(text)
	if ref.isErr {
		if !o.isErr {
			return "erroneous program accepted under another layout", "error " + ref.msg, o.String()
		}
		if o.msg != ref.msg {
			return "different syntax error under another layout", fmt.Sprintf("%q", ref.msg), fmt.Sprintf("%q", o.msg)
		}
		if ref.errToks == nil {
			if o.line > 0 {
				return "syntax error line", "no line (error at end of input)", fmt.Sprint(o.line)
			}
			return
		}
		var want []string
		for _, t := range ref.errToks {
			if lines[t] == o.line {
				return
			}
			want = append(want, fmt.Sprint(lines[t]))
		}
		return "syntax error reports the wrong line", "line " + strings.Join(want, " or ") + fmt.Sprintf(" (token %d starts there)", ref.errToks[0]), fmt.Sprintf("line %d (%s)", o.line, o.msg)
	}
	if o.isErr {
		return "valid program rejected under another layout", ref.shape, o.String()
	}
	if s := o.root.Shape(); s != ref.shape {
		return "AST differs from the canonical rendering", ref.shape, s
	}
	for i, n := range o.root.preorder(nil) {
		rn := ref.nodes[i]
		if rn.tok >= 0 {
			if n.line != lines[rn.tok] {
				return "AST node reports the wrong line", fmt.Sprintf("%s<%s> line %d (its token %d starts there)", n.kind, n.label, lines[rn.tok], rn.tok),
					fmt.Sprintf("line %d", n.line)
			}
		} else if n.line < lines[rn.lo] || n.line > lines[rn.hi] {
			return "inserted multiplication reports a line outside of its operands", fmt.Sprintf("line %d..%d", lines[rn.lo], lines[rn.hi]), fmt.Sprintf("line %d", n.line)
		}
	}
	return
}

// ---------------------------------------------------------------------------------------------
// classification of violations on the unchanged tree (genuine defects, see /verif/known_findings.json)

func firstCommentIsBlockWithLF(sep string) bool {
	sp := commentSpans(sep)
	return len(sp) > 0 && sp[0][0] == 0 && strings.HasPrefix(sep, "/*") && strings.Contains(sep[:sp[0][1]], "\n")
}

// continuesToken: would r extend a token of a's kind if it followed it directly?
func continuesToken(a token, r byte) bool {
	switch a.kind {
	case kWord:
		return r == '_' || (r >= '0' && r <= '9') || (r >= 'a' && r <= 'z') || (r >= 'A' && r <= 'Z') || r >= 0x80
	case kNum:
		return (r >= '0' && r <= '9') || r == '.' || r == 'e' || (strings.HasSuffix(a.text, "e") && (r == '+' || r == '-'))
	}
	return false
}

// atomShapes lists the known defects whose input shape the single changed gap "a sep b" has:
//
//	F15a  an operator token followed tightly by a comment
//	F15b  an identifier/keyword/number followed tightly by a block comment that is followed tightly by
//	      a character that would continue that token
//	F15c  an identifier/keyword/number followed tightly by a block comment containing a line break
//	F15d  a block comment followed tightly by another comment
func atomShapes(a token, sep string, b token) (shapes []string) {
	sp := commentSpans(sep)
	if len(sp) == 0 {
		return nil
	}
	tight := sp[0][0] == 0 && a.kind != kEOF
	if tight && a.kind == kOp {
		shapes = append(shapes, "F15a-comment-after-operator")
	}
	if tight && (a.kind == kWord || a.kind == kNum) && strings.HasPrefix(sep, "/*") {
		rest := sep[sp[0][1]:] + b.text
		if b.kind != kEOF && len(rest) > 0 && continuesToken(a, rest[0]) {
			shapes = append(shapes, "F15b-comment-inside-token")
		}
	}
	if tight && (a.kind == kWord || a.kind == kNum) && firstCommentIsBlockWithLF(sep) {
		shapes = append(shapes, "F15c-line-of-token-before-multiline-comment")
	}
	for i := 0; i+1 < len(sp); i++ {
		if sp[i][1] == sp[i+1][0] && strings.HasPrefix(sep[sp[i][0]:], "/*") {
			shapes = append(shapes, "F15d-adjacent-comments")
			break
		}
	}
	return
}

func has(l []string, prefix string) bool {
	for _, s := range l {
		if strings.HasPrefix(s, prefix) {
			return true
		}
	}
	return false
}

// neutralise rewrites sep so that it no longer has the listed shapes, changing as little as possible
// (and never whether the separator contains a blank, which has a meaning in comfort mode): a comment
// that directly follows a block comment is deleted (F15d); line breaks inside the leading block
// comment become blanks (F15c); a blank is inserted between token and comment (F15a, F15b). The
// classifier accepts a case only if the rewritten case satisfies the property.
func neutralise(sep string, shapes []string) string {
	if has(shapes, "F15d") {
		sp := commentSpans(sep)
		for i := len(sp) - 2; i >= 0; i-- {
			if sp[i][1] == sp[i+1][0] && strings.HasPrefix(sep[sp[i][0]:], "/*") {
				sep = sep[:sp[i+1][0]] + sep[sp[i+1][1]:]
			}
		}
	}
	if has(shapes, "F15a") || has(shapes, "F15b") {
		return " " + sep
	}
	if has(shapes, "F15c") {
		sp := commentSpans(sep)
		sep = strings.ReplaceAll(sep[:sp[0][1]], "\n", " ") + sep[sp[0][1]:]
	}
	return sep
}

// classify picks the finding id for a violating atom: the first shape whose symptom fits.
func classify(shapes []string, what string) string {
	for _, s := range shapes {
		if strings.HasPrefix(s, "F15c") && !strings.Contains(what, "line") {
			continue
		}
		return s
	}
	return ""
}

// ---------------------------------------------------------------------------------------------
// one program under one configuration

type runner struct {
	ctx    *bex.Ctx
	capped bool
	n      int64
}

// On trees without the fix of finding F12a every parse that ends with an error strands the tokenizer
// goroutine of that parse (about 4 KiB each; subject of property C12, not of this check). The spaces
// are sized so that a run stays far below this number of stranded goroutines per worker; if a changed
// tree makes (nearly) every parse fail, the worker stops enumerating instead of exhausting the
// machine's memory and the run reports exhaustive:false.
const strandedGoroutineCap = 700_000

// stop reports that enumeration must end at this case boundary.
func (r *runner) stop() bool {
	if r.ctx.Expired() {
		return true
	}
	if r.capped || (nFailingParses > strandedGoroutineCap && runtime.NumGoroutine() > strandedGoroutineCap) {
		r.capped = true
		return true
	}
	return false
}

// done closes the accounting of a space.
func (r *runner) done(space, bound string) {
	r.ctx.Space(space)
	if r.capped {
		return // stays completed:false
	}
	r.ctx.SpaceDone(bound)
}

type progRun struct {
	r      *runner
	c      *config
	toks   []token
	cg     []int
	refs   map[uint32]*reference
	isErr  bool // erroneous program (error space)
	broken bool // a reference could not be established (reported as a violation)
	space  string
	// failed[g][sep]: the single-gap variant violates (g = len(toks)-1: trailing, len(toks): leading)
	failed map[int]map[string]bool
	// override: separators to try at every gap instead of the sets of the mode (space comment-contents)
	override []string
}

func tokTexts(toks []token) []string {
	s := make([]string, len(toks))
	for i, t := range toks {
		s[i] = t.text
	}
	return s
}

func (p *progRun) repro(lead string, seps []string, trail string, text string) map[string]any {
	return map[string]any{"space": p.space, "cfg": p.c.name, "tokens": tokTexts(p.toks), "lead": lead, "seps": append([]string{}, seps...), "trail": trail, "src": text, "erroneous": p.isErr}
}

func (p *progRun) ref(mask uint32) *reference {
	if r, ok := p.refs[mask]; ok {
		return r
	}
	r := buildRef(p.c, p.toks, p.cg, mask)
	p.r.ctx.EvalN(2)
	if r.isErr != p.isErr {
		r.valid = false
	}
	if r.valid && r.problem != "" {
		seps := baseSeps(len(p.toks), p.cg, mask, "\n")
		text, _ := render(p.toks, "", seps, "")
		p.r.ctx.Violate("reference renderings disagree or a node records a line that is not the line of its token", p.repro("", seps, "", text),
			"blank-separated and one-token-per-line renderings parse alike and every node records the line of its own token", r.problem, "")
		r.valid = false
		p.broken = true
	}
	p.refs[mask] = r
	return r
}

// run executes one variant; it returns (executed, what, expected, got).
func (p *progRun) run(lead string, seps []string, trail string) (bool, string, string, string, string) {
	ref := p.ref(maskOf(p.cg, seps))
	if !ref.valid {
		return false, "", "", "", ""
	}
	text, lines := render(p.toks, lead, seps, trail)
	ctx := p.r.ctx
	ctx.Eval()
	what, exp, got := checkVariant(p.c, ref, text, lines)
	nontrivial := strings.ContainsAny(lead, "\n/") || strings.ContainsAny(trail, "\n/")
	for _, s := range seps {
		nontrivial = nontrivial || strings.ContainsAny(s, "\n/")
	}
	for _, g := range p.cg {
		if hasComment(seps[g]) && !hasBlank(seps[g]) {
			ctx.Unspecified("comfort mode: a comment without any blank between identifier and '(' is taken as 'no blank' (a call); the property only speaks of a blank")
		}
	}
	if ref.weakLines {
		ctx.Unspecified("line of a multiplication inserted by comfort mode: only required to lie between the lines of its operands")
	}
	if p.isErr && ref.errToks == nil {
		ctx.Unspecified("syntax error at end of input carries no line: only the message is compared")
	}
	if nontrivial {
		h := fnv.New64a()
		h.Write([]byte(p.c.name))
		h.Write([]byte{0})
		h.Write([]byte(text))
		ctx.NontrivialH(h.Sum64())
	}
	if what == "" {
		if p.isErr {
			ctx.Outcome("same syntax error, right line")
		} else {
			ctx.Outcome("same AST, right lines: " + ref.nodes[0].kind)
		}
		p.r.n++
		if ctx.WantSample() && p.r.n%4099 < 64 && len(p.toks) >= 4 {
			if layout := lead + strings.Join(seps, "") + trail; hasComment(layout) && strings.Contains(layout, "\n") {
				ctx.Sample(map[string]any{"space": p.space, "cfg": p.c.name, "src": text, "canonical": ref.canon, "token_lines": lines})
			}
		}
	}
	return true, what, exp, got, text
}

// gapTokens returns the tokens left and right of gap g (kEOF pseudo tokens at the ends).
func (p *progRun) gapTokens(g int) (token, token) {
	n := len(p.toks)
	switch {
	case g == n: // leading
		return token{"", kEOF}, p.toks[0]
	case g == n-1: // trailing
		return p.toks[n-1], token{"", kEOF}
	}
	return p.toks[g], p.toks[g+1]
}

type atomMode int

const (
	atomsExt  atomMode = iota // extended separator sets
	atomsCore                 // the core separators named by the property
	atomsErr                  // error space: separators that move tokens to other lines + one of each sort
)

type sepSets struct{ inner, lead, trail []string }

func cat(l ...[]string) []string {
	var out []string
	for _, x := range l {
		out = append(out, x...)
	}
	return out
}

var atomSetCache = map[[2]int]sepSets{}

func atomSets(mode atomMode, comments bool) sepSets {
	k := [2]int{int(mode), map[bool]int{false: 0, true: 1}[comments]}
	if s, ok := atomSetCache[k]; ok {
		return s
	}
	var s sepSets
	switch mode {
	case atomsExt:
		s = sepSets{cat(sepsPlain, sepsExtPlain), leadPlain, trailPlain}
		if comments {
			s = sepSets{cat(sepsPlain, sepsExtPlain, sepsCore[len(sepsPlain):], sepsExtComment), cat(leadPlain, leadComment), cat(trailPlain, trailComment)}
		}
	case atomsCore:
		s = sepSets{sepsPlain, []string{"", "\n"}, []string{"", " ", "\n"}}
		if comments {
			s = sepSets{sepsCore, []string{"", "\n", "/*c*/", "//c\n", "/*\n\n*/"}, []string{"", " ", "\n", "//c", "//c\n", " //c", "/*c*/", "/*\n\n*/"}}
		}
	case atomsErr:
		s = sepSets{sepsErrPlain, []string{"\n"}, []string{"", "\n"}}
		if comments {
			s = sepSets{sepsErr, []string{"\n", "/*\n\n*/"}, []string{"", "\n", "//c", "/*\n\n*/"}}
		}
	}
	atomSetCache[k] = s
	return s
}

// atoms runs every single-gap variant: every base (all call gaps blank / all tight), every gap incl.
// before the first and after the last token, every admissible separator of the extended sets.
func (p *progRun) atoms(mode atomMode) {
	n := len(p.toks)
	ctx := p.r.ctx
	sets := atomSets(mode, p.c.comments)
	masks := []uint32{0}
	if len(p.cg) > 0 {
		masks = append(masks, 1<<len(p.cg)-1)
	}
	for _, mask := range masks {
		if !p.ref(mask).valid {
			continue
		}
		base := baseSeps(n, p.cg, mask, " ")
		for g := 0; g <= n; g++ {
			a, b := p.gapTokens(g)
			var cands []string
			switch {
			case g == n:
				cands = sets.lead
			case g == n-1:
				cands = sets.trail
			default:
				cands = sets.inner
			}
			if p.override != nil {
				cands = p.override
			}
			for _, s := range cands {
				if !admissible(a, s, b, p.c.comments) {
					continue
				}
				seps, lead, trail := base, "", ""
				switch {
				case g == n:
					lead = s
				case g == n-1:
					trail = s
				default:
					if s == base[g] {
						continue
					}
					seps = append([]string{}, base...)
					seps[g] = s
					if maskOf(p.cg, seps) != mask && mask != 0 {
						continue // the same text is produced from the all-blank base
					}
				}
				ok, what, exp, got, text := p.run(lead, seps, trail)
				if !ok || what == "" {
					if ok {
						ctx.Add("atoms_passed", 1)
					}
					continue
				}
				if p.failed[g] == nil {
					p.failed[g] = map[string]bool{}
				}
				p.failed[g][s] = true
				ctx.Add("atoms_violating", 1)
				shapes := atomShapes(a, s, b)
				finding := classify(shapes, what)
				if finding != "" {
					// accept the classification only if the same case without the shapes is fine
					ns := neutralise(s, shapes)
					for i := 0; i < 3; i++ { // removing one shape may expose another
						if more := atomShapes(a, ns, b); len(more) > 0 {
							ns = neutralise(ns, more)
						}
					}
					seps2, lead2, trail2 := seps, lead, trail
					switch {
					case g == n:
						lead2 = ns
					case g == n-1:
						trail2 = ns
					default:
						seps2 = append([]string{}, seps...)
						seps2[g] = ns
					}
					if ok2, what2, _, _, _ := p.run(lead2, seps2, trail2); !ok2 || what2 != "" {
						finding = ""
					}
				}
				ctx.Outcome("violation: " + what)
				rp := p.repro(lead, seps, trail, text)
				rp["gap"] = fmt.Sprintf("%s %q | %q | %s %q", a.kind, a.text, s, b.kind, b.text)
				ctx.Violate(what, rp, exp, got, finding)
			}
		}
	}
}

// options returns, per inner gap and for the trailing gap, the admissible separators of the core
// sets whose single-gap variant did not violate.
func (p *progRun) options(set, trails []string) (opts [][]string, pruned bool) {
	n := len(p.toks)
	for g := 0; g < n; g++ {
		a, b := p.gapTokens(g)
		cands := set
		if g == n-1 {
			cands = trails
		}
		var o []string
		for _, s := range cands {
			if !admissible(a, s, b, p.c.comments) {
				continue
			}
			if p.failed[g][s] {
				pruned = true
				continue
			}
			o = append(o, s)
		}
		opts = append(opts, o)
	}
	return
}

func (p *progRun) report(lead string, seps []string, trail, what, exp, got, text string) {
	p.r.ctx.Outcome("violation: " + what)
	p.r.ctx.Violate(what+" (combination of separators that are fine one at a time)", p.repro(lead, seps, trail, text), exp, got, "")
}

// product runs every assignment of the separators of set to all gaps at once.
func (p *progRun) product(set, trails []string) {
	n := len(p.toks)
	opts, _ := p.options(set, trails)
	total := int64(1)
	all := int64(1)
	for g, o := range opts {
		total *= int64(len(o))
		if g < n-1 {
			all *= int64(len(set))
		} else {
			all *= int64(len(trails))
		}
	}
	p.r.ctx.Add("product_assignments_pruned_superset_of_violating_or_inadmissible_atom", all-total)
	if total == 0 {
		return
	}
	sel := make([]int, n)
	seps := make([]string, n-1)
	for {
		if p.r.ctx.Expired() {
			return
		}
		for g := 0; g < n-1; g++ {
			seps[g] = opts[g][sel[g]]
		}
		trail := opts[n-1][sel[n-1]]
		if ok, what, exp, got, text := p.run("", seps, trail); ok && what != "" {
			p.report("", seps, trail, what, exp, got, text)
		}
		g := 0
		for ; g < n; g++ {
			sel[g]++
			if sel[g] < len(opts[g]) {
				break
			}
			sel[g] = 0
		}
		if g == n {
			return
		}
	}
}

// pairs runs every assignment that changes exactly two gaps (trailing gap included) of each base.
func (p *progRun) pairs(set, trails []string) {
	n := len(p.toks)
	opts, _ := p.options(set, trails)
	masks := []uint32{0}
	if len(p.cg) > 0 {
		masks = append(masks, 1<<len(p.cg)-1)
	}
	for _, mask := range masks {
		if !p.ref(mask).valid {
			continue
		}
		base := baseSeps(n, p.cg, mask, " ")
		for g1 := 0; g1 < n; g1++ {
			for g2 := g1 + 1; g2 < n; g2++ {
				if p.r.stop() {
					return
				}
				for _, s1 := range opts[g1] {
					if s1 == base[g1] {
						continue
					}
					for _, s2 := range opts[g2] {
						seps := append([]string{}, base...)
						seps[g1] = s1
						trail := ""
						if g2 == n-1 {
							if s2 == "" {
								continue
							}
							trail = s2
						} else {
							if s2 == base[g2] {
								continue
							}
							seps[g2] = s2
						}
						if maskOf(p.cg, seps) != mask && mask != 0 {
							continue
						}
						if ok, what, exp, got, text := p.run("", seps, trail); ok && what != "" {
							p.report("", seps, trail, what, exp, got, text)
						}
					}
				}
			}
		}
	}
}

func (r *runner) newProg(c *config, toks []token, isErr bool, space string) *progRun {
	return &progRun{r: r, c: c, toks: toks, cg: callGaps(toks, c.comfort), refs: map[uint32]*reference{}, isErr: isErr, space: space, failed: map[int]map[string]bool{}}
}

// validIn reports whether the token sequence is a valid program (isErr: an erroneous one) in some
// blank/no-blank class of its call gaps.
func (p *progRun) anyValid() bool {
	masks := []uint32{0}
	if len(p.cg) > 0 {
		masks = append(masks, 1<<len(p.cg)-1)
	}
	for _, m := range masks {
		if p.ref(m).valid {
			return true
		}
	}
	return false
}

// ---------------------------------------------------------------------------------------------
// enumeration of token sequences

var alphabet = func() []token {
	var a []token
	for _, s := range []string{"a", "b", "'q/*'", "1", "\"/*\"",
		"let", "func", "if", "then", "else", "try", "catch", "switch", "case", "default",
		"(", ")", "[", "]", "{", "}", ".", ",", ":", ";",
		"+", "-", "*", "/", "<", "<=", "!", "!=", "=", "->"} {
		t := mustLex(s)
		if len(t) != 1 {
			panic(s)
		}
		a = append(a, t[0])
	}
	return a
}()

// enumerate calls fn for every token sequence of exactly n tokens that the recogniser of recog.go
// accepts, extending only prefixes it considers viable (prune=false: every sequence over the alphabet).
func enumerate(n int, comfort, prune bool, fn func(toks []token) bool) {
	seq := make([]token, 0, n)
	var rec func() bool
	rec = func() bool {
		if len(seq) == n {
			if prune {
				if ok, _ := recognise(seq, comfort); !ok {
					return true
				}
			}
			return fn(seq)
		}
		for _, t := range alphabet {
			seq = append(seq, t)
			ok := true
			if prune && len(seq) < n {
				_, ok = recognise(seq, comfort)
			}
			if ok {
				ok = rec()
			} else {
				ok = true
			}
			seq = seq[:len(seq)-1]
			if !ok {
				return false
			}
		}
		return true
	}
	rec()
}

// fixed longer programs: together with the enumerated ones they contain every adjacency of token kinds
var fixedPrograms = []string{
	`let x = 1 ; x + a`,
	`func f ( x , y ) x * y + 1 ; f ( a , 2 )`,
	`if a < b then a else b`,
	`if ! ( a = b ) then - a else ( b )`,
	`try a / b catch 0`,
	`switch a case 1 : "one" case 2 : "two" default "many"`,
	`[ 1 , 2.5 , 1e3 , "s" , a ] [ 0 ]`,
	`{ k : 1 , 'q r' : a , m : { } } . k`,
	`a . m ( 1 , b ) . n ( ) . k`,
	`[ 1 , 2 ] . map ( e -> e * 2 ) . reduce ( ( p , q ) -> p + q )`,
	`( a , b ) -> a + b`,
	`x -> y -> x + y`,
	`let 'x y' = a ; 'x y' * 2`,
	`a <= b & b >= a | a != b`,
	`- a ^ 2 + ! b`,
	`a << 2 >> 1 % 3 ~ b`,
	`[ [ ] , [ a , ] , { } , { k : 1 , } ]`,
	`a ( ) ( b ) [ 1 ] . k`,
	`let f = x -> x ; let g = ( p , q ) -> p ; f ( g ( 1 , 2 ) )`,
	`if a then let c = 1 ; c else try b catch "e"`,
	`let '*/' = "/*" ; '*/' + "//" + "\\" + "\""`,
	`switch a case "s" : [ 1 ] default { k : a }`,
	`a . k [ 1 ] ( 2 ) . m ( 3 )`,
	`{ a : x -> x , b : ( p , q ) -> q } . a ( 1 )`,
	`func f ( n ) if n = 0 then 1 else n * f ( n - 1 ) ; f ( 3 )`,
	`1 . string ( ) + 2.5e-3 . string ( )`,
	`a = b = true != false`,
	`[ 1 , 2 ] . map ( e -> let t = e ; t )`,
	`try if a then b else a catch let z = 1 ; z`,
	`( ( a ) ) + ( [ b ] ) [ 0 ] - { k : 1 } . k`,
	`a - - b - ! a / 2 * - ! b`,
	`let a1 = 1 ; let _b = a1 ; [ a1 , _b , a1e2 -> 1 ]`,
	`let größe = 1 ; größe . 'ключ' ( a , größe )`,
}

// programs that are only meaningful in comfort mode (omitted multiplication signs)
var fixedComfort = []string{
	`2 a ( b ) ( 3 ) 4 b`,
	`( a ) ( b ) 2 a ^ 2 b`,
	`2 ( a + 1 ) b . k ( 1 ) 3`,
	`let x = 2 a ; x ( 1 ) ( x ) x`,
}

// ---------------------------------------------------------------------------------------------

type bounds struct {
	selfcheck        int // enumerator self check over the full alphabet: all sequences up to this length
	selfcheckReduced int // ... over the reduced alphabet (one token per class the grammar distinguishes)
	product          int // every assignment of the core separators for programs up to this many tokens
	productReduced   int // every assignment of the reduced separator set up to this many tokens
	pairs            int // all pairs of gaps x pairs of core separators up to this many tokens
	atoms            int // single-gap variants up to this many tokens
	atomsExt         int // ... with the extended separator sets up to this many tokens (core sets beyond)
	errBase          int // error space: all mutations of valid programs up to this many tokens
	errBaseBad       int // error space: only the invalid character as wrong token up to this many tokens
	strLen           int
}

func boundsFor(ctx *bex.Ctx) bounds {
	if ctx.Quick() {
		return bounds{selfcheck: 3, selfcheckReduced: 3, product: 3, productReduced: 4, pairs: 4, atoms: 5, atomsExt: 4, errBase: 3, errBaseBad: 3, strLen: 3}
	}
	return bounds{selfcheck: 3, selfcheckReduced: 4, product: 4, productReduced: 5, pairs: 5, atoms: 5, atomsExt: 5, errBase: 3, errBaseBad: 4, strLen: 4}
}

var productTrails = []string{"", " //c", "/*\n\n*/"}
var productTrailsPlain = []string{"", "\n"}

// reduced separator set for the product over longer programs
var sepsReduced = []string{"", " ", "\n", "/*c*/", "//c\n", "/*\n\n*/"}
var sepsReducedPlain = []string{"", " ", "\n"}

// separators of the error space: the ones that move tokens to other lines, and one of each other sort
var sepsErr = []string{"", "\t", "\n", "/*c*/", "//c\n", " //c\n", "/*\n\n*/"}
var sepsErrPlain = []string{"", "\t", "\n"}

// reducedAlphabet: one token of every class that parser and recogniser distinguish (all binary
// operators are alike to both; "-" is also unary, "=" also belongs to let, "->" to closures)
func reducedAlphabet() []token {
	var out []token
	for _, t := range alphabet {
		switch t.text {
		case "b", "*", "/", "<", "<=", "!=":
			continue
		}
		out = append(out, t)
	}
	return out
}

func runLayout(ctx *bex.Ctx, r *runner) {
	b := boundsFor(ctx)

	// (0) the recogniser that prunes the enumeration loses no valid program
	ctx.Space("enumerator-selfcheck")
	var idx int64
	full := alphabet
	for _, comfort := range []bool{false, true} {
		c := getConfig(comfort, false)
		for n := 1; n <= b.selfcheckReduced && !r.stop(); n++ {
			if n > b.selfcheck {
				alphabet = reducedAlphabet()
			}
			enumerate(n, comfort, false, func(t []token) bool {
				idx++
				if !ctx.Mine(idx) {
					return true
				}
				if r.stop() {
					return false
				}
				toks := append([]token{}, t...)
				cg := callGaps(toks, comfort)
				valid := false
				// validity in any class, decided by the parser itself
				masks := []uint32{0}
				if len(cg) > 0 {
					masks = append(masks, 1<<len(cg)-1)
				}
				for _, m := range masks {
					text, _ := render(toks, "", baseSeps(len(toks), cg, m, " "), "")
					ctx.Eval()
					if !c.parse(text).isErr {
						valid = true
					}
				}
				kept, _ := recognise(toks, comfort)
				switch {
				case valid && kept:
					ctx.Outcome("valid program")
				case valid:
					ctx.Violate("CHECK DEFECT: the enumerator's recogniser drops a valid program", map[string]any{"space": "enumerator-selfcheck", "cfg": c.name, "tokens": tokTexts(toks)},
						"kept", "pruned", "")
				case kept:
					ctx.Outcome("recognised, rejected by the parser (filtered)")
				default:
					ctx.Outcome("not a program")
				}
				return true
			})
			alphabet = full
		}
	}
	r.done("enumerator-selfcheck", fmt.Sprintf("all %d^n token sequences, n <= %d, and all %d^n sequences over one token per grammar class, n <= %d, comfort on/off: every sequence the parser accepts is accepted by the recogniser that prunes the enumeration",
		len(alphabet), b.selfcheck, len(reducedAlphabet()), b.selfcheckReduced))

	// (1)-(3) valid programs x separator assignments
	adj := map[string]bool{}
	for _, comfort := range []bool{false, true} {
		idx = 0
		var list [][]token
		for n := 1; n <= b.atoms; n++ {
			enumerate(n, comfort, true, func(t []token) bool {
				list = append(list, append([]token{}, t...))
				return true
			})
		}
		nEnum := len(list)
		fixed := fixedPrograms
		if comfort {
			fixed = append(append([]string{}, fixedPrograms...), fixedComfort...)
		}
		for _, s := range fixed {
			list = append(list, mustLex(s))
		}
		for li, toks := range list {
			idx++
			if !ctx.Mine(idx) {
				continue
			}
			if r.stop() {
				break
			}
			isFixed := li >= nEnum
			var validSeen bool
			for _, comments := range []bool{false, true} {
				c := getConfig(comfort, comments)
				ctx.Begin(func() map[string]any {
					return map[string]any{"space": "layout", "cfg": c.name, "tokens": tokTexts(toks)}
				})
				ctx.Space("layout-atoms")
				p := r.newProg(c, toks, false, "layout-atoms")
				if !p.anyValid() {
					if isFixed && !comfort && !p.broken {
						ctx.Violate("CHECK DEFECT: fixed program is not valid", map[string]any{"space": "layout-atoms", "cfg": c.name, "tokens": tokTexts(toks)}, "valid", "rejected", "")
					}
					break
				}
				validSeen = true
				mode := atomsExt
				if len(toks) > b.atomsExt && !isFixed {
					mode = atomsCore
				}
				p.atoms(mode)
				n := len(toks)
				set, setRed, trails := sepsPlain, sepsReducedPlain, productTrailsPlain
				if comments {
					set, setRed, trails = sepsCore, sepsReduced, productTrails
				}
				if n < 2 {
					continue
				}
				switch {
				case !isFixed && n <= b.product:
					ctx.Space("layout-product")
					p.space = "layout-product"
					p.product(set, trails)
				case !isFixed && n <= b.productReduced:
					ctx.Space("layout-product-reduced")
					p.space = "layout-product-reduced"
					p.product(setRed, trails)
				}
				if isFixed || (n > b.product && n <= b.pairs) {
					ctx.Space("layout-pairs")
					p.space = "layout-pairs"
					p.pairs(set, trails)
				}
			}
			if validSeen {
				ctx.Add(fmt.Sprintf("valid_programs_comfort_%v", comfort), 1)
				for i := 0; i+1 < len(toks); i++ {
					k := adjKey(toks[i]) + " " + adjKey(toks[i+1])
					if !adj[k] {
						adj[k] = true
						// counted per shard; the same adjacency is seen by several shards
						ctx.Max("max_distinct_token_adjacencies_in_one_shard", int64(len(adj)))
					}
				}
			}
		}
	}
	fixedNote := fmt.Sprintf("+ %d fixed longer programs (+ %d comfort-only)", len(fixedPrograms), len(fixedComfort))
	r.done("layout-atoms", fmt.Sprintf("every valid program of <= %d tokens over a %d-token alphabet %s x 4 configurations x every gap (also before the first/after the last token) x every admissible separator, one gap at a time; programs of <= %d tokens and the fixed ones with the extended sets (%d plain, %d with comments; %d/%d trailing, %d/%d leading), longer ones with the %d core separators",
		b.atoms, len(alphabet), fixedNote, b.atomsExt, len(sepsPlain)+len(sepsExtPlain), len(sepsCore)+len(sepsExtPlain)+len(sepsExtComment), len(trailPlain), len(trailPlain)+len(trailComment), len(leadPlain), len(leadPlain)+len(leadComment), len(sepsCore)))
	r.done("layout-product", fmt.Sprintf("every valid program of 2..%d tokens x EVERY assignment of the %d core separators (%d with comments off) to every gap x %d trailing separators; assignments containing a (gap, separator) that already violates alone are not executed (counted)", b.product, len(sepsCore), len(sepsPlain), len(productTrails)))
	r.done("layout-product-reduced", fmt.Sprintf("every valid program of %d..%d tokens x EVERY assignment of the %d separators %q (%d with comments off) to every gap x %d trailing separators", b.product+1, b.productReduced, len(sepsReduced), sepsReduced, len(sepsReducedPlain), len(productTrails)))
	r.done("layout-pairs", fmt.Sprintf("every valid program of %d..%d tokens %s x every pair of gaps x every pair of core separators, other gaps single blank", b.product+1, b.pairs, fixedNote))
}

// generatedComments are all block comments whose content is a string of <= n symbols over
// {c * / LF blank "} (without a closing "*/" inside) and all line comments with a content of <= n-1
// symbols over {c * / " '}, each bare and padded with blanks: every way a comment can begin and end.
func generatedComments(n int) []string {
	var out []string
	var rec func(alpha []string, cur string, left int, emit func(string))
	rec = func(alpha []string, cur string, left int, emit func(string)) {
		emit(cur)
		if left == 0 {
			return
		}
		for _, a := range alpha {
			rec(alpha, cur+a, left-1, emit)
		}
	}
	rec([]string{"c", "*", "/", "\n", " ", "\""}, "", n, func(c string) {
		if strings.Contains(c, "*/") {
			return
		}
		out = append(out, "/*"+c+"*/", " /*"+c+"*/ ")
	})
	rec([]string{"c", "*", "/", "\"", "'"}, "", n-1, func(c string) {
		out = append(out, "//"+c+"\n", " //"+c+"\n")
	})
	return out
}

// runCommentContents: a few fixed programs x every gap x every generated comment.
func runCommentContents(ctx *bex.Ctx, r *runner) {
	n := 3
	if !ctx.Quick() {
		n = 4
	}
	cands := generatedComments(n)
	progs := []string{fixedPrograms[0], fixedPrograms[1], fixedPrograms[2], fixedPrograms[6], fixedPrograms[7], fixedPrograms[8], fixedPrograms[9], fixedPrograms[12], fixedPrograms[15], fixedPrograms[20], fixedPrograms[25]}
	ctx.Space("comment-contents")
	var idx int64
	for _, comfort := range []bool{false, true} {
		list := progs
		if comfort {
			list = append(append([]string{}, progs...), fixedComfort[0], fixedComfort[2])
		}
		for _, src := range list {
			toks := mustLex(src)
			// shard by (program, slice of the candidates)
			const slice = 64
			for from := 0; from < len(cands); from += slice {
				idx++
				if !ctx.Mine(idx) {
					continue
				}
				if r.stop() {
					break
				}
				c := getConfig(comfort, true)
				ctx.Begin(func() map[string]any {
					return map[string]any{"space": "comment-contents", "cfg": c.name, "tokens": tokTexts(toks)}
				})
				p := r.newProg(c, toks, false, "comment-contents")
				if !p.anyValid() {
					continue
				}
				to := from + slice
				if to > len(cands) {
					to = len(cands)
				}
				p.override = cands[from:to]
				p.atoms(atomsExt)
			}
		}
	}
	r.done("comment-contents", fmt.Sprintf("%d fixed programs (+2 comfort-only) x comfort on/off, comments on x every gap (also leading and trailing) x %d generated comments: block comments with every content of <= %d symbols over {c * / LF blank \"} and line comments with every content of <= %d symbols over {c * / \" '}, bare and padded with blanks", len(progs), len(cands), n, n-1))
}

// adjKey is the class of a token for the adjacency statistics: keywords, punctuation and operators
// individually, identifiers/numbers/strings by kind.
func adjKey(t token) string {
	switch t.kind {
	case kWord:
		if keywords[t.text] {
			return t.text
		}
		return "ident"
	case kPunct, kOp:
		return t.text
	}
	return t.kind.String()
}

// ---------------------------------------------------------------------------------------------
// syntax errors: a deliberately wrong token at a known position

var wrongTokens = []token{{"#", kBad}, {"zz", kWord}, {")", kPunct}, {"then", kWord}}

func runErrors(ctx *bex.Ctx, r *runner) {
	b := boundsFor(ctx)
	ctx.Space("error-lines")
	var idx int64
	for _, comfort := range []bool{false, true} {
		var list [][]token
		for n := 1; n <= b.errBaseBad; n++ {
			enumerate(n, comfort, true, func(t []token) bool {
				list = append(list, append([]token{}, t...))
				return true
			})
		}
		nEnum := len(list)
		for _, s := range fixedPrograms {
			list = append(list, mustLex(s))
		}
		for li, base := range list {
			idx++
			if !ctx.Mine(idx) {
				continue
			}
			if r.stop() {
				break
			}
			cBase := getConfig(comfort, false)
			pb := r.newProg(cBase, base, false, "error-lines")
			if !pb.anyValid() {
				continue
			}
			// replace token k by a wrong token; cut the program after token k (error at end of input);
			// append a wrong token. Longer programs: only the invalid character / undefined identifier.
			wrong := wrongTokens
			allMuts := li >= nEnum || len(base) <= b.errBase
			if li >= nEnum || !allMuts {
				wrong = wrongTokens[:1]
			}
			type mutation struct {
				toks  []token
				badAt int // position of an invalid character, -1: none
			}
			var muts []mutation
			for k := 0; k <= len(base); k++ {
				if k < len(base) {
					for _, w := range wrong {
						if w.text == base[k].text {
							continue
						}
						m := append([]token{}, base...)
						m[k] = w
						muts = append(muts, mutation{m, map[bool]int{true: k, false: -1}[w.kind == kBad]})
					}
					if k > 0 && allMuts {
						muts = append(muts, mutation{append([]token{}, base[:k]...), -1})
					}
				} else if allMuts {
					for _, w := range wrongTokens[:2] {
						muts = append(muts, mutation{append(append([]token{}, base...), w), map[bool]int{true: k, false: -1}[w.kind == kBad]})
					}
				}
			}
			for _, mu := range muts {
				m, k := mu.toks, mu.badAt
				for _, comments := range []bool{false, true} {
					c := getConfig(comfort, comments)
					ctx.Begin(func() map[string]any {
						return map[string]any{"space": "error-lines", "cfg": c.name, "tokens": tokTexts(m)}
					})
					p := r.newProg(c, m, true, "error-lines")
					if !p.anyValid() {
						ctx.Outcome("mutation is a valid program (skipped)")
						break
					}
					// where the error must be: an invalid character is reported at its own position
					// (parseMap reports the line of the entry's key instead: finding F15f)
					// (not if the replacement unbinds an identifier used before it: that identifier is the
					// offending token then)
					if ref := p.ref(0); k >= 0 && len(p.cg) == 0 && len(pb.cg) == 0 && ref.valid && !strings.HasPrefix(ref.msg, "identifier '") && (len(ref.errToks) == 0 || ref.errToks[0] != k) {
						finding := ""
						if strings.HasPrefix(ref.msg, "unexpected token, expected ',' or '}'") && len(ref.errToks) > 0 && ref.errToks[0] < k && m[ref.errToks[0]+1].text == ":" {
							finding = "F15f-map-entry-error-line"
						}
						seps := baseSeps(len(m), p.cg, 0, "\n")
						text, _ := render(m, "", seps, "")
						ctx.Violate("syntax error is not reported on the line of the offending token", p.repro("", seps, "", text),
							fmt.Sprintf("line %d (the invalid character is token %d)", k+1, k), fmt.Sprintf("%q on the line of token %v", ref.msg, ref.errToks), finding)
					}
					p.atoms(atomsErr)
				}
			}
		}
	}
	r.done("error-lines", fmt.Sprintf("every valid program of <= %d tokens (each token in turn replaced by '#', an undefined identifier, ')' or 'then'; each proper prefix; '#'/undefined identifier appended), of <= %d tokens (each token replaced by '#') and %d fixed programs (each token replaced by '#'; each proper prefix; '#'/undefined identifier appended); kept if the parser rejects it; x 4 configurations x every gap x every admissible separator of %q (%d with comments off), one gap at a time, 2-4 separators before the first and after the last token",
		b.errBase, b.errBaseBad, len(fixedPrograms), sepsErr, len(sepsErrPlain)))
}

// ---------------------------------------------------------------------------------------------
// replay

func toStrings(v any) []string {
	var out []string
	if l, ok := v.([]any); ok {
		for _, e := range l {
			s, _ := e.(string)
			out = append(out, s)
		}
	}
	return out
}

func replayLayout(repro map[string]any) (string, bool) {
	cfgName, _ := repro["cfg"].(string)
	c := configByName(cfgName)
	if c == nil {
		return "unknown configuration " + cfgName, true
	}
	var toks []token
	for _, s := range toStrings(repro["tokens"]) {
		t, _ := refLex(s, false)
		if len(t) != 1 {
			return "cannot re-lex token " + s, true
		}
		toks = append(toks, t[0])
	}
	seps := toStrings(repro["seps"])
	lead, _ := repro["lead"].(string)
	trail, _ := repro["trail"].(string)
	isErr, _ := repro["erroneous"].(bool)
	if len(toks) == 0 || len(seps) != len(toks)-1 {
		return "incomplete repro", true
	}
	cg := callGaps(toks, c.comfort)
	ref := buildRef(c, toks, cg, maskOf(cg, seps))
	if ref.problem != "" {
		return ref.problem, true
	}
	if ref.isErr != isErr {
		return fmt.Sprintf("canonical rendering %q: %v", ref.canon, c.parse(ref.canon)), true
	}
	text, lines := render(toks, lead, seps, trail)
	what, exp, got := checkVariant(c, ref, text, lines)
	if what == "" {
		return fmt.Sprintf("%q parses like the canonical rendering %q with the right lines %v", text, ref.canon, lines), false
	}
	return fmt.Sprintf("%q: %s: expected %s, got %s", text, what, exp, got), true
}

func replay(repro map[string]any) (string, bool) {
	space, _ := repro["space"].(string)
	switch {
	case strings.HasPrefix(space, "layout") || space == "error-lines" || space == "comment-contents":
		return replayLayout(repro)
	case space == "enumerator-selfcheck":
		return "self check of the enumerator", true
	}
	return replayText(repro)
}

// ---------------------------------------------------------------------------------------------

func main() {
	bex.Main(&bex.Check{
		ID:    "C15",
		Level: "exploration",
		Rule:  "programs are token sequences; every sequence over a 35-token alphabet of the value language (identifiers, quoted identifier, number, string containing a comment opener, 10 keywords, 10 punctuation tokens, 10 operators) up to the tier's length is enumerated (pruned by a recogniser of the token grammar that is validated against the unpruned enumeration) and kept if the real parser accepts its single-blank rendering; a fixed list of longer programs adds the remaining token-kind adjacencies. Each is rendered with separators from fixed sets in the gaps (a separator is admissible in a gap iff the check's own reference lexer still reads exactly the two neighbouring tokens), parsed with value.New()'s parser (optimizer removed) under comments on/off x comfort on/off, converted to the check's own tree and compared with the canonical rendering's tree; each node's line must equal the renderer's line of the token that node kind records (token determined from a one-token-per-line parse, validated by kind and subtree order). In comfort mode the blank/no-blank choice between identifier and '(' selects the reference (the documented exception). Erroneous programs (wrong token at known position) must report the same message and the line of the same token. Strings/quoted identifiers: all symbol sequences up to the bound rendered as literals, AST constant and evaluated value compared with the source string. distinct_nontrivial = distinct (configuration, source text) pairs executed in which at least one separator contains a line break or a comment (layout and error spaces), plus the distinct non-empty literals / alias / juxtaposition sources of the text spaces",
		Assumptions: []string{
			"the check's reference lexer (maximal munch for words, numbers and the operator set of value.New; comments and blanks are separators) defines which separators are admissible in a gap",
			"which token a node kind records is read off parser2.go (header of cmd/c15/ast.go) and validated per program by kind and subtree order; the line of a multiplication inserted by comfort mode is only required to lie between its operands (the property is silent)",
			"comfort mode: a block comment without any blank between identifier and '(' is not a blank (a function call, like the tight spelling)",
			"NUL bytes are excluded by the property; programs contain none",
			"assignments of separators containing a (gap, separator) pair that already violates on its own are not executed in the product/pairs spaces (they are counted in product_assignments_pruned_…); every such pair is reported by the layout-atoms space",
		},
		QuickBudget: 55e9, ThoroughBudget: 22 * 60e9,
		CrashIsViolation: true,
		Run: func(ctx *bex.Ctx) {
			// parser and tokenizer goroutine hand every token over an unbuffered channel: on one P this
			// is a goroutine switch, on two it is an OS thread wake-up per token
			runtime.GOMAXPROCS(1)
			r := &runner{ctx: ctx}
			runText(ctx, r)
			runLayout(ctx, r)
			runCommentContents(ctx, r)
			runErrors(ctx, r)
			ctx.Add("failing_parses", nFailingParses)
			if r.capped {
				ctx.Add("workers_stopped_at_stranded_goroutine_cap", 1)
			}
		},
		Replay: replay,
	})
}
