// C14: equality and ordering operators obey their algebraic laws.
//
// A pool of values is enumerated exhaustively: a hand-picked part (ints up to ±(2^53−1), floats incl.
// ±0, ±Inf, NaN and neighbours of ints, strings, bools, closures, nested lists eager and lazy, maps in
// five representations) and a generated family (every list of length 1..2 over 9 atoms, every map over
// the keys a, b with 6 values, representations rotating). Every ordered pair of the pool is evaluated
// under the seven operators = != < > <= >= ~ (each generated once as "a OP b" and called with freshly
// built values as arguments, so nothing is constant-folded), every triple of the numeric and of the
// string sub-pool is checked for transitivity, and the built-ins derived from the operators (min, max,
// list.min, list.max, order, orderRev, switch) are evaluated on all pairs and on all triples of the
// hand-picked part. The outcome tables T[op][x][y] ∈ {true,false,error} are checked against the laws
// of the property (relations between table entries) and against a reference relation written from
// the property text (oracle.go); the derived built-ins are checked for agreement with the tables.
//
// Finding F14a (equality of containers is one level deep) is classified by classifyNested.
package main

import (
	"bytes"
	"fmt"
	"log"
	"math"
	"sort"
	"strings"

	"github.com/hneemann/parser2/funcGen"
	"github.com/hneemann/parser2/value"
	"verif/internal/bex"
)

var ops = []string{"=", "!=", "<", ">", "<=", ">=", "~"}

const (
	opEq = iota
	opNe
	opLt
	opGt
	opLe
	opGe
	opIn
)

// outcome of one evaluation: c is 'T', 'F', 'E' (error) or 'V' (a non-bool value).
type outcome struct {
	c        byte
	panicked bool // the error is a Go panic recovered by the generated function (C05's business, counted only)
	escaped  bool // a panic that left the generated function (would have killed a host)
	msg      string
}

func (o outcome) String() string {
	switch o.c {
	case 'T':
		return "true"
	case 'F':
		return "false"
	case 'E':
		if o.escaped {
			return "panic escaping the generated function: " + o.msg
		}
		if o.panicked {
			return "error(panic): " + o.msg
		}
		return "error: " + o.msg
	}
	return "value " + o.msg
}

func (o outcome) class() string {
	if o.c == 'E' && o.panicked {
		return "E(panic)"
	}
	return string(o.c)
}

// sniffer sees what the library logs: generateIntern logs "panic in function: …" when it turns a
// recovered panic into an error.
type sniffer struct{ hit bool }

func (s *sniffer) Write(p []byte) (int, error) {
	if bytes.Contains(p, []byte("panic in function: ")) {
		s.hit = true
	}
	return len(p), nil
}

// sink is the part of bex.Ctx the case checks need (replay uses a collecting implementation).
type sink interface {
	Violate(what string, repro map[string]any, expected, got, finding string)
	Unspecified(why string)
	Add(counter string, n int64)
	Outcome(class string)
	Nontrivial(key string)
}

type env struct {
	tier     string
	bd       *builder
	pool     []*rv
	num, str []int
	curated  int // the first curated pool entries take part in the triple space
	opFn     [7]fn
	T        [7][][]outcome
	sn       *sniffer
	eqMemo   map[[2]*rv]outcome
}

func newEnv(tier string) *env {
	e := &env{tier: tier, bd: newBuilder(), sn: &sniffer{}, eqMemo: map[[2]*rv]outcome{}}
	log.SetOutput(e.sn)
	e.pool, e.num, e.str, e.curated = makePool(tier == "thorough")
	for k, op := range ops {
		e.opFn[k] = e.bd.gen("a "+op+" b", "a", "b")
	}
	return e
}

// call builds fresh argument values, evaluates f on them and classifies the result.
func (e *env) call(f fn, args ...*rv) (value.Value, outcome, []value.Value) {
	vals := make([]value.Value, len(args))
	for i, a := range args {
		vals[i] = e.bd.build(a)
	}
	v, o := e.eval(f, vals)
	return v, o, vals
}

// eval evaluates f on the given argument values and classifies the result.
func (e *env) eval(f fn, vals []value.Value) (value.Value, outcome) {
	e.sn.hit = false
	var v value.Value
	var err error
	escaped := false
	func() {
		defer func() {
			if r := recover(); r != nil {
				escaped = true
				err = fmt.Errorf("%v", r)
			}
		}()
		v, err = f(funcGen.NewStack(vals...))
	}()
	if err != nil {
		msg := err.Error()
		if len(msg) > 160 {
			msg = msg[:160] + "…"
		}
		return nil, outcome{c: 'E', panicked: e.sn.hit || escaped, escaped: escaped, msg: msg}
	}
	if b, ok := v.(value.Bool); ok {
		if b {
			return v, outcome{c: 'T'}
		}
		return v, outcome{c: 'F'}
	}
	return v, outcome{c: 'V', msg: render(v)}
}

// checkStable: comparing must not change what is compared. Every operator is evaluated twice on the
// SAME operand values (not on fresh copies, as everywhere else): both evaluations must agree, and
// afterwards each operand must still equal a freshly built copy of itself exactly as a fresh copy does.
func (e *env) checkStable(s sink, i, j int) {
	x, y := e.pool[i], e.pool[j]
	if i == j {
		// the very same object on both sides (x = x, a list compared with itself): the outcome is decided by
		// the items, not by object identity — the same as for two separately built equal values
		for k, op := range ops {
			v := e.bd.build(x)
			_, same := e.eval(e.opFn[k], []value.Value{v, v})
			_, fresh := e.eval(e.opFn[k], []value.Value{e.bd.build(x), e.bd.build(x)})
			if same.c != fresh.c && refOp(op, x, x).r != 'U' {
				s.Violate("an operator applied to one and the same object on both sides gives another outcome than on two separately built equal values",
					e.repro("operand-stability", i, j, -1, "a "+op+" a (same object)"), "as for two equal values: "+fresh.String(), same.String(), "")
			}
			// … and nested one level: [v] op [v], {k:v} op {k:v} with the same v inside
			for _, wrap := range []string{"[a] " + op + " [b]", "{k:a} " + op + " {k:b}", "[1,a] " + op + " [1,b]"} {
				f := e.bd.gen(wrap, "a", "b")
				_, sameN := e.eval(f, []value.Value{v, v})
				_, freshN := e.eval(f, []value.Value{e.bd.build(x), e.bd.build(x)})
				if sameN.c != freshN.c && refOp(op, x, x).r != 'U' {
					s.Violate("an operator applied to containers holding one and the same object gives another outcome than on separately built equal values",
						e.repro("operand-stability", i, j, -1, wrap+" with a, b the same object"), "as for two equal values: "+freshN.String(), sameN.String(), "")
				}
			}
		}
	}
	for k, op := range ops {
		vals := []value.Value{e.bd.build(x), e.bd.build(y)}
		_, o1 := e.eval(e.opFn[k], vals)
		_, o2 := e.eval(e.opFn[k], vals)
		if exp := refOp(op, x, y); o1.c != o2.c && exp.r == 'U' {
			// e.g. maps with an unequal and an incomparable entry: which one is met first is not determined
			s.Unspecified(exp.why)
			continue
		}
		if o1.c != o2.c {
			s.Violate("an operator evaluated a second time on the same operand values gives another outcome (it changed an operand)",
				e.repro("operand-stability", i, j, -1, "a "+op+" b; a "+op+" b"), "second evaluation: "+o1.String(), "second evaluation: "+o2.String(), "")
			continue
		}
		for w, a := range []*rv{x, y} {
			_, fresh := e.eval(e.opFn[opEq], []value.Value{e.bd.build(a), e.bd.build(a)})
			_, used := e.eval(e.opFn[opEq], []value.Value{vals[w], e.bd.build(a)})
			if fresh.c != used.c && refOp("=", a, a).r == 'U' {
				continue
			}
			if fresh.c != used.c {
				s.Violate("an operand no longer equals a fresh copy of itself after it was compared",
					e.repro("operand-stability", i, j, -1, "a "+op+" b; "+[]string{"a", "b"}[w]+" = copy"), "as between two fresh copies: "+fresh.String(), used.String(), "")
			}
		}
	}
}

func render(v value.Value) (s string) {
	defer func() {
		if r := recover(); r != nil {
			s = fmt.Sprintf("<%T>", v)
		}
	}()
	if v == nil {
		return "<nil>"
	}
	str, err := v.ToString(funcGen.NewEmptyStack[value.Value]())
	if err != nil {
		return fmt.Sprintf("<%T: %v>", v, err)
	}
	return fmt.Sprintf("%s(%s)", value.TypeName(v), str)
}

// allocTables prepares the outcome tables; an entry is evaluated the first time it is looked up (a
// worker needs the entries of its own cases and of their mirrored / element-wise neighbours only).
func (e *env) allocTables() {
	n := len(e.pool)
	for k := range ops {
		e.T[k] = make([][]outcome, n)
		for i := range e.pool {
			e.T[k][i] = make([]outcome, n)
		}
	}
}

// at returns T[op k][i][j].
func (e *env) at(k, i, j int) outcome {
	o := &e.T[k][i][j]
	if o.c == 0 {
		_, *o, _ = e.call(e.opFn[k], e.pool[i], e.pool[j])
	}
	return *o
}

// actualEq evaluates x = y through the library for values that need not be pool members (list elements).
func (e *env) actualEq(x, y *rv) outcome {
	key := [2]*rv{x, y}
	if o, ok := e.eqMemo[key]; ok {
		return o
	}
	_, o, _ := e.call(e.opFn[opEq], x, y)
	e.eqMemo[key] = o
	return o
}

func (e *env) repro(space string, i, j, k int, expr string) map[string]any {
	m := map[string]any{"tier": e.tier, "space": space, "expr": expr, "i": i, "a": e.pool[i].String()}
	if j >= 0 {
		m["j"] = j
		m["b"] = e.pool[j].String()
	}
	if k >= 0 {
		m["k"] = k
		m["c"] = e.pool[k].String()
	}
	return m
}

// ---------------------------------------------------------------------------------------------
// space 1: operator tables — reference relation and the laws between table entries, per ordered pair

func (e *env) checkOpPair(s sink, i, j int) {
	x, y := e.pool[i], e.pool[j]
	rep := func(op string) map[string]any { return e.repro("op-tables", i, j, -1, "a "+op+" b") }
	eqRef := refEq(x, y)
	unstable := eqRef.why == uMapOrder

	// (a) reference relation
	for k, op := range ops {
		got := e.at(k, i, j)
		s.Outcome(op + " " + got.class())
		if got.c == 'E' {
			s.Add("errors_total", 1)
			if got.panicked {
				s.Add("errors_from_panic", 1)
			}
		}
		exp := refOp(op, x, y)
		if exp.r == 'T' || exp.r == 'F' || exp.r == 'B' {
			s.Nontrivial(fmt.Sprintf("op|%d|%d|%d", k, i, j))
		}
		if got.escaped {
			s.Violate("a panic left the generated function", rep(op), "a value or an error", got.String(), "")
			continue
		}
		switch exp.r {
		case 'U':
			s.Unspecified(exp.why)
		case 'B':
			if got.c != 'T' && got.c != 'F' {
				s.Violate("comparable operands: operator must yield a boolean", rep(op), "true or false (strings are ordered)", got.String(), "")
			}
		case 'E':
			if got.c != 'E' {
				s.Violate("incomparable operands: operator must fail with an error", rep(op), "an error ("+x.String()+" and "+y.String()+" are not comparable under "+op+")", got.String(), "")
			}
		default:
			if got.c != exp.r {
				what := "wrong result on comparable operands"
				if got.c == 'E' {
					what = "comparable operands: operator failed"
				}
				s.Violate(what, rep(op), map[byte]string{'T': "true", 'F': "false"}[exp.r]+" (reference relation of the property)", got.String(), classifyNested(op, x, y, got))
			}
		}
	}
	if k := e.at(opIn, i, j); x.k == kList && y.k == kList {
		// outside the property text; compared with the model of DESIGN.md Appendix B for the record only
		s.Add("list_in_list_cases", 1)
		switch m := multisetIn(x, y); {
		case m == '?':
			s.Add("list_in_list_model_undetermined", 1)
		case m == k.c:
			s.Add("list_in_list_agrees_with_multiset_model", 1)
		default:
			s.Add("list_in_list_differs_from_multiset_model", 1)
		}
	}

	// (b) laws between table entries
	eq, eqR := e.at(opEq, i, j), e.at(opEq, j, i)
	lt, ltR := e.at(opLt, i, j), e.at(opLt, j, i)
	if i < j && !unstable && eq.c != eqR.c {
		s.Violate("law: '=' is symmetric", rep("="), "a=b and b=a have the same outcome", "a=b: "+eq.String()+"; b=a: "+eqR.String(),
			firstOf(classifyNested("=", x, y, eq), classifyNested("=", y, x, eqR)))
	}
	if i == j && !x.hasNaN() && !x.hasClosure() && eq.c != 'T' {
		s.Violate("law: '=' is reflexive on values without NaN or closures", rep("="), "true", eq.String(), classifyNested("=", x, x, eq))
	}
	if ne := e.at(opNe, i, j); !unstable {
		want := map[byte]byte{'T': 'F', 'F': 'T', 'E': 'E', 'V': 'V'}[eq.c]
		if ne.c != want {
			s.Violate("law: a!=b is the negation of a=b", rep("!="), "negation of a=b ("+eq.String()+")", ne.String(),
				firstOf(classifyNested("=", x, y, eq), classifyNested("!=", x, y, ne)))
		}
	}
	if gt := e.at(opGt, i, j); gt.c != ltR.c {
		s.Violate("law: a>b is b<a", rep(">"), "outcome of b<a ("+ltR.String()+")", gt.String(), "")
	}
	le := e.at(opLe, i, j)
	{
		var want byte
		switch {
		case lt.c == 'T':
			want = 'T'
		case lt.c == 'F' && (eq.c == 'T' || eq.c == 'F'):
			want = eq.c
		default:
			want = 'E' // a<b or a=b is undefined when a<b is
		}
		if le.c != want && !(unstable && lt.c == 'F') {
			s.Violate("law: a<=b holds exactly when a<b or a=b", rep("<="), fmt.Sprintf("%c from a<b: %s, a=b: %s", want, lt, eq), le.String(), "")
		}
	}
	if ge, leR := e.at(opGe, i, j), e.at(opLe, j, i); ge.c != leR.c {
		s.Violate("law: a>=b is b<=a", rep(">="), "outcome of b<=a ("+leR.String()+")", ge.String(), "")
	}
	ordered := (isNum(x) && isNum(y)) || (x.k == kStr && y.k == kStr)
	if ordered {
		if i == j && lt.c != 'F' {
			s.Violate("law: '<' is irreflexive on numbers and strings", rep("<"), "false", lt.String(), "")
		}
		if i < j && lt.c == 'T' && ltR.c == 'T' {
			s.Violate("law: '<' is asymmetric on numbers and strings", rep("<"), "not both a<b and b<a", "both true", "")
		}
	}
	// x ~ list: some element equals x under the library's own '=', scanning left to right
	if y.k == kList && x.k != kList {
		if r := refIn(x, y); r.why != uMapOrder {
			want, at := outcome{c: 'F'}, -1
			for p, el := range y.elems {
				o := e.actualEq(x, el)
				if o.c == 'T' || o.c == 'E' {
					want, at = o, p
					break
				}
			}
			if got := e.at(opIn, i, j); got.c != want.c {
				s.Violate("law: x~list holds exactly when some element equals x", rep("~"),
					fmt.Sprintf("%c (scan of a=element, left to right, decided at element %d)", want.c, at), got.String(),
					firstOf(classifyNested("~", x, y, got), classifyNested("~", x, y, want)))
			}
		}
	}
}

// ---------------------------------------------------------------------------------------------
// finding F14a: equality of containers is only one level deep

const findingNested = "F14a-nested-container-eq"

// nestedPairReached reports the input shape behind F14a: comparing x and y element-wise (lists left to
// right, maps in any key order) reaches two lists or two maps that are themselves elements of the
// compared lists/maps before an unequal or incomparable pair decides.
func nestedPairReached(x, y *rv) bool {
	sameContainer := func(a, b *rv) bool { return (a.k == kList && b.k == kList) || (a.k == kMap && b.k == kMap) }
	switch {
	case x.k == kList && y.k == kList && len(x.elems) == len(y.elems):
		for i, a := range x.elems {
			if sameContainer(a, y.elems[i]) {
				return true
			}
			if refEq(a, y.elems[i]).r != 'T' {
				return false
			}
		}
	case x.k == kMap && y.k == kMap && len(x.keys) == len(y.keys):
		for i, k := range x.keys {
			if j := indexOf(y.keys, k); j >= 0 && sameContainer(x.vals[i], y.vals[j]) {
				return true
			}
		}
	}
	return false
}

func firstOf(ids ...string) string {
	for _, id := range ids {
		if id != "" {
			return id
		}
	}
	return ""
}

// classifyNested names F14a for a failing case of '=', '!=' or x~list whose operands have that shape
// and whose observed outcome is the error of the flat type matrix on two containers.
func classifyNested(op string, x, y *rv, got outcome) string {
	if got.c != 'E' || !(strings.Contains(got.msg, "'=' not defined on list, list") || strings.Contains(got.msg, "'=' not defined on map, map")) {
		return ""
	}
	switch op {
	case "=", "!=":
		if nestedPairReached(x, y) {
			return findingNested
		}
	case "~":
		if y.k == kList && x.k != kList {
			for _, el := range y.elems {
				if nestedPairReached(x, el) {
					return findingNested
				}
				if refEq(x, el).r != 'F' {
					return ""
				}
			}
		}
	}
	return ""
}

// ---------------------------------------------------------------------------------------------
// space 2: transitivity of '<' on triples of the numeric and of the string sub-pool (table look-ups)

func (e *env) checkTransitive(s sink, x, y, z int) {
	lt := func(p, q int) outcome { return e.at(opLt, p, q) }
	if lt(x, y).c == 'T' && lt(y, z).c == 'T' {
		s.Nontrivial(fmt.Sprintf("tr|%d|%d|%d", x, y, z))
		s.Outcome("transitivity premise holds")
		if lt(x, z).c != 'T' {
			s.Violate("law: '<' is transitive on numbers and strings", e.repro("transitivity", x, y, z, "a<b & b<c -> a<c"),
				"a<c true (a<b and b<c are)", "a<c: "+lt(x, z).String(), "")
		}
	} else {
		s.Outcome("transitivity premise false")
	}
}

// ---------------------------------------------------------------------------------------------
// spaces 3 and 4: built-ins derived from the operators, checked for agreement with the tables

var derived2 = []string{"min(a,b)", "max(a,b)", "[a,b].min()", "[a,b].max()", "[a,b].order(e->e)", "[a,b].orderRev(e->e)", "switch a case b: 1 default 0"}
var derived3 = []string{"min(a,b,c)", "max(a,b,c)", "[a,b,c].min()", "[a,b,c].max()", "[a,b,c].order(e->e)", "[a,b,c].orderRev(e->e)"}

const uNaNSort = "min/max/order of three values including NaN: '<' is not a strict weak order there, the result depends on the algorithm"

// same reports that the library value v is the argument value w (not merely an equal one): scalars by
// type and bit pattern, lists by identity.
func same(v, w value.Value) bool {
	switch a := v.(type) {
	case value.Int:
		b, ok := w.(value.Int)
		return ok && a == b
	case value.Float:
		b, ok := w.(value.Float)
		return ok && math.Float64bits(float64(a)) == math.Float64bits(float64(b))
	case value.String:
		b, ok := w.(value.String)
		return ok && a == b
	case value.Bool:
		b, ok := w.(value.Bool)
		return ok && a == b
	case *value.List:
		b, ok := w.(*value.List)
		return ok && a == b
	}
	// maps and closures are not Go-comparable; they can only come back from min/max/order if '<' on
	// them yields a boolean, which the table check reports already
	return v != nil && w != nil && fmt.Sprintf("%T", v) == fmt.Sprintf("%T", w) && render(v) == render(w)
}

// whichArg maps a result value to the position of the argument it is (-1: none of them).
func whichArg(v value.Value, args []value.Value, used []bool) int {
	for p, a := range args {
		if (used == nil || !used[p]) && same(v, a) {
			return p
		}
	}
	return -1
}

func (e *env) checkDerived(s sink, space string, idx []int, which int) {
	exprs := derived2
	names := []string{"a", "b"}
	if len(idx) == 3 {
		exprs = derived3
		names = []string{"a", "b", "c"}
	}
	src := exprs[which]
	args := make([]*rv, len(idx))
	for p, i := range idx {
		args[p] = e.pool[i]
	}
	v, got, vals := e.call(e.bd.gen(src, names...), args...)
	j, k := idx[1], -1
	if len(idx) == 3 {
		k = idx[2]
	}
	rep := e.repro(space, idx[0], j, k, src)
	if got.c == 'E' {
		s.Add("errors_total", 1)
		if got.panicked {
			s.Add("errors_from_panic", 1)
		}
	}
	fnName := src[:strings.IndexAny(src, "( ")]
	if strings.HasPrefix(src, "[") {
		fnName = "list." + src[strings.LastIndex(src, ".")+1:strings.LastIndex(src, "(")]
	}
	if got.escaped {
		s.Violate("a panic left the generated function", rep, "a value or an error", got.String(), "")
		return
	}
	lt := func(p, q int) outcome { return e.at(opLt, p, q) }

	if fnName == "switch" {
		eq := e.at(opEq, idx[0], idx[1])
		s.Outcome("derived switch: a=b " + string(eq.c))
		if r := refEq(args[0], args[1]).r; r == 'T' || r == 'F' {
			s.Nontrivial(fmt.Sprintf("sw|%d|%d", idx[0], idx[1]))
		}
		if refEq(args[0], args[1]).why == uMapOrder {
			return
		}
		var ok bool
		switch eq.c {
		case 'T':
			ok = got.c == 'V' && same(v, value.Int(1))
		case 'F':
			ok = got.c == 'V' && same(v, value.Int(0))
		default:
			ok = got.c == 'E'
		}
		if !ok {
			s.Violate("agreement: switch selects the case exactly when a=b", rep, "1 if a=b, 0 if not, error if a=b fails; a=b: "+eq.String(), got.String(),
				firstOf(classifyNested("=", args[0], args[1], eq), classifyNested("=", args[0], args[1], got)))
		}
		return
	}

	// comparability of the operands among each other according to the '<' table
	n := len(idx)
	allBool, allErr := true, true
	for p := 0; p < n; p++ {
		for q := 0; q < n; q++ {
			if p != q {
				if lt(idx[p], idx[q]).c == 'E' {
					allBool = false
				} else {
					allErr = false
				}
			}
		}
	}
	connected := allBool
	if !allBool && !allErr && n == 3 {
		// comparable pairs (both directions boolean) must connect all three positions, otherwise every
		// algorithm has to compare across an incomparable pair
		cmp := func(p, q int) bool { return lt(idx[p], idx[q]).c != 'E' && lt(idx[q], idx[p]).c != 'E' }
		edges := 0
		for _, pq := range [][2]int{{0, 1}, {0, 2}, {1, 2}} {
			if cmp(pq[0], pq[1]) {
				edges++
			}
		}
		connected = edges >= 2
	}
	s.Outcome(fmt.Sprintf("derived min/max/order: '<' %s between the operands, result %c", map[bool]string{true: "defined", false: "fails"}[allBool], got.c))
	switch {
	case allBool:
		s.Nontrivial(fmt.Sprintf("d|%s|%v", src, idx))
	case !connected:
		if got.c != 'E' {
			s.Violate("agreement: "+fnName+" of operands on which '<' fails must fail", rep, "an error ('<' fails between the operands)", got.String(), "")
		}
		return
	default:
		return // comparability by '<' is not transitive on this triple: reported by the table checks, nothing to agree with
	}
	if got.c == 'E' {
		s.Violate("agreement: "+fnName+" failed although '<' orders all operands", rep, "a value", got.String(), "")
		return
	}
	less := func(p, q int) bool { return lt(idx[p], idx[q]).c == 'T' }
	nan := false
	if n == 3 {
		for _, a := range args {
			if a.k == kFloat && math.IsNaN(a.f) {
				nan = true
			}
		}
	}
	switch fnName {
	case "min", "max", "list.min", "list.max":
		r := whichArg(v, vals, nil)
		if r < 0 {
			s.Violate("agreement: "+fnName+" must return one of its operands", rep, "one of the operands", got.String(), "")
			return
		}
		if nan {
			s.Unspecified(uNaNSort)
			return
		}
		isMin := strings.HasSuffix(fnName, "min")
		for p := 0; p < n; p++ {
			if (isMin && less(p, r)) || (!isMin && less(r, p)) {
				s.Violate("agreement: "+fnName+" disagrees with '<'", rep,
					fmt.Sprintf("an operand with no %s one under '<'; operand %s is %s than the result", map[bool]string{true: "smaller", false: "greater"}[isMin], names[p], map[bool]string{true: "smaller", false: "greater"}[isMin]), got.String(), "")
				return
			}
		}
	case "list.order", "list.orderRev":
		l, ok := v.(*value.List)
		var items []value.Value
		if ok {
			var err error
			items, err = l.ToSlice(funcGen.NewEmptyStack[value.Value]())
			ok = err == nil
		}
		if !ok || len(items) != n {
			s.Violate("agreement: "+fnName+" must return a permutation of the list", rep, "a list of the same elements", got.String(), "")
			return
		}
		used := make([]bool, n)
		perm := make([]int, n)
		for p, it := range items {
			perm[p] = whichArg(it, vals, used)
			if perm[p] < 0 {
				s.Violate("agreement: "+fnName+" must return a permutation of the list", rep, "a list of the same elements", got.String(), "")
				return
			}
			used[perm[p]] = true
		}
		if nan {
			s.Unspecified(uNaNSort)
			return
		}
		rev := fnName == "list.orderRev"
		for p := 0; p < n; p++ {
			for q := p + 1; q < n; q++ {
				if (!rev && less(perm[q], perm[p])) || (rev && less(perm[p], perm[q])) {
					s.Violate("agreement: "+fnName+" disagrees with '<'", rep,
						fmt.Sprintf("no later element %s an earlier one under '<'", map[bool]string{false: "smaller than", true: "greater than"}[rev]), got.String(), "")
					return
				}
			}
		}
	}
}

// ---------------------------------------------------------------------------------------------
// enumeration

// pairsByMax enumerates all ordered pairs over n values ordered by the larger index (simplest first).
func pairsByMax(n int, yield func(i, j int) bool) {
	for m := 0; m < n; m++ {
		for i := 0; i <= m; i++ {
			if !yield(i, m) {
				return
			}
			if i < m && !yield(m, i) {
				return
			}
		}
	}
}

// triplesByMax enumerates all ordered triples over the index set ordered by the largest position.
func triplesByMax(set []int, yield func(x, y, z int) bool) {
	for m := range set {
		for a := 0; a <= m; a++ {
			for b := 0; b <= m; b++ {
				for c := 0; c <= m; c++ {
					if a != m && b != m && c != m {
						continue
					}
					if !yield(set[a], set[b], set[c]) {
						return
					}
				}
			}
		}
	}
}

// ---------------------------------------------------------------------------------------------
// space 5: long lists — membership and equality on lists beyond every size threshold a fast path may have

// longBases: the element sequences (prefixes of 18..40 elements are used).
func longBases() [][]*rv {
	var ints, strs, mixed, floats, withFloat []*rv
	for i := 0; i < 40; i++ {
		ints = append(ints, vi(int64(i)))
		strs = append(strs, vs(fmt.Sprintf("s%d", i)))
		floats = append(floats, vf(float64(i)+0.5))
		if i%2 == 0 {
			mixed = append(mixed, vi(int64(i)))
		} else {
			mixed = append(mixed, vs(fmt.Sprintf("s%d", i)))
		}
		if i == 7 {
			withFloat = append(withFloat, vf(7))
		} else {
			withFloat = append(withFloat, vi(int64(i)))
		}
	}
	return [][]*rv{ints, strs, mixed, floats, withFloat}
}

var longSizes = []int{18, 20, 21, 22, 33, 40}
var longReprs = []string{"eager", "evaluated", "map", "accept", "mixed"}

// longNeedles: the values searched for.
func longNeedles() []*rv {
	return []*rv{vi(0), vi(2), vi(7), vi(19), vi(20), vi(39), vi(40), vi(-1), vf(2), vf(7), vf(19), vf(2.5), vf(20.5), vf(100), vf(math.NaN()),
		vs("s1"), vs("s19"), vs("s20"), vs("s2"), vs("a"), vs(""), vb(true), vb(false), vl(vi(1)), vm("lit", "a", vi(1))}
}

func longCase(b, n, r, x int) (needle, list *rv) {
	return longNeedles()[x], vlr(longReprs[r], longBases()[b][:longSizes[n]]...)
}

// checkLong: x ~ list against the reference relation; list = list in two representations, and against the
// same list with one int written as a float of the same value.
func (e *env) checkLong(s sink, b, n, r, x int) {
	needle, list := longCase(b, n, r, x)
	rep := func(expr string) map[string]any {
		return map[string]any{"tier": e.tier, "space": "long-lists", "expr": expr, "base": b, "size": n, "repr": r, "needle": x, "a": needle.String(), "b": list.String()}
	}
	judge := func(expr string, exp ref, got outcome) {
		s.Outcome("long " + expr + " " + got.class())
		switch exp.r {
		case 'U':
			s.Unspecified(exp.why)
		case 'E':
			if got.c != 'E' {
				s.Violate("incomparable operands: operator must fail with an error", rep(expr), "an error", got.String(), "")
			}
		case 'T', 'F':
			s.Nontrivial(fmt.Sprintf("long|%s|%d|%d|%d|%d", expr, b, n, r, x))
			if got.c != exp.r {
				s.Violate("wrong result on comparable operands", rep(expr), map[byte]string{'T': "true", 'F': "false"}[exp.r]+" (reference relation of the property)", got.String(), "")
			}
		}
	}
	_, got, _ := e.call(e.opFn[opIn], needle, list)
	judge("a ~ b", refOp("~", needle, list), got)
	if x == 0 {
		// equality of the long list with itself in another representation and with a numerically equal twin
		other := vlr(longReprs[(r+1)%len(longReprs)], list.elems...)
		_, got, _ = e.call(e.opFn[opEq], list, other)
		judge("b = b'", refOp("=", list, other), got)
		twin := append([]*rv{}, list.elems...)
		if twin[5].k == kInt {
			twin[5] = vf(float64(twin[5].i))
		}
		tl := vlr(longReprs[r], twin...)
		_, got, _ = e.call(e.opFn[opEq], tl, list)
		judge("b(5 as float) = b", refOp("=", tl, list), got)
		short := vlr(longReprs[r], list.elems[:len(list.elems)-1]...)
		_, got, _ = e.call(e.opFn[opEq], list, short)
		judge("b = b without its last element", refOp("=", list, short), got)
	}
}

func (e *env) runLong(ctx *bex.Ctx) {
	ctx.Space("long-lists")
	var idx int64
	nb, nx := len(longBases()), len(longNeedles())
	for b := 0; b < nb; b++ {
		for n := range longSizes {
			for r := range longReprs {
				for x := 0; x < nx; x++ {
					idx++
					if !ctx.Mine(idx) || ctx.Expired() {
						continue
					}
					ctx.Begin(func() map[string]any { return map[string]any{"space": "long-lists", "base": b, "size": n, "repr": r, "needle": x} })
					ctx.Eval()
					e.checkLong(ctx, b, n, r, x)
				}
			}
		}
	}
	ctx.SpaceDone(fmt.Sprintf("%d element sequences (ints, strings, alternating, floats, ints with one float) x lengths %v x representations %v x %d values searched with ~ (ints, floats equal and unequal to elements, strings, bools, a list, a map); = of each long list with itself in another representation, with one element as float, without its last element", nb, longSizes, longReprs, nx))
}

func run(ctx *bex.Ctx) {
	e := newEnv(ctx.Tier)
	e.allocTables()
	n := len(e.pool)
	ctx.Max("max_pool_size", int64(n))
	ctx.Max("max_numeric_subpool", int64(len(e.num)))
	ctx.Max("max_string_subpool", int64(len(e.str)))
	if ctx.Shard == 0 {
		// the pool composition, for the evidence
		ctx.Sample(map[string]any{"pool": func() []string {
			var l []string
			for _, p := range e.pool {
				l = append(l, p.String())
			}
			return l
		}()})
	}

	ctx.Space("op-tables")
	var idx int64
	pairsByMax(n, func(i, j int) bool {
		idx++
		if !ctx.Mine(idx) {
			return true
		}
		if ctx.Expired() {
			return false
		}
		ctx.Begin(func() map[string]any { return e.repro("op-tables", i, j, -1, "a OP b") })
		ctx.EvalN(int64(len(ops)))
		e.checkOpPair(ctx, i, j)
		if ctx.WantSample() && ctx.Shard%2 == 1 && i < j && e.at(opEq, i, j).c == 'T' && (ctx.Shard%4 == 1 || e.pool[i].k >= kList) {
			row := map[string]any{"a": e.pool[i].String(), "b": e.pool[j].String()}
			for k, op := range ops {
				row[op] = e.at(k, i, j).class()
			}
			ctx.Sample(row)
		}
		return true
	})
	ctx.SpaceDone(fmt.Sprintf("all %d x %d ordered pairs of the pool x 7 operators (= != < > <= >= ~); reference relation + all pair laws", n, n))

	ctx.Space("operand-stability")
	idx = 0
	pairsByMax(n, func(i, j int) bool {
		idx++
		if !ctx.Mine(idx) {
			return true
		}
		if ctx.Expired() {
			return false
		}
		ctx.Begin(func() map[string]any { return e.repro("operand-stability", i, j, -1, "a op b; a op b") })
		ctx.EvalN(int64(2 * len(ops)))
		e.checkStable(ctx, i, j)
		return true
	})
	ctx.SpaceDone(fmt.Sprintf("all %d x %d ordered pairs x 7 operators evaluated twice on the same operand values (second outcome = first), then each operand compared with a fresh copy of itself", n, n))

	ctx.Space("transitivity")
	idx = 0
	for _, set := range [][]int{e.num, e.str} {
		triplesByMax(set, func(x, y, z int) bool {
			idx++
			if !ctx.Mine(idx) {
				return true
			}
			if ctx.Expired() {
				return false
			}
			ctx.Eval()
			e.checkTransitive(ctx, x, y, z)
			return true
		})
	}
	ctx.SpaceDone(fmt.Sprintf("all ordered triples of the numeric sub-pool (%d^3) and of the string sub-pool (%d^3)", len(e.num), len(e.str)))

	ctx.Space("derived-pairs")
	idx = 0
	pairsByMax(n, func(i, j int) bool {
		idx++
		if !ctx.Mine(idx) {
			return true
		}
		if ctx.Expired() {
			return false
		}
		for w := range derived2 {
			ctx.Begin(func() map[string]any { return e.repro("derived-pairs", i, j, -1, derived2[w]) })
			ctx.Eval()
			e.checkDerived(ctx, "derived-pairs", []int{i, j}, w)
		}
		if ctx.WantSample() && ctx.Shard%2 == 0 && i != j && e.at(opLt, i, j).c != 'E' {
			row := map[string]any{"a": e.pool[i].String(), "b": e.pool[j].String()}
			for _, src := range derived2 {
				v, o, _ := e.call(e.bd.gen(src, "a", "b"), e.pool[i], e.pool[j])
				if o.c == 'V' {
					row[src] = render(v)
				} else {
					row[src] = o.class()
				}
			}
			ctx.Sample(row)
		}
		return true
	})
	ctx.SpaceDone(fmt.Sprintf("all %d x %d ordered pairs x {%s}", n, n, strings.Join(derived2, "; ")))

	ctx.Space("derived-triples")
	idx = 0
	all := make([]int, e.curated)
	for i := range all {
		all[i] = i
	}
	triplesByMax(all, func(x, y, z int) bool {
		idx++
		if !ctx.Mine(idx) {
			return true
		}
		if ctx.Expired() {
			return false
		}
		for w := range derived3 {
			ctx.Begin(func() map[string]any { return e.repro("derived-triples", x, y, z, derived3[w]) })
			ctx.Eval()
			e.checkDerived(ctx, "derived-triples", []int{x, y, z}, w)
		}
		return true
	})
	ctx.SpaceDone(fmt.Sprintf("all %d^3 ordered triples of the hand-picked pool x {%s}", e.curated, strings.Join(derived3, "; ")))
	e.runLong(ctx)
}

// ---------------------------------------------------------------------------------------------
// replay

type collect struct{ v []string }

func (c *collect) Violate(what string, repro map[string]any, expected, got, finding string) {
	c.v = append(c.v, fmt.Sprintf("%s [%v]: expected %s, got %s", what, repro["expr"], expected, got))
}
func (c *collect) Unspecified(string) {}
func (c *collect) Add(string, int64)  {}
func (c *collect) Outcome(string)     {}
func (c *collect) Nontrivial(string)  {}

func replay(repro map[string]any) (string, bool) {
	tier, _ := repro["tier"].(string)
	space, _ := repro["space"].(string)
	expr, _ := repro["expr"].(string)
	num := func(k string) int {
		if f, ok := repro[k].(float64); ok {
			return int(f)
		}
		return -1
	}
	i, j, k := num("i"), num("j"), num("k")
	e := newEnv(tier)
	if space == "long-lists" {
		b, n, r, x := num("base"), num("size"), num("repr"), num("needle")
		if b < 0 || b >= len(longBases()) || n < 0 || n >= len(longSizes) || r < 0 || r >= len(longReprs) || x < 0 || x >= len(longNeedles()) {
			return "case does not name a long-list case", false
		}
		c := &collect{}
		e.checkLong(c, b, n, r, x)
		needle, list := longCase(b, n, r, x)
		_, o, _ := e.call(e.opFn[opIn], needle, list)
		out := fmt.Sprintf("%s ~ %s: %s", needle, list, o)
		if len(c.v) > 0 {
			out += " | failing: " + strings.Join(c.v, " || ")
		}
		return out, len(c.v) > 0
	}
	if i < 0 || i >= len(e.pool) || j >= len(e.pool) || k >= len(e.pool) {
		return "case does not name pool values of this tier", false
	}
	e.allocTables()
	c := &collect{}
	var obs []string
	switch space {
	case "op-tables":
		e.checkOpPair(c, i, j)
		if j != i {
			e.checkOpPair(c, j, i)
		}
		for q, op := range ops {
			obs = append(obs, fmt.Sprintf("a %s b: %s", op, e.at(q, i, j)))
		}
	case "operand-stability":
		e.checkStable(c, i, j)
		obs = append(obs, "every operator twice on the same operand objects, then each operand against a fresh copy")
	case "transitivity":
		e.checkTransitive(c, i, j, k)
		obs = append(obs, fmt.Sprintf("a<b: %s, b<c: %s, a<c: %s", e.at(opLt, i, j), e.at(opLt, j, k), e.at(opLt, i, k)))
	case "derived-pairs", "derived-triples":
		ix, ex := []int{i, j}, derived2
		if space == "derived-triples" {
			ix, ex = []int{i, j, k}, derived3
		}
		for w, src := range ex {
			if src == expr {
				e.checkDerived(c, space, ix, w)
				names := []string{"a", "b", "c"}[:len(ix)]
				args := make([]*rv, len(ix))
				for p, q := range ix {
					args[p] = e.pool[q]
				}
				_, o, _ := e.call(e.bd.gen(src, names...), args...)
				obs = append(obs, src+": "+o.String())
			}
		}
	}
	sort.Strings(c.v)
	out := strings.Join(obs, "; ")
	if len(c.v) > 0 {
		out += " | failing: " + strings.Join(c.v, " || ")
	}
	return out, len(c.v) > 0
}

func main() {
	bex.Main(&bex.Check{
		ID:    "C14",
		Level: "exploration",
		Rule:  "each of the 7 operators is generated once as 'a OP b' on value.New() and called with freshly built pool values as arguments (never folded; lazy lists are lazy at every call); the outcomes form tables T[op][x][y] in {true,false,error}; a worker evaluates the entries of its own share of the cases plus the mirrored and element-wise entries the laws look up (each entry once per worker), and checks its share of the cases: (1) per ordered pair the reference relation written from the property text (numbers by exact numeric value, strings, bools for =, lists element-wise left to right, maps key-wise, everything else must fail) and the laws between entries (= symmetric/reflexive, != negation, > flipped <, <= iff < or =, >= flipped <=, < irreflexive/asymmetric, x~list = left-to-right scan of the library's own x=element); (2) transitivity of < on all triples of the numeric and string sub-pools; (3)(4) min, max, list.min, list.max, order, orderRev, switch on all pairs and all triples must agree with the tables (result is an operand / a permutation, nothing smaller than a minimum, no descent in an ordered list, error exactly when '<' / '=' fails between the operands). An error that is a recovered Go panic (seen through the library's own log line) counts as an error here and is tallied in errors_from_panic. distinct_nontrivial = cases whose operands are comparable (reference outcome is a boolean / transitivity premise holds / '<' or '=' is defined between all operands)",
		Assumptions: []string{
			"A1: '<' on numbers is the order of their exact numeric values with NaN unordered (the property states numeric comparison for '=' and only the order laws for '<'); on strings only the laws are checked, no particular collation is assumed",
			"lists are compared element-wise left to right stopping at the first decisive pair (DESIGN.md §3.2); cases where the property leaves the outcome open (closure=closure, order of bools, string~string, string~map, list~list, mixed unequal/incomparable map entries, incomparable pair in the common prefix of lists of different length, sorting three values including NaN) are excluded from the oracle and counted under unspecified_excluded",
			"ints are restricted to |x| < 2^53 as in the property's quantifier",
		},
		QuickBudget: 55e9, ThoroughBudget: 20 * 60e9,
		CrashIsViolation: true,
		Run:              run,
		Replay:           replay,
	})
}
