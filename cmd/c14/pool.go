package main

import (
	"fmt"
	"math"
	"strconv"
	"strings"

	"github.com/hneemann/parser2/funcGen"
	"github.com/hneemann/parser2/listMap"
	"github.com/hneemann/parser2/value"
)

// rv is the check's own description of a value: the reference oracle works on it alone, the library
// value is built from it (freshly for every evaluation, so that a lazy list is lazy every time).
type kind int

const (
	kInt kind = iota
	kFloat
	kStr
	kBool
	kList
	kMap
	kClosure
)

type rv struct {
	k     kind
	i     int64
	f     float64
	s     string
	b     bool
	elems []*rv    // list elements
	keys  []string // map keys in construction order
	vals  []*rv
	// repr selects the library representation.
	//   list:    eager (NewList) | conv (Go-built sized lazy list) | map (library l.map(e->e), sized lazy)
	//            | accept (library l.accept(e->true), unsized lazy) | concat (library front+back, unsized lazy)
	//            | mixed / mixedBack (front+back where exactly one part has a known size)
	//   map:     lit (listMap, what a map literal produces) | real (RealMap, Go map) | put (AppendMap chain)
	//            | merge (MergeMap of two halves) | replace (ReplaceMap over a map with other values)
	//   closure: source text of the closure; id distinguishes separately created closures
	repr string
	id   int
}

func vi(i int64) *rv                { return &rv{k: kInt, i: i} }
func vf(f float64) *rv              { return &rv{k: kFloat, f: f} }
func vs(s string) *rv               { return &rv{k: kStr, s: s} }
func vb(b bool) *rv                 { return &rv{k: kBool, b: b} }
func vl(e ...*rv) *rv               { return &rv{k: kList, elems: e, repr: "eager"} }
func vlr(repr string, e ...*rv) *rv { return &rv{k: kList, elems: e, repr: repr} }
func vc(src string, id int) *rv     { return &rv{k: kClosure, repr: src, id: id} }

// vm builds a map description from alternating key, value arguments.
func vm(repr string, kv ...any) *rv {
	m := &rv{k: kMap, repr: repr}
	for i := 0; i < len(kv); i += 2 {
		m.keys = append(m.keys, kv[i].(string))
		m.vals = append(m.vals, kv[i+1].(*rv))
	}
	return m
}

func (r *rv) String() string {
	switch r.k {
	case kInt:
		return strconv.FormatInt(r.i, 10)
	case kFloat:
		if r.f == 0 && math.Signbit(r.f) {
			return "float(-0)"
		}
		return "float(" + strconv.FormatFloat(r.f, 'g', -1, 64) + ")"
	case kStr:
		return strconv.Quote(r.s)
	case kBool:
		return strconv.FormatBool(r.b)
	case kList:
		var p []string
		for _, e := range r.elems {
			p = append(p, e.String())
		}
		s := "[" + strings.Join(p, ",") + "]"
		if r.repr != "eager" {
			s += "#" + r.repr
		}
		return s
	case kMap:
		var p []string
		for i, k := range r.keys {
			p = append(p, k+":"+r.vals[i].String())
		}
		s := "{" + strings.Join(p, ",") + "}"
		if r.repr != "lit" {
			s += "#" + r.repr
		}
		return s
	case kClosure:
		return fmt.Sprintf("closure#%d(%s)", r.id, r.repr)
	}
	return "?"
}

// hasNaN / hasClosure: the property's reflexivity clause exempts values containing NaN or closures.
func (r *rv) hasNaN() bool {
	if r.k == kFloat && math.IsNaN(r.f) {
		return true
	}
	for _, e := range r.elems {
		if e.hasNaN() {
			return true
		}
	}
	for _, e := range r.vals {
		if e.hasNaN() {
			return true
		}
	}
	return false
}

func (r *rv) hasClosure() bool {
	if r.k == kClosure {
		return true
	}
	for _, e := range r.elems {
		if e.hasClosure() {
			return true
		}
	}
	for _, e := range r.vals {
		if e.hasClosure() {
			return true
		}
	}
	return false
}

// ---------------------------------------------------------------------------------------------
// building library values

type fn = funcGen.Func[value.Value]

type builder struct {
	fg       *value.FunctionGenerator
	fns      map[string]fn
	closures map[int]value.Value
	// replProbe: 0 not probed, 1 replace ignores replacement keys outside the receiver, 2 it adds them
	replProbe int
}

func newBuilder() *builder {
	return &builder{fg: value.New(), fns: map[string]fn{}, closures: map[int]value.Value{}}
}

// gen generates src once (arguments a, b, c … as named) and caches the function.
func (bd *builder) gen(src string, args ...string) fn {
	key := src + "|" + strings.Join(args, ",")
	if f, ok := bd.fns[key]; ok {
		return f
	}
	f, _, err := bd.fg.Generate(src, args...)
	if err != nil {
		panic(fmt.Sprintf("c14 harness: cannot generate %q: %v", src, err))
	}
	bd.fns[key] = f
	return f
}

// replaceAddsOutsideKeys probes once, on the real code, which of the two readings of replace the tree
// implements for replacement keys the receiver does not have (ignored on the pinned tree).
func (bd *builder) replaceAddsOutsideKeys() bool {
	if bd.replProbe == 0 {
		bd.replProbe = 1
		v := bd.must("{a:1}.replace(o->{c:2}).size()", nil)
		if i, ok := v.(value.Int); ok && i == 2 {
			bd.replProbe = 2
		}
	}
	return bd.replProbe == 2
}

func (bd *builder) must(src string, argNames []string, args ...value.Value) value.Value {
	v, err := bd.gen(src, argNames...)(funcGen.NewStack(args...))
	if err != nil {
		panic(fmt.Sprintf("c14 harness: building a pool value with %q failed: %v", src, err))
	}
	return v
}

// build creates a fresh library value for r.
func (bd *builder) build(r *rv) value.Value {
	switch r.k {
	case kInt:
		return value.Int(r.i)
	case kFloat:
		return value.Float(r.f)
	case kStr:
		return value.String(r.s)
	case kBool:
		return value.Bool(r.b)
	case kClosure:
		if c, ok := bd.closures[r.id]; ok {
			return c
		}
		// generated separately for every id: two ids with the same text are two closures
		f, _, err := bd.fg.Generate(r.repr)
		if err != nil {
			panic(err)
		}
		c, err := f(funcGen.NewStack[value.Value]())
		if err != nil {
			panic(err)
		}
		bd.closures[r.id] = c
		return c
	case kList:
		items := make([]value.Value, len(r.elems))
		for i, e := range r.elems {
			items[i] = bd.build(e)
		}
		switch r.repr {
		case "eager":
			return value.NewList(items...)
		case "conv":
			return value.NewListConvert(func(v value.Value) (value.Value, error) { return v, nil }, items)
		case "map":
			return bd.must("l.map(e->e)", []string{"l"}, value.NewList(items...))
		case "accept":
			return bd.must("l.accept(e->true)", []string{"l"}, value.NewList(items...))
		case "concat":
			h := len(items) / 2
			return bd.must("p+q", []string{"p", "q"}, value.NewList(items[:h:h]...), value.NewList(items[h:]...))
		case "evaluated": // lazily produced, then materialised by the library
			return bd.must("l.map(e->e).eval()", []string{"l"}, value.NewList(items...))
		case "mixed": // front of unknown size + back of known size
			h := len(items) / 2
			return bd.must("p.accept(e->true)+q", []string{"p", "q"}, value.NewList(items[:h:h]...), value.NewList(items[h:]...))
		case "mixedBack": // front of known size + back of unknown size
			h := (len(items) + 1) / 2
			return bd.must("p+q.accept(e->true)", []string{"p", "q"}, value.NewList(items[:h:h]...), value.NewList(items[h:]...))
		}
	case kMap:
		vals := make([]value.Value, len(r.vals))
		for i, e := range r.vals {
			vals[i] = bd.build(e)
		}
		lit := func(from, to int) value.Value {
			lm := listMap.New[value.Value](to - from)
			for i := from; i < to; i++ {
				lm = lm.Append(r.keys[i], vals[i])
			}
			return value.NewMap(lm)
		}
		switch r.repr {
		case "lit":
			return lit(0, len(vals))
		case "real":
			rm := value.RealMap{}
			for i, k := range r.keys {
				rm[k] = vals[i]
			}
			return value.NewMap(rm)
		case "put":
			m := lit(0, 0)
			for i, k := range r.keys {
				m = bd.must("m.put(k,v)", []string{"m", "k", "v"}, m, value.String(k), vals[i])
			}
			return m
		case "merge":
			h := len(vals) / 2
			return bd.must("p+q", []string{"p", "q"}, lit(0, h), lit(h, len(vals)))
		case "replace":
			// original: same keys, every value replaced by the string "old"; replacement: the real values
			lm := listMap.New[value.Value](len(vals))
			for _, k := range r.keys {
				lm = lm.Append(k, value.String("old"))
			}
			return bd.must("m.replace(o->r)", []string{"m", "r"}, value.NewMap(lm), lit(0, len(vals)))
		case "replaceX":
			// the real map with a replacement that names a key the map does not have ({c:2}, a key and a
			// value that other pool members own): replace ignores such keys, so the abstract value is
			// unchanged — every operator has to agree with that, whichever side the map stands on
			if bd.replaceAddsOutsideKeys() {
				return lit(0, len(vals)) // a tree on which replace adds such keys: nothing hidden to test
			}
			return bd.must("m.replace(o->r)", []string{"m", "r"}, lit(0, len(vals)), value.NewMap(listMap.New[value.Value](1).Append("c", value.Int(2))))
		}
	}
	panic("c14 harness: cannot build " + r.String())
}

// ---------------------------------------------------------------------------------------------
// the pool

const maxExactInt = 1<<53 - 1

// makePool returns the value pool, ordered simplest first. numIdx and strIdx are the numeric and the
// string sub-pool (indices into the pool) used for the transitivity space. The first `curated` entries
// are the hand-picked pool (pairs and triples); a generated family is appended (every list of length
// 1..2 over 9 atoms, every map over the keys a, b with 6 values, representations rotating; thorough:
// also every list of length 3 over 5 atoms) that takes part in the pair spaces only.
func makePool(thorough bool) (pool []*rv, numIdx, strIdx []int, curated int) {
	add := func(r ...*rv) { pool = append(pool, r...) }

	// ints (|x| < 2^53)
	add(vi(0), vi(1), vi(-1), vi(2), vi(3), vi(maxExactInt), vi(-maxExactInt))
	if thorough {
		add(vi(-2), vi(10), vi(maxExactInt-1), vi(1<<52))
	}
	// floats: signed zeros, neighbours of ints, the 2^53 border, infinities, NaN
	add(vf(0), vf(math.Copysign(0, -1)), vf(1), vf(1.5), vf(-1), vf(2),
		vf(math.Nextafter(1, 2)), vf(math.Nextafter(1, 0)),
		vf(maxExactInt), vf(1<<53), vf(-maxExactInt),
		vf(math.Inf(1)), vf(math.Inf(-1)), vf(math.NaN()),
		// finite floats outside the int range (2^63 is the first): a conversion to int does not hold them
		vf(1<<63), vf(1e19), vf(-1e19))
	if thorough {
		add(vf(0.5), vf(-1.5), vf(3), vf(math.Nextafter(2, 3)), vf(math.Nextafter(-1, 0)), vf(maxExactInt-1), vf(-(1 << 53)),
			vf(math.MaxFloat64), vf(math.SmallestNonzeroFloat64), vf(-math.SmallestNonzeroFloat64), vf(1e300))
	}
	for i := range pool {
		numIdx = append(numIdx, i)
	}
	// strings
	s0 := len(pool)
	add(vs(""), vs("a"), vs("ab"), vs("b"), vs("B"), vs("ä"), vs("日本"), vs("1"))
	if thorough {
		add(vs(" "), vs("a "), vs("aa"), vs("😀"), vs("z"), vs("a\x00"), vs("true"))
	}
	for i := s0; i < len(pool); i++ {
		strIdx = append(strIdx, i)
	}
	// bools
	add(vb(false), vb(true))

	// closures
	id, idB, id2 := vc("x->x", 1), vc("x->x", 2), vc("(x,y)->x", 3)
	add(id, idB, id2)

	// lists, eager and lazy, nested
	add(vl(), vlr("map"), vl(vi(1)), vl(vf(1)), vlr("map", vi(1)), vlr("accept", vi(1)),
		vl(vi(1), vi(2)), vlr("conv", vi(1), vi(2)), vlr("concat", vf(1), vf(2)), vl(vi(2), vi(1)),
		vl(vi(1), vi(2), vi(3)), vlr("accept", vi(1), vi(2), vi(3)),
		vlr("mixed", vi(1)), vlr("mixed", vi(1), vi(2)), vlr("mixedBack", vf(1), vi(2), vi(3)), vlr("mixedBack", vi(1)),
		vl(vs("a")), vl(vi(1), vs("a")), vl(vs("a"), vi(1)), vlr("map", vs("a"), vi(1)),
		vl(vb(true)), vl(vf(math.NaN())), vl(id),
		vl(vl(vi(1)), vl(vi(2))), vlr("map", vlr("accept", vf(1)), vlr("conv", vi(2))), vl(vl(vi(1)), vl(vi(3))),
		vl(vi(1), vl(vi(1))), vl(vl(vi(1)), vi(1)),
		vl(vm("lit", "a", vi(1))), vlr("map", vm("real", "a", vf(1))))
	if thorough {
		add(vl(vi(2)), vl(vi(1), vi(1)), vl(vi(1), vi(2), vi(4)), vlr("concat", vi(1), vi(2), vi(3)),
			vl(vs("a"), vs("b")), vl(vs("b"), vs("a")), vl(vl()), vl(vl(), vl()), vl(vl(vl(vi(1)))), vlr("conv", vlr("map", vlr("accept", vf(1)))),
			vl(vi(1), vf(math.NaN())), vl(vf(math.NaN()), vi(1)), vl(vb(true), vb(false)), vl(idB), vl(vi(0), id),
			vl(vm("lit")), vl(vm("put", "a", vi(1), "b", vi(2))))
	}

	// maps: the same abstract map {a:1,b:2} in five representations and both key orders, with int and
	// float values; neighbours differing in a value, in a key, in size; incomparable values; nesting
	add(vm("lit"), vm("real"),
		vm("lit", "a", vi(1), "b", vi(2)), vm("lit", "b", vi(2), "a", vi(1)), vm("real", "a", vi(1), "b", vi(2)),
		vm("put", "a", vi(1), "b", vi(2)), vm("merge", "b", vf(2), "a", vf(1)), vm("replace", "a", vf(1), "b", vi(2)),
		vm("replaceX", "a", vi(1), "b", vi(2)), vm("replaceX", "a", vi(1)),
		vm("lit", "a", vi(1), "b", vi(3)), vm("real", "a", vi(1), "c", vi(2)), vm("lit", "a", vi(1)), vm("put", "b", vi(2)),
		vm("lit", "a", vs("x"), "b", vi(2)), vm("real", "a", vs("x"), "b", vi(3)),
		vm("lit", "a", vl(vi(1)), "b", vm("lit", "c", vi(1))), vm("real", "b", vm("put", "c", vf(1)), "a", vlr("map", vi(1))),
		vm("lit", "a", vf(math.NaN())), vm("lit", "f", id))
	if thorough {
		add(vm("put", "a", vi(1)), vm("merge", "a", vi(1), "b", vi(2), "c", vi(3)), vm("real", "c", vi(3), "b", vi(2), "a", vi(1)),
			vm("replace", "a", vi(1), "b", vi(2), "c", vi(4)), vm("lit", "a", vs("1")), vm("lit", "", vi(1)), vm("real", "", vf(1)),
			vm("lit", "a", vm("lit")), vm("real", "a", vm("real")), vm("lit", "a", vl()), vm("put", "a", vlr("accept")),
			vm("merge", "a", vs("x"), "b", vs("y")), vm("lit", "a", vb(true)), vm("lit", "f", idB))
	}
	curated = len(pool)
	seen := map[string]bool{}
	for _, p := range pool {
		seen[p.String()] = true
	}
	addNew := func(r *rv) {
		if !seen[r.String()] {
			seen[r.String()] = true
			pool = append(pool, r)
		}
	}
	atoms := []*rv{vi(1), vf(1), vi(2), vs("a"), vb(true), vf(math.NaN()), vl(vi(1)), vlr("map", vf(2)), vm("lit", "a", vi(1))}
	lreprs := []string{"eager", "conv", "map", "accept", "concat", "mixed", "mixedBack"}
	cnt := 0
	for _, x := range atoms {
		addNew(vlr(lreprs[cnt%len(lreprs)], x))
		cnt++
	}
	for _, x := range atoms {
		for _, y := range atoms {
			addNew(vlr(lreprs[cnt%len(lreprs)], x, y))
			cnt++
		}
	}
	mvals := []*rv{vi(1), vf(1), vi(2), vs("a"), vl(vi(1)), vm("lit", "a", vi(1))}
	mreprs := []string{"lit", "real", "put", "merge", "replace"}
	for _, k := range []string{"a", "b"} {
		for _, x := range mvals {
			addNew(vm(mreprs[cnt%len(mreprs)], k, x))
			cnt++
		}
	}
	for _, x := range mvals {
		for _, y := range mvals {
			if cnt%2 == 0 {
				addNew(vm(mreprs[cnt%len(mreprs)], "a", x, "b", y))
			} else {
				addNew(vm(mreprs[cnt%len(mreprs)], "b", y, "a", x))
			}
			cnt++
		}
	}
	if thorough {
		atoms3 := []*rv{vi(1), vf(1), vs("a"), vf(math.NaN()), vl(vi(1))}
		for _, x := range atoms3 {
			for _, y := range atoms3 {
				for _, z := range atoms3 {
					addNew(vlr(lreprs[cnt%len(lreprs)], x, y, z))
					cnt++
				}
			}
		}
	}
	return
}
