package main

import (
	"math"
	"math/big"
)

// The reference relation, written from the property text alone (it never calls the library).
//
// Outcomes: 'T' true, 'F' false, 'E' the operator must fail with an error (incomparable operands),
// 'B' some boolean (comparable, but the property fixes the value only through the laws: the order of
// strings), 'U' the property text does not determine the outcome (why says which clause is silent).
type ref struct {
	r   byte
	why string
}

var (
	rT = ref{r: 'T'}
	rF = ref{r: 'F'}
	rE = ref{r: 'E'}
	rB = ref{r: 'B'}
)

const (
	uClosure  = "'=' / '!=' / switch between two closures: the property exempts closures from reflexivity but does not say whether two closures are comparable"
	uBoolOrd  = "'<' '>' '<=' '>=' on two bools: the property names numbers and strings for '<' and is silent about bools"
	uSubstr   = "string ~ string (substring test): an overload of '~' the property does not mention"
	uKeyIn    = "string ~ map (key test): an overload of '~' the property does not mention"
	uListList = "list ~ list: the library documents 'contains all items' (multiset inclusion) for this shape, the property defines x~list only as 'some element equals x'"
	uMapOrder = "map = map where one key decides 'unequal' (or is missing) and another key holds incomparable values: no key order is defined, so 'false' and 'error' are both admissible"
	uLenFirst = "list = list of different lengths whose common prefix meets an incomparable pair before an unequal one: whether the length or the elements decide first is not stated"
)

func isNum(x *rv) bool { return x.k == kInt || x.k == kFloat }

// numCmp compares two numbers by exact numeric value. unordered is true if one of them is NaN.
func numCmp(x, y *rv) (cmp int, unordered bool) {
	toBig := func(v *rv) (b *big.Float, inf int, nan bool) {
		if v.k == kInt {
			return new(big.Float).SetInt64(v.i), 0, false
		}
		switch {
		case math.IsNaN(v.f):
			return nil, 0, true
		case math.IsInf(v.f, 1):
			return nil, 1, false
		case math.IsInf(v.f, -1):
			return nil, -1, false
		}
		return new(big.Float).SetFloat64(v.f), 0, false
	}
	a, ai, an := toBig(x)
	b, bi, bn := toBig(y)
	if an || bn {
		return 0, true
	}
	if ai != 0 || bi != 0 {
		switch {
		case ai < bi:
			return -1, false
		case ai > bi:
			return 1, false
		}
		return 0, false
	}
	return a.Cmp(b), false
}

func tf(b bool) ref {
	if b {
		return rT
	}
	return rF
}

// refEq: numbers by numeric value (NaN equals nothing), strings with strings, bools with bools, lists
// element-wise left to right stopping at the first decisive pair (DESIGN.md §3.2), maps key-wise
// independent of representation and key order; everything else is incomparable.
func refEq(x, y *rv) ref {
	switch {
	case isNum(x) && isNum(y):
		c, un := numCmp(x, y)
		return tf(!un && c == 0)
	case x.k == kStr && y.k == kStr:
		return tf(x.s == y.s)
	case x.k == kBool && y.k == kBool:
		return tf(x.b == y.b)
	case x.k == kClosure && y.k == kClosure:
		return ref{'U', uClosure}
	case x.k == kList && y.k == kList:
		n := len(x.elems)
		if len(y.elems) < n {
			n = len(y.elems)
		}
		sameLen := len(x.elems) == len(y.elems)
		for i := 0; i < n; i++ {
			switch r := refEq(x.elems[i], y.elems[i]); r.r {
			case 'F', 'U':
				return r
			case 'E':
				if !sameLen {
					return ref{'U', uLenFirst}
				}
				return r
			}
		}
		return tf(sameLen)
	case x.k == kMap && y.k == kMap:
		var nF, nE int
		var firstU *ref
		for i, k := range x.keys {
			j := indexOf(y.keys, k)
			if j < 0 {
				nF++
				continue
			}
			switch r := refEq(x.vals[i], y.vals[j]); r.r {
			case 'F':
				nF++
			case 'E':
				nE++
			case 'U':
				if firstU == nil {
					firstU = &r
				}
			}
		}
		for _, k := range y.keys {
			if indexOf(x.keys, k) < 0 {
				nF++
			}
		}
		switch {
		case firstU != nil && firstU.why == uMapOrder:
			return *firstU
		case nF > 0 && nE > 0:
			return ref{'U', uMapOrder}
		case firstU != nil && nF == 0:
			// an undetermined pair decides unless another key already makes the maps unequal
			return *firstU
		case firstU != nil && nF > 0:
			// e.g. {f:closure,a:1} = {f:closure,a:2}: false if closures compare, error otherwise, in an order nobody defines
			return ref{'U', uMapOrder}
		case nE > 0:
			return rE
		}
		return tf(nF == 0)
	}
	return rE
}

func indexOf(l []string, s string) int {
	for i, e := range l {
		if e == s {
			return i
		}
	}
	return -1
}

// refLess: numbers by numeric value (assumption A1: '<' on numbers is the order of the reals, NaN
// unordered); strings: comparable, value constrained by the laws only; bools: silent; rest: error.
func refLess(x, y *rv) ref {
	switch {
	case isNum(x) && isNum(y):
		c, un := numCmp(x, y)
		return tf(!un && c < 0)
	case x.k == kStr && y.k == kStr:
		if x.s == y.s {
			return rF // irreflexive
		}
		return rB
	case x.k == kBool && y.k == kBool:
		return ref{'U', uBoolOrd}
	}
	return rE
}

func refLessEq(x, y *rv) ref {
	switch {
	case isNum(x) && isNum(y):
		c, un := numCmp(x, y)
		return tf(!un && c <= 0)
	case x.k == kStr && y.k == kStr:
		if x.s == y.s {
			return rT
		}
		return rB
	case x.k == kBool && y.k == kBool:
		return ref{'U', uBoolOrd}
	}
	return rE
}

// refIn: x ~ y.
func refIn(x, y *rv) ref {
	switch {
	case y.k == kList && x.k == kList:
		return ref{'U', uListList}
	case y.k == kList:
		for _, e := range y.elems {
			switch r := refEq(x, e); r.r {
			case 'T', 'E', 'U':
				return r // hit, or error at the first incomparable pair before a hit
			}
		}
		return rF
	case y.k == kMap && x.k == kStr:
		return ref{'U', uKeyIn}
	case y.k == kStr && x.k == kStr:
		return ref{'U', uSubstr}
	}
	return rE
}

func refOp(op string, x, y *rv) ref {
	switch op {
	case "=":
		return refEq(x, y)
	case "!=":
		r := refEq(x, y)
		switch r.r {
		case 'T':
			return rF
		case 'F':
			return rT
		}
		return r
	case "<":
		return refLess(x, y)
	case ">":
		return refLess(y, x)
	case "<=":
		return refLessEq(x, y)
	case ">=":
		return refLessEq(y, x)
	case "~":
		return refIn(x, y)
	}
	panic("refOp " + op)
}

// multisetIn is the model of DESIGN.md Appendix B for list ~ list (informational only: the case is
// outside the property text): every element of x can be matched with a distinct equal element of y.
// It returns 'T'/'F', or '?' when an incomparable or undetermined pair is met on the way.
func multisetIn(x, y *rv) byte {
	look := append([]*rv(nil), x.elems...)
	if len(look) == 0 {
		return 'T'
	}
	for _, v := range y.elems {
		for i, lf := range look {
			r := refEq(lf, v)
			if r.r == 'E' || r.r == 'U' {
				return '?'
			}
			if r.r == 'T' {
				look = append(look[:i:i], look[i+1:]...)
				break
			}
		}
		if len(look) == 0 {
			return 'T'
		}
	}
	return 'F'
}
