package main

// The independent oracle of C20: reference axis (exact edges), reference histogram, description
// check, record pools, and the classifier of finding F20.

import (
	"fmt"
	"math"
	"math/big"
	"regexp"
	"strings"
)

type axisG struct {
	Start, Size float64
	Count       int
}

type rec struct{ X, Y, W float64 }

type problem struct{ what, expected, got, finding string }

var (
	p62 = math.Ldexp(1, 62)
	p63 = math.Ldexp(1, 63)
	p64 = math.Ldexp(1, 64)
	p70 = math.Ldexp(1, 70)
)

// axisRef is the reference model of one axis: edges[k] = start + k*size for k = 0..count, computed
// with rationals and required to be exactly representable.
type axisRef struct {
	axisG
	edges    []float64
	judgedOf map[float64]bool
}

func rat(f float64) *big.Rat { return new(big.Rat).SetFloat64(f) }

// exactFloat returns the float64 nearest to r and whether it equals r. The equality is decided by
// converting back (the exact flag of big.Rat.Float64 reports true for |r| below half the smallest
// denormal, where the result is 0).
func exactFloat(r *big.Rat) (float64, bool) {
	f, _ := r.Float64()
	if math.IsInf(f, 0) || math.IsNaN(f) {
		return f, false
	}
	return f, rat(f).Cmp(r) == 0
}

func newAxisRef(g axisG) *axisRef {
	a := &axisRef{axisG: g, judgedOf: map[float64]bool{}}
	for k := 0; k <= g.Count; k++ {
		e := new(big.Rat).Add(rat(g.Start), new(big.Rat).Mul(big.NewRat(int64(k), 1), rat(g.Size)))
		f, exact := exactFloat(e)
		if !exact {
			panic(fmt.Sprintf("grid %v: edge %d is not exactly representable", g, k))
		}
		a.edges = append(a.edges, f)
	}
	return a
}

func (a *axisRef) end() float64 { return a.edges[a.Count] }

// index is the bin of x by the property's definition: the underflow bin 0 below start, bin i for
// start+(i-1)*size <= x < start+i*size, the overflow bin count+1 from start+count*size.
// Only comparisons of exactly representable values.
func (a *axisRef) index(x float64) int {
	if x < a.edges[0] {
		return 0
	}
	for i := 1; i <= a.Count; i++ {
		if x < a.edges[i] {
			return i
		}
	}
	return a.Count + 1
}

// interval returns the bounds of bin j.
func (a *axisRef) interval(j int) (hasMin bool, min float64, hasMax bool, max float64) {
	if j > 0 {
		hasMin, min = true, a.edges[j-1]
	}
	if j <= a.Count {
		hasMax, max = true, a.edges[j]
	}
	return
}

// exactQuotient reports that x-start and (x-start)/size are exactly representable, i.e. the
// library's float64 index computation involves no rounding.
func (a *axisRef) exactQuotient(x float64) bool {
	d := new(big.Rat).Sub(rat(x), rat(a.Start))
	if _, exact := exactFloat(d); !exact {
		return false
	}
	_, exact := exactFloat(new(big.Rat).Quo(d, rat(a.Size)))
	return exact
}

// nearEdge reports that x is closer to some edge than 4 ulp of max(|x|,|start|): a rounding error
// of the library's computation could move it across the edge.
func (a *axisRef) nearEdge(x float64) bool {
	m := math.Max(math.Abs(x), math.Abs(a.Start))
	ulp := math.Nextafter(m, math.Inf(1)) - m
	if m == 0 {
		ulp = math.SmallestNonzeroFloat64
	}
	if math.IsInf(ulp, 0) { // m = MaxFloat64
		ulp = m - math.Nextafter(m, 0)
	}
	for _, e := range a.edges {
		if math.Abs(x-e) <= 4*ulp {
			return true
		}
	}
	return false
}

// judged: the record is inside the oracle (see the assumption in main.go).
func (a *axisRef) judged(x float64) bool {
	j, ok := a.judgedOf[x]
	if !ok {
		j = a.exactQuotient(x) || !a.nearEdge(x)
		a.judgedOf[x] = j
	}
	return j
}

// overflowsInt is the classifier predicate of F20 on one coordinate: the quotient the library
// computes, floor((x-start)/size) in float64, is >= 2^63 and cannot be converted to int.
func (a *axisRef) overflowsInt(x float64) bool {
	return math.Floor((x-a.Start)/a.Size) >= p63
}

// refHist is the reference histogram ([1][count+2] in one dimension, [xcount+2][ycount+2] in two).
// With f20 set it is the histogram predicted by the root cause of F20: coordinates whose quotient
// overflows int are counted in bin 0 of their axis.
func refHist(dim int, ax, ay *axisRef, recs []rec, f20 bool) [][]float64 {
	idx := func(a *axisRef, x float64) int {
		if f20 && a.overflowsInt(x) {
			return 0
		}
		return a.index(x)
	}
	if dim == 1 {
		h := make([]float64, ax.Count+2)
		for _, r := range recs {
			h[idx(ax, r.X)] += r.W
		}
		return [][]float64{h}
	}
	h := make([][]float64, ax.Count+2)
	for i := range h {
		h[i] = make([]float64, ay.Count+2)
	}
	for _, r := range recs {
		h[idx(ax, r.X)][idx(ay, r.Y)] += r.W
	}
	return h
}

func sameHist(a, b [][]float64) bool {
	if len(a) != len(b) {
		return false
	}
	for i := range a {
		if len(a[i]) != len(b[i]) {
			return false
		}
		for j := range a[i] {
			if a[i][j] != b[i][j] {
				return false
			}
		}
	}
	return true
}

func fmtHist(dim int, h [][]float64) string {
	if dim == 1 {
		return "values=" + fmtRow(h[0])
	}
	s := make([]string, len(h))
	for i, r := range h {
		s[i] = fmtRow(r)
	}
	return "rows=[" + strings.Join(s, " ") + "]"
}

// checkWhole compares the library's binning of recs with the reference.
func checkWhole(dim int, ax, ay *axisRef, recs []rec, res *result) (problems []problem, unspec []string) {
	// records the oracle does not judge
	for _, r := range recs {
		if !ax.judged(r.X) || (dim == 2 && !ay.judged(r.Y)) {
			// not judged; recorded for information whether the library agrees with exact arithmetic
			if sameHist(refHist(dim, ax, ay, recs, false), res.vals) {
				return nil, []string{unspecUlp + " [here the library agrees with the exact-arithmetic reference]"}
			}
			return nil, []string{unspecUlp + " [here the library places x on the other side of the edge]"}
		}
	}
	// shape: one value and one description per bin
	rows, cols := 1, ax.Count+2
	if dim == 2 {
		rows, cols = ax.Count+2, ay.Count+2
	}
	shapeOK := len(res.vals) == rows
	for _, r := range res.vals {
		shapeOK = shapeOK && len(r) == cols
	}
	if !shapeOK {
		problems = append(problems, problem{what: "wrong number of bins", expected: fmt.Sprintf("%d x %d bin values (count+2 per axis: underflow, count bins, overflow)", rows, cols), got: fmtHist(dim, res.vals)})
		return
	}
	want := refHist(dim, ax, ay, recs, false)

	// conservation of mass
	var sumW, sumB float64
	for _, r := range recs {
		sumW += r.W
	}
	for _, row := range res.vals {
		for _, v := range row {
			sumB += v
		}
	}
	if sumB != sumW {
		problems = append(problems, problem{what: "mass not conserved: the bin values do not sum to the sum of the per-element values",
			expected: fmt.Sprintf("sum %s; %s", fnum(sumW), fmtHist(dim, want)), got: fmt.Sprintf("sum %s; %s", fnum(sumB), fmtHist(dim, res.vals))})
	} else if !sameHist(want, res.vals) {
		// every element in exactly the bin whose interval contains it
		finding := ""
		if alt := refHist(dim, ax, ay, recs, true); !sameHist(alt, want) && sameHist(alt, res.vals) {
			finding = findingF20
		}
		problems = append(problems, problem{what: "element counted in a bin whose interval does not contain it",
			expected: fmtHist(dim, want) + " (bin 0 = x < start, bin i = start+(i-1)*size <= x < start+i*size, last = x >= start+count*size)", got: fmtHist(dim, res.vals), finding: finding})
	}

	// descriptions
	rounded := false
	chk := func(name string, a *axisRef, ds []desc) {
		if len(ds) != a.Count+2 {
			problems = append(problems, problem{what: "wrong number of bin descriptions in " + name, expected: fmt.Sprint(a.Count + 2), got: fmt.Sprint(len(ds))})
			return
		}
		for j, d := range ds {
			switch v, why := descVerdict(a, j, d); v {
			case descRounded:
				rounded = true
			case descBad:
				hasMin, min, hasMax, max := a.interval(j)
				problems = append(problems, problem{what: fmt.Sprintf("description %s[%d] does not match the interval of the bin: %s", name, j, why),
					expected: desc{HasMin: hasMin, Min: min, HasMax: hasMax, Max: max}.String() + " and a str naming these bounds", got: d.String()})
				return
			}
		}
	}
	if dim == 1 {
		chk("descr", ax, res.descr)
	} else {
		chk("xd", ax, res.xd)
		chk("yDescr", ay, res.descr)
	}
	if rounded {
		unspec = append(unspec, unspecLabel)
	}
	return
}

// ---------------------------------------------------------------------------------------------
// description of one bin

const (
	descOK = iota
	descRounded
	descBad
)

type descKey struct {
	d              desc
	hasMin, hasMax bool
	min, max       float64
}

type descRes struct {
	v   int
	why string
}

var descCache = map[descKey]descRes{}

var (
	reNum   = `(-?[0-9]+(?:\.[0-9]+)?)`
	reBelow = regexp.MustCompile(`^<` + reNum + `$`)
	reAbove = regexp.MustCompile(`^>` + reNum + `$`)
	reRange = regexp.MustCompile(`^` + reNum + `-` + reNum + `$`)
)

// labelNumber compares a printed number with a bound: equal, equal up to the precision displayed
// (half a unit of the last printed decimal), or different.
func labelNumber(s string, bound float64) int {
	p, ok := new(big.Rat).SetString(s)
	if !ok {
		return descBad
	}
	diff := new(big.Rat).Sub(p, rat(bound))
	if diff.Sign() == 0 {
		return descOK
	}
	decimals := 0
	if i := strings.IndexByte(s, '.'); i >= 0 {
		decimals = len(s) - i - 1
	}
	tol := big.NewRat(1, 2)
	for i := 0; i < decimals; i++ {
		tol.Quo(tol, big.NewRat(10, 1))
	}
	if diff.Abs(diff).Cmp(tol) <= 0 {
		return descRounded
	}
	return descBad
}

func descVerdict(a *axisRef, j int, d desc) (int, string) {
	hasMin, min, hasMax, max := a.interval(j)
	k := descKey{d, hasMin, hasMax, min, max}
	if r, ok := descCache[k]; ok {
		return r.v, r.why
	}
	v, why := descVerdictSlow(d, hasMin, min, hasMax, max)
	if len(descCache) < 1<<16 {
		descCache[k] = descRes{v, why}
	}
	return v, why
}

func descVerdictSlow(d desc, hasMin bool, min float64, hasMax bool, max float64) (int, string) {
	if d.HasMin != hasMin {
		return descBad, fmt.Sprintf("min present=%v, expected %v", d.HasMin, hasMin)
	}
	if d.HasMax != hasMax {
		return descBad, fmt.Sprintf("max present=%v, expected %v", d.HasMax, hasMax)
	}
	if hasMin && d.Min != min {
		return descBad, "min differs from the lower edge"
	}
	if hasMax && d.Max != max {
		return descBad, "max differs from the upper edge"
	}
	if !d.HasStr {
		return descBad, "no str"
	}
	worst := descOK
	upd := func(v int) {
		if v > worst {
			worst = v
		}
	}
	switch {
	case !hasMin:
		m := reBelow.FindStringSubmatch(d.Str)
		if m == nil {
			return descBad, "str of the underflow bin is not of the form <max"
		}
		upd(labelNumber(m[1], max))
	case !hasMax:
		m := reAbove.FindStringSubmatch(d.Str)
		if m == nil {
			return descBad, "str of the overflow bin is not of the form >min"
		}
		upd(labelNumber(m[1], min))
	default:
		m := reRange.FindStringSubmatch(d.Str)
		if m == nil {
			return descBad, "str of an inner bin is not of the form min-max"
		}
		upd(labelNumber(m[1], min))
		upd(labelNumber(m[2], max))
	}
	if worst == descBad {
		return descBad, "str names a number that is not the bound, not even rounded to the displayed decimals"
	}
	return worst, ""
}

// ---------------------------------------------------------------------------------------------
// record pools (simple values first, huge values last, no duplicates)

func dedupe(xs []float64) []float64 {
	seen := map[uint64]bool{}
	var out []float64
	for _, x := range xs {
		if b := math.Float64bits(x); !seen[b] {
			seen[b] = true
			out = append(out, x)
		}
	}
	return out
}

var negZero = math.Copysign(0, -1)

// noNegZero maps -0 to +0 (pools in which the sign of zero is not a separate value).
func noNegZero(xs []float64) []float64 {
	for i, x := range xs {
		if x == 0 {
			xs[i] = 0
		}
	}
	return xs
}

// fullPool: every edge, edge +- size/2, start-2size, end+2size, 0, a negative, far outside, and
// the values around the int64 range.
func fullPool(a *axisRef) []float64 {
	var xs []float64
	h := a.Size / 2
	for _, e := range a.edges {
		xs = append(xs, e)
	}
	for _, e := range a.edges {
		xs = append(xs, e-h, e+h)
	}
	xs = append(noNegZero(xs), a.Start-2*a.Size, a.end()+2*a.Size, 0, negZero, -3, -1e9, 1e9,
		-p62, p62, -p63, p63, -p64, p64, -p70, p70, -1e30, 1e30, -math.MaxFloat64, math.MaxFloat64)
	return dedupe(xs)
}

// ulpPool: the float64 neighbours of every edge.
func ulpPool(a *axisRef) []float64 {
	var xs []float64
	for _, e := range a.edges {
		xs = append(xs, math.Nextafter(e, math.Inf(-1)), math.Nextafter(e, math.Inf(1)))
	}
	return dedupe(xs)
}

// corePool: one value per kind (just below start, first edge, last bin, overflow edge, 0, huge).
func corePool(a *axisRef) []float64 {
	xs := []float64{a.Start - a.Size/2, a.Start}
	if a.Count > 0 {
		xs = append(xs, a.end()-a.Size/2)
	}
	xs = append(xs, a.end(), 0, -p70, p70)
	return dedupe(noNegZero(xs))
}

func lawPool(a *axisRef) []float64 {
	xs := []float64{a.Start - a.Size, a.Start}
	if a.Count > 0 {
		xs = append(xs, a.end()-a.Size/2)
	}
	xs = append(xs, a.end(), p70)
	return dedupe(noNegZero(xs))
}

func litePool(a *axisRef) []float64 {
	return dedupe(noNegZero([]float64{a.Start - a.Size/2, a.Start, p70}))
}
