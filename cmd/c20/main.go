// C20: binning conserves mass and is additive.
//
// Bounded-exhaustive enumeration of start/size/count grids x record lists (x on every bin edge,
// edge +- size/2, edge +- 1 ulp, far outside, +-2^62..2^70, +-1e30, +-MaxFloat64, 0, negatives;
// weights 1, 0.5, -2) in one and two dimensions, evaluated through value.New().Generate(program, "l")
// with the list passed as the argument, against an oracle that derives the bin of every record from
// the interval definition of the property by comparisons on exact values (ref.go). Additivity:
// every split of the list into two parts (all subsets), into three contiguous parts, and the
// one-part split, collectBinning over the binnings of the parts compared with the binning of the
// whole list (library against library, the law as stated).
package main

import (
	"fmt"
	"math"
	"strconv"
	"strings"

	"github.com/hneemann/parser2/funcGen"
	"github.com/hneemann/parser2/value"
	"verif/internal/bex"
)

const findingF20 = "F20-bin-index-overflow"

const (
	unspecUlp   = "x within one float64 rounding error of a bin edge and (x-start)/size not exactly representable: the property quantifies over exactly representable values, rounding inside the index computation is outside it"
	unspecLabel = "only the label 'str' of a bin is excluded (values, min and max of the same result are judged): it prints a bound rounded to the decimals it displays, and the property does not fix the precision of the label"
)

// ---------------------------------------------------------------------------------------------
// executing the real library

type progKey struct {
	dim    int
	ax, ay axisG
	law    bool
}

type harness struct {
	g     *value.FunctionGenerator
	progs map[string]funcGen.Func[value.Value]
	srcs  map[progKey]string
}

func newHarness() *harness {
	return &harness{g: value.New(), progs: map[string]funcGen.Func[value.Value]{}, srcs: map[progKey]string{}}
}

// program is the memoised form of the function program.
func (h *harness) program(dim int, ax, ay axisG, law bool) string {
	k := progKey{dim, ax, ay, law}
	s, ok := h.srcs[k]
	if !ok {
		if len(h.srcs) > 4096 {
			h.srcs = map[progKey]string{}
		}
		s = program(dim, ax, ay, law)
		h.srcs[k] = s
	}
	return s
}

func num(v float64) string { return strconv.FormatFloat(v, 'f', -1, 64) }

func binCall(a axisG) string {
	return fmt.Sprintf("binning(%s,%s,%d,r->r.x,r->r.w)", num(a.Start), num(a.Size), a.Count)
}

func bin2Call(a, b axisG) string {
	return fmt.Sprintf("binning2d(%s,%s,%d,%s,%s,%d,r->r.x,r->r.y,r->r.w)", num(a.Start), num(a.Size), a.Count, num(b.Start), num(b.Size), b.Count)
}

// program returns the source text evaluated for a case: the binning of the argument list l, or
// (law) collectBinning over the binnings of the parts, l being the list of the parts.
func program(dim int, ax, ay axisG, law bool) string {
	call := binCall(ax)
	if dim == 2 {
		call = bin2Call(ax, ay)
	}
	if law {
		// collected twice from the SAME binnings of the parts: collecting must not change what it collects
		return "let b=l.map(p->p." + call + ").eval(); [b.collectBinning(), b.collectBinning()]"
	}
	return "l." + call
}

// postProgram: the binning result with appends to its own lists in between.
func postProgram(dim int, ax, ay axisG) string {
	if dim == 2 {
		return "let b=l." + bin2Call(ax, ay) + "; let u=b.values.append(7); let d=b.yDescr.append(7); let r=b.values.map(e->e.row.append(7)).eval(); let w=b.values.append(8); b"
	}
	return "let b=l." + binCall(ax) + "; let u=b.values.append(7); let d=b.descr.append(7); let w=b.values.append(8); b"
}

// run evaluates src with argument l; a Go panic of the library is turned into an error.
func (h *harness) run(src string, l value.Value) (res value.Value, err error) {
	f, ok := h.progs[src]
	if !ok {
		var gerr error
		f, _, gerr = h.g.Generate(src, "l")
		if gerr != nil {
			return nil, fmt.Errorf("Generate: %w", gerr)
		}
		if len(h.progs) > 4096 {
			h.progs = map[string]funcGen.Func[value.Value]{}
		}
		h.progs[src] = f
	}
	defer func() {
		if r := recover(); r != nil {
			res, err = nil, fmt.Errorf("panic: %v", r)
		}
	}()
	return f(funcGen.NewStack[value.Value](l))
}

// numVal passes a number the way a literal of the language would produce it: Int if it is a
// (moderately sized) integer, Float otherwise.
func numVal(v float64) value.Value {
	if v == math.Trunc(v) && math.Abs(v) < 1e15 && !(v == 0 && math.Signbit(v)) {
		return value.Int(int(v))
	}
	return value.Float(v)
}

func recVal(dim int, r rec) value.Value {
	m := value.RealMap{"x": numVal(r.X), "w": numVal(r.W)}
	if dim == 2 {
		m["y"] = numVal(r.Y)
	}
	return value.NewMap(m)
}

func listVal(dim int, recs []rec) value.Value {
	items := make([]value.Value, len(recs))
	for i, r := range recs {
		items[i] = recVal(dim, r)
	}
	return value.NewList(items...)
}

// ---------------------------------------------------------------------------------------------
// reading the result map: {descr:[bin…], values:[…]} (1-d),
// {yDescr:[bin…], values:[{xd:bin, row:[…]}…]} (2-d); bin = map with str, min (if bounded below),
// max (if bounded above)

type desc struct {
	HasMin, HasMax, HasStr bool
	Min, Max               float64
	Str                    string
}

func (d desc) String() string {
	var f []string
	if d.HasStr {
		f = append(f, "str:"+strconv.Quote(d.Str))
	}
	if d.HasMin {
		f = append(f, "min:"+fnum(d.Min))
	}
	if d.HasMax {
		f = append(f, "max:"+fnum(d.Max))
	}
	return "{" + strings.Join(f, " ") + "}"
}

func fnum(v float64) string { return strconv.FormatFloat(v, 'g', -1, 64) }

type result struct {
	dim   int
	descr []desc      // 1-d: descr (one per bin); 2-d: yDescr
	xd    []desc      // 2-d only: description of each row's x bin
	vals  [][]float64 // 1-d: one row; 2-d: one row per x bin
}

func (r *result) String() string {
	var b strings.Builder
	if r.dim == 1 {
		fmt.Fprintf(&b, "values=%v descr=%v", fmtRow(r.vals[0]), r.descr)
		return b.String()
	}
	b.WriteString("rows=[")
	for i, row := range r.vals {
		if i > 0 {
			b.WriteString(" ")
		}
		b.WriteString(fmtRow(row))
	}
	fmt.Fprintf(&b, "] xd=%v yDescr=%v", r.xd, r.descr)
	return b.String()
}

func fmtRow(v []float64) string {
	s := make([]string, len(v))
	for i, f := range v {
		s[i] = fnum(f)
	}
	return "[" + strings.Join(s, ",") + "]"
}

var emptyStack = funcGen.NewEmptyStack[value.Value]()

func getDesc(v value.Value) (desc, error) {
	m, ok := v.ToMap()
	if !ok {
		return desc{}, fmt.Errorf("bin description is not a map: %v", v)
	}
	var d desc
	if s, ok := m.Get("str"); ok {
		str, ok := s.(value.String)
		if !ok {
			return d, fmt.Errorf("bin description: str is not a string")
		}
		d.HasStr, d.Str = true, string(str)
	}
	if f, ok := m.Get("min"); ok {
		fl, ok := f.ToFloat()
		if !ok {
			return d, fmt.Errorf("bin description: min is not a number")
		}
		d.HasMin, d.Min = true, fl
	}
	if f, ok := m.Get("max"); ok {
		fl, ok := f.ToFloat()
		if !ok {
			return d, fmt.Errorf("bin description: max is not a number")
		}
		d.HasMax, d.Max = true, fl
	}
	return d, nil
}

func getList(m value.Map, key string) ([]value.Value, error) {
	v, ok := m.Get(key)
	if !ok {
		return nil, fmt.Errorf("result map has no key %q", key)
	}
	l, ok := v.ToList()
	if !ok {
		return nil, fmt.Errorf("%q is not a list", key)
	}
	return l.ToSlice(emptyStack)
}

func getFloats(items []value.Value) ([]float64, error) {
	out := make([]float64, len(items))
	for i, e := range items {
		f, ok := e.ToFloat()
		if !ok {
			return nil, fmt.Errorf("bin value %d is not a number", i)
		}
		out[i] = f
	}
	return out, nil
}

func getDescs(items []value.Value) ([]desc, error) {
	out := make([]desc, len(items))
	for i, e := range items {
		d, err := getDesc(e)
		if err != nil {
			return nil, err
		}
		out[i] = d
	}
	return out, nil
}

func extract(dim int, v value.Value) (*result, error) {
	if v == nil {
		return nil, fmt.Errorf("nil result")
	}
	m, ok := v.ToMap()
	if !ok {
		return nil, fmt.Errorf("result is not a map")
	}
	r := &result{dim: dim}
	if dim == 1 {
		dl, err := getList(m, "descr")
		if err != nil {
			return nil, err
		}
		if r.descr, err = getDescs(dl); err != nil {
			return nil, err
		}
		vl, err := getList(m, "values")
		if err != nil {
			return nil, err
		}
		row, err := getFloats(vl)
		if err != nil {
			return nil, err
		}
		r.vals = [][]float64{row}
		return r, nil
	}
	dl, err := getList(m, "yDescr")
	if err != nil {
		return nil, err
	}
	if r.descr, err = getDescs(dl); err != nil {
		return nil, err
	}
	vl, err := getList(m, "values")
	if err != nil {
		return nil, err
	}
	for i, e := range vl {
		em, ok := e.ToMap()
		if !ok {
			return nil, fmt.Errorf("values[%d] is not a map", i)
		}
		xd, ok := em.Get("xd")
		if !ok {
			return nil, fmt.Errorf("values[%d] has no key xd", i)
		}
		d, err := getDesc(xd)
		if err != nil {
			return nil, err
		}
		rl, err := getList(em, "row")
		if err != nil {
			return nil, fmt.Errorf("values[%d]: %w", i, err)
		}
		row, err := getFloats(rl)
		if err != nil {
			return nil, err
		}
		r.xd = append(r.xd, d)
		r.vals = append(r.vals, row)
	}
	return r, nil
}

// ---------------------------------------------------------------------------------------------
// one case

type kase struct {
	Space string
	Dim   int
	AX    axisG
	AY    axisG
	Recs  []rec
	Parts [][]int // law cases: indices into Recs, one slice per part
	// Prior: before the case is evaluated, the same program runs on the same records with one record whose
	// field Field is a string inserted at position At; that evaluation fails, the case itself must not notice
	Prior *prior
	// Post: the result is bound to a local, its value and description lists are appended to (the appended
	// lists are dropped), then the result itself is returned: it must be what it was
	Post bool
	// Before: another grid with the same start and size but another count is binned first (same records)
	Before *axisG
}

type prior struct {
	At    int
	Field string
}

// failingList is the list of the prior evaluation.
func (k *kase) failingList() value.Value {
	items := make([]value.Value, 0, len(k.Recs)+1)
	for i := 0; i <= len(k.Recs); i++ {
		if i == k.Prior.At {
			m := value.RealMap{"x": value.Int(0), "y": value.Int(0), "w": value.Int(1)}
			m[k.Prior.Field] = value.String("a")
			items = append(items, value.NewMap(m))
		}
		if i < len(k.Recs) {
			items = append(items, recVal(k.Dim, k.Recs[i]))
		}
	}
	return value.NewList(items...)
}

func (k *kase) law() bool { return k.Parts != nil }

func (k *kase) repro() map[string]any {
	m := map[string]any{"space": k.Space, "dim": k.Dim, "x_axis": []any{k.AX.Start, k.AX.Size, k.AX.Count},
		"program": program(k.Dim, k.AX, k.AY, k.law())}
	if k.Dim == 2 {
		m["y_axis"] = []any{k.AY.Start, k.AY.Size, k.AY.Count}
	}
	rs := make([]any, len(k.Recs))
	for i, r := range k.Recs {
		if k.Dim == 2 {
			rs[i] = []any{r.X, r.Y, r.W}
		} else {
			rs[i] = []any{r.X, r.W}
		}
	}
	m["records"] = rs
	if k.law() {
		ps := make([]any, len(k.Parts))
		for i, p := range k.Parts {
			q := make([]any, len(p))
			for j, x := range p {
				q[j] = x
			}
			ps[i] = q
		}
		m["parts"] = ps
	}
	if k.Prior != nil {
		m["prior_failing_evaluation"] = map[string]any{"at": k.Prior.At, "field": k.Prior.Field}
	}
	if k.Post {
		m["program"] = postProgram(k.Dim, k.AX, k.AY)
		m["post_append"] = true
	}
	if k.Before != nil {
		m["binned_before_on"] = []any{k.Before.Start, k.Before.Size, k.Before.Count}
	}
	return m
}

type verdict struct {
	problems []problem
	unspec   []string
	errObs   string  // set if there is no well-formed result
	res      *result // the well-formed result of this evaluation
	whole    *result // the library's binning of the whole list (nil if it failed)
	// priorAccepted: the prior evaluation with a string in a numeric field did not fail
	priorAccepted bool
}

// obs renders the observation (only needed for failing cases and samples).
func (v *verdict) obs() string {
	if v.res != nil {
		return v.res.String()
	}
	return v.errObs
}

// evalWhole runs list.binning / binning2d on the whole list and compares with the reference.
func (h *harness) evalWhole(k *kase, ax, ay *axisRef) verdict {
	var v verdict
	src := h.program(k.Dim, k.AX, k.AY, false)
	if k.Post {
		src = postProgram(k.Dim, k.AX, k.AY)
	}
	if k.Before != nil {
		// the same records on the other grid first: 1-d, and as the y axis of a 2-d binning
		h.run(h.program(1, *k.Before, axisG{}, false), listVal(1, k.Recs))
		if k.Dim == 2 {
			h.run(h.program(2, k.AX, *k.Before, false), listVal(2, k.Recs))
		}
	}
	if k.Prior != nil {
		if _, err := h.run(src, k.failingList()); err == nil {
			v.priorAccepted = true
		}
	}
	got, err := h.run(src, listVal(k.Dim, k.Recs))
	if err != nil {
		v.errObs = "error: " + err.Error()
		v.problems = append(v.problems, problem{what: "evaluation failed: no element is assigned to a bin", expected: "a binning result", got: v.errObs})
		return v
	}
	res, err := extract(k.Dim, got)
	if err != nil {
		v.errObs = "malformed result: " + err.Error()
		v.problems = append(v.problems, problem{what: "result map does not have the shape of a binning result", expected: "descr/values (1-d) or yDescr/values[{xd,row}] (2-d)", got: v.errObs})
		return v
	}
	v.whole, v.res = res, res
	v.problems, v.unspec = checkWhole(k.Dim, ax, ay, k.Recs, res)
	return v
}

// evalLaw runs collectBinning over the binnings of the parts and compares with the library's
// binning of the whole list.
func (h *harness) evalLaw(k *kase, whole *result) verdict {
	var v verdict
	parts := make([]value.Value, len(k.Parts))
	for i, p := range k.Parts {
		rs := make([]rec, len(p))
		for j, x := range p {
			rs[j] = k.Recs[x]
		}
		parts[i] = listVal(k.Dim, rs)
	}
	src := h.program(k.Dim, k.AX, k.AY, true)
	got, err := h.run(src, value.NewList(parts...))
	if err != nil {
		v.errObs = "error: " + err.Error()
		v.problems = append(v.problems, problem{what: "collectBinning over the binnings of the parts failed", expected: whole.String(), got: v.errObs})
		return v
	}
	pair, ok := got.(*value.List)
	var both []value.Value
	if ok {
		both, err = pair.ToSlice(funcGen.NewEmptyStack[value.Value]())
	}
	if !ok || err != nil || len(both) != 2 {
		v.errObs = fmt.Sprintf("malformed result: not a list of two collected binnings (%v)", err)
		v.problems = append(v.problems, problem{what: "collectBinning result does not have the shape of a binning result", expected: whole.String(), got: v.errObs})
		return v
	}
	for i, g := range both {
		res, err := extract(k.Dim, g)
		if err != nil {
			v.errObs = "malformed result: " + err.Error()
			v.problems = append(v.problems, problem{what: "collectBinning result does not have the shape of a binning result", expected: whole.String(), got: v.errObs})
			return v
		}
		if i == 0 {
			v.res = res
		}
		if diff := diffResults(whole, res); diff != "" {
			what := "collectBinning over the binnings of the parts differs from the binning of the whole list: "
			if i == 1 {
				what = "collectBinning over the SAME binnings of the parts a second time differs from the binning of the whole list (collecting changed the parts): "
			}
			v.problems = append(v.problems, problem{what: what + diff,
				expected: whole.String() + " (library's binning of the whole list)", got: res.String()})
			return v
		}
	}
	return v
}

func diffDescs(name string, a, b []desc) string {
	if len(a) != len(b) {
		return fmt.Sprintf("%s has %d entries, whole has %d", name, len(b), len(a))
	}
	for i := range a {
		if a[i] != b[i] {
			return fmt.Sprintf("%s[%d] = %v, whole has %v", name, i, b[i], a[i])
		}
	}
	return ""
}

func diffResults(whole, got *result) string {
	if len(whole.vals) != len(got.vals) {
		return fmt.Sprintf("%d value rows, whole has %d", len(got.vals), len(whole.vals))
	}
	for i := range whole.vals {
		if len(whole.vals[i]) != len(got.vals[i]) {
			return fmt.Sprintf("row %d has %d bins, whole has %d", i, len(got.vals[i]), len(whole.vals[i]))
		}
		for j := range whole.vals[i] {
			if whole.vals[i][j] != got.vals[i][j] {
				return fmt.Sprintf("bin [%d][%d] = %s, whole has %s", i, j, fnum(got.vals[i][j]), fnum(whole.vals[i][j]))
			}
		}
	}
	dn := "descr"
	if whole.dim == 2 {
		dn = "yDescr"
	}
	if d := diffDescs(dn, whole.descr, got.descr); d != "" {
		return d
	}
	return diffDescs("xd", whole.xd, got.xd)
}

// ---------------------------------------------------------------------------------------------
// enumeration

type checker struct {
	ctx  *bex.Ctx
	h    *harness
	idx  int64
	refs map[axisG]*axisRef
	stop bool
}

func (c *checker) ref(a axisG) *axisRef {
	r, ok := c.refs[a]
	if !ok {
		r = newAxisRef(a)
		c.refs[a] = r
	}
	return r
}

// next advances the case index of the current space and reports whether this shard runs the case.
func (c *checker) next() bool {
	c.idx++
	if !c.ctx.Mine(c.idx) {
		return false
	}
	if c.ctx.Expired() {
		c.stop = true
		return false
	}
	return true
}

func classOf(a *axisRef, x float64) byte {
	switch i := a.index(x); {
	case i == 0:
		return 'U'
	case i == a.Count+1:
		return 'O'
	default:
		return 'I'
	}
}

// classes names the kinds of bins hit by the coordinates of the records (U underflow, I inner,
// O overflow; both axes merged in two dimensions).
func classes(dim int, ax, ay *axisRef, recs []rec) string {
	var set [256]bool
	for _, r := range recs {
		set[classOf(ax, r.X)] = true
		if dim == 2 {
			set[classOf(ay, r.Y)] = true
		}
	}
	s := ""
	for _, ch := range []byte("UIO") {
		if set[ch] {
			s += string(ch)
		}
	}
	if s == "" {
		s = "empty"
	}
	return s
}

func (c *checker) report(k *kase, v verdict) {
	for _, u := range v.unspec {
		c.ctx.Unspecified(u)
	}
	for _, p := range v.problems {
		c.ctx.Violate(p.what, k.repro(), p.expected, p.got, p.finding)
	}
}

// massNonZero: the reference histogram has a non-zero bin (rule of distinct_nontrivial).
func massNonZero(ax, ay *axisRef, dim int, recs []rec) bool {
	for _, row := range refHist(dim, ax, ay, recs, false) {
		for _, v := range row {
			if v != 0 {
				return true
			}
		}
	}
	return false
}

func hashCase(space int, gi int, recIdx []int, split int) uint64 {
	h := uint64(1469598103934665603)
	mix := func(v uint64) {
		h ^= v
		h *= 1099511628211
		h ^= h >> 29
	}
	mix(uint64(space))
	mix(uint64(gi))
	mix(uint64(len(recIdx)))
	for _, r := range recIdx {
		mix(uint64(r) + 1)
	}
	mix(uint64(split) + 7)
	return h
}

// doWhole runs one whole-list case (already selected for this shard).
func (c *checker) doWhole(k *kase, spaceNo, gi int, recIdx []int) *result {
	ax := c.ref(k.AX)
	var ay *axisRef
	if k.Dim == 2 {
		ay = c.ref(k.AY)
	}
	c.ctx.Begin(k.repro)
	c.ctx.Eval()
	v := c.h.evalWhole(k, ax, ay)
	c.report(k, v)
	if k.Prior != nil {
		if v.priorAccepted {
			c.ctx.Add("prior_evaluations_that_did_not_fail", 1)
		} else {
			c.ctx.Add("prior_evaluations_failed", 1)
		}
	}
	cl := classes(k.Dim, ax, ay, k.Recs)
	if len(v.problems) > 0 {
		c.ctx.Outcome(fmt.Sprintf("%dd:%s:violated", k.Dim, cl))
	} else {
		c.ctx.Outcome(fmt.Sprintf("%dd:%s:ok", k.Dim, cl))
	}
	if len(k.Recs) > 0 && massNonZero(ax, ay, k.Dim, k.Recs) {
		c.ctx.NontrivialH(hashCase(spaceNo, gi, recIdx, -1))
	}
	if c.wantSample(spaceNo) && len(k.Recs) >= 1 {
		c.ctx.Sample(map[string]any{"case": k.repro(), "library": v.obs()})
	}
	return v.whole
}

func (c *checker) doLaw(k *kase, whole *result, spaceNo, gi int, recIdx []int, split int) {
	c.ctx.Begin(k.repro)
	c.ctx.Eval()
	v := c.h.evalLaw(k, whole)
	c.report(k, v)
	ne := 0
	for _, p := range k.Parts {
		if len(p) > 0 {
			ne++
		}
	}
	st := "holds"
	if len(v.problems) > 0 {
		st = "violated"
	}
	c.ctx.Outcome(fmt.Sprintf("law%dd:parts=%d:%s", k.Dim, len(k.Parts), st))
	if ne >= 2 {
		// counted per (grid, record list), not per splitting: keeps the set of seen keys small
		c.ctx.NontrivialH(hashCase(spaceNo, gi, recIdx, -1))
	}
	if c.wantSample(spaceNo) && ne >= 2 {
		c.ctx.Sample(map[string]any{"case": k.repro(), "library": v.obs()})
	}
}

// wantSample spreads the verbatim samples of the evidence over the spaces: each worker samples one
// space (the driver keeps one sample of each of the first four workers), one case in 251 of its own.
func (c *checker) wantSample(spaceNo int) bool {
	return c.ctx.WantSample() && spaceNo == []int{3, 5, 4, 7, 1, 2, 6}[c.ctx.Shard%7] && (c.idx/int64(c.ctx.NShards))%251 == 17
}

// eachList enumerates all index lists of length minLen..maxLen over n symbols, shortest first.
func eachList(n, minLen, maxLen int, fn func(ix []int) bool) {
	for l := minLen; l <= maxLen; l++ {
		if l > 0 && n == 0 {
			return
		}
		ix := make([]int, l)
		for {
			if !fn(ix) {
				return
			}
			p := l - 1
			for p >= 0 {
				ix[p]++
				if ix[p] < n {
					break
				}
				ix[p] = 0
				p--
			}
			if p < 0 {
				break
			}
		}
	}
}

// splits enumerates the splittings of a list of n records: the one-part split, every subset and its
// complement (two parts, order of the records kept inside a part), every cut into three contiguous
// parts (empty parts included).
func splits(n int) [][][]int {
	var out [][][]int
	all := make([]int, n)
	for i := range all {
		all[i] = i
	}
	out = append(out, [][]int{all})
	for m := 0; m < 1<<n; m++ {
		a, b := []int{}, []int{}
		for i := 0; i < n; i++ {
			if m&(1<<i) != 0 {
				a = append(a, i)
			} else {
				b = append(b, i)
			}
		}
		out = append(out, [][]int{a, b})
	}
	for i := 0; i <= n; i++ {
		for j := i; j <= n; j++ {
			out = append(out, [][]int{append([]int{}, all[:i]...), append([]int{}, all[i:j]...), append([]int{}, all[j:]...)})
		}
	}
	return out
}

func records1(xs []float64, ws []float64) []rec {
	var out []rec
	for _, x := range xs {
		for _, w := range ws {
			out = append(out, rec{X: x, W: w})
		}
	}
	return out
}

func records2(xs, ys []float64, ws []float64) []rec {
	var out []rec
	for _, x := range xs {
		for _, y := range ys {
			for _, w := range ws {
				out = append(out, rec{X: x, Y: y, W: w})
			}
		}
	}
	return out
}

func pick(pool []rec, ix []int) []rec {
	out := make([]rec, len(ix))
	for i, j := range ix {
		out[i] = pool[j]
	}
	return out
}

var weights = []float64{1, 0.5, -2}

// grids: simplest first (count ascending; start 0, size 1 first)
func axisGrids(starts, sizes []float64, counts []int) []axisG {
	var out []axisG
	for _, c := range counts {
		for _, s := range starts {
			for _, d := range sizes {
				out = append(out, axisG{s, d, c})
			}
		}
	}
	return out
}

type bounds struct {
	listLen, lawLen   int // 1-d
	listLen2, lawLen2 int // 2-d
	lawWeights        []float64
}

func run(ctx *bex.Ctx) {
	c := &checker{ctx: ctx, h: newHarness(), refs: map[axisG]*axisRef{}}
	b := bounds{listLen: 3, lawLen: 3, listLen2: 3, lawLen2: 3, lawWeights: []float64{1, -2}}
	if !ctx.Quick() {
		b = bounds{listLen: 4, lawLen: 4, listLen2: 4, lawLen2: 4, lawWeights: weights}
	}
	starts, sizes := []float64{0, -1.5, 10}, []float64{1, 0.5, 2}
	all := axisGrids(starts, sizes, []int{0, 1, 2, 3, 64})
	small := axisGrids(starts, sizes, []int{0, 1, 2, 3})
	few := axisGrids([]float64{0, -1.5}, []float64{0.5, 2}, []int{0, 1, 3})
	fewY := []axisG{{0, 1, 0}, {-1.5, 0.5, 1}, {0, 0.5, 2}, {10, 2, 3}}
	if !ctx.Quick() {
		for _, g := range few {
			if g != fewY[1] { // (-1.5,0.5,1) is in both
				fewY = append(fewY, g)
			}
		}
	}

	// (1) 1-d, lists of <= 1 record over the full pool (every edge, +-size/2, +-1ulp, far, huge)
	ctx.Space("1d-single")
	c.idx = 0
	counts := make([]int, 65)
	for i := range counts {
		counts[i] = i
	}
	starts1, sizes1 := starts, sizes
	if !ctx.Quick() {
		starts1, sizes1 = []float64{0, -1.5, 10, 0.25, -64}, []float64{1, 0.5, 2, 0.25, 8}
	}
	every := axisGrids(starts1, sizes1, counts)
	for gi, g := range every {
		a := c.ref(g)
		pool := records1(append(fullPool(a), ulpPool(a)...), weights)
		eachList(len(pool), 0, 1, func(ix []int) bool {
			if c.next() {
				c.doWhole(&kase{Space: "1d-single", Dim: 1, AX: g, Recs: pick(pool, ix)}, 1, gi, ix)
			}
			return !c.stop
		})
	}
	ctx.SpaceDone(fmt.Sprintf("%d grids (start %v x size %v x every count 0..64) x lists of <= 1 record, x in {every edge, edge+-size/2, edge+-1ulp, start-2size, end+2size, 0, -0, -3, +-1e9, +-2^62, +-2^63, +-2^64, +-2^70, +-1e30, +-MaxFloat64} x weight {1,0.5,-2}", len(every), starts1, sizes1))

	// (1b) many bin sizes: whether an element on an edge start+k*size lands in bin k+1 depends on the
	// arithmetic of the index computation for THAT size (seeded change S20C: multiplying by a precomputed
	// 1/size is off by one for size 49, 98, 103, 107, 161, … and fine for every power of two)
	ctx.Space("1d-single-many-sizes")
	c.idx = 0
	maxSize := 128
	if !ctx.Quick() {
		maxSize = 512
	}
	var manySizes []float64
	for n := 1; n <= maxSize; n++ {
		manySizes = append(manySizes, float64(n), float64(n)/2, float64(n)/8)
	}
	many := axisGrids([]float64{0, -1.5, 7}, manySizes, []int{0, 3, 20, 64})
	for gi, g := range many {
		a := c.ref(g)
		pool := records1(fullPool(a), []float64{1})
		eachList(len(pool), 1, 1, func(ix []int) bool {
			if c.next() {
				c.doWhole(&kase{Space: "1d-single-many-sizes", Dim: 1, AX: g, Recs: pick(pool, ix)}, 1, gi, ix)
			}
			return !c.stop
		})
	}
	ctx.SpaceDone(fmt.Sprintf("%d grids (start {0,-1.5,7} x size n, n/2, n/8 for every n <= %d x count {0,3,20,64}) x one record, x in {every edge, edge+-size/2, far values} x weight 1", len(many), maxSize))

	// (2) 1-d, lists of exactly 2 records over the full pool, small counts
	ctx.Space("1d-pairs")
	c.idx = 0
	pairGrids := small
	if !ctx.Quick() {
		pairGrids = all
	}
	for gi, g := range pairGrids {
		a := c.ref(g)
		pool := records1(fullPool(a), weights)
		eachList(len(pool), 2, 2, func(ix []int) bool {
			if c.next() {
				c.doWhole(&kase{Space: "1d-pairs", Dim: 1, AX: g, Recs: pick(pool, ix)}, 2, gi, ix)
			}
			return !c.stop
		})
	}
	ctx.SpaceDone(fmt.Sprintf("%d grids (quick: count <= 3, thorough: also 64) x all ordered pairs of records over the full pool (without the +-1ulp values) x weight {1,0.5,-2}", len(pairGrids)))

	// (3) 1-d, all lists up to the length bound over the core pool, all grids
	ctx.Space("1d-lists")
	c.idx = 0
	for gi, g := range all {
		a := c.ref(g)
		pool := records1(corePool(a), weights)
		eachList(len(pool), 0, b.listLen, func(ix []int) bool {
			if c.next() {
				c.doWhole(&kase{Space: "1d-lists", Dim: 1, AX: g, Recs: pick(pool, ix)}, 3, gi, ix)
			}
			return !c.stop
		})
	}
	ctx.SpaceDone(fmt.Sprintf("45 grids x all lists of <= %d records, x in {start-size/2, start, end-size/2, end, 0, -2^70, 2^70} x weight {1,0.5,-2}", b.listLen))

	// (4) 1-d additivity
	ctx.Space("1d-additivity")
	c.idx = 0
	splitTab := make([][][][]int, b.lawLen+1)
	for n := range splitTab {
		splitTab[n] = splits(n)
	}
	for gi, g := range all {
		a := c.ref(g)
		pool := records1(lawPool(a), b.lawWeights)
		eachList(len(pool), 0, b.lawLen, func(ix []int) bool {
			c.law(&kase{Space: "1d-additivity", Dim: 1, AX: g, Recs: pick(pool, ix)}, splitTab[len(ix)], 4, gi, ix)
			return !c.stop
		})
	}
	ctx.SpaceDone(fmt.Sprintf("45 grids x all lists of <= %d records, x in {start-size, start, end-size/2, end, 2^70} x weight %v x {1 part, every subset/complement (2 parts), every cut into 3 contiguous parts, empty parts included}", b.lawLen, b.lawWeights))

	// (4b) 1-d binning after a binning that failed half way
	ctx.Space("1d-after-failed-binning")
	c.idx = 0
	for gi, g := range all {
		a := c.ref(g)
		pool := records1(corePool(a), weights)
		eachList(len(pool), 0, 2, func(ix []int) bool {
			for at := 0; at <= len(ix); at++ {
				for _, f := range []string{"x", "w"} {
					if c.next() {
						c.doWhole(&kase{Space: "1d-after-failed-binning", Dim: 1, AX: g, Recs: pick(pool, ix), Prior: &prior{at, f}}, 8, gi, append(append([]int{}, ix...), at, int(f[0])))
					}
				}
			}
			return !c.stop
		})
	}
	ctx.SpaceDone("45 grids x all lists of <= 2 records over the core pool x weight {1,0.5,-2}: first the same binning of the same records with a record whose x (or w) is a string inserted at every position (it fails after the records in front have been counted), then the binning of the records themselves, judged like every whole-list case")

	// (4c) results whose own lists are appended to; grids that share start and size binned one after the other
	ctx.Space("results-appended-to-and-grid-sequences")
	c.idx = 0
	seqCounts := []int{0, 1, 2, 3, 64}
	for gi, g := range all {
		a := c.ref(g)
		pool := records1(corePool(a), []float64{1})
		eachList(len(pool), 0, 2, func(ix []int) bool {
			if c.next() {
				c.doWhole(&kase{Space: "results-appended-to-and-grid-sequences", Dim: 1, AX: g, Recs: pick(pool, ix), Post: true}, 10, gi, ix)
			}
			for _, cb := range seqCounts {
				if cb == g.Count {
					continue
				}
				if c.next() {
					before := axisG{g.Start, g.Size, cb}
					c.doWhole(&kase{Space: "results-appended-to-and-grid-sequences", Dim: 1, AX: g, Recs: pick(pool, ix), Before: &before}, 10, gi, append(append([]int{}, ix...), 1000+cb))
				}
			}
			return !c.stop
		})
	}
	for gi, gx := range few {
		for gj, gy := range few {
			ax, ay := c.ref(gx), c.ref(gy)
			pool := records2(litePool(ax), litePool(ay), []float64{1})
			eachList(len(pool), 0, 1, func(ix []int) bool {
				if c.next() {
					c.doWhole(&kase{Space: "results-appended-to-and-grid-sequences", Dim: 2, AX: gx, AY: gy, Recs: pick(pool, ix), Post: true}, 11, gi*len(few)+gj, ix)
				}
				for _, cb := range []int{0, 1, 3, 5} {
					if cb == gy.Count {
						continue
					}
					if c.next() {
						before := axisG{gy.Start, gy.Size, cb}
						c.doWhole(&kase{Space: "results-appended-to-and-grid-sequences", Dim: 2, AX: gx, AY: gy, Recs: pick(pool, ix), Before: &before}, 11, gi*len(few)+gj, append(append([]int{}, ix...), 1000+cb))
					}
				}
				return !c.stop
			})
			if c.stop {
				break
			}
		}
	}
	ctx.SpaceDone("45 grids x lists of <= 2 records (2-d: 144 grid pairs x <= 1 record): (a) the result bound to a local, values / descr / yDescr / rows appended to, then the result itself judged like every whole-list case; (b) the same records binned first on a grid with the same start and size but each other count of {0,1,2,3,64} (2-d: the y axis, 1-d and inside a 2-d binning), then the case itself")

	// (5) 2-d, one record, every pair of axis grids
	ctx.Space("2d-single")
	c.idx = 0
	for gi, gx := range all {
		for gj, gy := range all {
			ax, ay := c.ref(gx), c.ref(gy)
			var xs, ys []float64
			ws := weights[:1]
			switch {
			case gx.Count > 3 && gy.Count > 3:
				xs, ys, ws = corePool(ax), corePool(ay), weights
			case gx.Count > 3:
				xs, ys = fullPool(ax), corePool(ay)
			case gy.Count > 3:
				xs, ys = corePool(ax), fullPool(ay)
			default:
				xs, ys = fullPool(ax), fullPool(ay)
			}
			pool := records2(xs, ys, ws)
			eachList(len(pool), 1, 1, func(ix []int) bool {
				if c.next() {
					c.doWhole(&kase{Space: "2d-single", Dim: 2, AX: gx, AY: gy, Recs: pick(pool, ix)}, 5, gi*len(all)+gj, ix)
				}
				return !c.stop
			})
			if c.stop {
				break
			}
		}
	}
	ctx.SpaceDone("45 x 45 pairs of axis grids x one record: full x full pool x weight 1 (both counts <= 3), full x core pool x weight 1 (one count = 64), core x core pool x weight {1,0.5,-2} (both 64)")

	// (6) 2-d lists
	ctx.Space("2d-lists")
	c.idx = 0
	for gi, gx := range few {
		for gj, gy := range few {
			ax, ay := c.ref(gx), c.ref(gy)
			pool := records2(litePool(ax), litePool(ay), []float64{1, -2})
			eachList(len(pool), 0, b.listLen2, func(ix []int) bool {
				if c.next() {
					c.doWhole(&kase{Space: "2d-lists", Dim: 2, AX: gx, AY: gy, Recs: pick(pool, ix)}, 6, gi*len(few)+gj, ix)
				}
				return !c.stop
			})
			if c.stop {
				break
			}
		}
	}
	ctx.SpaceDone(fmt.Sprintf("12 x 12 pairs of axis grids (start 0,-1.5 x size 0.5,2 x count 0,1,3) x all lists of <= %d records, x,y in {start-size/2, start, 2^70} x weight {1,-2}", b.listLen2))

	// (6b) 2-d binning after a binning that failed half way
	ctx.Space("2d-after-failed-binning")
	c.idx = 0
	for gi, gx := range few {
		for gj, gy := range few {
			ax, ay := c.ref(gx), c.ref(gy)
			pool := records2(litePool(ax), litePool(ay), []float64{1, -2})
			eachList(len(pool), 0, 1, func(ix []int) bool {
				for at := 0; at <= len(ix); at++ {
					for _, f := range []string{"x", "y", "w"} {
						if c.next() {
							c.doWhole(&kase{Space: "2d-after-failed-binning", Dim: 2, AX: gx, AY: gy, Recs: pick(pool, ix), Prior: &prior{at, f}}, 9, gi*len(few)+gj, append(append([]int{}, ix...), at, int(f[0])))
						}
					}
				}
				return !c.stop
			})
			if c.stop {
				break
			}
		}
	}
	ctx.SpaceDone("12 x 12 pairs of axis grids x all lists of <= 1 record: first the same binning2d with a record whose x, y or w is a string inserted in front or behind, then the binning of the records themselves")

	// (7) 2-d additivity
	ctx.Space("2d-additivity")
	c.idx = 0
	for gi, gx := range few {
		for gj, gy := range fewY {
			ax, ay := c.ref(gx), c.ref(gy)
			var pool []rec
			for _, w := range []float64{1, -2} {
				pool = append(pool, rec{ax.Start - ax.Size, ay.Start - ay.Size, w}, rec{ax.Start, ay.Start, w},
					rec{ax.Start - ax.Size, ay.edges[ay.Count], w}, rec{p70, ay.Start, w})
			}
			eachList(len(pool), 0, b.lawLen2, func(ix []int) bool {
				c.law(&kase{Space: "2d-additivity", Dim: 2, AX: gx, AY: gy, Recs: pick(pool, ix)}, splitTab[len(ix)], 7, gi*len(few)+gj, ix)
				return !c.stop
			})
			if c.stop {
				break
			}
		}
	}
	ctx.SpaceDone(fmt.Sprintf("12 x-axis grids x %d y-axis grids ((0,1,0),(-1.5,0.5,1),(0,0.5,2),(10,2,3); thorough: plus the 12 x-axis grids) x all lists of <= %d records over {(under,under),(start,start),(under,overflow edge),(2^70,start)} x weight {1,-2} x all splittings as in 1-d", len(fewY), b.lawLen2))
}

// law runs all splittings of one list (the case index of the additivity spaces counts lists, so that
// the splittings of a list stay in one worker); the library's binning of the whole list is evaluated
// once and not counted as an evaluation: it is the right-hand side of the law.
func (c *checker) law(k *kase, sp [][][]int, spaceNo, gi int, recIdx []int) {
	if !c.next() {
		return
	}
	got, err := c.h.run(c.h.program(k.Dim, k.AX, k.AY, false), listVal(k.Dim, k.Recs))
	var whole *result
	if err == nil {
		whole, err = extract(k.Dim, got)
	}
	if err != nil {
		c.ctx.Eval()
		c.ctx.Violate("evaluation failed: no element is assigned to a bin", k.repro(), "a binning result", "error: "+err.Error(), "")
		return
	}
	for si, parts := range sp {
		kk := *k
		kk.Parts = parts
		c.doLaw(&kk, whole, spaceNo, gi, recIdx, si)
	}
}

// ---------------------------------------------------------------------------------------------
// replay

func toF(v any) float64 {
	f, _ := v.(float64)
	return f
}

func toAxis(v any) axisG {
	l, _ := v.([]any)
	if len(l) != 3 {
		return axisG{}
	}
	return axisG{toF(l[0]), toF(l[1]), int(toF(l[2]))}
}

func replay(repro map[string]any) (string, bool) {
	k := &kase{Dim: int(toF(repro["dim"])), AX: toAxis(repro["x_axis"])}
	k.Space, _ = repro["space"].(string)
	if k.Dim == 2 {
		k.AY = toAxis(repro["y_axis"])
	}
	if b, ok := repro["post_append"].(bool); ok {
		k.Post = b
	}
	if _, ok := repro["binned_before_on"]; ok {
		g := toAxis(repro["binned_before_on"])
		k.Before = &g
	}
	if pm, ok := repro["prior_failing_evaluation"].(map[string]any); ok {
		f, _ := pm["field"].(string)
		k.Prior = &prior{int(toF(pm["at"])), f}
	}
	rs, _ := repro["records"].([]any)
	for _, r := range rs {
		l, _ := r.([]any)
		if k.Dim == 2 && len(l) == 3 {
			k.Recs = append(k.Recs, rec{toF(l[0]), toF(l[1]), toF(l[2])})
		} else if len(l) == 2 {
			k.Recs = append(k.Recs, rec{X: toF(l[0]), W: toF(l[1])})
		}
	}
	if ps, ok := repro["parts"].([]any); ok {
		k.Parts = [][]int{}
		for _, p := range ps {
			l, _ := p.([]any)
			part := []int{}
			for _, x := range l {
				part = append(part, int(toF(x)))
			}
			k.Parts = append(k.Parts, part)
		}
	}
	h := newHarness()
	ax := newAxisRef(k.AX)
	var ay *axisRef
	if k.Dim == 2 {
		ay = newAxisRef(k.AY)
	}
	v := h.evalWhole(k, ax, ay)
	if !k.law() {
		return describe(v), len(v.problems) > 0
	}
	if v.whole == nil {
		return describe(v), true
	}
	lv := h.evalLaw(k, v.whole)
	return "whole: " + v.obs() + "; collectBinning of parts: " + describe(lv), len(lv.problems) > 0
}

func describe(v verdict) string {
	s := v.obs()
	for _, p := range v.problems {
		s += " | " + p.what
		if p.finding != "" {
			s += " [" + p.finding + "]"
		}
	}
	return s
}

func main() {
	bex.Main(&bex.Check{
		ID:    "C20",
		Level: "exploration",
		Rule:  "every case = one program text (l.binning(start,size,count,r->r.x,r->r.w), l.binning2d(…), or let b=l.map(p->p.binning…(…)).eval(); [b.collectBinning(), b.collectBinning()]) generated by value.New() and evaluated on one argument list (in the after-failed-binning spaces: after the same program has failed on a list with a string in a numeric field). Whole-list cases are compared with a reference histogram (bin of a record = the interval of the property's definition that contains x, decided by comparisons on exactly representable edges), with the exact sum of the weights, and bin by bin with the interval description (presence and exact value of min/max, shape and numbers of str); additivity cases compare collectBinning over the binnings of the parts — collected twice from the same part binnings — with the library's binning of the whole list (values and descriptions). distinct_nontrivial = distinct (space, grid, record list) whose reference histogram has a non-zero bin (whole-list cases) resp. that were split into at least two non-empty parts (additivity cases; the splittings of one list are not counted separately)",
		Assumptions: []string{
			"grid values (start, size) are dyadic with size a power of two, so every bin edge, x-start and the quotient are exact in float64 (checked with big.Rat when the reference axis is built); weights 1, 0.5, -2 make every sum exact",
			"records whose x is one ulp from an edge are only judged when the library's float computation of (x-start)/size is exact (else counted in unspecified_excluded); NaN/Inf coordinates, size <= 0, negative or fractional count are outside the property",
			"the bin label str is judged up to the precision it displays; Size()/iteration of the description maps belongs to C13 (finding F13c), not observed here",
		},
		QuickBudget: 55e9, ThoroughBudget: 25 * 60e9,
		CrashIsViolation: true,
		Run:              run,
		Replay:           replay,
	})
}
