package main

import (
	"bytes"
	"encoding/json"
	"fmt"
	"sort"
	"strings"

	"github.com/hneemann/parser2/funcGen"
	"github.com/hneemann/parser2/listMap"
	"github.com/hneemann/parser2/value"
	"github.com/hneemann/parser2/value/export"
)

var poolKeys = []string{"a", "b", "c", ""}

func isIdent(k string) bool {
	if k == "" {
		return false
	}
	for i, r := range k {
		if !(r == '_' || r >= 'a' && r <= 'z' || r >= 'A' && r <= 'Z' || i > 0 && r >= '0' && r <= '9') {
			return false
		}
	}
	return true
}

// allKeys collects every key stored anywhere in the storage tree (also the ones no observer should see).
func allKeys(n *value.VerifMapNode, into map[string]bool) {
	for _, k := range n.Keys {
		into[k] = true
	}
	for _, k := range n.Absent {
		into[k] = true
	}
	for _, c := range n.Kids {
		allKeys(c, into)
	}
}

// probeKeys: the key pool, the model's keys and every key stored anywhere in the representation.
func probeKeys(h *handle) []string {
	set := map[string]bool{}
	for _, k := range poolKeys {
		set[k] = true
	}
	for k := range h.mod {
		set[k] = true
	}
	allKeys(h.tree, set)
	ks := make([]string, 0, len(set))
	for k := range set {
		ks = append(ks, k)
	}
	sort.Strings(ks)
	return ks
}

func litList(mod model, keys []string) value.Map {
	lm := listMap.New[value.Value](len(keys))
	for _, k := range keys {
		lm = lm.Append(k, mod[k].val())
	}
	return value.NewMap(lm)
}

func litReal(mod model) value.Map {
	rm := make(value.RealMap, len(mod))
	for k, v := range mod {
		rm[k] = v.val()
	}
	return value.NewMap(rm)
}

// observer runs every observer on one handle and reports the disagreements with its model.
type observer struct {
	e    *env
	pool []*handle
	out  []dis
}

func (ob *observer) report(obs string, hi int, key, peer, want, got string) {
	h := ob.pool[hi]
	d := dis{Obs: obs, H: hi, Term: h.term, Shape: h.shape, Key: key, Peer: peer, Want: want, Got: got}
	ob.out = append(ob.out, d)
}

func (ob *observer) expectValue(obs string, hi int, key string, want mv, present bool, r value.Value, err error) {
	ob.e.nObs++
	if err != nil && isPanic(err) {
		ob.report(obs, hi, key, "", "no panic", err.Error())
		return
	}
	if present {
		if err != nil {
			ob.report(obs, hi, key, "", want.String(), "error: "+err.Error())
		} else if g, ok := mvOf(r); !ok || g != want {
			ob.report(obs, hi, key, "", want.String(), describe(r))
		}
	} else if err == nil {
		ob.report(obs, hi, key, "", "an error: key not in the map", describe(r))
	}
}

func (ob *observer) expectBool(obs string, hi int, key string, peer func() string, want bool, r value.Value, err error) {
	ob.e.nObs++
	p := func() string {
		if peer == nil {
			return ""
		}
		return peer()
	}
	if err != nil {
		ob.report(obs, hi, key, p(), fmt.Sprint(want), "error: "+err.Error())
		return
	}
	if b, ok := r.(value.Bool); !ok || bool(b) != want {
		ob.report(obs, hi, key, p(), fmt.Sprint(want), describe(r))
	}
}

func (ob *observer) expectPairs(obs string, hi int, ps []pair, err error) {
	ob.e.nObs++
	h := ob.pool[hi]
	if err != nil {
		ob.report(obs, hi, "", "", "entries "+h.mod.String(), "error: "+err.Error())
		return
	}
	if !matches(ps, h.mod) {
		ob.report(obs, hi, "", "", "entries "+h.mod.String()+" (as a set, each key once)", pairsString(ps))
	}
}

func (ob *observer) one(hi int) {
	e := ob.e
	h := ob.pool[hi]
	m := h.m
	mod := h.mod
	probes := probeKeys(h)
	st := funcGen.NewEmptyStack[value.Value]()

	for _, k := range probes {
		want, present := mod[k]
		ks := value.String(k)
		// member access
		if isIdent(k) {
			r, err := e.call(e.gen("m."+k, "m"), m)
			ob.expectValue(".k", hi, k, want, present, r, err)
		}
		r, err := e.call(e.gen("m.get(k)", "m", "k"), m, ks)
		ob.expectValue("get", hi, k, want, present, r, err)
		r, err = e.call(e.gen("m.isAvail(k)", "m", "k"), m, ks)
		ob.expectBool("isAvail", hi, k, nil, present, r, err)
		r, err = e.call(e.gen("k ~ m", "k", "m"), ks, m)
		ob.expectBool("~", hi, k, nil, present, r, err)
		// the Go API below the language level
		gv, gok := m.Get(k)
		e.nCall++
		if gok {
			ob.expectValue("Go:Get", hi, k, want, present, gv, nil)
		} else {
			ob.expectValue("Go:Get", hi, k, want, present, nil, fmt.Errorf("not found"))
		}
	}
	// isAvail with a present and a missing key: false (reported on the missing key)
	if ks := mod.keys(); len(ks) > 0 {
		for _, k := range probes {
			if _, ok := mod[k]; !ok {
				r, err := e.call(e.gen("m.isAvail(k0,k1)", "m", "k0", "k1"), m, value.String(ks[0]), value.String(k))
				ob.expectBool("isAvail", hi, k, nil, false, r, err)
			}
		}
	}
	// isAvail with all keys of the model at once
	if ks := mod.keys(); len(ks) >= 2 && len(ks) <= 4 {
		args := []value.Value{m}
		names := []string{"m"}
		call := "m.isAvail("
		for i, k := range ks {
			args = append(args, value.String(k))
			names = append(names, fmt.Sprintf("k%d", i))
			if i > 0 {
				call += ","
			}
			call += fmt.Sprintf("k%d", i)
		}
		r, err := e.call(e.gen(call+")", names...), args...)
		ob.expectBool("isAvail*", hi, strings.Join(ks, ","), nil, true, r, err)
	}

	// size
	r, err := e.call(e.gen("m.size()", "m"), m)
	e.nObs++
	if err != nil {
		ob.report("size", hi, "", "", fmt.Sprint(len(mod)), "error: "+err.Error())
	} else if i, ok := r.(value.Int); !ok || int(i) != len(mod) {
		ob.report("size", hi, "", "", fmt.Sprint(len(mod)), describe(r))
	}

	// list()
	r, err = e.call(e.gen("m.list()", "m"), m)
	var ps []pair
	if err == nil {
		if l, ok := r.(*value.List); ok {
			var items []value.Value
			items, err = l.ToSlice(st)
			for _, it := range items {
				im, ok := it.(value.Map)
				if !ok {
					err = fmt.Errorf("list() item is %s", describe(it))
					break
				}
				k, _ := im.Get("key")
				v, _ := im.Get("value")
				ks, ok := k.(value.String)
				if !ok || im.Size() != 2 {
					err = fmt.Errorf("list() item is %s", describe(it))
					break
				}
				ps = append(ps, pair{string(ks), v})
			}
		} else {
			err = fmt.Errorf("list() returned %s", describe(r))
		}
	}
	ob.expectPairs("list", hi, ps, err)

	// string(): "{k:v, k:v}" compared as a multiset of entries
	r, err = e.call(e.gen("m.string()", "m"), m)
	e.nObs++
	want := make([]string, 0, len(mod))
	for k, v := range mod {
		want = append(want, k+":"+v.text())
	}
	sort.Strings(want)
	if err != nil {
		ob.report("string", hi, "", "", "{"+strings.Join(want, ", ")+"} in any order", "error: "+err.Error())
	} else if s, ok := r.(value.String); !ok || !sameEntries(string(s), want) {
		ob.report("string", hi, "", "", "{"+strings.Join(want, ", ")+"} in any order", describe(r))
	}
	// Go-level String() must be the same text modulo order
	e.nObs++
	e.nCall++
	if s := m.String(); !sameEntries(s, want) {
		ob.report("Go:String", hi, "", "", "{"+strings.Join(want, ", ")+"} in any order", s)
	}

	// iteration through map and accept: the callback sees every (key,value) of the model once
	r, err = e.call(e.gen("m.map((k,v)->[k,v])", "m"), m)
	ps = nil
	if err == nil {
		if rm, ok := r.(value.Map); ok {
			for _, p := range iterOf(rm) {
				l, ok := p.v.(*value.List)
				if !ok {
					err = fmt.Errorf("map result value %s", describe(p.v))
					break
				}
				kv, err2 := l.ToSlice(st)
				if err2 != nil || len(kv) != 2 {
					err = fmt.Errorf("map result value of length %d (%v)", len(kv), err2)
					break
				}
				if ks, ok := kv[0].(value.String); !ok || string(ks) != p.k {
					err = fmt.Errorf("callback saw key %s for entry %q", describe(kv[0]), p.k)
					break
				}
				ps = append(ps, pair{p.k, kv[1]})
			}
			if err == nil && rm.Size() != len(ps) {
				err = fmt.Errorf("map result has Size %d and %d entries", rm.Size(), len(ps))
			}
		} else {
			err = fmt.Errorf("map returned %s", describe(r))
		}
	}
	ob.expectPairs("map-iteration", hi, ps, err)

	r, err = e.call(e.gen("m.accept((k,v)->true)", "m"), m)
	ps = nil
	if err == nil {
		if rm, ok := r.(value.Map); ok {
			ps = iterOf(rm)
		} else {
			err = fmt.Errorf("accept returned %s", describe(r))
		}
	}
	ob.expectPairs("accept-iteration", hi, ps, err)

	// Go-level Iter (the only observer that can see a key twice) and Size
	e.nCall += 2
	ob.expectPairs("Go:Iter", hi, iterOf(m), nil)
	e.nObs++
	if m.Size() != len(mod) {
		ob.report("Go:Size", hi, "", "", fmt.Sprint(len(mod)), fmt.Sprint(m.Size()))
	}

	// iteration that is stopped early, and callbacks that fail at every key in turn: a representation
	// made of several parts (merge, append chain, replace) must stop everywhere once it is told to, and
	// must not lose an error of one part while it goes through another
	e.nCall++
	e.nObs++
	calls := 0
	m.Iter(func(string, value.Value) bool { calls++; return false })
	if want := map[bool]int{true: 0, false: 1}[len(mod) == 0]; calls != want {
		ob.report("Go:Iter-stopped", hi, "", "", fmt.Sprintf("%d callback(s) when the first one returns false", want), fmt.Sprint(calls))
	}
	r, err = e.call(e.gen("m.list().top(1).size()", "m"), m)
	e.nObs++
	if want := map[bool]int{true: 0, false: 1}[len(mod) == 0]; err != nil {
		ob.report("list-stopped", hi, "", "", fmt.Sprint(want), "error: "+err.Error())
	} else if i, ok := r.(value.Int); !ok || int(i) != want {
		ob.report("list-stopped", hi, "", "", fmt.Sprint(want), describe(r))
	}
	if len(mod) <= 6 {
		for _, k := range mod.keys() {
			for _, src := range []string{"m.map((k,v)->if k=f then throw(\"stop\") else v)", "m.accept((k,v)->if k=f then throw(\"stop\") else true)"} {
				r, err = e.call(e.gen(src, "m", "f"), m, value.String(k))
				e.nObs++
				if err == nil {
					if rm, ok := r.(value.Map); ok {
						// the result may be lazy: force it
						_ = iterOf(rm)
						err = func() (err error) {
							defer func() {
								if rec := recover(); rec != nil {
									err = fmt.Errorf("%v", rec)
								}
							}()
							_, err = e.call(e.gen("r.string()", "r"), rm)
							return err
						}()
					}
				}
				if err == nil {
					ob.report("failing-callback", hi, k, "", "an error (the callback fails at key "+quote(k)+")", describe(r)+" from "+strings.SplitN(src, "(", 2)[0])
				}
			}
		}
	}

	// JSON export
	ob.jsonExport(hi)

	// equality against literals built from the model: three representations, both operand orders
	eq := e.gen("a=b", "a", "b")
	var lastLit value.Map
	ks := mod.keys()
	rev := make([]string, len(ks))
	for i, k := range ks {
		rev[len(ks)-1-i] = k
	}
	lits := []struct {
		name string
		m    value.Map
	}{{"List(sorted)", litList(mod, ks)}, {"Real", litReal(mod)}}
	if len(ks) > 1 {
		lits = append(lits, struct {
			name string
			m    value.Map
		}{"List(reversed)", litList(mod, rev)})
	}
	noInfo := &treeInfo{}
	eqCheck := func(obs string, peer func() string, want bool, other model, hFirst bool) {
		n := len(ob.out)
		var r value.Value
		var err error
		if hFirst {
			r, err = e.call(eq, m, lastLit)
		} else {
			r, err = e.call(eq, lastLit, m)
		}
		ob.expectBool(obs, hi, "", peer, want, r, err)
		if len(ob.out) > n && h.info.dupAppend {
			ob.out[n].Finding = fLowPassDup
		} else if len(ob.out) > n && !isPanic(err) {
			if hFirst {
				ob.out[n].Finding = classifyEq(mod, &h.info, other, noInfo, want, ob.out[n].Got)
			} else {
				ob.out[n].Finding = classifyEq(other, noInfo, mod, &h.info, want, ob.out[n].Got)
			}
		}
	}
	for _, l := range lits {
		lastLit = l.m
		name := l.name
		eqCheck("=lit", func() string { return "h = " + name + mod.String() }, true, mod, true)
		eqCheck("=lit", func() string { return name + mod.String() + " = h" }, true, mod, false)
	}
	// ... and against literals that differ in one place: must be unequal
	neg := func(kind func() string, v model) {
		lastLit = litList(v, v.keys())
		eqCheck("!=lit", func() string { return "h = " + v.String() + " (" + kind() + ")" }, false, v, true)
		eqCheck("!=lit", func() string { return v.String() + " = h (" + kind() + ")" }, false, v, false)
	}
	var outside []string
	for _, p := range probes {
		if _, ok := mod[p]; !ok {
			outside = append(outside, p)
		}
	}
	// values to try for a key the model does not have: 1, and whatever is stored for it somewhere in
	// the representation (so that a wrongly visible entry would compare equal)
	stored := map[string][]mv{}
	collectStored(h.tree, stored)
	tryVals := func(p string) []mv {
		vs := []mv{iv(1)}
		for _, s := range stored[p] {
			dup := false
			for _, x := range vs {
				dup = dup || x == s
			}
			if !dup {
				vs = append(vs, s)
			}
		}
		return vs
	}
	nk := 0
	for _, k := range ks {
		if nk++; nk > 6 {
			break // large maps of the deep families: the first six keys
		}
		v := mod.clone()
		switch old := mod[k]; old.K {
		case 'i':
			v[k] = iv(3 - old.I) // 1 <-> 2
		case 'f':
			v[k] = mv{K: 'f', F: old.F + 1}
		case 'b':
			v[k] = mv{K: 'b', I: 1 - old.I}
		default:
			v[k] = mv{K: 's', S: old.S + "x"}
		}
		neg(func() string { return "value of " + quote(k) + " changed" }, v)
		v = mod.clone()
		delete(v, k)
		neg(func() string { return "key " + quote(k) + " removed" }, v)
		for _, p := range outside {
			for _, pv := range tryVals(p) {
				v = mod.clone()
				delete(v, k)
				v[p] = pv
				neg(func() string { return "key " + quote(k) + " replaced by " + quote(p) }, v)
			}
		}
	}
	for _, p := range outside {
		for _, pv := range tryVals(p) {
			v := mod.clone()
			v[p] = pv
			neg(func() string { return "key " + quote(p) + " added" }, v)
		}
	}
}

func quote(s string) string { return fmt.Sprintf("%q", s) }

func collectStored(n *value.VerifMapNode, into map[string][]mv) {
	for i, k := range n.Keys {
		if i < len(n.Vals) && n.Vals[i] != nil {
			if v, ok := mvOf(n.Vals[i]); ok {
				into[k] = append(into[k], v)
			}
		}
	}
	for _, c := range n.Kids {
		collectStored(c, into)
	}
}

// sameEntries compares "{e1, e2}" with the sorted expected entries as multisets.
func sameEntries(s string, want []string) bool {
	if len(s) < 2 || s[0] != '{' || s[len(s)-1] != '}' {
		return false
	}
	body := s[1 : len(s)-1]
	var got []string
	if body != "" {
		got = strings.Split(body, ", ")
	}
	if len(got) != len(want) {
		return false
	}
	sort.Strings(got)
	for i := range got {
		if got[i] != want[i] {
			return false
		}
	}
	return true
}

func (ob *observer) jsonExport(hi int) {
	e := ob.e
	h := ob.pool[hi]
	e.nObs++
	e.nCall++
	var ps []pair
	err := func() (err error) {
		defer func() {
			if r := recover(); r != nil {
				err = panicError{fmt.Sprint(r)}
			}
		}()
		ex := export.JSON()
		if err := export.Export[[]byte](funcGen.NewEmptyStack[value.Value](), h.m, ex); err != nil {
			return err
		}
		dec := json.NewDecoder(bytes.NewReader(ex.Result()))
		t, err := dec.Token()
		if err != nil || t != json.Delim('{') {
			return fmt.Errorf("JSON export %q: not an object (%v)", ex.Result(), err)
		}
		for dec.More() {
			kt, err := dec.Token()
			if err != nil {
				return fmt.Errorf("JSON export %q: %v", ex.Result(), err)
			}
			k, ok := kt.(string)
			if !ok {
				return fmt.Errorf("JSON export %q: key %v", ex.Result(), kt)
			}
			vt, err := dec.Token()
			if err != nil {
				return fmt.Errorf("JSON export %q: %v", ex.Result(), err)
			}
			ps = append(ps, pair{k, value.String(fmt.Sprint(vt))})
		}
		return nil
	}()
	if err != nil {
		ob.report("json", hi, "", "", "object with the entries "+h.mod.String(), "error: "+err.Error())
		return
	}
	// scalars are exported as JSON strings of their ToString text
	ok := len(ps) == len(h.mod)
	seen := map[string]bool{}
	for _, p := range ps {
		w, has := h.mod[p.k]
		if !has || seen[p.k] || string(p.v.(value.String)) != w.text() {
			ok = false
		}
		seen[p.k] = true
	}
	if !ok {
		ob.report("json", hi, "", "", "object with the entries "+h.mod.String(), pairsString(ps))
	}
}

// peers: = between every ordered pair of live handles (including a handle with itself) must say
// whether the models are equal.
func (ob *observer) peers() {
	e := ob.e
	eq := e.gen("a=b", "a", "b")
	for i, a := range ob.pool {
		for _, b := range ob.pool {
			r, err := e.call(eq, a.m, b.m)
			n := len(ob.out)
			ob.expectBool("=peer", i, "", func() string { return fmt.Sprintf("%s [%s %s]", b.term, b.shape, b.mod) }, a.mod.equal(b.mod), r, err)
			if len(ob.out) > n && (a.info.dupAppend || b.info.dupAppend) {
				ob.out[n].Finding = fLowPassDup
			} else if len(ob.out) > n && !isPanic(err) {
				ob.out[n].Finding = classifyEq(a.mod, &a.info, b.mod, &b.info, a.mod.equal(b.mod), ob.out[n].Got)
			}
		}
	}
}

// observeAll runs every observer on every live handle.
func (e *env) observeAll(pool []*handle) []dis {
	ob := &observer{e: e, pool: pool}
	for i := range pool {
		n := len(ob.out)
		ob.one(i)
		for k := n; k < len(ob.out); k++ {
			if ob.out[k].Finding == "" {
				ob.out[k].Finding = classifyObs(&ob.out[k], pool[i])
			}
		}
	}
	ob.peers()
	return ob.out
}
