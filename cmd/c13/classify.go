package main

import "strconv"

// Classifiers of the genuine defects found on the unchanged tree. Each is a deterministic predicate
// on the failing case (storage shape of the handles involved + observer + key), as narrow as the
// root cause; anything else stays unclassified and is reported as VIOLATION.

const (
	// ReplaceMap.Get consults the replacement before the original: a replacement key outside the
	// original key set is found by Get (get, isAvail, ~, .k, and everything built on Get: put's and
	// +'s uniqueness test, ='s probe of the other operand, combine's lookup, Replace.Iter's lookup in
	// a replacement that itself hides a key) although Iter/Size/string do not have it.
	fReplace = "F13a-replace-get-outside-keys"
	// Map.Merge uses `exists != ""` as the "found a common key" flag: a common key "" is not found.
	fMergeEmpty = "F13b-merge-empty-key"
	// bin.Size() is the constant 3 although an open-ended bin iterates 2 entries.
	fBinSize = "F13c-bin-map-size"
	// funcMapType.Size() is len(declared keys) although Iter skips the keys the function reports absent.
	fFuncSize = "F13d-funcmap-size"
	// createLowPass(name,..).initial(p) / .filter(..) build AppendMap{name, .., p} without testing
	// whether p already has the key: the map has the key twice.
	fLowPassDup = "F13e-lowpass-duplicate-key"
)

// dupObservers: the observers that count or iterate entries (a key stored twice shows up there and
// nowhere else; Get-based observers see the appended value only).
var dupObservers = map[string]bool{"size": true, "Go:Size": true, "list": true, "string": true, "Go:String": true,
	"map-iteration": true, "accept-iteration": true, "Go:Iter": true, "json": true, "=lit": true, "!=lit": true, "=peer": true}

func slackFinding(infos ...*treeInfo) string {
	b, f := 0, 0
	for _, i := range infos {
		b += i.slackBin
		f += i.slackFunc
	}
	switch {
	case b > 0:
		return fBinSize
	case f > 0:
		return fFuncSize
	}
	return ""
}

// classifyObs: single-handle observers.
func classifyObs(d *dis, h *handle) string {
	if h.info.dupAppend && dupObservers[d.Obs] {
		return fLowPassDup
	}
	switch d.Obs {
	case ".k", "get", "isAvail", "~", "Go:Get":
		// the probed key is one a Replace node hides, the model does not have it, and the observer
		// found it
		if _, inModel := h.mod[d.Key]; h.info.hidden[d.Key] && !inModel {
			return fReplace
		}
	case "size", "Go:Size":
		// the size is off by exactly the slack of the Bin / Func leaves that Size() sums up
		if s := h.slack(); s > 0 && d.Got == strconv.Itoa(len(h.mod)+s) {
			return slackFinding(&h.info)
		}
	}
	return ""
}

// classifyEq explains a wrong result of `x = y` (Map.Equals: sizes compared first, then x is
// iterated and y probed with Get).
func classifyEq(xm model, xi *treeInfo, ym model, yi *treeInfo, want bool, got string) string {
	g, err := strconv.ParseBool(got)
	if err != nil {
		// = failed (e.g. "not defined on string, int"): it compared a value of x with an entry of y
		// that y only has behind a Replace node
		for k := range xm {
			if _, inModel := ym[k]; yi.hidden[k] && !inModel {
				return fReplace
			}
		}
		return ""
	}
	if g == want {
		return ""
	}
	// size slack: the result is what the finite-map model gives once Size() is off by the slack
	if xs, ys := xi.slackBin+xi.slackFunc, yi.slackBin+yi.slackFunc; xs+ys > 0 {
		pred := len(xm)+xs == len(ym)+ys
		if pred {
			for k, v := range xm {
				if w, ok := ym[k]; !ok || w != v {
					pred = false
				}
			}
		}
		if pred == g {
			return slackFinding(xi, yi)
		}
	}
	// a key of x that y hides behind a Replace node: y.Get finds it
	for k := range xm {
		if _, inModel := ym[k]; yi.hidden[k] && !inModel {
			return fReplace
		}
	}
	return ""
}

// classifyOp: the operation itself disagreed with the model (err is the implementation's error, nil
// if it returned a value).
func classifyOp(o op, pool []*handle, err error) string {
	a := pool[o.A]
	if a.info.dupAppend || (o.K == "merge" || o.K == "replby" || o.K == "comb") && pool[o.B].info.dupAppend {
		// an operation that iterates an operand holding a key twice
		return fLowPassDup
	}
	hides := hidesKeyOf
	switch o.K {
	case "put":
		// put refused a key the map does not have but a Replace node hides
		if _, inModel := a.mod[o.Key]; err != nil && a.info.hidden[o.Key] && !inModel {
			return fReplace
		}
	case "merge":
		b := pool[o.B]
		if err == nil {
			// accepted although "" is a common key, and "" is the first common key in the iteration
			// order of the second operand (Merge stops at the first common key and remembers it in a
			// string whose zero value means "none"). A Go-map-backed second operand (RealMap, struct
			// wrapper) iterates in a random order that cannot be re-observed: any position counts.
			// "Common" is what Merge sees: a key of the second operand that the first operand's Get
			// finds (in its model, or hidden behind a Replace node: F13a feeding F13b).
			found := func(k string) bool {
				_, ok := a.mod[k]
				return ok || a.info.hidden[k]
			}
			if _, inB := b.mod[""]; !inB || !found("") {
				return ""
			}
			if b.info.kinds["Real"] || b.info.kinds["Struct"] {
				return fMergeEmpty
			}
			for _, p := range iterOf(b.m) {
				if found(p.k) {
					if p.k == "" {
						return fMergeEmpty
					}
					break
				}
			}
		} else if hides(a, b.mod) {
			// refused because the first operand's Get finds a hidden key of the second operand's key set
			return fReplace
		}
	case "comb", "replby":
		// looked up a key of the receiver in a second operand that hides it
		if err == nil && hides(pool[o.B], a.mod) {
			return fReplace
		}
	}
	return ""
}
