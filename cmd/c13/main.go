// C13: all map representations behave as one abstract key-value map.
//
// Explicit-state breadth-first search over operation HISTORIES on the real objects of package value.
// A state is a pool of live handles on real Map values; a transition applies one operation of a small
// alphabet (new <source>, put, +, replace with a literal / with another handle, eval, map, accept,
// combine) to one or two handles and adds the result as a new handle. After every transition every
// live handle is observed through all observers (.k, get, isAvail, ~, size, list, string, map/accept
// iteration, = against literals built from the model in three representations and against one-place
// variants, = against every other live handle, JSON export, and the Go API Get/Iter/Size/String) and
// compared with a Go map[string]value that was fixed when the handle was created. States are
// deduplicated on (model, complete dump of the hidden storage-wrapper tree) per handle, handles
// sorted; the dump comes from the overlay-added accessor value.VerifMapTree.
package main

import (
	"encoding/json"
	"fmt"
	"hash/fnv"
	"os"
	"runtime/debug"
	"sort"
	"strings"

	"github.com/hneemann/parser2/value"
	"verif/internal/bex"
)

// ---------------------------------------------------------------------------------------------
// sources

type sAttr struct{ a, b, c, e int }

var attrFns = map[string]func(sAttr) value.Value{
	"a": func(s sAttr) value.Value { return value.Int(s.a) },
	"b": func(s sAttr) value.Value { return value.Int(s.b) },
	"c": func(s sAttr) value.Value { return value.Int(s.c) },
	"":  func(s sAttr) value.Value { return value.Int(s.e) },
}
var attrVals = sAttr{a: 2, b: 2, c: 1, e: 1}
var attrModel = model{"a": iv(2), "b": iv(2), "c": iv(1), "": iv(1)}

// structSourceOverridden: the first attribute is registered twice (a getter that is overridden afterwards):
// the abstract map is the same as without the first registration.
func structSourceOverridden(name string, keys ...string) *srcDef {
	tm := value.NewToMap[sAttr]()
	mod := model{}
	tm.Attr(keys[0], func(sAttr) value.Value { return value.Int(77) })
	for _, k := range keys {
		tm.Attr(k, attrFns[k])
		mod[k] = attrModel[k]
	}
	return &srcDef{name: name, mod: mod, make: func(e *env) (value.Value, error) { return tm.Create(attrVals) }}
}

func structSource(name string, keys ...string) *srcDef {
	tm := value.NewToMap[sAttr]()
	mod := model{}
	for _, k := range keys {
		tm.Attr(k, attrFns[k])
		mod[k] = attrModel[k]
	}
	return &srcDef{name: name, mod: mod, make: func(e *env) (value.Value, error) { return tm.Create(attrVals) }}
}

// function-backed maps: value v, keys "" -> v+1 and "c" -> v; in the optional variant "c" exists
// only for odd v although it is declared
var funcClean = value.NewFuncMapFactory(func(v value.Int, key string) (value.Value, bool) {
	switch key {
	case "":
		return v + 1, true
	case "c":
		return v, true
	}
	return nil, false
}, "", "c")

var funcOptional = value.NewFuncMapFactory(func(v value.Int, key string) (value.Value, bool) {
	switch key {
	case "b":
		return v, true
	case "c":
		return v, v%2 == 1
	}
	return nil, false
}, "b", "c")

var funcNone = value.NewFuncMapFactory(func(v value.Int, key string) (value.Value, bool) { return nil, false })

type refl1 struct{ A, B int }
type refl2 struct {
	I8  int8
	I16 int16
	I32 int32
	F32 float32
	F64 float64
	S   string
	B   bool
}
type refl3 struct {
	A int
	x int
}
type refl4 struct {
	A   int
	I64 int64
	U   uint
	L   []int
	P   *int
}
type refl5 struct{}

func reflSource[S any](name string, s S, mod model) *srcDef {
	w := value.NewToMapReflection[S]()
	return &srcDef{name: name, mod: mod, make: func(e *env) (value.Value, error) { return w.Create(s) }}
}

func langSource(name, src string, mod model, args ...value.Value) *srcDef {
	names := make([]string, len(args))
	for i := range args {
		names[i] = fmt.Sprintf("x%d", i)
	}
	return &srcDef{name: name, mod: mod, make: func(e *env) (value.Value, error) { return e.call(e.gen(src, names...), args...) }}
}

func fm(f float64) mv { return mv{K: 'f', F: f} }
func sm(s string) mv  { return mv{K: 's', S: s} }

var bigKeys = func() []string {
	var ks []string
	for i := 0; i < 22; i++ {
		ks = append(ks, fmt.Sprintf("k%02d", i))
	}
	return ks
}()

func bigSource() *srcDef {
	mod := model{"a": iv(1), "b": iv(2)}
	src := "{a:x0,b:x1"
	for i, k := range bigKeys {
		mod[k] = iv(int64(i%2 + 1))
		src += fmt.Sprintf(",%s:%d+x0-1", k, i%2+1)
	}
	return langSource("BIG", src+"}", mod, value.Int(1), value.Int(2))
}

var registry = map[string]*srcDef{}
var mainSources, auxSources []string

func reg(main bool, s *srcDef) {
	registry[s.name] = s
	if main {
		mainSources = append(mainSources, s.name)
	} else {
		auxSources = append(auxSources, s.name)
	}
}

func init() {
	one, two := value.Int(1), value.Int(2)
	// main pool (key sets chosen so that + succeeds for some pairs and fails for others)
	reg(true, langSource("E", "{}", model{}))
	reg(true, langSource("L", "{a:x0,b:x1}", model{"a": iv(1), "b": iv(2)}, one, two))
	reg(true, langSource("R", "{b:x0,c:x1}.eval()", model{"b": iv(1), "c": iv(2)}, one, two))
	reg(true, structSource("S", "a", ""))
	reg(true, &srcDef{name: "F", mod: model{"": iv(2), "c": iv(1)}, make: func(e *env) (value.Value, error) { return funcClean.Create(1), nil }})
	reg(true, langSource("B", "[x0].binning(0,1,1,x->x,x->1).descr[0]", model{"str": sm("<0"), "max": fm(0)}, one))

	// auxiliary sources, each explored on its own
	reg(false, &srcDef{name: "EmptyMap", mod: model{}, make: func(e *env) (value.Value, error) { return value.EmptyMap, nil }})
	reg(false, langSource("L3", "{c:x0,a:x1,b:x0}", model{"c": iv(1), "a": iv(2), "b": iv(1)}, one, two))
	reg(false, &srcDef{name: "RealGo", mod: model{"a": iv(1), "": iv(2)}, make: func(e *env) (value.Value, error) {
		return value.NewMap(value.RealMap{"a": value.Int(1), "": value.Int(2)}), nil
	}})
	for m := 0; m < 16; m++ {
		var ks []string
		for i, k := range poolKeys {
			if m&(1<<i) != 0 {
				ks = append(ks, k)
			}
		}
		if m == 9 { // {a,""} is S of the main pool
			continue
		}
		reg(false, structSource(fmt.Sprintf("Struct%v", strings.ReplaceAll(fmt.Sprintf("%q", ks), " ", ",")), ks...))
	}
	reg(false, structSourceOverridden("Struct[a,b]/a-registered-twice", "a", "b"))
	reg(false, structSourceOverridden("Struct[c]/c-registered-twice", "c"))
	reg(false, reflSource("Refl{A,B int}", refl1{1, 2}, model{"A": iv(1), "B": iv(2)}))
	reg(false, reflSource("Refl{int8,int16,int32,float32,float64,string,bool}", refl2{1, 2, 1, 1.5, 2.5, "x", true},
		model{"I8": iv(1), "I16": iv(2), "I32": iv(1), "F32": fm(1.5), "F64": fm(2.5), "S": sm("x"), "B": mv{K: 'b', I: 1}}))
	reg(false, reflSource("Refl{A int; x int}", refl3{1, 2}, model{"A": iv(1), "x": iv(2)}))
	reg(false, reflSource("Refl{A int; int64,uint,[]int,*int}", refl4{A: 1, I64: 2, U: 3}, model{"A": iv(1)}))
	reg(false, reflSource("Refl{}", refl5{}, model{}))
	reg(false, &srcDef{name: "FuncOpt(1)", mod: model{"b": iv(1), "c": iv(1)}, make: func(e *env) (value.Value, error) { return funcOptional.Create(1), nil }})
	reg(false, &srcDef{name: "FuncOpt(2)", mod: model{"b": iv(2)}, make: func(e *env) (value.Value, error) { return funcOptional.Create(2), nil }})
	reg(false, &srcDef{name: "FuncNone", mod: model{}, make: func(e *env) (value.Value, error) { return funcNone.Create(1), nil }})
	reg(false, langSource("Bin1[1]", "[x0].binning(0,1,1,x->x,x->1).descr[1]", model{"str": sm("0-1"), "min": fm(0), "max": fm(1)}, one))
	reg(false, langSource("Bin1[2]", "[x0].binning(0,1,1,x->x,x->1).descr[2]", model{"str": sm(">1"), "min": fm(1)}, one))
	reg(false, langSource("Bin0[0]", "[x0].binning(2,1,0,x->x,x->1).descr[0]", model{"str": sm("<2"), "max": fm(2)}, one))
	reg(false, langSource("Bin0[1]", "[x0].binning(2,1,0,x->x,x->1).descr[1]", model{"str": sm(">2"), "min": fm(2)}, one))
	reg(false, langSource("Bin2d.yDescr[0]", "[x0].binning2d(0,1,1,0,1,1,x->x,x->x,x->1).yDescr[0]", model{"str": sm("<0"), "max": fm(0)}, one))
	reg(false, langSource("Bin2d.xd[1]", "[x0].binning2d(0,1,1,0,1,1,x->x,x->x,x->1).values[1].xd", model{"str": sm("0-1"), "min": fm(0), "max": fm(1)}, one))

	// createLowPass builds AppendMap directly (value.go): with a new signal name, and with one the
	// point map already has
	reg(false, langSource("LowPass.initial(new key)", `createLowPass("b", p->p.a, p->p.c, 1).initial({a:x0,c:x1})`,
		model{"a": iv(1), "c": iv(2), "b": iv(2)}, one, two))
	lp := langSource("LowPass.initial(existing key)", `createLowPass("a", p->p.c, p->p.c, 1).initial({a:x0,c:x1})`,
		model{"a": iv(2), "c": iv(2)}, one, two)
	lp.errOK = "createLowPass with a signal name the point map already has: error or replacement"
	reg(false, lp)

	// bases of the deep families
	registry["BIG"] = bigSource()
	registry["C1"] = langSource("C1", "{c:x0}", model{"c": iv(1)}, one)
}

// ---------------------------------------------------------------------------------------------
// running a path on fresh objects

type runCfg struct {
	Sources []string `json:"sources"` // initial pool (the main BFS starts empty and uses "new" operations)
	Pinned  int      `json:"pinned"`  // the first Pinned handles are never dropped
	Bound   int      `json:"bound"`   // 0 = no bound; else the oldest non-pinned handle is dropped
}

func (e *env) initial(cfg runCfg) ([]*handle, *dis) {
	var pool []*handle
	for _, s := range cfg.Sources {
		if _, d, _ := e.stepCfg(op{K: "src", Src: s}, &pool, cfg); d != nil {
			return nil, d
		}
	}
	return pool, nil
}

func (e *env) stepCfg(o op, pool *[]*handle, cfg runCfg) (string, *dis, string) {
	return e.step(o, pool, registry, cfg.Bound, cfg.Pinned)
}

// replay rebuilds the pool of a path from fresh source objects (validated prefix: no observation).
func (e *env) replay(cfg runCfg, path []op) ([]*handle, *dis) {
	pool, d := e.initial(cfg)
	if d != nil {
		return nil, d
	}
	for _, o := range path {
		if _, d, _ := e.stepCfg(o, &pool, cfg); d != nil {
			return pool, d
		}
	}
	return pool, nil
}

// transition = fresh replay of path, one more operation, observation of every live handle.
// It returns the pool after the operation, the outcome and every disagreement.
func (e *env) transition(cfg runCfg, path []op, o op) (pool []*handle, outcome string, ds []dis, unspec string) {
	pool, d := e.replay(cfg, path)
	if d != nil {
		d.Obs = "replay:" + d.Obs
		return pool, "bad", []dis{*d}, ""
	}
	before := make([]string, len(pool))
	olds := append([]*handle(nil), pool...)
	for i, h := range pool {
		before[i] = h.dump
	}
	outcome, d, unspec = e.stepCfg(o, &pool, cfg)
	if outcome == "n/a" {
		return pool, outcome, nil, ""
	}
	if d != nil {
		ds = append(ds, *d)
	}
	// the operation must not have changed anything reachable from the handles that existed before
	for i, h := range olds {
		e.nObs++
		if now := value.VerifMapShape(h.m, true); now != before[i] {
			ds = append(ds, dis{Obs: "persistence", H: i, Term: h.term, Shape: h.shape, Want: "unchanged storage " + before[i], Got: now})
		}
	}
	ds = append(ds, e.observeAll(pool)...)
	return pool, outcome, ds, unspec
}

// A disagreement is reported once per (derivation of the handle, observer, key, peer, observed value):
// the same anomalous handle is re-observed in every state that holds it. After three verbatim cases
// per finding / kind (BFS order: the smallest come first) the rest is only counted; bex keeps the
// shortest repro per kind, so the counted ones carry a dummy that is longer than any real case.
var (
	reported = map[string]int{}
	seenDis  = map[uint64]struct{}{}
	padRepro = map[string]any{"counted-only": strings.Repeat("-", 6000)}
)

func report(ctx *bex.Ctx, space string, cfg runCfg, path []op, o op, ds []dis) {
	var full []op
	for _, d := range ds {
		dk := hash64(d.Term + "\x00" + d.Obs + "\x00" + d.Key + "\x00" + d.Peer + "\x00" + d.Got)
		if _, ok := seenDis[dk]; ok {
			continue
		}
		seenDis[dk] = struct{}{}
		what := "observer " + d.Obs + " disagrees with the finite-map model"
		if strings.HasPrefix(d.Obs, "op:") {
			what = "operation " + d.Obs[3:] + " disagrees with the finite-map model"
		}
		rk := d.Finding
		if rk == "" {
			rk = "?" + what
		}
		if reported[rk] >= 3 {
			ctx.Violate(what, padRepro, "", "", d.Finding)
			continue
		}
		reported[rk]++
		if full == nil {
			full = append(append([]op(nil), path...), o)
		}
		repro := map[string]any{"space": space, "cfg": cfg, "path": pathJSON(full), "history": pathString(full),
			"observer": d.Obs, "handle": d.H, "term": d.Term, "shape": d.Shape}
		if d.Key != "" || d.Obs == "get" || d.Obs == "isAvail" || d.Obs == "~" || d.Obs == "Go:Get" {
			repro["key"] = d.Key
		}
		if d.Peer != "" {
			repro["against"] = d.Peer
		}
		ctx.Violate(what, repro, d.Want, d.Got, d.Finding)
	}
}

// ---------------------------------------------------------------------------------------------
// BFS

type node struct {
	path []op
}

// countOnly (C13_COUNTONLY=1, development aid): build the state graph without validating anything.
var countOnly = os.Getenv("C13_COUNTONLY") != ""

func hash64(s string) uint64 {
	h := fnv.New64a()
	h.Write([]byte(s))
	return h.Sum64()
}

type bfsStats struct {
	states, transitions, validated int64
	newShapes                      []int64 // per depth
	newStates                      []int64
	completedDepth                 int
}

// bfs explores all histories of at most depth operations. Every worker builds the whole state graph
// (operations applied to the real objects, keys from the accessor) so that all workers agree on the
// numbering of the frontier; the transitions out of frontier state number i are validated (fresh
// replay + operation + every observer on every live handle) by the worker that owns i.
func bfs(ctx *bex.Ctx, e *env, space string, cfg runCfg, srcOrder []string, depth int, al *alphabet,
	seen map[uint64]struct{}, shapes map[string]struct{}, idx *int64, st *bfsStats) {
	frontier := []node{{}}
	pool0, d := e.initial(cfg)
	if d != nil {
		ctx.Violate("source cannot be built", map[string]any{"space": space, "cfg": cfg}, d.Want, d.Got, "")
		return
	}
	k0 := hash64(space + "\x00" + stateKey(pool0))
	if _, ok := seen[k0]; !ok {
		seen[k0] = struct{}{}
		st.states++
	}
	for len(st.newShapes) <= depth {
		st.newShapes = append(st.newShapes, 0)
		st.newStates = append(st.newStates, 0)
	}
	for level := 0; level < depth && len(frontier) > 0; level++ {
		var next []node
		for _, nd := range frontier {
			if ctx.Expired() {
				return
			}
			*idx++
			mine := ctx.Mine(*idx) && !countOnly
			shared, d := e.replay(cfg, nd.path)
			if d != nil {
				// cannot happen: the path was executed when the state was found
				ctx.Violate("replay of a validated path failed", map[string]any{"space": space, "cfg": cfg, "path": pathJSON(nd.path)}, d.Want, d.Got, "")
				continue
			}
			sharedDump := make([]string, len(shared))
			for i, h := range shared {
				sharedDump[i] = h.dump
			}
			for _, o := range enumOps(shared, nd.path, srcOrder, al) {
				var pool []*handle
				var outcome, unspec string
				if mine {
					if ctx.Expired() {
						return
					}
					ctx.Begin(func() map[string]any {
						return map[string]any{"space": space, "cfg": cfg, "path": pathJSON(append(append([]op(nil), nd.path...), o))}
					})
					var ds []dis
					pool, outcome, ds, unspec = e.transition(cfg, nd.path, o)
					if outcome == "n/a" {
						continue
					}
					ctx.Eval()
					st.validated++
					ctx.Outcome(o.K + ":" + outcome)
					if unspec != "" {
						ctx.Unspecified(unspec)
					}
					if len(ds) > 0 {
						report(ctx, space, cfg, nd.path, o, ds)
					}
					if ctx.WantSample() && outcome == "new" && len(nd.path) >= 2 && *idx%7 == 0 {
						ctx.Sample(sampleOf(space, nd.path, o, pool))
					}
				} else {
					pool = append([]*handle(nil), shared...)
					outcome, _, _ = e.stepCfg(o, &pool, cfg)
					if outcome == "n/a" {
						continue
					}
				}
				st.transitions++
				if outcome != "new" {
					continue
				}
				nh := pool[len(pool)-1]
				if _, ok := shapes[nh.cshape]; !ok {
					shapes[nh.cshape] = struct{}{}
					st.newShapes[level+1]++
				}
				k := hash64(space + "\x00" + stateKey(pool))
				if _, ok := seen[k]; ok {
					continue
				}
				seen[k] = struct{}{}
				st.states++
				st.newStates[level+1]++
				if ctx.Shard == 0 && hasWrapper(pool) {
					ctx.NontrivialH(k)
				}
				if level+1 < depth {
					next = append(next, node{path: append(append([]op(nil), nd.path...), o)})
				}
			}
			// the shared objects were used as operands of every operation of this state: they must
			// still be what they were (otherwise the workers could disagree on the state graph)
			for i, h := range shared {
				if now := value.VerifMapShape(h.m, true); now != sharedDump[i] {
					ctx.Violate("an operation changed the storage of an operand", map[string]any{"space": space, "cfg": cfg, "path": pathJSON(nd.path), "handle": i},
						sharedDump[i], now, "")
				}
			}
		}
		if ctx.Expired() {
			return
		}
		st.completedDepth = level + 1
		frontier = next
	}
}

func hasWrapper(pool []*handle) bool {
	for _, h := range pool {
		if h.info.kinds["Append"] || h.info.kinds["Merge"] || h.info.kinds["Replace"] {
			return true
		}
	}
	return false
}

func sampleOf(space string, path []op, o op, pool []*handle) map[string]any {
	hs := make([]map[string]any, len(pool))
	for i, h := range pool {
		hs[i] = map[string]any{"handle": fmt.Sprintf("h%d", i), "term": h.term, "model": h.mod.String(), "shape": h.shape}
	}
	return map[string]any{"space": space, "history": pathString(append(append([]op(nil), path...), o)), "pool_after": hs,
		"observed": "every observer on every handle of pool_after, = between all ordered pairs"}
}

// ---------------------------------------------------------------------------------------------
// deep families: replace chains with put / + / eval interleaved at every position

var deepPatterns = map[string][]string{
	"inside":         {"a", "b"},
	"outside":        {"c"},
	"mixed":          {"a", "c", "b", "c"},
	"outside-inside": {"c", "c", "a", "b"},
}

type inter struct {
	Pos  int    `json:"pos"`
	Kind string `json:"kind"` // put-c put-empty merge-c c-merge eval map
}

var interKinds = []string{"put-c", "put-empty", "merge-C1", "C1-merge", "eval", "map"}

type deepStats struct {
	seen                             map[uint64]struct{}
	states, transitions, validated   int64
	flatList, flatReal, maxDepthSeen int64
}

// deepHistory executes one family member step by step. The worker that owns it validates every step
// (fresh replay + operation + all observers on all live handles); the other workers only apply the
// operations, so that every worker knows the exact set of states.
func deepHistory(ctx *bex.Ctx, e *env, dst *deepStats, mine bool, base, pat string, n int, inters []inter) {
	cfg := runCfg{Sources: []string{base, "C1"}, Pinned: 2, Bound: 4}
	keys := deepPatterns[pat]
	var path []op
	// the chain head is the newest handle, or the base while nothing has been added
	headIndex := func(pool []*handle) int {
		if len(pool) > 2 {
			return len(pool) - 1
		}
		return 0
	}
	pool, d := e.initial(cfg)
	if d != nil {
		ctx.Violate("source cannot be built", map[string]any{"space": "deep", "cfg": cfg}, d.Want, d.Got, "")
		return
	}
	do := func(mk func(head int) op) {
		o := mk(headIndex(pool))
		var p2 []*handle
		var outcome string
		if mine {
			ctx.Begin(func() map[string]any {
				return map[string]any{"space": "deep", "cfg": cfg, "path": pathJSON(append(append([]op(nil), path...), o))}
			})
			var ds []dis
			var unspec string
			p2, outcome, ds, unspec = e.transition(cfg, path, o)
			if outcome == "n/a" {
				return
			}
			ctx.Eval()
			dst.validated++
			ctx.Outcome("deep:" + o.K + ":" + outcome)
			if unspec != "" {
				ctx.Unspecified(unspec)
			}
			if len(ds) > 0 {
				report(ctx, "deep", cfg, path, o, ds)
			}
			if ctx.WantSample() && len(path) == 12 && outcome == "new" {
				ctx.Sample(sampleOf("deep-replace-chains", path, o, p2))
			}
		} else {
			p2 = append([]*handle(nil), pool...)
			outcome, _, _ = e.stepCfg(o, &p2, cfg)
			if outcome == "n/a" {
				return
			}
		}
		dst.transitions++
		if outcome == "new" {
			nh := p2[len(p2)-1]
			k := hash64("deep\x00" + stateKey(p2))
			if _, ok := dst.seen[k]; !ok {
				dst.seen[k] = struct{}{}
				dst.states++
				if ctx.Shard == 0 {
					ctx.NontrivialH(k)
				}
			}
			if md := int64(maxDepth(nh.tree)); md > dst.maxDepthSeen {
				dst.maxDepthSeen = md
			}
			if o.K == "repl" && strings.HasPrefix(nh.shape, "Real") {
				dst.flatReal++
			}
			if o.K == "repl" && strings.HasPrefix(nh.shape, "List") {
				dst.flatList++
			}
		}
		if outcome == "bad" && mine {
			// disagreement of the operation itself: nothing was added, the chain continues from the old head
			pool, _ = e.replay(cfg, path)
			return
		}
		if outcome == "new" {
			// a failed or no-op step leaves the pool as it was (validated by the observation after it)
			// and is not replayed
			path = append(path, o)
		}
		pool = p2
	}
	step := 0
	for i := 0; i <= n; i++ {
		for _, in := range inters {
			if in.Pos != i {
				continue
			}
			switch in.Kind {
			case "put-c":
				do(func(h int) op { return op{K: "put", A: h, Key: "c", V: 1} })
			case "put-empty":
				do(func(h int) op { return op{K: "put", A: h, Key: "", V: 2} })
			case "merge-C1":
				do(func(h int) op { return op{K: "merge", A: h, B: 1} })
			case "C1-merge":
				do(func(h int) op { return op{K: "merge", A: 1, B: h} })
			case "eval":
				do(func(h int) op { return op{K: "eval", A: h} })
			case "map":
				do(func(h int) op { return op{K: "map", A: h} })
			}
		}
		if i == n {
			break
		}
		k := keys[step%len(keys)]
		v := step%2 + 1
		step++
		do(func(h int) op { return op{K: "repl", A: h, Key: k, V: v} })
		if ctx.Expired() {
			return
		}
	}
}

func maxDepth(n *value.VerifMapNode) int {
	d := n.Depth
	for _, k := range n.Kids {
		if x := maxDepth(k); x > d {
			d = x
		}
	}
	return d
}

func runDeep(ctx *bex.Ctx, e *env) {
	ctx.Space("deep-replace-chains")
	n := 13
	two := false
	if !ctx.Quick() {
		n = 24
		two = true
	}
	pats := []string{"inside", "outside", "mixed", "outside-inside"}
	var idx int64
	dst := &deepStats{seen: map[uint64]struct{}{}}
	hist := func(base, pat string, inters []inter) {
		idx++
		if !ctx.Expired() {
			deepHistory(ctx, e, dst, ctx.Mine(idx), base, pat, n, inters)
		}
	}
	for _, base := range []string{"L", "BIG"} {
		for _, pat := range pats {
			// no interleaving, one interleaved operation at every position, two at every pair of positions
			hist(base, pat, nil)
			for _, k := range interKinds {
				for p := 0; p <= n; p++ {
					hist(base, pat, []inter{{p, k}})
				}
			}
			if !two {
				continue
			}
			for _, k1 := range interKinds {
				for _, k2 := range interKinds {
					for p := 0; p <= n; p += 2 {
						for q := p; q <= n; q += 3 {
							hist(base, pat, []inter{{p, k1}, {q, k2}})
						}
					}
				}
			}
		}
	}
	b := fmt.Sprintf("bases {L={a:1,b:2}, BIG=24 keys} x replacement-key patterns %v x replace chains of length %d (every prefix observed: depth 1..%d) x one interleaved operation of %v at every position 0..%d", pats, n, n, interKinds, n)
	if two {
		b += " x two interleaved operations at positions p (step 2) <= q (step 3)"
	}
	ctx.SpaceDone(b + "; pool: base, {c:1}, the two newest chain handles")
	if ctx.Shard == 0 {
		ctx.Add("states", dst.states)
		ctx.Add("transitions", dst.transitions)
		ctx.Add("deep_states", dst.states)
		ctx.Add("deep_flattened_to_List", dst.flatList)
		ctx.Add("deep_flattened_to_RealMap", dst.flatReal)
		ctx.Add("deep_max_replace_depth_seen", dst.maxDepthSeen)
	}
	ctx.Add("traces_validated_against_impl", dst.validated)
}

// ---------------------------------------------------------------------------------------------

var mainAlphabet = &alphabet{putKeys: poolKeys, replKeys: []string{"a", "b", "c"}, vals: []int{1, 2}}

func run(ctx *bex.Ctx) {
	debug.SetGCPercent(400)
	e := newEnv()
	// depth = number of operations of a history, "new <source>" included
	depth, auxDepth := 4, 3
	if !ctx.Quick() {
		depth, auxDepth = 5, 4
	}
	if v := envInt("C13_DEPTH"); v > 0 {
		depth = v
	}

	// 1. main BFS: the pool starts empty, "new <source>" is an operation
	ctx.Space("bfs-main")
	seen := map[uint64]struct{}{}
	shapes := map[string]struct{}{}
	var idx int64
	st := &bfsStats{}
	al := *mainAlphabet
	al.maxSrcAt = depth
	if !strings.Contains(os.Getenv("C13_SKIP"), "main") { // development aid
		bfs(ctx, e, "bfs-main", runCfg{}, mainSources, depth, &al, seen, shapes, &idx, st)
	}
	ctx.SpaceDone(fmt.Sprintf("all histories of <= %d operations from the empty pool over {new E,L,R,S,F,B; put(k,v) k in {a,b,c,\"\"} v in {1,2}; replace(m->{k:v}) k in {a,b,c}; replace(m->h); eval; map; accept x2; h+h; combine}; no handle is ever dropped (pool <= %d)", depth, depth))
	if ctx.Shard == 0 {
		ctx.Add("states", st.states)
		ctx.Add("transitions", st.transitions)
		ctx.Add("bfs_main_states", st.states)
		ctx.Add("bfs_main_completed_depth", int64(st.completedDepth))
		for d := 1; d < len(st.newShapes); d++ {
			ctx.Add(fmt.Sprintf("bfs_main_new_shapes_at_depth_%d", d), st.newShapes[d])
			ctx.Add(fmt.Sprintf("bfs_main_new_states_at_depth_%d", d), st.newStates[d])
		}
		ctx.Add("distinct_shapes", int64(len(shapes)))
	}
	ctx.Add("traces_validated_against_impl", st.validated)

	// 2. every auxiliary source on its own
	ctx.Space("bfs-aux-sources")
	ast := &bfsStats{}
	aal := *mainAlphabet
	aal.maxSrcAt = 1 // the source is introduced by the first operation, nothing else can be
	for _, s := range auxSources {
		bfs(ctx, e, "bfs-aux-sources", runCfg{}, []string{s}, auxDepth, &aal, seen, shapes, &idx, ast)
	}
	ctx.SpaceDone(fmt.Sprintf("each of %d further sources (EmptyMap, RealMap from Go, struct wrappers over every attribute subset of the key pool, reflection wrappers over 5 struct types, function-backed maps with optional keys, every bin of binning/binning2d, createLowPass point maps) alone x all histories of <= %d operations (the first is \"new <source>\")", len(auxSources), auxDepth))
	if ctx.Shard == 0 {
		ctx.Add("states", ast.states)
		ctx.Add("transitions", ast.transitions)
		ctx.Add("distinct_shapes_with_aux", int64(len(shapes)))
	}
	ctx.Add("traces_validated_against_impl", ast.validated)

	// 3. deep families
	runDeep(ctx, e)

	ctx.Add("observations", e.nObs)
	ctx.Add("calls_into_value_package", e.nCall)
}

func envInt(k string) int {
	var v int
	fmt.Sscanf(os.Getenv(k), "%d", &v)
	return v
}

// ---------------------------------------------------------------------------------------------

func replay(repro map[string]any) (string, bool) {
	b, _ := json.Marshal(repro)
	var r struct {
		Cfg      runCfg `json:"cfg"`
		Path     []op   `json:"path"`
		Observer string `json:"observer"`
		Handle   int    `json:"handle"`
		Key      string `json:"key"`
	}
	if err := json.Unmarshal(b, &r); err != nil || len(r.Path) == 0 {
		return fmt.Sprintf("cannot read the case: %v", err), true
	}
	e := newEnv()
	last := r.Path[len(r.Path)-1]
	pool, outcome, ds, _ := e.transition(r.Cfg, r.Path[:len(r.Path)-1], last)
	var sb strings.Builder
	fmt.Fprintf(&sb, "history: %s\n  outcome of the last operation: %s\n", pathString(r.Path), outcome)
	for i, h := range pool {
		fmt.Fprintf(&sb, "  h%d = %s  model %s  storage %s\n", i, h.term, h.mod, h.shape)
	}
	// the recorded disagreement first
	same := func(d dis) bool { return d.Obs == r.Observer && d.H == r.Handle && d.Key == r.Key }
	sort.SliceStable(ds, func(i, j int) bool { return same(ds[i]) && !same(ds[j]) })
	still := false
	for i, d := range ds {
		still = still || same(d)
		if i >= 12 {
			fmt.Fprintf(&sb, "  ... %d more disagreements\n", len(ds)-i)
			break
		}
		fmt.Fprintf(&sb, "  DISAGREE %s on h%d key=%q %s: want %s, got %s [classifier %q]\n", d.Obs, d.H, d.Key, d.Peer, d.Want, d.Got, d.Finding)
	}
	if r.Observer == "" {
		still = len(ds) > 0
	}
	return sb.String(), still
}

// extra adds the bound description and the fixpoint statement to the evidence.
func extra(merged *bex.Result, cov map[string]any) {
	d := merged.Counters["bfs_main_completed_depth"]
	last := merged.Counters[fmt.Sprintf("bfs_main_new_shapes_at_depth_%d", d)]
	cov["bounds"] = map[string]any{
		"bfs_main_depth_completed": d,
		"key_pool":                 poolKeys,
		"values":                   []int{1, 2},
		"sources_main":             mainSources,
		"sources_aux":              len(auxSources),
		"pool":                     "no handle dropped in the BFS spaces (pool <= depth); deep families keep base, {c:1} and the two newest chain handles",
	}
	cov["fixpoint_of_new_shapes_reached"] = false
	cov["fixpoint_note"] = fmt.Sprintf("no fixpoint exists: storage wrappers nest without bound (e.g. Merge(x,List()) for every x + {}); the deepest completed BFS level %d still found %d new storage shapes. Longer histories are covered only by the deep replace-chain families", d, last)
}

func main() {
	bex.Main(&bex.Check{
		ID:    "C13",
		Level: "model_checking",
		Rule:  "explicit-state BFS over operation histories on the real value.Map objects: a state is the pool of live handles, canonical key = sorted (model, complete dump of the storage-wrapper tree: wrapper nesting, stored keys and values, ReplaceMap depth, hidden replacement entries; entries of listMap leaves sorted, because lists derived from Go-map-backed storage inherit Go's random iteration order) per handle. Every transition is executed on objects rebuilt from fresh sources by replaying the shortest path, then every observer runs on every live handle against the Go-map model fixed at creation, and the storage dump of every older handle is compared with its dump before the operation. states = distinct canonical keys; transitions = operation applications (including the ones that must fail and the ones whose result is already live); traces_validated_against_impl = transitions followed by the full observation (= transitions when the run completes: each is validated by the worker owning its frontier state; all workers build the same state graph). distinct_nontrivial = distinct BFS states holding at least one handle with an Append/Merge/Replace wrapper + distinct states of the deep families",
		Assumptions: []string{
			"replace with replacement keys outside the original key set: the property does not say added or ignored; either is accepted for the new handle (decided by its iteration), then all observers must agree with that reading",
			"combine with a key missing in the other map: error or intersection accepted",
			"iteration order is unspecified: string(), list(), map/accept results and exports are compared as sets of entries (a key seen twice is a violation)",
			"reflection wrappers: the model has the fields of the kinds the wrapper maps (int8/16/32/int, bool, float32/64, string)",
			"scalar formatting (Int/Float/String ToString) is not under test: expected texts are rendered by the library's own scalar ToString",
			"the storage dump of the accessor covers every field the map code reads (closures of struct/function wrappers are fixed per source)",
			"a + whose first operand hides (finding F13a) a key of the second operand is validated but its result is not explored further: whether Merge fails on the hidden key or is let through by a hidden \"\" (F13b) depends on Go's random map iteration order",
			"createLowPass(name,..).initial(p) with a name that p already has: error or replacement accepted (the property does not list this constructor)",
		},
		QuickBudget: 55e9, ThoroughBudget: 24 * 60e9,
		Run:              run,
		Replay:           replay,
		CrashIsViolation: true,
		Extra:            extra,
	})
}
