package main

import (
	"encoding/json"
	"fmt"
	"sort"
	"strconv"
	"strings"
	"sync"

	"github.com/hneemann/parser2/funcGen"
	"github.com/hneemann/parser2/value"
)

// ---------------------------------------------------------------------------------------------
// model values and the finite-map model

// mv is a model value: an int, a float or a string (the scalar types that occur in the sources).
type mv struct {
	K byte // 'i' 'f' 's' 'b' (bool: I is 0 or 1)
	I int64
	F float64
	S string
}

func iv(i int64) mv { return mv{K: 'i', I: i} }

func (v mv) val() value.Value {
	switch v.K {
	case 'i':
		return value.Int(v.I)
	case 'f':
		return value.Float(v.F)
	case 'b':
		return value.Bool(v.I == 1)
	}
	return value.String(v.S)
}

func mvOf(v value.Value) (mv, bool) {
	switch x := v.(type) {
	case value.Int:
		return iv(int64(x)), true
	case value.Float:
		return mv{K: 'f', F: float64(x)}, true
	case value.String:
		return mv{K: 's', S: string(x)}, true
	case value.Bool:
		if x {
			return mv{K: 'b', I: 1}, true
		}
		return mv{K: 'b'}, true
	}
	return mv{}, false
}

func (v mv) String() string {
	switch v.K {
	case 'i':
		return strconv.FormatInt(v.I, 10)
	case 'f':
		return "f" + strconv.FormatFloat(v.F, 'g', -1, 64)
	case 'b':
		return strconv.FormatBool(v.I == 1)
	}
	return strconv.Quote(v.S)
}

// text is the rendering of the value by the library's own scalar ToString (used by string() and
// the exporters); scalar formatting is not under test in C13.
func (v mv) text() string {
	s, _ := v.val().ToString(funcGen.NewEmptyStack[value.Value]())
	return s
}

func describe(v value.Value) string {
	if v == nil {
		return "<nil>"
	}
	if m, ok := mvOf(v); ok {
		return m.String()
	}
	if m, ok := v.(value.Map); ok {
		return "map " + value.VerifMapShape(m, true)
	}
	if b, ok := v.(value.Bool); ok {
		return strconv.FormatBool(bool(b))
	}
	return fmt.Sprintf("%T", v)
}

type model map[string]mv

func (m model) keys() []string {
	ks := make([]string, 0, len(m))
	for k := range m {
		ks = append(ks, k)
	}
	sort.Strings(ks)
	return ks
}

func (m model) String() string {
	var b strings.Builder
	b.WriteByte('{')
	for i, k := range m.keys() {
		if i > 0 {
			b.WriteByte(',')
		}
		b.WriteString(strconv.Quote(k))
		b.WriteByte(':')
		b.WriteString(m[k].String())
	}
	b.WriteByte('}')
	return b.String()
}

func (m model) clone() model {
	c := make(model, len(m)+1)
	for k, v := range m {
		c[k] = v
	}
	return c
}

func (m model) equal(o model) bool {
	if len(m) != len(o) {
		return false
	}
	for k, v := range m {
		if w, ok := o[k]; !ok || w != v {
			return false
		}
	}
	return true
}

func (m model) allInt() bool {
	for _, v := range m {
		if v.K != 'i' {
			return false
		}
	}
	return true
}

// ---------------------------------------------------------------------------------------------
// environment: one FunctionGenerator and the functions generated once per process

type fn = funcGen.Func[value.Value]

type env struct {
	g     *value.FunctionGenerator
	cache map[string]fn
	nObs  int64 // observations made
	nCall int64 // calls into generated functions / the Go API of package value
}

func newEnv() *env { return &env{g: value.New(), cache: map[string]fn{}} }

func (e *env) gen(src string, args ...string) fn {
	key := src + "\x00" + strings.Join(args, ",")
	if f, ok := e.cache[key]; ok {
		return f
	}
	f, _, err := e.g.Generate(src, args...)
	if err != nil {
		panic(fmt.Sprintf("c13 harness: cannot generate %q: %v", src, err))
	}
	e.cache[key] = f
	return f
}

type panicError struct{ msg string }

func (p panicError) Error() string { return "PANIC: " + p.msg }

func isPanic(err error) bool { _, ok := err.(panicError); return ok }

func (e *env) call(f fn, args ...value.Value) (res value.Value, err error) {
	e.nCall++
	defer func() {
		if r := recover(); r != nil {
			res, err = nil, panicError{fmt.Sprint(r)}
		}
	}()
	return f(funcGen.NewStack[value.Value](args...))
}

// ---------------------------------------------------------------------------------------------
// handles

type handle struct {
	m    value.Map
	mod  model
	term string
	tree *value.VerifMapNode
	// shape: storage-wrapper nesting with keys; dump: the same with all stored values (everything the
	// map code can read); both obtained through the overlay-added accessor
	shape, dump string
	// ckey: dump with the entries of List leaves sorted (lists derived from Go-map-backed storage
	// inherit Go's random iteration order; the state key must be deterministic across workers)
	ckey, cshape string
	info         treeInfo
}

// treeInfo is what the classifiers need to know about a storage tree.
type treeInfo struct {
	// hidden: keys that Get finds at the root although Iter does not yield them, because some Replace
	// node has the key in its replacement and not in its original (root cause of F13a)
	hidden map[string]bool
	// slack per leaf kind: Size() minus iterated entries, summed the way Size() sums (Append.parent,
	// Merge.a+b, Replace.orig)
	slackBin, slackFunc int
	kinds               map[string]bool
	// dupAppend: some Append node carries a key that its own parent already has (impossible through
	// put, which tests for it; createLowPass builds AppendMap directly: F13e)
	dupAppend bool
}

// analyse walks the storage tree with the semantics of the current implementation: get = keys Get
// finds, iter = keys Iter yields, plus the Size() slack of Bin and Func leaves summed the way Size()
// sums it. The leaves have get = iter by construction, so get \ iter at the root is non-empty only
// because of Replace nodes whose replacement has a key the original does not have.
func analyse(n *value.VerifMapNode, ti *treeInfo) (get, iter map[string]bool, sb, sf int) {
	ti.kinds[n.Kind] = true
	switch n.Kind {
	case "Append":
		g, i, b, f := analyse(n.Kids[0], ti)
		if i[n.Keys[0]] {
			ti.dupAppend = true
		}
		g[n.Keys[0]] = true
		i[n.Keys[0]] = true
		return g, i, b, f
	case "Merge":
		ga, ia, ba, fa := analyse(n.Kids[0], ti)
		gb, ib, bb, fb := analyse(n.Kids[1], ti)
		for k := range gb {
			ga[k] = true
		}
		for k := range ib {
			ia[k] = true
		}
		return ga, ia, ba + bb, fa + fb
	case "Replace":
		g, i, bo, fo := analyse(n.Kids[0], ti)
		gr, _, _, _ := analyse(n.Kids[1], ti)
		for k := range gr {
			g[k] = true
		}
		return g, i, bo, fo
	case "Map":
		return analyse(n.Kids[0], ti)
	}
	get, iter = map[string]bool{}, map[string]bool{}
	for _, k := range n.Keys {
		get[k] = true
		iter[k] = true
	}
	switch n.Kind {
	case "Bin":
		sb = n.Slack
	case "Func":
		sf = n.Slack
	}
	return
}

func newHandle(m value.Map, mod model, term string) *handle {
	h := &handle{m: m, mod: mod, term: term}
	h.refresh()
	return h
}

func (h *handle) refresh() {
	h.tree = value.VerifMapTree(h.m)
	var b strings.Builder
	h.tree.Render(&b, false, false)
	h.shape = b.String()
	b.Reset()
	h.tree.Render(&b, true, false)
	h.dump = b.String()
	b.Reset()
	h.tree.Render(&b, true, true)
	h.ckey = b.String()
	b.Reset()
	h.tree.Render(&b, false, true)
	h.cshape = b.String()
	h.info = treeInfo{hidden: map[string]bool{}, kinds: map[string]bool{}}
	var get, iter map[string]bool
	get, iter, h.info.slackBin, h.info.slackFunc = analyse(h.tree, &h.info)
	for k := range get {
		if !iter[k] {
			h.info.hidden[k] = true
		}
	}
}

func (h *handle) key() string { return h.mod.String() + "|" + h.ckey }

func (h *handle) slack() int { return h.info.slackBin + h.info.slackFunc }

// ---------------------------------------------------------------------------------------------
// sources

type srcDef struct {
	name string
	mod  model
	make func(e *env) (value.Value, error)
	// errOK: the specification does not say whether this construction is possible at all
	errOK string
}

// iterOf reads a map through Go-level Iter as a list of pairs (in iteration order).
type pair struct {
	k string
	v value.Value
}

func iterOf(m value.Map) (ps []pair) {
	m.Iter(func(k string, v value.Value) bool {
		ps = append(ps, pair{k, v})
		return len(ps) < 1000
	})
	return
}

// matches reports whether the pairs are exactly the model (as a set, no duplicates).
func matches(ps []pair, mod model) bool {
	if len(ps) != len(mod) {
		return false
	}
	seen := map[string]bool{}
	for _, p := range ps {
		w, ok := mod[p.k]
		if !ok || seen[p.k] {
			return false
		}
		seen[p.k] = true
		if g, ok := mvOf(p.v); !ok || g != w {
			return false
		}
	}
	return true
}

func pairsString(ps []pair) string {
	var b strings.Builder
	b.WriteByte('[')
	for i, p := range ps {
		if i > 0 {
			b.WriteByte(' ')
		}
		b.WriteString(strconv.Quote(p.k) + ":" + describe(p.v))
	}
	b.WriteByte(']')
	return b.String()
}

// ---------------------------------------------------------------------------------------------
// operations

type op struct {
	K   string `json:"op"`            // src put merge repl replby eval map acc1 acc2 comb
	A   int    `json:"a,omitempty"`   // operand: index into the pool (creation order)
	B   int    `json:"b,omitempty"`   // second operand
	Key string `json:"k,omitempty"`   // put / repl key
	V   int    `json:"v,omitempty"`   // put / repl value
	Src string `json:"src,omitempty"` // source name
}

func (o op) String() string {
	switch o.K {
	case "src":
		return "new " + o.Src
	case "put":
		return fmt.Sprintf("h%d.put(%q,%d)", o.A, o.Key, o.V)
	case "merge":
		return fmt.Sprintf("h%d + h%d", o.A, o.B)
	case "repl":
		return fmt.Sprintf("h%d.replace(m->{%s:%d})", o.A, o.Key, o.V)
	case "replby":
		return fmt.Sprintf("h%d.replace(m->h%d)", o.A, o.B)
	case "eval":
		return fmt.Sprintf("h%d.eval()", o.A)
	case "map":
		return fmt.Sprintf("h%d.map(%s)", o.A, mapFnSrc)
	case "acc1":
		return fmt.Sprintf("h%d.accept(%s)", o.A, acc1Src)
	case "acc2":
		return fmt.Sprintf("h%d.accept(%s)", o.A, acc2Src)
	case "comb":
		return fmt.Sprintf("h%d.combine(h%d,%s)", o.A, o.B, combSrc)
	}
	return o.K
}

const (
	mapFnSrc = `(k,v)->if k="a" | k="" then 3-v else v`
	acc1Src  = `(k,v)->k!="a"`
	acc2Src  = `(k,v)->k="b" | k=""`
	combSrc  = `(x,y)->if x=2 & y=1 then 2 else 1`
)

func combFn(x, y int64) int64 {
	if x == 2 && y == 1 {
		return 2
	}
	return 1
}

// expectation of the finite-map model for one operation
type expect struct {
	applicable bool
	err        bool    // the operation must fail (uniqueness of keys)
	cands      []model // acceptable result models
	errOK      bool    // failing is acceptable as well
	unspec     string  // reason why more than one outcome is acceptable
}

const (
	unspecReplaceOutside = "replace with replacement keys outside the original key set: added or ignored (all observers must agree)"
	unspecCombineMissing = "combine with a key missing in the other map: error (implementation, DESIGN.md App. B) or intersection (method description)"
)

// replaceOutsideAdds is the reading of "replace with a replacement key outside the original key set"
// (added or ignored). The property text does not fix it, so it is read off the implementation ONCE, on
// the shallowest case {a:1}.replace(m->{c:2}); the same reading is then demanded of every replace at
// every nesting depth and in every representation (a flattening replace must not behave differently
// from the first one: that is exactly "all representations behave as one abstract map").
var replaceOutsideAdds = sync.OnceValue(func() bool {
	g := value.New()
	f, _, err := g.Generate("{a:1}.replace(m->{c:2}).size()")
	if err != nil {
		return false
	}
	v, err := f.Eval()
	if err != nil {
		return false
	}
	n, _ := v.(value.Int)
	return n == 2
})

func modelOp(o op, pool []*handle) expect {
	a := pool[o.A].mod
	switch o.K {
	case "put":
		if _, ok := a[o.Key]; ok {
			return expect{applicable: true, err: true}
		}
		r := a.clone()
		r[o.Key] = iv(int64(o.V))
		return expect{applicable: true, cands: []model{r}}
	case "merge":
		b := pool[o.B].mod
		for k := range b {
			if _, ok := a[k]; ok {
				return expect{applicable: true, err: true}
			}
		}
		r := a.clone()
		for k, v := range b {
			r[k] = v
		}
		return expect{applicable: true, cands: []model{r}}
	case "repl":
		r := a.clone()
		r[o.Key] = iv(int64(o.V))
		if _, ok := a[o.Key]; ok {
			return expect{applicable: true, cands: []model{r}}
		}
		if replaceOutsideAdds() {
			return expect{applicable: true, cands: []model{r}, unspec: unspecReplaceOutside}
		}
		return expect{applicable: true, cands: []model{a.clone()}, unspec: unspecReplaceOutside}
	case "replby":
		b := pool[o.B].mod
		ign, add := a.clone(), a.clone()
		outside := false
		for k, v := range b {
			add[k] = v
			if _, ok := a[k]; ok {
				ign[k] = v
			} else {
				outside = true
			}
		}
		if outside {
			if replaceOutsideAdds() {
				return expect{applicable: true, cands: []model{add}, unspec: unspecReplaceOutside}
			}
			return expect{applicable: true, cands: []model{ign}, unspec: unspecReplaceOutside}
		}
		return expect{applicable: true, cands: []model{ign}}
	case "eval":
		return expect{applicable: true, cands: []model{a.clone()}}
	case "map":
		r := a.clone()
		for _, k := range []string{"a", ""} {
			if v, ok := a[k]; ok {
				if v.K != 'i' {
					return expect{}
				}
				r[k] = iv(3 - v.I)
			}
		}
		return expect{applicable: true, cands: []model{r}}
	case "acc1":
		r := a.clone()
		delete(r, "a")
		return expect{applicable: true, cands: []model{r}}
	case "acc2":
		r := model{}
		for _, k := range []string{"b", ""} {
			if v, ok := a[k]; ok {
				r[k] = v
			}
		}
		return expect{applicable: true, cands: []model{r}}
	case "comb":
		b := pool[o.B].mod
		if !a.allInt() || !b.allInt() {
			return expect{}
		}
		r := model{}
		missing := false
		for k, v := range a {
			if w, ok := b[k]; ok {
				r[k] = iv(combFn(v.I, w.I))
			} else {
				missing = true
			}
		}
		if missing {
			return expect{applicable: true, cands: []model{r}, errOK: true, unspec: unspecCombineMissing}
		}
		return expect{applicable: true, cands: []model{r}}
	}
	panic("modelOp: " + o.K)
}

// execOp runs the operation on the real objects through functions generated once.
func (e *env) execOp(o op, pool []*handle) (value.Value, error) {
	a := pool[o.A].m
	switch o.K {
	case "put":
		return e.call(e.gen("m.put(k,v)", "m", "k", "v"), a, value.String(o.Key), value.Int(o.V))
	case "merge":
		return e.call(e.gen("a+b", "a", "b"), a, pool[o.B].m)
	case "repl":
		return e.call(e.gen("m.replace(x->{"+o.Key+":v})", "m", "v"), a, value.Int(o.V))
	case "replby":
		return e.call(e.gen("m.replace(x->r)", "m", "r"), a, pool[o.B].m)
	case "eval":
		return e.call(e.gen("m.eval()", "m"), a)
	case "map":
		return e.call(e.gen("m.map("+mapFnSrc+")", "m"), a)
	case "acc1":
		return e.call(e.gen("m.accept("+acc1Src+")", "m"), a)
	case "acc2":
		return e.call(e.gen("m.accept("+acc2Src+")", "m"), a)
	case "comb":
		return e.call(e.gen("a.combine(b,"+combSrc+")", "a", "b"), a, pool[o.B].m)
	}
	panic("execOp: " + o.K)
}

func termOf(o op, pool []*handle) string {
	a := pool[o.A].term
	switch o.K {
	case "put":
		return fmt.Sprintf("%s.put(%q,%d)", a, o.Key, o.V)
	case "merge":
		return "(" + a + " + " + pool[o.B].term + ")"
	case "repl":
		return fmt.Sprintf("%s.replace(m->{%s:%d})", a, o.Key, o.V)
	case "replby":
		return a + ".replace(m->" + pool[o.B].term + ")"
	case "eval":
		return a + ".eval()"
	case "map":
		return a + ".map(F)"
	case "acc1":
		return a + ".accept(A1)"
	case "acc2":
		return a + ".accept(A2)"
	case "comb":
		return a + ".combine(" + pool[o.B].term + ",C)"
	}
	return "?"
}

// dis is one disagreement between the implementation and the model.
type dis struct {
	Obs     string `json:"observer"`
	H       int    `json:"handle"`
	Term    string `json:"term"`
	Shape   string `json:"shape"`
	Key     string `json:"key,omitempty"`
	Peer    string `json:"peer,omitempty"`
	Want    string `json:"want"`
	Got     string `json:"got"`
	Finding string `json:"finding,omitempty"`
}

func (d dis) what() string {
	if d.Finding != "" {
		return d.Finding
	}
	return d.Obs
}

// step applies one operation to the pool (in place). It returns the disagreement of the operation
// itself (wrong failure / wrong success / result matching no acceptable model), or nil.
// outcome: "new" (handle added), "same" (result identical to a live handle), "error" (failed as the
// model demands), "bad" (disagreement; nothing added).
func (e *env) step(o op, pool *[]*handle, srcs map[string]*srcDef, bound, pinned int) (outcome string, d *dis, unspec string) {
	p := *pool
	if o.K == "src" {
		s := srcs[o.Src]
		v, err := s.make(e)
		if err != nil && s.errOK != "" && !isPanic(err) {
			return "error", nil, s.errOK
		}
		if err != nil {
			return "bad", &dis{Obs: "source", Term: s.name, Want: "a map", Got: "error: " + err.Error()}, ""
		}
		m, ok := v.(value.Map)
		if !ok {
			return "bad", &dis{Obs: "source", Term: s.name, Want: "a map", Got: describe(v)}, ""
		}
		return addHandle(pool, newHandle(m, s.mod.clone(), s.name), bound, pinned), nil, ""
	}
	ex := modelOp(o, p)
	if !ex.applicable {
		return "n/a", nil, ""
	}
	res, err := e.execOp(o, p)
	mk := func(want, got string) *dis {
		d := &dis{Obs: "op:" + o.K, H: o.A, Term: termOf(o, p), Shape: p[o.A].shape, Key: o.Key, Want: want, Got: got}
		if o.K == "merge" || o.K == "replby" || o.K == "comb" {
			d.Peer = p[o.B].shape
		}
		d.Finding = classifyOp(o, p, err)
		return d
	}
	if err != nil && isPanic(err) {
		return "bad", mk("no panic", err.Error()), ex.unspec
	}
	if ex.err {
		if err == nil {
			return "bad", mk("an error: keys stay unique", "success: "+describe(res)), ""
		}
		return "error", nil, ""
	}
	if err != nil {
		if ex.errOK {
			return "error", nil, ex.unspec
		}
		return "bad", mk("a map with model "+ex.cands[0].String(), "error: "+err.Error()), ex.unspec
	}
	m, ok := res.(value.Map)
	if !ok {
		return "bad", mk("a map", describe(res)), ex.unspec
	}
	ps := iterOf(m)
	if o.K == "merge" && hidesKeyOf(p[o.A], p[o.B].mod) {
		// The first operand hides (F13a) a key of the second: Merge fails on that key unless it meets a
		// hidden "" first (F13b), which for a Go-map-backed second operand depends on Go's random
		// iteration order. The failure is reported (classified F13a); a success is not explored
		// further, so that the state graph is the same in every worker and every run.
		return "unstable", nil, ""
	}
	for _, c := range ex.cands {
		if matches(ps, c) {
			return addHandle(pool, newHandle(m, c, termOf(o, p)), bound, pinned), nil, ex.unspec
		}
	}
	want := ex.cands[0].String()
	for _, c := range ex.cands[1:] {
		want += " or " + c.String()
	}
	return "bad", mk("a map iterating as "+want, pairsString(ps)+" "+value.VerifMapShape(m, false)), ex.unspec
}

// hidesKeyOf: h's Get finds a key of keysOf that h's model does not have (hidden behind a Replace node).
func hidesKeyOf(h *handle, keysOf model) bool {
	for k := range keysOf {
		if _, inModel := h.mod[k]; h.info.hidden[k] && !inModel {
			return true
		}
	}
	return false
}

// addHandle adds h unless a live handle has the same model and the same complete dump; with a pool
// bound the oldest handle that is not pinned is dropped.
func addHandle(pool *[]*handle, h *handle, bound, pinned int) string {
	k := h.key()
	for _, x := range *pool {
		if x.key() == k {
			return "same"
		}
	}
	*pool = append(*pool, h)
	if bound > 0 && len(*pool) > bound {
		np := append([]*handle(nil), (*pool)[:pinned]...)
		*pool = append(np, (*pool)[pinned+1:]...)
	}
	return "new"
}

func stateKey(pool []*handle) string {
	ks := make([]string, len(pool))
	for i, h := range pool {
		ks[i] = h.key()
	}
	sort.Strings(ks)
	return strings.Join(ks, "\n")
}

func pathString(path []op) string {
	s := make([]string, len(path))
	for i, o := range path {
		s[i] = o.String()
	}
	return strings.Join(s, "; ")
}

func pathJSON(path []op) any {
	b, _ := json.Marshal(path)
	var v any
	json.Unmarshal(b, &v)
	return v
}

// enumOps lists the operations applicable in a state, simplest first. It depends only on the model
// side of the pool, so every worker enumerates the same list.
func enumOps(pool []*handle, path []op, srcOrder []string, al *alphabet) []op {
	var ops []op
	live := map[string]bool{}
	for _, h := range pool {
		live[h.term] = true
	}
	if len(path) < al.maxSrcAt {
		for _, s := range srcOrder {
			if !live[s] {
				ops = append(ops, op{K: "src", Src: s})
			}
		}
	}
	for i := range pool {
		ops = append(ops, op{K: "eval", A: i})
		for _, k := range al.putKeys {
			for _, v := range al.vals {
				ops = append(ops, op{K: "put", A: i, Key: k, V: v})
			}
		}
		for _, k := range al.replKeys {
			for _, v := range al.vals {
				ops = append(ops, op{K: "repl", A: i, Key: k, V: v})
			}
		}
		ops = append(ops, op{K: "map", A: i}, op{K: "acc1", A: i}, op{K: "acc2", A: i})
	}
	for i := range pool {
		for j := range pool {
			ops = append(ops, op{K: "merge", A: i, B: j}, op{K: "replby", A: i, B: j}, op{K: "comb", A: i, B: j})
		}
	}
	return ops
}

type alphabet struct {
	putKeys, replKeys []string
	vals              []int
	maxSrcAt          int // sources may be introduced while len(path) < maxSrcAt
}
