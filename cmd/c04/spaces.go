package main

// The finite spaces of C04 on the plain build. Every space is a family: a number of case indices
// and a function that decodes index -> input arithmetically (so sharding, resuming in a fresh
// process and replaying need nothing but the index) and executes it under its configurations.

import (
	"fmt"
	"strings"
	"time"
)

// family is one enumerated space.
type family struct {
	name string
	// size is the number of case indices in the tier; indices are ordered simplest first and their
	// meaning does not depend on the tier.
	size  func(quick bool) int64
	bound func(quick bool) string
	// eval executes every configuration of case i.
	eval func(r *runner, i int64)
}

var families []*family

func familyByName(name string) *family {
	for _, f := range families {
		if f.name == name {
			return f
		}
	}
	return nil
}

func init() {
	families = []*family{famBytes, famBytesEdge, famTokens, famTokensEdge, famRepeat, famDeepTable, famPadded, famBytes6, famUnicode, famFolds, famRunaway, famGoroutineFolds, famGenericGenerators}
}

// ---------------------------------------------------------------------------------------------
// index <-> sequence

// countSeq is the number of sequences of length <= maxLen over k symbols.
func countSeq(k, maxLen int) int64 {
	var n, p int64 = 0, 1
	for l := 0; l <= maxLen; l++ {
		n += p
		p *= int64(k)
	}
	return n
}

// decodeSeq maps an index to a sequence of symbol numbers: shorter sequences first, then
// lexicographic. Index 0 is the empty sequence.
func decodeSeq(i int64, k int, buf []int) []int {
	l := 0
	p := int64(1)
	for i >= p {
		i -= p
		p *= int64(k)
		l++
	}
	buf = buf[:0]
	for j := 0; j < l; j++ {
		buf = append(buf, 0)
	}
	for j := l - 1; j >= 0; j-- {
		buf[j] = int(i % int64(k))
		i /= int64(k)
	}
	return buf
}

func pow(k, n int) int64 {
	p := int64(1)
	for ; n > 0; n-- {
		p *= int64(k)
	}
	return p
}

// ---------------------------------------------------------------------------------------------
// (a) byte level

// byteAlphabet: one representative of every class the scanner distinguishes plus every
// trouble-maker. a: letter, e: letter that is also the exponent marker, 1: digit, then the
// characters with a meaning of their own, blank, LF, NUL (the EOF sentinel), 0xFF (invalid UTF-8),
// × (alias of *), ² (superscript, expands to two tokens), ÷ (alias of /, the character that also starts comments).
var byteAlphabet = []string{"a", "e", "1", ".", "\"", "'", "\\", "/", "*", "-", ">", "=", "<", "(", ")", "[", "]", "{", "}", ",", ":", ";",
	" ", "\n", "\x00", "\xff", "×", "²", "÷"}

// reducedAlphabet drops five of the nine bracket/punctuation symbols (kept: ( ) [ ,).
var reducedAlphabet = []string{"a", "e", "1", ".", "\"", "'", "\\", "/", "*", "-", ">", "=", "<", "(", ")", "[", ",",
	" ", "\n", "\x00", "\xff", "×", "²", "÷"}

func bytesSrc(alpha []string, i int64, buf *[]int) string {
	*buf = decodeSeq(i, len(alpha), *buf)
	var b strings.Builder
	for _, d := range *buf {
		b.WriteString(alpha[d])
	}
	return b.String()
}

func boundBytes(q bool) int {
	if q {
		return 4
	}
	return 5
}

var famBytes = &family{
	name: "a-bytes",
	size: func(q bool) int64 { return countSeq(len(byteAlphabet), boundBytes(q)) },
	bound: func(q bool) string {
		return fmt.Sprintf("every string of <= %d symbols over the %d-symbol byte-level alphabet x {generic Parser[float64] std table, value.New().Generate} x comments on/off x comfort on/off", boundBytes(q), len(byteAlphabet))
	},
	eval: func(r *runner, i int64) {
		src := bytesSrc(byteAlphabet, i, &r.digits)
		for _, in := range r.full {
			r.exec("a-bytes", i, 0, in, src, "")
		}
	},
}

var famBytesEdge = &family{
	name: "a-bytes-edge-configs",
	size: func(q bool) int64 { return countSeq(len(byteAlphabet), boundBytes(q)-1) },
	bound: func(q bool) string {
		return fmt.Sprintf("every string of <= %d symbols over the byte-level alphabet x edge configurations of the generic parser: last binary operator also prefix (F03 table), nothing optional configured (bare), each with comments+comfort off and on; empty operator table for strings of <= 2 symbols", boundBytes(q)-1)
	},
	eval: func(r *runner, i int64) {
		src := bytesSrc(byteAlphabet, i, &r.digits)
		for _, in := range r.edge {
			if in.spec.table == "noops" && len(r.digits) > 2 {
				continue // every input panics on this table (finding F04a); two symbols show it
			}
			r.exec("a-bytes-edge-configs", i, 0, in, src, "")
		}
	},
}

// thorough only: strings of exactly 6 symbols over the reduced alphabet (shorter ones are in a-bytes).
var famBytes6 = &family{
	name: "a-bytes6-reduced",
	size: func(q bool) int64 {
		if q {
			return 0
		}
		return pow(len(reducedAlphabet), 6)
	},
	bound: func(q bool) string {
		return fmt.Sprintf("every string of exactly 6 symbols over the reduced %d-symbol alphabet (] { } : ; dropped) x {generic std, value} with comments and comfort on", len(reducedAlphabet))
	},
	eval: func(r *runner, i int64) {
		k := len(reducedAlphabet)
		r.digits = r.digits[:0]
		for j := 0; j < 6; j++ {
			r.digits = append(r.digits, 0)
		}
		x := i
		for j := 5; j >= 0; j-- {
			r.digits[j] = int(x % int64(k))
			x /= int64(k)
		}
		var b strings.Builder
		for _, d := range r.digits {
			b.WriteString(reducedAlphabet[d])
		}
		src := b.String()
		for _, in := range r.bothOn {
			r.exec("a-bytes6-reduced", i, 0, in, src, "")
		}
	},
}

// ---------------------------------------------------------------------------------------------
// (b) token level

// tokenAlphabet: all keywords, identifiers (a: the declared argument, x: undeclared unless bound,
// abs: a static function), a number, a string literal, a quoted identifier, all brackets, the
// separators and the operators of the value language that take part in a grammar rule of their own
// or collide under maximal munch.
var tokenAlphabet = []string{"a", "1", "x", "abs", "\"s\"", "'q'",
	"(", ")", "[", "]", "{", "}", ".", ",", ":", ";",
	"->", "=", "-", "!", "~", "<=",
	"let", "func", "if", "then", "else", "switch", "case", "default", "try", "catch"}

func tokensOf(i int64, buf *[]int) []string {
	*buf = decodeSeq(i, len(tokenAlphabet), *buf)
	t := make([]string, len(*buf))
	for j, d := range *buf {
		t[j] = tokenAlphabet[d]
	}
	return t
}

func boundTokens(q bool) int {
	if q {
		return 4
	}
	return 5
}

var famTokens = &family{
	name: "b-tokens",
	size: func(q bool) int64 { return countSeq(len(tokenAlphabet), boundTokens(q)) },
	bound: func(q bool) string {
		return fmt.Sprintf("every sequence of <= %d tokens (blank separated) over the %d-token alphabet of the value language x {generic std, value} x comments on/off x comfort on/off", boundTokens(q), len(tokenAlphabet))
	},
	eval: func(r *runner, i int64) {
		src := strings.Join(tokensOf(i, &r.digits), " ")
		for _, in := range r.full {
			r.exec("b-tokens", i, 0, in, src, "")
		}
	},
}

var famTokensEdge = &family{
	name: "b-tokens-edge-configs",
	size: func(q bool) int64 { return countSeq(len(tokenAlphabet), boundTokens(q)-1) },
	bound: func(q bool) string {
		return fmt.Sprintf("every sequence of <= %d tokens x edge configurations (F03 table, bare; empty operator table for <= 2 tokens)", boundTokens(q)-1)
	},
	eval: func(r *runner, i int64) {
		src := strings.Join(tokensOf(i, &r.digits), " ")
		for _, in := range r.edge {
			if in.spec.table == "noops" && len(r.digits) > 2 {
				continue
			}
			r.exec("b-tokens-edge-configs", i, 0, in, src, "")
		}
	},
}

// ---------------------------------------------------------------------------------------------
// (c) parametric families up to 64 KiB

const maxInput = 64 << 10

// opener: src = open^n [+ mid [+ close^n]].
type opener struct{ open, mid, close string }

var openers = []opener{
	{"(", "1", ")"}, {"[", "1", "]"}, {"{a:", "1", "}"}, {"-", "1", ""}, {"!", "1", ""}, {"a->", "1", ""},
	{"abs(", "1", ")"}, {"a.m(", "1", ")"}, {"if 1 then ", "1", " else 1"}, {"let x=", "1", ";x"}, {"try ", "1", " catch 1"},
	{"\"", "a", "\""}, {"/*", "a", "*/"}, {"'", "a", "'"}, {"[[", "1", "]]"}, {"a[", "1", "]"}, {"a(", "1", ")"},
	// sequential rather than nested repetition: the loops of parseOp, parseNonOperator, parseArgs,
	// parseLet, and long runs of comments and string escapes
	// nested closures with a reference to a name the inner closures do not declare (an outer argument,
	// an undeclared name): name resolution walks all enclosing scopes
	{"b->", "a", ""}, {"b->", "x", ""}, {"b->", "b+a*x", ""}, {"(b,c)->", "abs(a)", ""},
	// postfix chains behind ONE operand (the blanks in front only fill the opener's slot): calls of the
	// result of a call, with and without arguments, failing at the innermost level or not
	{" ", "sin", "()"}, {" ", "a", "(1)"}, {" ", "abs", "(1)"}, {" ", "a", ".m()"}, {" ", "a", "[0]"}, {" ", "x", "()"},
	{"a+", "a", ""}, {"a.m", "", ""}, {"let x=1;", "x", ""}, {"func f(x) x;", "1", ""}, {"[1,", "1", "]"}, {"//c\n", "1", ""}, {"\"\\\"", "", "\""},
}

var repeatCounts = []int{1, 10, 100, 1000, 10000, -1} // -1: the maximum that fits 64 KiB

const repeatVariants = 3 // 0: open^n, 1: open^n mid, 2: open^n mid close^n

// maxRepeat is the largest n whose input fits maxInput.
func (o opener) maxRepeat(variant int, limit int) int {
	switch variant {
	case 0:
		return limit / len(o.open)
	case 1:
		return (limit - len(o.mid)) / len(o.open)
	}
	return (limit - len(o.mid)) / (len(o.open) + len(o.close))
}

func (o opener) build(variant, n int) string {
	switch variant {
	case 0:
		return strings.Repeat(o.open, n)
	case 1:
		return strings.Repeat(o.open, n) + o.mid
	}
	return strings.Repeat(o.open, n) + o.mid + strings.Repeat(o.close, n)
}

func (o opener) describe(variant, n int) string {
	switch variant {
	case 0:
		return fmt.Sprintf("%q x %d", o.open, n)
	case 1:
		return fmt.Sprintf("%q x %d + %q", o.open, n, o.mid)
	}
	return fmt.Sprintf("%q x %d + %q + %q x %d", o.open, n, o.mid, o.close, n)
}

// decodeRepeat: i = (count index * len(openers) + opener) * 3 + variant; small counts first.
// ok is false for indices that denote no case of their own: a variant identical to a lower one, a
// count at or beyond the maximum (the maximum has its own count index).
func decodeRepeat(i int64) (o opener, variant, n int, isMax, ok bool) {
	variant = int(i % repeatVariants)
	i /= repeatVariants
	o = openers[int(i%int64(len(openers)))]
	ci := int(i / int64(len(openers)))
	if variant == 2 && o.close == "" || variant >= 1 && o.mid == "" && o.close == "" {
		return o, variant, 0, false, false
	}
	max := o.maxRepeat(variant, maxInput)
	n = repeatCounts[ci]
	if n < 0 {
		return o, variant, max, true, true
	}
	return o, variant, n, false, n < max
}

var famRepeat = &family{
	name: "c-repeat",
	size: func(q bool) int64 { return int64(len(repeatCounts) * len(openers) * repeatVariants) },
	bound: func(q bool) string {
		return fmt.Sprintf("n-fold repetition, n in {1,10,100,1000,10^4, max fitting 64 KiB}, of %d openers/units, alone, with kernel, with kernel and matching closers x {generic std, value} x comments x comfort (quick: n >= 10^4 with both flags off / both on only); plus CPU-time ratio T(2n)/T(n) <= %d at 16->32->64 KiB (best of 3) for the maximum cases with comments+comfort on", len(openers), ratioBound)
	},
	eval: func(r *runner, i int64) {
		o, variant, n, isMax, ok := decodeRepeat(i)
		if !ok {
			return
		}
		src := o.build(variant, n)
		desc := o.describe(variant, n)
		for _, in := range r.full {
			if r.ctx.Quick() && n >= 10000 && in.spec.comments != in.spec.comfort {
				continue // quick: the deep cases with both flags off and both on only
			}
			r.exec("c-repeat", i, 0, in, src, desc)
		}
		if isMax {
			for _, in := range r.bothOn {
				r.timeRatio("c-repeat", i, 0, in, desc, func(size int) string { return o.build(variant, o.maxRepeat(variant, size)) })
			}
		}
	},
}

// Deep nesting on an operator table with many priority levels. Kept apart from c-repeat because
// its maximum cases kill the process on the current tree (finding F04b), and every death costs the
// shard three process runs.
var deepOpeners = []opener{{"(", "1", ")"}, {"[", "1", "]"}}

// decodeDeep: i = (count index * 2 + variant index) * len(deepOpeners) + opener; counts 10^4, max;
// variants 0 (open^n) and 2 (balanced).
func decodeDeep(i int64) (o opener, variant, n int) {
	o = deepOpeners[int(i%int64(len(deepOpeners)))]
	i /= int64(len(deepOpeners))
	variant = []int{0, 2}[i%2]
	n = 10000
	if i/2 >= 1 {
		n = o.maxRepeat(variant, maxInput)
	}
	return
}

var famDeepTable = &family{
	name: "c-deep-table",
	size: func(q bool) int64 { return int64(len(deepOpeners) * 2 * 2) },
	bound: func(q bool) string {
		return "n-fold nesting of ( and [, n in {10^4, max fitting 64 KiB}, unterminated and balanced, on a generic parser with 28 priority levels"
	},
	eval: func(r *runner, i int64) {
		o, variant, n := decodeDeep(i)
		for _, in := range r.deep {
			r.exec("c-deep-table", i, 0, in, o.build(variant, n), o.describe(variant, n))
		}
	},
}

// padding: every program of <= 3 tokens that is valid (accepted unpadded by the generic std parser or
// by value, comments on) padded to 64 KiB.
var padKinds = []struct {
	name string
	make func(n int) string // exactly n bytes
}{
	{"blanks", func(n int) string { return strings.Repeat(" ", n) }},
	{"newlines", func(n int) string { return strings.Repeat("\n", n) }},
	{"short line comments", func(n int) string { return fill("//c\n", n, "\n") }},
	{"short block comments", func(n int) string { return fill("/*c*/ ", n, " ") }},
	{"one line comment", func(n int) string {
		if n < 3 {
			return strings.Repeat(" ", n)
		}
		return "//" + strings.Repeat("c", n-3) + "\n"
	}},
	{"one block comment", func(n int) string {
		if n < 4 {
			return strings.Repeat(" ", n)
		}
		return "/*" + strings.Repeat("*", n-4) + "*/"
	}},
}

// fill repeats unit up to n bytes and completes with rest (a one-byte filler).
func fill(unit string, n int, rest string) string {
	k := n / len(unit)
	return strings.Repeat(unit, k) + strings.Repeat(rest, n-k*len(unit))
}

const padPositions = 5 // 0: before, 1: first gap, 2: second gap, 3: after, 4: everywhere, evenly

var padVariants = len(padKinds) * padPositions

func padded(tokens []string, kind, pos, total int) (string, bool) {
	gaps := len(tokens) + 1 // gap 0 = before, gap len = after
	plain := strings.Join(tokens, " ")
	room := total - len(plain)
	if room < 0 {
		return "", false
	}
	at := -1
	switch pos {
	case 0:
		at = 0
	case 1, 2:
		if pos >= len(tokens) {
			return "", false
		}
		at = pos
	case 3:
		at = len(tokens)
	}
	var b strings.Builder
	for g := 0; g < gaps; g++ {
		share := 0
		if at == g {
			share = room
		} else if at < 0 {
			share = room / gaps
			if g == gaps-1 {
				share = room - (gaps-1)*(room/gaps)
			}
		}
		if share > 0 {
			b.WriteString(padKinds[kind].make(share))
		}
		if g < len(tokens) {
			b.WriteString(tokens[g])
			if g < len(tokens)-1 {
				b.WriteString(" ")
			}
		}
	}
	return b.String(), true
}

// One case index = one program; its padVariants paddings are the sub-cases.
var famPadded = &family{
	name: "c-padded",
	size: func(q bool) int64 { return countSeq(len(tokenAlphabet), 3) },
	bound: func(q bool) string {
		pos, flags := "padding everywhere", " (both flags off / both on)"
		if !q {
			pos, flags = "every position", ""
		}
		return fmt.Sprintf("every token sequence of <= 3 tokens accepted unpadded (generic std or value, comments on) padded to 64 KiB with %d kinds of padding (blanks, newlines, short/long line and block comments) at %d positions (before, in each gap, after, everywhere) x {generic std, value} x comments x comfort%s; CPU-time ratio at 16->32->64 KiB with comments+comfort on (%s)", len(padKinds), padPositions, flags, pos)
	},
	eval: func(r *runner, i int64) {
		tokens := tokensOf(i, &r.digits)
		if len(tokens) == 0 {
			return
		}
		plain := strings.Join(tokens, " ")
		if !r.valid("c-padded", i, plain) {
			return
		}
		for pv := 0; pv < padVariants; pv++ {
			kind, pos := pv/padPositions, pv%padPositions
			src, ok := padded(tokens, kind, pos, maxInput)
			if !ok {
				continue
			}
			desc := fmt.Sprintf("program %q padded to %d bytes with %s, position %d", plain, maxInput, padKinds[kind].name, pos)
			for _, in := range r.full {
				if r.ctx.Quick() && in.spec.comments != in.spec.comfort {
					continue // quick: both flags off / both on
				}
				r.exec("c-padded", i, pv+1, in, src, desc)
			}
			if pos == 4 || !r.ctx.Quick() {
				for _, in := range r.bothOn {
					r.timeRatio("c-padded", i, pv+1, in, desc, func(size int) string { s, _ := padded(tokens, kind, pos, size); return s })
				}
			}
		}
	},
}

// ---------------------------------------------------------------------------------------------
// "linear-ish": T(2n)/T(n) <= ratioBound on CPU time, a deliberately loose stand-in

const (
	ratioBound = 8
	// times below the floor are dominated by fixed costs and clock noise: T(n) counts as the floor
	ratioFloor = 250 * time.Microsecond
	// a measured excess is only believed if the larger time is far above anything noise produces
	ratioBelievable = 20 * time.Millisecond
)

var ratioSizes = []int{16 << 10, 32 << 10, 64 << 10}

const unspecNoisy = "CPU-time ratio above the bound in the first measurement but not confirmed by the repetition or below the noise floor (20 ms): not judged"
