// C04: parsing is total — any input yields an AST/function or an error value, never a panic, a
// process death or a hang, in time linear-ish in the input.
//
// This binary holds the part of C04 that runs on the PLAIN build with the real goroutines:
// bounded-exhaustive enumeration (never random) of
//
//	(a) every string of <= 4 / 5 symbols over a 28-symbol byte-level alphabet (one representative of
//	    every class the scanner distinguishes plus every trouble-maker: quotes, backslash, comment
//	    openers, NUL, invalid UTF-8, alias and superscript runes), thorough: also exactly 6 symbols
//	    over a reduced alphabet,
//	(b) every sequence of <= 4 / 5 tokens over the 32-token alphabet of the value language,
//	(c) parametric families up to 64 KiB: n-fold repetition of every opener with and without
//	    closers, and every valid program of <= 3 tokens padded to 64 KiB with blanks and comments,
//
// each x {comments on/off} x {comfort on/off} x {generic parser2.Parser[float64] with a small
// operator table and an Identifiers function, value.New().Generate(src, "a")}, plus edge
// configurations of the generic parser on a smaller bound.
//
// Oracle: the call returns (result or error). A panic on the caller's goroutine is caught by
// recover; a panic on the tokenizer goroutine or a fatal runtime error kills the (child) process
// and is pinpointed by a journaled re-run; a call that does not return is caught by a watchdog on
// the process's own CPU time (20 s for inputs that take microseconds) or a long wall-clock limit
// (60 s); family (c) additionally requires T(2n)/T(n) <= 8 on CPU time.
//
// Structure: Run calls one function per space family. Each of the present families is enumerated
// through short-lived child processes (runner.go: explore): a child is what may die on a case, and
// on a tree without the repair of finding F12a (property C12) every failing Parse strands a
// goroutine, so processes are recycled before memory grows. A further family — e.g. the exact
// deadlock analysis under a controlled scheduler — is added by appending a function to the list in
// run; it receives the same *bex.Ctx and may enumerate in-process with ctx.Mine/ctx.Begin/ctx.Eval.
package main

import (
	"fmt"
	"sort"
	"strings"
	"time"

	"verif/internal/bex"
)

// one function per space family -----------------------------------------------------------------

func spaceBytes(ctx *bex.Ctx)      { explore(ctx, famBytes) }      // (a) full configurations
func spaceBytesEdge(ctx *bex.Ctx)  { explore(ctx, famBytesEdge) }  // (a) edge configurations
func spaceTokens(ctx *bex.Ctx)     { explore(ctx, famTokens) }     // (b) full configurations
func spaceTokensEdge(ctx *bex.Ctx) { explore(ctx, famTokensEdge) } // (b) edge configurations
func spaceRepeat(ctx *bex.Ctx)     { explore(ctx, famRepeat) }     // (c) n-fold repetition
func spaceDeepTable(ctx *bex.Ctx)  { explore(ctx, famDeepTable) }  // (c) deep nesting x 28 priority levels
func spacePadded(ctx *bex.Ctx)     { explore(ctx, famPadded) }     // (c) padded valid programs
func spaceBytes6(ctx *bex.Ctx)     { explore(ctx, famBytes6) }     // (a) thorough: 6 symbols, reduced alphabet

func spaceUnicode(ctx *bex.Ctx)        { explore(ctx, famUnicode) }        // (d) Unicode classes
func spaceFolds(ctx *bex.Ctx)          { explore(ctx, famFolds) }          // (e) failing constant folds
func spaceRunaway(ctx *bex.Ctx)        { explore(ctx, famRunaway) }        // (f) constant recursion without end
func spaceGoroutineFolds(ctx *bex.Ctx) { explore(ctx, famGoroutineFolds) } // (g) folds that start goroutines
func spaceGenericGens(ctx *bex.Ctx)    { explore(ctx, famGenericGenerators) } // (h) generators without optional handlers

func run(ctx *bex.Ctx) {
	if runAsChild(ctx) { // a child process executes the index range named in its environment
		return
	}
	if ctx.Coop {
		// Workers of the controlled-scheduler build (bex.Check.CoopWorkers, executable "<self>-coop"):
		// the space families of the exact deadlock analysis are called here. The families below
		// need the plain build (real goroutines, child processes of this same executable).
		return
	}
	for _, space := range []func(*bex.Ctx){
		spaceBytesEdge,
		spaceTokensEdge,
		spaceRepeat,
		spaceDeepTable,
		spaceUnicode,
		spaceFolds,
		spaceRunaway,
		spaceGoroutineFolds,
		spaceGenericGens,
		spaceBytes,
		spaceTokens,
		spacePadded,
		spaceBytes6,
		// further space families are appended here
	} {
		space(ctx)
	}
	flushSamples(ctx)
}

// extra turns the coordinator's "incomplete" counters into notes on the spaces.
func extra(merged *bex.Result, cov map[string]any) {
	var notes []string
	for k := range merged.Counters {
		if !strings.HasPrefix(k, keyStall) {
			continue
		}
		delete(cov, k)
		rest := k[len(keyStall):]
		notes = append(notes, rest)
		if j := strings.Index(rest, ": "); j > 0 {
			if s := merged.Spaces[rest[:j]]; s != nil {
				s.Completed = false
				s.Note = rest[j+2:]
			}
		}
	}
	sort.Strings(notes)
	if len(notes) > 0 {
		cov["spaces_stopped_early"] = notes
		cov["exhaustive"] = false
	}
	cov["observations"] = []string{
		fmt.Sprintf("a NUL byte acts as end of input: %d accepted inputs contain NUL, for %d of them non-blank text behind the NUL was dropped silently (same AST as the prefix); inside a quoted identifier NUL ends the identifier and scanning continues. No property claims otherwise: recorded, not judged",
			merged.Counters["nul_inputs_accepted"], merged.Counters["nul_truncations"]),
		fmt.Sprintf("peak number of goroutines in one enumerating process: %d (a tree without the repair of F12a strands one tokenizer goroutine per Parse that stops before the end of input; that is property C12 and not judged here, enumerating processes are recycled above %d goroutines)",
			merged.Counters["max_goroutines"], recycleAt),
		fmt.Sprintf("slowest single call: %d ms CPU; largest measured T(2n)/T(n): %.2f", merged.Counters["max_cpu_ms_one_call"], float64(merged.Counters["max_time_ratio_x100"])/100),
	}
}

func main() {
	bex.Main(&bex.Check{
		ID:    "C04",
		Level: "exploration",
		Rule: "case = (input, configuration); inputs are decoded arithmetically from (family, index): every string over the byte-level alphabet up to the length bound, every blank-separated token sequence up to the token bound, n-fold repetitions of openers up to 64 KiB, valid <=3-token programs padded to 64 KiB; each is passed to the real Parser.Parse / value Generate on the plain build with real goroutines. " +
			"A case fails if the call panics (recover), kills the process (journal re-run), does not return (watchdog on the process's CPU time / long wall clock), returns neither result nor error, or — 64 KiB families — its best-of-3 CPU time grows by more than 8x when the input doubles. " +
			"distinct_nontrivial = distinct input texts (hash of the bytes) accepted by at least one configuration, i.e. inputs that drive tokenizer and parser through the whole text to an AST/function; all other evaluations end in an error value",
		Assumptions: []string{
			"outcomes of Parse do not depend on the goroutine schedule (two-process Kahn network over one unbuffered channel); the exact deadlock analysis under a controlled scheduler is a separate space family",
			"time: CPU time of the process (clock_gettime PROCESS_CPUTIME), steady state (collector off during the series, one warm-up call), best of 3; T(2n)/T(n) <= 8 is a deliberately loose stand-in for linear-ish (a clean quadratic passes); unconfirmed or sub-20-ms excesses are not judged",
			"hang = 20 s CPU or 60 s wall (150 s / 300 s for inputs above 4 KiB) inside one call",
			"goroutines left behind by a Parse that stopped early (F12a, property C12) are not judged here; enumerating processes are recycled above 150 000 goroutines or 50 000 cases",
		},
		QuickBudget:      120 * time.Second,
		ThoroughBudget:   23 * time.Minute,
		Run:              run,
		Replay:           replay,
		ClassifyCrash:    classifyCrash,
		CrashIsViolation: true,
		Extra:            extra,
		// 4 GiB of address space per process: the deepest legitimate case needs a 512 MB stack plus its
		// copy while growing, 150 000 stranded goroutines need ~450 MB; a runaway loop in the library is
		// stopped at ~2 GB resident, which 16 workers can afford at the same time.
		MemLimitMB: 4096,
	})
}
