package main

// The enumerating side: runner executes cases inside one process and judges them; explore (the
// shard's coordinator) hands index ranges of a family to short-lived child processes of this same
// binary and merges what they report.
//
// Why child processes: a child is what may die (panic on the tokenizer goroutine, fatal stack
// overflow, out of memory in a runaway loop): the coordinator then re-runs the index range with a
// journal to pinpoint the case, reports it and resumes behind it, so the rest of the shard is still
// enumerated. And on a tree without the repair of finding F12a (property C12) every Parse that stops
// before the end of its input leaves its tokenizer goroutine blocked on the channel send for ever
// (~3 KB each): a child stops at a case boundary once runtime.NumGoroutine() exceeds recycleAt (or
// after maxPerChild cases) and reports the index to resume at; the coordinator starts a fresh
// process there.

import (
	"encoding/binary"
	"encoding/hex"
	"encoding/json"
	"fmt"
	"hash/fnv"
	"math"
	"os"
	"os/exec"
	"path/filepath"
	"runtime"
	"runtime/debug"
	"strconv"
	"strings"
	"time"

	"verif/internal/bex"
)

const (
	// recycleAt: a child process hands over to a fresh one above this many goroutines (~450 MB).
	recycleAt = 150_000
	// maxPerChild: cases of its shard one child process executes at most (bounds what a process death
	// costs: the journaled re-run writes a file per call).
	maxPerChild = 50_000
	// goroutineCap: never exceeded; a space whose enumeration cannot proceed below it is stopped at
	// a case boundary and reported as not completed.
	goroutineCap = 300_000
	// maxCrashes: pinpointed process deaths per shard and space before the space is given up.
	maxCrashes = 3
	// maxHangs: reported hangs per shard and space before the space is given up.
	maxHangs = 2

	envSlice    = "VERIF_C04_SLICE"    // family:from:to — this process is a child
	envNT       = "VERIF_C04_NT"       // file receiving the hashes of the non-trivial cases
	envOnlyCfg  = "VERIF_C04_ONLY_CFG" // replay: only this configuration
	envOnlySub  = "VERIF_C04_ONLY_SUB" // replay: only this sub-case
	envFamilies = "VERIF_C04_FAMILIES" // development: comma-separated families to run

	keyNext    = "c04.next"    // child -> coordinator: index to resume at
	keyStopped = "c04.stopped" // child -> coordinator: 1 recycle, 2 hang
	keyStall   = "c04.incomplete:"
)

var processStart = time.Now()

// ---------------------------------------------------------------------------------------------
// runner: executing and judging cases in this process

type runner struct {
	ctx     *bex.Ctx
	wd      *watchdog
	full    []*instance
	edge    []*instance
	bothOn  []*instance
	deep    []*instance
	gen     []*instance // generic generators without optional handlers
	probe   []*instance // validity probes of the padded space
	byID    map[string]*instance
	digits  []int
	ntSeen  map[uint64]struct{}
	ntList  []uint64
	validOf map[string]bool
	onlyCfg string
	onlySub int
	maxGor  int
	samples map[string]int
	next    int64
}

func newRunner(ctx *bex.Ctx) *runner {
	r := &runner{ctx: ctx, wd: newWatchdog(), byID: map[string]*instance{}, ntSeen: map[uint64]struct{}{}, validOf: map[string]bool{},
		onlyCfg: os.Getenv(envOnlyCfg), onlySub: -1, samples: map[string]int{}}
	if s := os.Getenv(envOnlySub); s != "" {
		r.onlySub, _ = strconv.Atoi(s)
	}
	get := func(specs []cfgSpec, filter bool) []*instance {
		var l []*instance
		for _, s := range specs {
			if filter && r.onlyCfg != "" && s.id() != r.onlyCfg {
				continue
			}
			in := r.byID[s.id()]
			if in == nil {
				in = newInstance(s)
				r.byID[s.id()] = in
			}
			l = append(l, in)
		}
		return l
	}
	r.full = get(fullConfigs(), true)
	r.edge = get(edgeConfigs(), true)
	r.bothOn = get(bothOnConfigs(), true)
	r.deep = get([]cfgSpec{{"generic", "deep28", false, false}}, true)
	r.gen = get(genericGeneratorConfigs(), true)
	r.probe = get([]cfgSpec{{"generic", "std", true, false}, {"value", "value", true, false}}, false)
	return r
}

func quoteShort(src string) string {
	if len(src) <= 200 {
		return strconv.QuoteToASCII(src)
	}
	return strconv.QuoteToASCII(src[:80]) + fmt.Sprintf(" … (%d bytes) … ", len(src)) + strconv.QuoteToASCII(src[len(src)-40:])
}

// reproOf holds everything needed to re-execute the case: family and index decode to the input
// arithmetically; short inputs are also given verbatim.
func reproOf(info caseInfo, tier string) map[string]any {
	m := map[string]any{"family": info.family, "index": info.index, "sub": info.sub, "config": info.cfg, "tier": tier,
		"src": quoteShort(info.src), "len": len(info.src)}
	if len(info.src) <= 64 {
		m["src_hex"] = hex.EncodeToString([]byte(info.src))
	}
	if info.desc != "" {
		m["built_as"] = info.desc
	}
	return m
}

// run executes src on in under the watchdog; every call of the library goes through here.
func (r *runner) run(info caseInfo, in *instance) (result, time.Duration) {
	ctx := r.ctx
	if ctx.Journaling() {
		ctx.Begin(func() map[string]any { return reproOf(info, ctx.Tier) })
	}
	ctx.Eval()
	r.wd.begin(info)
	c0 := time.Duration(0)
	timed := len(info.src) > smallInput
	if timed {
		c0 = cpuNow()
	}
	res := in.call(info.src)
	var dt time.Duration
	if timed {
		dt = cpuNow() - c0
	}
	if ctx.Journaling() {
		settle()
	}
	r.wd.end()
	return res, dt
}

// settle lets the tokenizer goroutine of the call that just returned run until it blocks, ends or
// panics. A journaling process runs with GOMAXPROCS=1 (see runChild), so that goroutine is the next
// on the run queue: a panic on it kills the process while the journal still names its own case and
// not while the next case is being written.
func settle() {
	for k := 0; k < 4; k++ {
		runtime.Gosched()
	}
}

// exec runs one case and judges it: the call returned an AST/function or an error value.
func (r *runner) exec(fam string, i int64, sub int, in *instance, src, desc string) result {
	if r.onlySub >= 0 && sub != r.onlySub {
		return result{}
	}
	info := caseInfo{family: fam, index: i, sub: sub, cfg: in.id, src: src, desc: desc}
	res, dt := r.run(info, in)
	r.judge(info, in, res)
	if dt > 0 {
		r.ctx.Max("max_cpu_ms_one_call", dt.Milliseconds())
	}
	return res
}

func (r *runner) judge(info caseInfo, in *instance, res result) {
	ctx := r.ctx
	src := info.src
	class := ""
	switch {
	case res.panicked:
		class = in.spec.kind + "/panic"
		fr := panicFrames(res.stack)
		if len(fr) > 3 {
			fr = fr[:3]
		}
		ctx.Add("caller_panics", 1)
		ctx.Violate("panic on the caller's goroutine", reproOf(info, ctx.Tier), "an AST/function or an error value",
			"panic: "+res.panicVal+" in "+strings.Join(fr, " <- "), classifyPanic(in, src, res))
	case res.neither:
		class = in.spec.kind + "/neither"
		ctx.Violate("neither a result nor an error was returned", reproOf(info, ctx.Tier), "an AST/function or an error value", "nil, nil", "")
	case res.ok:
		class = in.spec.kind + "/accepted"
		r.nontrivial(src)
	default:
		class = in.spec.kind + "/" + errClass(in.spec.kind, res.err)
	}
	ctx.Outcome(class)

	// observation, not a verdict: a NUL byte acts as end of input and the rest is dropped silently
	if res.ok {
		if k := strings.IndexByte(src, 0); k >= 0 && len(src) <= smallInput {
			ctx.Add("nul_inputs_accepted", 1)
			if strings.Trim(src[k+1:], " \t\r\n\x00") != "" {
				r.wd.begin(info)
				whole, ok1 := in.astString(src)
				cut, ok2 := in.astString(src[:k])
				r.wd.end()
				if ok1 && ok2 && whole == cut {
					ctx.Add("nul_truncations", 1)
				}
			}
		}
	}
	if ctx.WantSample() && r.samples[info.family+class] == 0 && len(src) >= 3 && (res.ok || r.samples[info.family] < 2) {
		r.samples[info.family+class]++
		r.samples[info.family]++
		ctx.Sample(map[string]any{"family": info.family, "index": info.index, "config": info.cfg, "src": quoteShort(src), "outcome": class})
	}
}

func (r *runner) nontrivial(src string) {
	h := fnv.New64a()
	h.Write([]byte(src))
	k := h.Sum64()
	if _, ok := r.ntSeen[k]; !ok {
		r.ntSeen[k] = struct{}{}
		r.ntList = append(r.ntList, k)
		r.ctx.NontrivialH(k)
	}
}

// valid: the unpadded program is accepted by the generic std parser or by value (comments on).
func (r *runner) valid(fam string, i int64, plain string) bool {
	if v, ok := r.validOf[plain]; ok {
		return v
	}
	v := false
	for _, in := range r.probe {
		info := caseInfo{family: fam, index: i, sub: 0, cfg: in.id, src: plain, desc: "unpadded validity probe"}
		res, _ := r.run(info, in)
		r.judge(info, in, res)
		v = v || res.ok
	}
	if len(r.validOf) > 1<<16 {
		r.validOf = map[string]bool{}
	}
	r.validOf[plain] = v
	return v
}

// timeRatio: T(2n)/T(n) <= ratioBound on CPU time at 16 -> 32 -> 64 KiB, best of 3; an excess is
// re-measured (best of 5 more) and only reported if confirmed and far above the noise floor.
func (r *runner) timeRatio(fam string, i int64, sub int, in *instance, desc string, gen func(size int) string) {
	if r.onlySub >= 0 && sub != r.onlySub {
		return
	}
	ctx := r.ctx
	// Steady-state measurement: the collector is off during the whole series (a memory limit is the
	// safety net) and one untimed call at the largest size comes first. Otherwise the numbers depend
	// on the heap and stack the process happens to have: the collector's pacing turned a clean 4x
	// into anything between 3x and 11x, and every collection halves the idle goroutine stack, so that
	// the 16 KiB run found its stack in place while the 32 KiB run had to grow (and fault in) 128 MB
	// again: 7x where the steady state shows 2x.
	oldPercent := debug.SetGCPercent(-1)
	oldLimit := debug.SetMemoryLimit(2500 << 20)
	defer func() {
		debug.SetGCPercent(oldPercent)
		debug.SetMemoryLimit(oldLimit)
	}()
	runtime.GC()
	measure := func(size, runs int) (time.Duration, bool) {
		src := gen(size)
		info := caseInfo{family: fam, index: i, sub: sub, cfg: in.id, src: src, desc: fmt.Sprintf("%s; timing run at %d bytes", desc, len(src))}
		best := time.Duration(math.MaxInt64)
		for k := 0; k < runs; k++ {
			res, dt := r.run(info, in)
			if res.panicked || res.neither {
				r.judge(info, in, res)
				return 0, false
			}
			if dt < best {
				best = dt
			}
		}
		return best, true
	}
	if _, ok := measure(ratioSizes[len(ratioSizes)-1], 1); !ok { // warm-up
		return
	}
	var t [3]time.Duration
	for j, s := range ratioSizes {
		var ok bool
		if t[j], ok = measure(s, 3); !ok {
			return
		}
	}
	floorOf := func(d time.Duration) time.Duration {
		if d < ratioFloor {
			return ratioFloor
		}
		return d
	}
	if os.Getenv("VERIF_C04_DEBUG") != "" {
		fmt.Fprintf(os.Stderr, "timing %s %d/%d %s: %v %v %v\n", fam, i, sub, in.id, t[0], t[1], t[2])
	}
	for j := 0; j < 2; j++ {
		if t[j] >= ratioFloor {
			ctx.Max("max_time_ratio_x100", int64(100*float64(t[j+1])/float64(t[j])))
		}
		if t[j+1] <= ratioBound*floorOf(t[j]) {
			ctx.Outcome("time/ratio-within-bound")
			continue
		}
		a, ok1 := measure(ratioSizes[j], 5)
		b, ok2 := measure(ratioSizes[j+1], 5)
		if !ok1 || !ok2 {
			return
		}
		if t[j] < a {
			a = t[j]
		}
		if t[j+1] < b {
			b = t[j+1]
		}
		if b > ratioBound*floorOf(a) && b >= ratioBelievable {
			ctx.Outcome("time/ratio-exceeded")
			info := caseInfo{family: fam, index: i, sub: sub, cfg: in.id, src: gen(ratioSizes[j+1]), desc: desc}
			ctx.Violate("time is not linear-ish in the input length", reproOf(info, ctx.Tier),
				fmt.Sprintf("T(2n) <= %d x T(n) on CPU time (best of 8 runs each)", ratioBound),
				fmt.Sprintf("T(%d bytes) = %v, T(%d bytes) = %v, ratio %.1f", ratioSizes[j], a, ratioSizes[j+1], b, float64(b)/float64(a)), "")
		} else {
			ctx.Outcome("time/not-judged")
			ctx.Unspecified(unspecNoisy)
		}
	}
	ctx.Max("max_cpu_ms_one_call", t[2].Milliseconds())
}

// ---------------------------------------------------------------------------------------------
// child process: one index range of one family

func parseSlice(s string) (f *family, from, to int64, ok bool) {
	p := strings.Split(s, ":")
	if len(p) != 3 {
		return nil, 0, 0, false
	}
	f = familyByName(p[0])
	from, e1 := strconv.ParseInt(p[1], 10, 64)
	to, e2 := strconv.ParseInt(p[2], 10, 64)
	return f, from, to, f != nil && e1 == nil && e2 == nil
}

// runAsChild executes the range named in the environment, if any.
func runAsChild(ctx *bex.Ctx) bool {
	spec := os.Getenv(envSlice)
	if spec == "" {
		return false
	}
	f, from, to, ok := parseSlice(spec)
	if !ok {
		fmt.Fprintln(os.Stderr, "c04: bad slice", spec)
		os.Exit(3)
	}
	r := newRunner(ctx)
	ctx.Space(f.name)
	r.next = from
	stopped := int64(0)
	executed := 0
	done := make(chan struct{})
	go func() {
		defer close(done)
		for i := from; i < to; i++ {
			if !ctx.Mine(i) {
				continue
			}
			if ctx.Expired() {
				r.next = i
				return
			}
			if g := runtime.NumGoroutine(); g > r.maxGor {
				r.maxGor = g
				if g > recycleAt && i > from || g > goroutineCap {
					// hand over to a fresh process; above the cap even without progress (the
					// coordinator then gives the space up as not completed)
					r.next, stopped = i, 1
					return
				}
			}
			f.eval(r, i)
			r.next = i + 1
			if executed++; executed >= maxPerChild && i+1 < to {
				stopped = 1
				return
			}
		}
		r.next = to
	}()
	next := int64(0)
	select {
	case <-done:
		next = r.next
	case h := <-r.wd.hang:
		// the enumerating goroutine is stuck inside the library and cannot be killed; it no longer
		// touches ctx. Report, hand over to a fresh process behind this case.
		ctx.Outcome("hang")
		ctx.Add("hangs", 1)
		ctx.Violate("the call does not return (watchdog)", reproOf(h.info, ctx.Tier), "returns an AST/function or an error value in time linear-ish in the input",
			h.why, "")
		next, stopped = h.info.index+1, 2
	}
	// a tokenizer goroutine outliving its Parse may still panic: give it the chance before this
	// process reports success
	for k := 0; k < 8; k++ {
		runtime.Gosched()
	}
	time.Sleep(2 * time.Millisecond)
	ctx.Add(keyNext, next)
	ctx.Add(keyStopped, stopped)
	ctx.Max("max_goroutines", int64(r.maxGor))
	if p := os.Getenv(envNT); p != "" {
		b := make([]byte, 8*len(r.ntList))
		for j, h := range r.ntList {
			binary.LittleEndian.PutUint64(b[8*j:], h)
		}
		os.WriteFile(p, b, 0644)
	}
	return true
}

// ---------------------------------------------------------------------------------------------
// coordinator

func argValue(name string) string {
	for i, a := range os.Args {
		a = strings.TrimLeft(a, "-")
		if a == name && i+1 < len(os.Args) {
			return os.Args[i+1]
		}
		if strings.HasPrefix(a, name+"=") {
			return a[len(name)+1:]
		}
	}
	return ""
}

// remaining is the rest of the enumeration budget of this worker (0: none left, <0: unlimited).
func remaining() float64 {
	d, err := strconv.ParseFloat(argValue("deadline"), 64)
	if err != nil || d <= 0 {
		return -1
	}
	rem := d - time.Since(processStart).Seconds()
	if rem < 0.05 {
		return 0
	}
	return rem
}

type childRun struct {
	res     *bex.Result
	nt      []uint64
	log     string
	journal map[string]any // the journaled case of a run that died (journal mode)
	err     error
}

// runChild executes family f, indices [from,to) of shard i/n, in a fresh process.
func runChild(dir, tier string, shard, nshards int, f *family, from, to int64, journal bool, deadline float64, env ...string) childRun {
	self, _ := os.Executable()
	tag := fmt.Sprintf("c04-%d-%d", os.Getpid(), shard)
	out := filepath.Join(dir, tag+".res.json")
	nt := filepath.Join(dir, tag+".nt")
	jf := filepath.Join(dir, tag+".journal.json")
	lg := filepath.Join(dir, tag+".log")
	os.Remove(out)
	os.Remove(nt)
	os.Remove(jf)
	args := []string{"--tier", tier, "--worker", fmt.Sprintf("%d/%d", shard, nshards), "--out", out}
	if deadline > 0 {
		args = append(args, "--deadline", fmt.Sprintf("%f", deadline))
	}
	if journal {
		args = append(args, "--journal", jf)
	}
	cmd := exec.Command(self, args...)
	cmd.Env = append(os.Environ(), fmt.Sprintf("%s=%s:%d:%d", envSlice, f.name, from, to), envNT+"="+nt)
	cmd.Env = append(cmd.Env, env...)
	if journal {
		cmd.Env = append(cmd.Env, "GOMAXPROCS=1") // see settle
	}
	lf, _ := os.Create(lg)
	cmd.Stdout, cmd.Stderr = lf, lf
	var cr childRun
	cr.err = cmd.Run()
	lf.Close()
	if b, err := os.ReadFile(out); err == nil {
		var r bex.Result
		if json.Unmarshal(b, &r) == nil && r.Done {
			cr.res = &r
		}
	}
	if cr.res == nil {
		b, _ := os.ReadFile(lg)
		if len(b) > 1800 {
			b = append(append(b[:1200:1200], []byte("\n…\n")...), b[len(b)-500:]...)
		}
		cr.log = string(b)
		if journal {
			var j struct {
				Repro map[string]any `json:"repro"`
			}
			if b, err := os.ReadFile(jf); err == nil && json.Unmarshal(b, &j) == nil {
				cr.journal = j.Repro
			}
		}
	} else if b, err := os.ReadFile(nt); err == nil {
		for j := 0; j+8 <= len(b); j += 8 {
			cr.nt = append(cr.nt, binary.LittleEndian.Uint64(b[j:]))
		}
	}
	return cr
}

// pendingSamples: the verbatim cases the children kept; flushSamples passes them on at the end of
// the run, rotated by shard so that the few samples of the evidence file come from different spaces
// (the driver takes the first sample of each worker).
var pendingSamples []any

func flushSamples(ctx *bex.Ctx) {
	fam := func(s any) string {
		m, _ := s.(map[string]any)
		f, _ := m["family"].(string)
		return f
	}
	accepted := func(s any) bool {
		m, _ := s.(map[string]any)
		o, _ := m["outcome"].(string)
		return strings.HasSuffix(o, "/accepted")
	}
	var order []string
	for _, f := range families {
		order = append(order, f.name)
	}
	for k := 0; k < 2*len(order) && ctx.WantSample(); k++ {
		want := order[(ctx.Shard+k)%len(order)]
		wantAccepted := k < len(order) == (ctx.Shard%3 != 2)
		for _, s := range pendingSamples {
			if fam(s) == want && accepted(s) == wantAccepted {
				ctx.Sample(s)
				break
			}
		}
	}
}

// merge adds what a child counted to this worker's context.
func merge(ctx *bex.Ctx, space string, cr childRun) {
	r := cr.res
	for name, s := range r.Spaces {
		ctx.Space(name)
		ctx.EvalN(s.Cases)
	}
	for k, n := range r.Outcomes {
		for ; n > 0; n-- {
			ctx.Outcome(k)
		}
	}
	for k, n := range r.Counters {
		switch {
		case strings.HasPrefix(k, "c04."):
		case strings.HasPrefix(k, "max_"):
			ctx.Max(k, n)
		default:
			ctx.Add(k, n)
		}
	}
	for k, n := range r.Unspecified {
		for ; n > 0; n-- {
			ctx.Unspecified(k)
		}
	}
	pendingSamples = append(pendingSamples, r.Samples...)
	// failing cases: the verbatim ones first, then the counts of those the child did not keep
	stored := map[string]int64{}
	var rep = map[string]bex.Violation{}
	for _, v := range r.Violations {
		ctx.Space(v.Space)
		ctx.Violate(v.What, v.Repro, v.Expected, v.Got, v.Finding)
		stored[v.Finding]++
		if _, ok := rep[v.Finding]; !ok {
			rep[v.Finding] = v
		}
	}
	classified := int64(0)
	more := func(id string, n int64) {
		v, ok := rep[id]
		if !ok {
			v = bex.Violation{Space: space, What: "failing case not kept verbatim by the child process", Finding: id}
		}
		ctx.Space(v.Space)
		for ; n > 0; n-- {
			ctx.Violate(v.What, v.Repro, v.Expected, v.Got, id)
		}
	}
	for id, hits := range r.FindingHits {
		classified += hits
		more(id, hits-stored[id])
	}
	more("", r.NViolations-classified-stored[""])
	for _, h := range cr.nt {
		ctx.NontrivialH(h)
	}
	ctx.Add("child_processes", 1)
	ctx.Space(space)
}

// explore enumerates family f for this shard through child processes.
func explore(ctx *bex.Ctx, f *family) {
	n := f.size(ctx.Quick())
	if n == 0 {
		return
	}
	if only := os.Getenv(envFamilies); only != "" && !strings.Contains(","+only+",", ","+f.name+",") {
		// development aid: a run restricted to some families never claims to be exhaustive
		ctx.Add(keyStall+f.name+": skipped, "+envFamilies+"="+only, 1)
		return
	}
	ctx.Space(f.name)
	dir := filepath.Dir(argValue("out"))
	if dir == "" || dir == "." {
		dir = os.TempDir()
	}
	incomplete := func(why string) {
		// no SpaceDone: the space stays "not completed" and the run reports exhaustive:false
		ctx.Add(keyStall+f.name+": "+why, 1)
	}
	child := func(from, to int64, journal bool) (childRun, bool) {
		rem := remaining()
		if rem == 0 || ctx.Expired() {
			return childRun{}, false
		}
		return runChild(dir, ctx.Tier, ctx.Shard, ctx.NShards, f, from, to, journal, rem), true
	}
	from := int64(0)
	crashes, hangs := 0, 0
	for from < n {
		cr, started := child(from, n, false)
		if !started {
			return // budget ended: not completed, no alarm
		}
		if cr.res != nil {
			merge(ctx, f.name, cr)
			next := cr.res.Counters[keyNext]
			if cr.res.Expired && next < n {
				return
			}
			if cr.res.Counters[keyStopped] == 2 {
				if hangs++; hangs >= maxHangs {
					incomplete(fmt.Sprintf("given up after %d hung calls in this shard (each costs the full watchdog limit)", hangs))
					return
				}
			}
			if next <= from {
				incomplete(fmt.Sprintf("a fresh process could not advance beyond index %d below the cap of %d goroutines", from, goroutineCap))
				return
			}
			from = next
			continue
		}
		// the child died: pinpoint the case with a journal, enumerate the part before it, report, resume behind it
		crashes++
		ctx.Add("child_deaths", 1)
		jr, started := child(from, n, true)
		if !started {
			return
		}
		if jr.res != nil {
			merge(ctx, f.name, jr)
			ctx.Violate(fmt.Sprintf("worker process died (%v) but the re-run of the same index range in journal mode completed", cr.err),
				map[string]any{"family": f.name, "from": from, "log": cr.log}, "no process death", cr.log, "")
			from = jr.res.Counters[keyNext]
			if jr.res.Expired || from <= 0 {
				return
			}
			continue
		}
		at, ok := jr.journal["index"].(float64)
		if !ok {
			ctx.Violate(fmt.Sprintf("worker process died (%v) before journaling a case", jr.err), map[string]any{"family": f.name, "from": from, "log": jr.log}, "no process death", jr.log, "")
			incomplete("a child process died without a journaled case")
			return
		}
		c := int64(at)
		if c > from {
			if pr, started := child(from, c, false); started && pr.res != nil {
				merge(ctx, f.name, pr)
				if pr.res.Counters[keyNext] < c { // budget ended or recycled: finish the rest before the crash
					for nx := pr.res.Counters[keyNext]; nx < c && !pr.res.Expired; {
						pr, started = child(nx, c, false)
						if !started || pr.res == nil {
							break
						}
						merge(ctx, f.name, pr)
						nx = pr.res.Counters[keyNext]
					}
				}
			}
		}
		ctx.Eval() // the case was executed; the process that counted it died
		ctx.Outcome("process-died")
		ctx.Violate(fmt.Sprintf("worker process died (%v) while executing this case", jr.err), jr.journal,
			"returns an AST/function or an error value; no panic on another goroutine, no fatal runtime error", jr.log, classifyDeath(jr.journal, jr.log))
		from = c + 1
		if crashes >= maxCrashes {
			incomplete(fmt.Sprintf("given up after %d process deaths in this shard", crashes))
			return
		}
	}
	ctx.SpaceDone(f.bound(ctx.Quick()))
}

// ---------------------------------------------------------------------------------------------
// replay and crash classification

// classifyCrash names the known finding a process death on the recorded case belongs to; the driver
// calls it without the log of the dead process.
func classifyCrash(repro map[string]any) string { return classifyDeath(repro, "") }

// classifyDeath: F04b — the table has at least deepTableLevels priority levels, the case is a
// nesting of at least 20 000 brackets, and (if the log is at hand) the process died of the runtime's
// fatal stack overflow. Otherwise configuration and input shape of the known panics.
func classifyDeath(repro map[string]any, log string) string {
	cfg, _ := repro["config"].(string)
	spec, ok := parseCfgID(cfg)
	if !ok {
		return ""
	}
	if t := tables[spec.table]; t != nil && len(t.ops) >= deepTableLevels {
		fam, _ := repro["family"].(string)
		idx, ok := repro["index"].(float64)
		if fam == famDeepTable.name && ok && int64(idx) < famDeepTable.size(true) {
			if _, _, n := decodeDeep(int64(idx)); n >= 20000 && (log == "" || strings.Contains(log, "fatal error: stack overflow")) {
				return findingF04b
			}
		}
		return ""
	}
	src, ok := srcOf(repro)
	if !ok {
		return ""
	}
	// F04c: the optimizer EVALUATES a constant subexpression that recurses without end through a closure
	// handed to a list method (every level gets a fresh value stack, so the 10 000-slot guard never
	// fires): Generate itself dies of the runtime's fatal stack overflow. Narrow: the space family of these
	// witnesses, a recursion through map/accept with constant arguments, death by stack overflow.
	if fam, _ := repro["family"].(string); fam == famRunaway.name && spec.kind == "value" &&
		(strings.Contains(src, ".map(") || strings.Contains(src, ".accept(")) && (log == "" || strings.Contains(log, "fatal error: stack overflow")) {
		return findingF04c
	}
	return classifyShape(spec, src)
}

// srcOf reconstructs the input of a recorded case.
func srcOf(repro map[string]any) (string, bool) {
	if h, ok := repro["src_hex"].(string); ok {
		if b, err := hex.DecodeString(h); err == nil {
			return string(b), true
		}
	}
	if q, ok := repro["src"].(string); ok && !strings.Contains(q, "…") {
		if s, err := strconv.Unquote(q); err == nil {
			return s, true
		}
	}
	return "", false
}

// replay re-executes a recorded case in a child process (it may kill the process again).
func replay(repro map[string]any) (string, bool) {
	name, _ := repro["family"].(string)
	f := familyByName(name)
	idx, ok := repro["index"].(float64)
	if f == nil || !ok {
		return "the recorded case names no family/index (a process death that could not be pinpointed): nothing to re-execute", true
	}
	tier, _ := repro["tier"].(string)
	if tier == "" {
		tier = "thorough"
	}
	dir, err := os.MkdirTemp("", "c04-replay-")
	if err != nil {
		return err.Error(), true
	}
	defer os.RemoveAll(dir)
	var env []string
	if cfg, ok := repro["config"].(string); ok {
		env = append(env, envOnlyCfg+"="+cfg)
	}
	if sub, ok := repro["sub"].(float64); ok {
		env = append(env, fmt.Sprintf("%s=%d", envOnlySub, int(sub)))
	}
	cr := runChild(dir, tier, 0, 1, f, int64(idx), int64(idx)+1, false, -1, env...)
	if cr.res == nil {
		return fmt.Sprintf("the process died again (%v): %s", cr.err, cr.log), true
	}
	var out []string
	for _, v := range cr.res.Violations {
		out = append(out, fmt.Sprintf("%s: %s [classifier %q]", v.What, v.Got, v.Finding))
	}
	if len(out) > 0 {
		return strings.Join(out, "; "), true
	}
	b, _ := json.Marshal(cr.res.Outcomes)
	return "returned normally; outcomes " + string(b), false
}
