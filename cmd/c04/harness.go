package main

// Executing the real library on one input under one configuration: the configurations, the call
// with recover, the classifiers of the known configuration-dependent panics, the watchdog and the
// CPU clock.

import (
	"fmt"
	"math"
	"runtime/debug"
	"strconv"
	"strings"
	"sync/atomic"
	"syscall"
	"time"
	"unicode"
	"unicode/utf8"
	"unsafe"

	"github.com/hneemann/parser2"
	"github.com/hneemann/parser2/funcGen"
	"github.com/hneemann/parser2/value"
)

const (
	findingF03  = "F03-unary-last-binary"
	findingF04a = "F04a-empty-operator-table"
	findingF04b = "F04b-stack-overflow-many-priorities"
	findingF04c = "F04c-constant-folding-runs-unbounded-recursion"
)

// deepTableLevels: from this many priority levels on, 64 KiB of nested brackets need more than the
// 512 MB a goroutine stack may grow to (measured: 24 levels survive, 28 do not).
const deepTableLevels = 25

// ---------------------------------------------------------------------------------------------
// configurations

var keywords = []string{"let", "func", "if", "then", "else", "switch", "case", "default", "try", "catch"}

// tableSpec is the data a generic parser2.Parser[float64] is configured from; the classifiers below
// read the same data, so they follow the configuration and not a name.
type tableSpec struct {
	name     string
	ops      []string // binary operators, lowest priority first
	unary    []string // prefix operators
	keywords bool     // the ten keywords of the grammar
	idents   bool     // an Identifiers function (a: variable, e, pi: constants, abs: function); else nil
	number   bool     // a number parser
	str      bool     // a string converter
	optimize bool     // an (identity) optimizer, so that every node's Optimize traversal runs
}

var tables = map[string]*tableSpec{
	// the working configuration: a small table whose operators collide under maximal munch
	// (< <= = -> -) and with the comment openers (/ *), prefix operators one of which is also binary
	"std": {name: "std", ops: []string{"=", "~", "<", "<=", ">", "+", "-", "*", "/", "^"}, unary: []string{"-", "!"},
		keywords: true, idents: true, number: true, str: true, optimize: true},
	// design finding F03: the LAST binary operator is also a prefix operator
	"f03": {name: "f03", ops: []string{"+", "-"}, unary: []string{"-"}, idents: true, number: true},
	// no binary operator at all (a parser for literals, lists and maps only)
	"noops": {name: "noops", unary: []string{"-"}, idents: true, number: true, str: true},
	// 28 priority levels (value.New() has 17): every nesting level of the input costs two stack
	// frames per priority level
	"deep28": {name: "deep28", ops: []string{"|", "&", "=", "!=", "~", "<", ">", "<=", ">=", "+", "-", "<<", ">>", "*", "%", "/", "^", "@", "#", "$", "?",
		"&&", "||", "==", "**", "++", "<>", "^^"}, unary: []string{"-", "!"}, idents: true, number: true},
	// nothing optional configured: one operator, no prefix operators, nil Identifiers, no number
	// parser, no string converter, no keywords, no optimizer
	"bare": {name: "bare", ops: []string{"+"}},
}

// lastBinaryAlsoPrefix returns the last binary operator if it is also declared as prefix operator.
func (t *tableSpec) lastBinaryAlsoPrefix() string {
	if len(t.ops) == 0 {
		return ""
	}
	last := t.ops[len(t.ops)-1]
	for _, u := range t.unary {
		if u == last {
			return last
		}
	}
	return ""
}

type cfgSpec struct {
	kind     string // "generic": parser2.Parser[float64].Parse, "value": value.New().Generate(src, "a")
	table    string // generic: key of tables; value: "value"
	comments bool
	comfort  bool
}

func (c cfgSpec) id() string {
	return fmt.Sprintf("%s/%s/comments=%v/comfort=%v", c.kind, c.table, c.comments, c.comfort)
}

func parseCfgID(id string) (cfgSpec, bool) {
	p := strings.Split(id, "/")
	if len(p) != 4 {
		return cfgSpec{}, false
	}
	c := cfgSpec{kind: p[0], table: p[1], comments: p[2] == "comments=true", comfort: p[3] == "comfort=true"}
	return c, c.id() == id
}

func flagSets(kind, table string, all bool) []cfgSpec {
	if all {
		return []cfgSpec{{kind, table, false, false}, {kind, table, true, false}, {kind, table, false, true}, {kind, table, true, true}}
	}
	return []cfgSpec{{kind, table, false, false}, {kind, table, true, true}}
}

// fullConfigs: {generic std table, value.New()} x comments on/off x comfort on/off.
func fullConfigs() []cfgSpec {
	return append(flagSets("generic", "std", true), flagSets("value", "value", true)...)
}

// edgeConfigs: the configuration-dependent corners, each with both flags off and both on.
func edgeConfigs() []cfgSpec {
	l := flagSets("generic", "f03", false)
	l = append(l, flagSets("generic", "bare", false)...)
	return append(l, cfgSpec{"generic", "noops", false, false})
}

// bothOn: the two parsers with comments and comfort on (time measurements, the long-string space).
func bothOnConfigs() []cfgSpec {
	return []cfgSpec{{"generic", "std", true, true}, {"value", "value", true, true}}
}

// result of one call.
type result struct {
	ok       bool   // an AST / a function was returned
	neither  bool   // neither a result nor an error
	err      error  // the error value
	panicked bool   // panic on the caller's goroutine
	panicVal string // its value
	stack    string // its stack
}

// instance is a configured parser.
type instance struct {
	spec  cfgSpec
	id    string
	table *tableSpec // nil for value
	parse func(src string) result
	// astString renders the AST of src ("" and false on error); used for the NUL observation only
	astString func(src string) (string, bool)
}

func genericIdents() parser2.Identifiers[float64] {
	return func(name string) (parser2.Identifier[float64], bool) {
		switch name {
		case "a":
			return parser2.Identifier[float64]{Name: name}, true
		case "e":
			return parser2.Identifier[float64]{Name: name, IsConst: true, Const: 2.718281828459045}, true
		case "pi":
			return parser2.Identifier[float64]{Name: name, IsConst: true, Const: 3.141592653589793}, true
		case "abs":
			return parser2.Identifier[float64]{Name: name, IsConst: true, IsFunc: true}, true
		}
		return parser2.Identifier[float64]{}, false
	}
}

func newInstance(spec cfgSpec) *instance {
	in := &instance{spec: spec, id: spec.id()}
	switch spec.kind {
	case "generic":
		t := tables[spec.table]
		if t == nil {
			panic("c04: unknown table " + spec.table)
		}
		in.table = t
		p := parser2.NewParser[float64]()
		if len(t.ops) > 0 {
			p.Op(append([]string(nil), t.ops...)...)
		}
		p.Unary(t.unary...)
		if t.keywords {
			p.SetKeyWords(keywords...)
		}
		if t.number {
			p.SetNumberParser(parser2.NumberParserFunc[float64](func(n string) (float64, error) { return strconv.ParseFloat(n, 64) }))
		}
		if t.str {
			p.SetStringConverter(parser2.StringConverterFunc[float64](func(s string) float64 { return float64(len(s)) }))
		}
		if t.optimize {
			p.SetOptimizer(parser2.OptimizerFunc(func(a parser2.AST) parser2.AST { return a }))
		}
		if spec.comments {
			p.AllowComments()
		}
		p.Comfort(spec.comfort)
		var ids parser2.Identifiers[float64]
		if t.idents {
			ids = genericIdents()
		}
		in.parse = func(src string) result {
			ast, err := p.Parse(src, ids)
			return result{ok: err == nil && ast != nil, neither: err == nil && ast == nil, err: err}
		}
		in.astString = func(src string) (string, bool) {
			ast, err := p.Parse(src, ids)
			if err != nil || ast == nil {
				return "", false
			}
			return ast.String(), true
		}
	case "value":
		v := value.New()
		if spec.comfort {
			v.SetComfort(true) // before first use: it panics once the parser exists
		}
		if spec.comments {
			v.GetParser().AllowComments()
		}
		in.parse = func(src string) result {
			f, _, err := v.Generate(src, "a")
			return result{ok: err == nil && f != nil, neither: err == nil && f == nil, err: err}
		}
		in.astString = func(src string) (string, bool) {
			ast, err := v.CreateAst(src, v.Identifier().AddArgs([]string{"a"}, nil))
			if err != nil || ast == nil {
				return "", false
			}
			return ast.String(), true
		}
	case "funcgen":
		// the generic generator configured like example/minimal.go (float64) and example/bool.go: no list,
		// map, method or closure handler, no string converter (bool: no number parser either)
		var gen func(src string) (bool, error)
		switch spec.table {
		case "minimal":
			fromBool := func(b bool) float64 {
				if b {
					return 1
				}
				return 0
			}
			g := funcGen.New[float64]().
				AddConstant("pi", math.Pi).
				AddSimpleOp("=", false, func(a, b float64) (float64, error) { return fromBool(a == b), nil }).
				AddSimpleOp("<", false, func(a, b float64) (float64, error) { return fromBool(a < b), nil }).
				AddSimpleOp(">", false, func(a, b float64) (float64, error) { return fromBool(a > b), nil }).
				AddSimpleOp("+", true, func(a, b float64) (float64, error) { return a + b, nil }).
				AddSimpleOp("-", false, func(a, b float64) (float64, error) { return a - b, nil }).
				AddSimpleOp("*", true, func(a, b float64) (float64, error) { return a * b, nil }).
				AddSimpleOp("/", false, func(a, b float64) (float64, error) { return a / b, nil }).
				AddSimpleOp("^", false, func(a, b float64) (float64, error) { return math.Pow(a, b), nil }).
				AddUnaryFunc("-", func(a float64) (float64, error) { return -a, nil }).
				AddSimpleFunction("abs", math.Abs).
				AddSimpleFunction("sqrt", math.Sqrt).
				SetToBool(func(c float64) (bool, bool) { return c != 0, true }).
				SetNumberParser(parser2.NumberParserFunc[float64](func(n string) (float64, error) { return strconv.ParseFloat(n, 64) }))
			g.SetComfort(spec.comfort)
			if spec.comments {
				g.GetParser().AllowComments()
			}
			gen = func(src string) (bool, error) {
				f, _, err := g.Generate(src, "a")
				return f != nil, err
			}
		case "bool":
			g := funcGen.New[bool]().
				AddConstant("false", false).
				AddConstant("true", true).
				AddSimpleOp("^", true, func(a, b bool) (bool, error) { return a != b, nil }).
				AddSimpleOp("=", true, func(a, b bool) (bool, error) { return a == b, nil }).
				AddSimpleOp("|", true, func(a, b bool) (bool, error) { return a || b, nil }).
				AddSimpleOp("&", true, func(a, b bool) (bool, error) { return a && b, nil }).
				AddUnaryFunc("!", func(a bool) (bool, error) { return !a, nil }).
				SetToBool(func(c bool) (bool, bool) { return c, true })
			g.SetComfort(spec.comfort)
			if spec.comments {
				g.GetParser().AllowComments()
			}
			gen = func(src string) (bool, error) {
				f, _, err := g.Generate(src, "a")
				return f != nil, err
			}
		default:
			panic("c04: unknown generic generator " + spec.table)
		}
		in.parse = func(src string) result {
			ok, err := gen(src)
			return result{ok: err == nil && ok, neither: err == nil && !ok, err: err}
		}
		in.astString = func(src string) (string, bool) { return "", false }
	default:
		panic("c04: unknown kind " + spec.kind)
	}
	return in
}

// genericGeneratorConfigs: funcGen.New[float64] / New[bool] without optional handlers, flags off and on.
func genericGeneratorConfigs() []cfgSpec {
	return append(flagSets("funcgen", "minimal", false), flagSets("funcgen", "bool", false)...)
}

// call runs the library on src; a panic on this goroutine is caught and returned.
func (in *instance) call(src string) (res result) {
	defer func() {
		if rec := recover(); rec != nil {
			res = result{panicked: true, panicVal: fmt.Sprint(rec), stack: string(debug.Stack())}
		}
	}()
	return in.parse(src)
}

// ---------------------------------------------------------------------------------------------
// classifiers

// panicFrames returns the functions on the stack of a recovered panic, innermost first, starting
// with the function that panicked (frames of package runtime are skipped).
func panicFrames(stack string) []string {
	lines := strings.Split(stack, "\n")
	start := -1
	for i, l := range lines {
		if strings.HasPrefix(l, "panic(") {
			start = i
		}
	}
	var out []string
	if start < 0 {
		return out
	}
	for _, l := range lines[start+1:] {
		if l == "" || l[0] == '\t' || l[0] == ' ' {
			continue
		}
		if j := strings.LastIndex(l, "("); j > 0 {
			l = l[:j]
		}
		if strings.HasPrefix(l, "runtime.") {
			continue
		}
		out = append(out, l)
	}
	return out
}

func frameIs(frames []string, i int, fn string) bool {
	return i < len(frames) && strings.HasPrefix(frames[i], "github.com/hneemann/parser2.") && strings.HasSuffix(frames[i], ")."+fn)
}

// prefixOccurrence reports whether operator op (one of the characters the tokenizer reads as '-')
// occurs in src where the grammar expects an operand: at the start, after an opening bracket, a
// separator, an operator or a keyword. It follows the tokenizer's reading of strings, quoted
// identifiers, NUL and (if enabled) comments.
func prefixOccurrence(src string, op string, t *tableSpec, comments bool) bool {
	operandEnd := false
	isKw := func(s string) bool {
		if !t.keywords {
			return false
		}
		for _, k := range keywords {
			if k == s {
				return true
			}
		}
		return false
	}
	i := 0
	for i < len(src) {
		r, n := utf8.DecodeRuneInString(src[i:])
		switch {
		case r == 0:
			return false
		case r == ' ' || r == '\t' || r == '\r' || r == '\n':
			i += n
		case comments && r == '/' && strings.HasPrefix(src[i+n:], "/"):
			j := strings.IndexAny(src[i:], "\r\n")
			if j < 0 {
				return false
			}
			i += j
		case comments && r == '/' && strings.HasPrefix(src[i+n:], "*"):
			j := strings.Index(src[i+2:], "*/")
			if j < 0 {
				return false
			}
			i += 2 + j + 2
		case r == '"':
			i += n
			for i < len(src) {
				c := src[i]
				i++
				if c == '\\' && i < len(src) {
					i++
					continue
				}
				if c == '"' || c == 0 || c == '\n' || c == '\r' {
					break
				}
			}
			operandEnd = true
		case r == '\'':
			i += n
			for i < len(src) {
				c := src[i]
				i++
				if c == '\'' || c == 0 {
					break
				}
			}
			operandEnd = true
		case unicode.IsLetter(r) || r == '_':
			j := i
			for j < len(src) {
				c, m := utf8.DecodeRuneInString(src[j:])
				if !(unicode.IsLetter(c) || unicode.IsNumber(c) || c == '_') || strings.ContainsRune("⁰¹²³⁴⁵⁶⁷⁸⁹", c) {
					break
				}
				j += m
			}
			operandEnd = !isKw(src[i:j])
			i = j
		case unicode.IsNumber(r):
			j := i
			for j < len(src) {
				c, m := utf8.DecodeRuneInString(src[j:])
				if !(unicode.IsNumber(c) || c == '.' || c == 'e') {
					break
				}
				j += m
			}
			operandEnd = true
			i = j
		case r == ')' || r == ']' || r == '}':
			operandEnd = true
			i += n
		case (r == '-' || r == '–') && op == "-":
			if strings.HasPrefix(src[i+n:], ">") {
				operandEnd = false
				i += n + 1
				continue
			}
			if !operandEnd {
				return true
			}
			operandEnd = false
			i += n
		default:
			operandEnd = false
			i += n
		}
	}
	return false
}

// classifyPanic names the known finding a panic on the caller's goroutine belongs to ("" = none).
//
// F03: the table's last binary operator is also a prefix operator, that operator occurs in prefix
// position in the input, and the panic is the index error raised in parseOp called from parseUnary.
// F04a: the operator table is empty and the panic is the index error raised in parseOp.
func classifyPanic(in *instance, src string, res result) string {
	if in.table == nil || !strings.Contains(res.panicVal, "index out of range") {
		return ""
	}
	fr := panicFrames(res.stack)
	if len(in.table.ops) == 0 {
		if frameIs(fr, 0, "parseOp") {
			return findingF04a
		}
		return ""
	}
	if op := in.table.lastBinaryAlsoPrefix(); op != "" {
		if frameIs(fr, 0, "parseOp") && frameIs(fr, 1, "parseUnary") && prefixOccurrence(src, op, in.table, in.spec.comments) {
			return findingF03
		}
	}
	return ""
}

// classifyShape is classifyPanic without a stack (a worker that died): configuration and input
// shape only.
func classifyShape(spec cfgSpec, src string) string {
	t := tables[spec.table]
	if spec.kind != "generic" || t == nil {
		return ""
	}
	if len(t.ops) == 0 {
		return findingF04a
	}
	if op := t.lastBinaryAlsoPrefix(); op != "" && prefixOccurrence(src, op, t, spec.comments) {
		return findingF03
	}
	return ""
}

// errClass maps an error value to a small class: the phase and the leading words of the message.
func errClass(kind string, err error) string {
	s := err.Error()
	phase := "parse"
	if kind == "value" || kind == "funcgen" {
		if strings.HasPrefix(s, "error parsing expression: ") {
			s = s[len("error parsing expression: "):]
		} else {
			phase = "generate"
		}
	}
	if strings.HasPrefix(s, "'") { // "'x' used twice in functions argument list"
		if j := strings.Index(s[1:], "' "); j >= 0 {
			s = s[j+3:]
		}
	}
	end := len(s)
	for i, c := range s {
		if !(unicode.IsLetter(c) || c == ' ') {
			end = i
			break
		}
	}
	stem := strings.TrimSpace(s[:end])
	if f := strings.Fields(stem); len(f) > 3 {
		stem = strings.Join(f[:3], " ")
	}
	return "error/" + phase + "/" + stem
}

// ---------------------------------------------------------------------------------------------
// CPU clock and watchdog

// cpuNow is the CPU time consumed by this process (all threads).
func cpuNow() time.Duration {
	var ts syscall.Timespec
	const clockProcessCPUTimeID = 2
	syscall.Syscall(syscall.SYS_CLOCK_GETTIME, clockProcessCPUTimeID, uintptr(unsafe.Pointer(&ts)), 0)
	return time.Duration(ts.Nano())
}

// Limits of the watchdog. A call that normally takes microseconds (inputs of at most smallInput
// bytes) is declared hung after 20 s of CPU time of this process or 60 s of wall-clock time during
// which the monitor itself was scheduled regularly (a frozen or starved process proves nothing);
// the 64 KiB inputs, which take up to 3 s when the stack has to grow to 512 MB, get 150 s / 300 s.
const (
	smallInput    = 4096
	smallCPULimit = 20 * time.Second
	smallWall     = 60 * time.Second
	largeCPULimit = 150 * time.Second
	largeWall     = 300 * time.Second
	watchTick     = 200 * time.Millisecond
)

// caseInfo identifies the call in progress.
type caseInfo struct {
	family string
	index  int64
	sub    int // sub-case of the index (0 if it has none)
	cfg    string
	src    string
	desc   string // how a long src is built
}

type hangReport struct {
	info      caseInfo
	wall, cpu time.Duration
	why       string
}

// watchdog: the enumerating goroutine announces every call with begin and retires it with end; the
// monitor aborts a call that exceeds its limits. After an abort the enumerating goroutine never
// touches shared state again: either it is stuck inside the library or it parks itself in end.
type watchdog struct {
	state    atomic.Int64 // 2*seq+1 while call seq runs, 2*seq between calls, -1 after an abort
	cpuLimit atomic.Int64
	wallLim  atomic.Int64
	seq      int64
	cur      caseInfo // written before state, read by others only after a successful abort
	hang     chan hangReport
}

func newWatchdog() *watchdog {
	w := &watchdog{hang: make(chan hangReport, 1)}
	go w.monitor()
	return w
}

func (w *watchdog) begin(info caseInfo) {
	w.cur = info
	w.seq++
	if len(info.src) <= smallInput {
		w.cpuLimit.Store(int64(smallCPULimit))
		w.wallLim.Store(int64(smallWall))
	} else {
		w.cpuLimit.Store(int64(largeCPULimit))
		w.wallLim.Store(int64(largeWall))
	}
	w.state.Store(2*w.seq + 1)
}

// end retires the call; if the monitor has aborted it meanwhile the goroutine parks forever.
func (w *watchdog) end() {
	if !w.state.CompareAndSwap(2*w.seq+1, 2*w.seq) {
		select {}
	}
}

func (w *watchdog) monitor() {
	var watching int64 = -2
	var since time.Time
	var cpu0 time.Duration
	ticks := 0
	for {
		time.Sleep(watchTick)
		s := w.state.Load()
		if s < 0 {
			return
		}
		if s&1 == 0 {
			watching = -2
			continue
		}
		if s != watching {
			watching, since, cpu0, ticks = s, time.Now(), cpuNow(), 0
			continue
		}
		ticks++
		wall, cpu := time.Since(since), cpuNow()-cpu0
		cl, wl := time.Duration(w.cpuLimit.Load()), time.Duration(w.wallLim.Load())
		why := ""
		if cpu >= cl {
			why = fmt.Sprintf("the process consumed %.0f s of CPU time inside this one call (limit %.0f s)", cpu.Seconds(), cl.Seconds())
		} else if wall >= wl && time.Duration(ticks)*watchTick >= wall*3/4 {
			why = fmt.Sprintf("the call did not return within %.0f s of wall-clock time while the process was being scheduled (CPU used: %.1f s)", wall.Seconds(), cpu.Seconds())
		}
		if why != "" && w.state.CompareAndSwap(s, -1) {
			w.hang <- hangReport{info: w.cur, wall: wall, cpu: cpu, why: why}
			return
		}
	}
}
