package main

// Further space families of C04 (added after independently written breaking changes showed what the
// first alphabets could not reach): (d) non-ASCII runes of every Unicode class the scanner's
// predicates (unicode.IsNumber, IsDigit, IsLetter, IsSpace) tell apart, (e) constant subexpressions
// whose folding fails, at every position of a program where an expression can stand.

import (
	"fmt"
	"strings"
)

// unicodeAlphabet: ASCII context (letter, digit, '.', exponent marker, sign, bracket, both quotes,
// blank) plus one rune of each class: No (½ vulgar fraction, ₃ subscript, ① circled), Nl (Ⅳ roman
// numeral), Nd of another script (٣ two bytes, 𝟙 four bytes), non-ASCII letter (ä), symbol (€),
// no-break space (Zs), combining mark (Mn), fraction slash (Sm), byte order mark (Cf), line separator (Zl).
var unicodeAlphabet = []string{"a", "1", ".", "e", "-", "(", "\"", "'", " ",
	"\u00bd", "\u2083", "\u2460", "\u2163", "\u0663", "\U0001d7d9", "\u00e4", "\u20ac", "\u00a0", "\u0301", "\u2044", "\ufeff", "\u2028"}

func boundUnicode(q bool) int {
	if q {
		return 4
	}
	return 5
}

var famUnicode = &family{
	name: "d-unicode-classes",
	size: func(q bool) int64 { return countSeq(len(unicodeAlphabet), boundUnicode(q)) },
	bound: func(q bool) string {
		return fmt.Sprintf("every string of <= %d symbols over a %d-symbol alphabet of ASCII context and one rune of every Unicode class the scanner's predicates tell apart (No, Nl, Nd of other scripts in 2 and 4 bytes, letter, symbol, Zs, Zl, Mn, Sm, Cf) x {generic std, value} x comments on/off x comfort on/off", boundUnicode(q), len(unicodeAlphabet))
	},
	eval: func(r *runner, i int64) {
		src := bytesSrc(unicodeAlphabet, i, &r.digits)
		for _, in := range r.full {
			r.exec("d-unicode-classes", i, 0, in, src, "")
		}
	},
}

// foldPositions: every syntactic position of the value language where an expression can stand
// (E is replaced); the parser optimizes let values, func bodies, closure bodies and the top level
// through different call sites.
var foldPositions = []string{
	"E", "let v=E; v", "let v=1; E", "let v=E; 1", "let u=(let v=E; v); u", "let u=1; let v=E; v+u",
	"func f(x) E; f(1)", "func f(x) x; f(E)", "func f(x) let v=E; v; f(1)", "x->E", "(x->E)(1)", "(x->let v=E; v)(1)",
	"[E]", "[1,E][0]", "{k:E}", "{k:E}.k", "abs(E)", "a.m(E)", "a.m(1,let v=E; v)",
	"if E then 1 else 2", "if true then E else 2", "if false then 1 else E", "if a=1 then E else 2",
	"switch E case 1: 1 default 2", "switch 1 case E: 1 default 2", "switch 1 case 1: E default 2", "switch 1 case 2: 1 default E",
	"try E catch 1", "try 1 catch E", "try let v=E; v catch 1",
	"(E)+a", "a+(E)", "-(E)", "!(E)", "(E).m", "(E)[0]", "[1,2][E]", "(E)(1)",
	"let f=y->[y,E]; f(a)", "a+[1, let b=E; b][0]", "[1,2].map(e->E)", "[1,2].map(e->let v=E; v).sum()",
}

var foldOperands = []string{"0", "1", "(-1)", "2.5", "\"a\"", "true", "[]", "[1]", "{}", "{k:1}", "(x->x)", "64"}
var foldBinary = []string{"+", "-", "*", "/", "%", "^", "&", "|", "=", "!=", "<", ">", "<=", ">=", "<<", ">>", "~"}
var foldOther = []string{"-\"a\"", "![]", "-true", "!1", "[1][5]", "[1][-1]", "[].first()", "{}.k", "1.foo()", "\"a\".cut(0,5)", "\"a\".toLower(1)",
	"[1,2].reduce(1)", "[].reduce((p,q)->p+q)", "[1].map(1)", "abs(\"a\")", "abs()", "sqrt(-1)", "ln(0)", "int(\"x\")", "[1,2].single()", "1/0/0", "throw(\"t\")",
	"[3,1].order(1)", "\"a\"[0]", "{k:1}.put(1,2)", "[1,2].top(\"a\")", "pi()", "1(2)", "[[1][3]]", "{k:[1][3]}"}

func foldExpr(j int) string {
	nb := len(foldBinary) * len(foldOperands) * len(foldOperands)
	if j < nb {
		op := foldBinary[j/(len(foldOperands)*len(foldOperands))]
		r := j % (len(foldOperands) * len(foldOperands))
		return foldOperands[r/len(foldOperands)] + op + foldOperands[r%len(foldOperands)]
	}
	return foldOther[j-nb]
}

func numFoldExprs() int {
	return len(foldBinary)*len(foldOperands)*len(foldOperands) + len(foldOther)
}

var famFolds = &family{
	name: "e-failing-constant-folds",
	size: func(q bool) int64 { return int64(len(foldPositions) * numFoldExprs()) },
	bound: func(q bool) string {
		return fmt.Sprintf("%d constant expressions (every binary operator of the value language x %d x %d constant operands of every sort, plus %d failing unary/index/method/static forms) at each of %d positions where an expression can stand (top level, let value, let body, nested let, func body, func argument, closure body, list/map element, call argument, condition/branch, switch subject/case/result/default, try body/handler, operand, callee, index, inside closures passed to map) x value.New().Generate with comments+comfort off and on", numFoldExprs(), len(foldOperands), len(foldOperands), len(foldOther), len(foldPositions))
	},
	eval: func(r *runner, i int64) {
		n := int64(numFoldExprs())
		src := strings.ReplaceAll(foldPositions[i/n], "E", foldExpr(int(i%n)))
		for _, in := range r.full {
			if in.spec.kind != "value" || in.spec.comments != in.spec.comfort {
				continue
			}
			r.exec("e-failing-constant-folds", i, 0, in, src, "")
		}
	},
}

// (f) constant subexpressions whose folding does not terminate: the optimizer evaluates them at Generate
// time. Recursion on the value stack is stopped by the stack guard (an error); recursion through a
// closure handed to a list method runs on fresh stacks (finding F04c).
// goroutineFolds: constant subexpressions that the optimizer evaluates at Generate time with operations
// that run closures on goroutines of their own (multiUse, merge): a Go panic there is out of reach of
// the recover around the optimizer.
var goroutineFolds = []string{
	"[1,2,3].multiUse({a:l->l.size()%0,b:l->l.size()})",
	"[1,2,3].multiUse({a:l->1<<(0-l.size()),b:l->l.size()})",
	"[1,2,3].multiUse({a:l->l.map(e->e%0).sum(),b:l->l.size()})",
	"try [1,2,3].multiUse({a:l->l.size()%0,b:l->l.size()}) catch 0",
	"[1,2].merge([3],(a,b)->a%0<b).size()",
	"[1,2].map(e->e%0).merge([3],(a,b)->a<b).size()",
	"[3].merge([1,2].map(e->1<<(0-e)),(a,b)->a<b).size()",
	"[1,2,3].multiUse({a:l->l.first()!=\"a\",b:l->l.size()})",
	"let m=[1,2,3].multiUse({a:l->l.size()%0,b:l->l.size()}); 1",
	"x->[1,2,3].multiUse({a:l->l.size()%0,b:l->l.size()})",
}

var famGoroutineFolds = &family{
	name: "g-constant-folds-on-goroutines",
	size: func(q bool) int64 { return int64(len(goroutineFolds)) },
	bound: func(q bool) string {
		return fmt.Sprintf("%d programs whose constant part runs closures that panic on goroutines started by multiUse / merge while Generate folds it x value.New().Generate with comments+comfort off and on", len(goroutineFolds))
	},
	eval: func(r *runner, i int64) {
		for _, in := range r.full {
			if in.spec.kind != "value" || in.spec.comments != in.spec.comfort {
				continue
			}
			r.exec("g-constant-folds-on-goroutines", i, 0, in, goroutineFolds[i], "")
		}
	},
}

var runawayInputs = []string{
	"(f->f(f))(f->f(f))",
	"func f(x) f(x+1); f(1)",
	"func f(x) [x].map(e->f(e+1)); f(1)",
	"let w=f->f(f); w(w)",
	"func f(x) if x>0 then f(x+1) else 0; [f(1)]",
	"let w=f->[f].map(g->g(g))[0]; w(w)",
	"func f(x) [x].map(e->f(e+1)).sum(); f(1)",
	"let w=f->[f].accept(g->g(g)).size(); w(w)",
}

var famRunaway = &family{
	name: "f-runaway-constant-recursion",
	size: func(q bool) int64 { return int64(len(runawayInputs)) },
	bound: func(q bool) string {
		return fmt.Sprintf("%d programs whose constant subexpression recurses without end (self application, recursive func on constant arguments; on the value stack and through closures handed to list methods) x value.New().Generate with comments+comfort off and on", len(runawayInputs))
	},
	eval: func(r *runner, i int64) {
		for _, in := range r.full {
			if in.spec.kind != "value" || in.spec.comments != in.spec.comfort {
				continue
			}
			r.exec("f-runaway-constant-recursion", i, 0, in, runawayInputs[i], "")
		}
	},
}

// ---------------------------------------------------------------------------------------------
// (h) Generate on generic generators that have none of the optional handlers

func boundGenTokens(q bool) int {
	if q {
		return 4
	}
	return 5
}

var famGenericGenerators = &family{
	name: "h-generic-generators",
	size: func(q bool) int64 { return countSeq(len(tokenAlphabet), boundGenTokens(q)) },
	bound: func(q bool) string {
		return fmt.Sprintf("every sequence of <= %d tokens over the %d-token alphabet x Generate of funcGen.New[float64] configured like example/minimal.go and funcGen.New[bool] like example/bool.go (no list, map, method, closure handler, no string converter) x comments+comfort off and on (sequences of the maximal length: float64 with both on, bool with both off)", boundGenTokens(q), len(tokenAlphabet))
	},
	eval: func(r *runner, i int64) {
		src := strings.Join(tokensOf(i, &r.digits), " ")
		longest := len(r.digits) == boundGenTokens(r.ctx.Quick())
		for _, in := range r.gen {
			if longest && (in.spec.table == "minimal") != in.spec.comfort {
				continue
			}
			r.exec("h-generic-generators", i, 0, in, src, "")
		}
	},
}
