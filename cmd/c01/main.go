// C01: compiled evaluation = lexically scoped reference semantics.
// Bounded-exhaustive enumeration of value-language programs (tier A: every program of the typed
// grammar up to a node bound; tier B: every binder skeleton up to a nesting depth with the maximal
// observer in the innermost hole), each generated with the optimizer on and off and evaluated on every
// argument tuple, against the reference interpreter (internal/refsem).
package main

import (
	"fmt"
	"strings"

	"github.com/hneemann/parser2/funcGen"
	"github.com/hneemann/parser2/value"
	"verif/internal/bex"
	"verif/internal/refsem"
	"verif/internal/vlang"
	"verif/internal/vrun"
)

var argNames = []string{"a", "b", "l", "m"}
var argSorts = map[string]vlang.Sort{"a": vlang.SI, "b": vlang.SI, "l": vlang.SL, "m": vlang.SM}

// argument tuples: a ∈ {0,3}, b = 2, l = [1,2], m = {k:5}
func argTuples() [][]refsem.Val {
	var out [][]refsem.Val
	for _, a := range []int64{0, 3} {
		out = append(out, []refsem.Val{refsem.IntV(a), refsem.IntV(2),
			refsem.Eager([]refsem.Val{refsem.IntV(1), refsem.IntV(2)}),
			&refsem.MapV{Keys: []string{"k"}, Vals: []refsem.Val{refsem.IntV(5)}}})
	}
	return out
}

func addHost(g *value.FunctionGenerator) {
	g.AddStaticFunction("obs2", funcGen.Function[value.Value]{
		Func: func(st funcGen.Stack[value.Value], cs []value.Value) (value.Value, error) {
			x, ok1 := st.Get(0).(value.Int)
			y, ok2 := st.Get(1).(value.Int)
			if !ok1 || !ok2 {
				return nil, fmt.Errorf("obs2 needs ints")
			}
			return x*1009 + y, nil
		},
		Args: 2, IsPure: true,
	}.SetDescription("x", "y", "x*1009+y"))
}

func addHostRef(in *refsem.Interp) {
	in.Statics["obs2"] = func(in *refsem.Interp, a []refsem.Val) (refsem.Val, *refsem.Err) {
		x, ok1 := a[0].(refsem.IntV)
		y, ok2 := a[1].(refsem.IntV)
		if !ok1 || !ok2 {
			return nil, refsem.E("obs2 needs ints")
		}
		return x*1009 + y, nil
	}
}

type harness struct {
	gens   [2]*value.FunctionGenerator // 0 = optimizer on, 1 = off
	in     *refsem.Interp
	tuples [][]refsem.Val
	impl   [][]value.Value
}

func newHarness() *harness {
	h := &harness{in: refsem.New(), tuples: argTuples()}
	refsem.InstallFull(h.in) // the templates use built-ins beyond the typed grammar (number, combine, numbers)
	h.gens[0] = vrun.NewGen(true, addHost)
	h.gens[1] = vrun.NewGen(false, addHost)
	addHostRef(h.in)
	for _, t := range h.tuples {
		var iv []value.Value
		for _, v := range t {
			iv = append(iv, vrun.ToImpl(v))
		}
		h.impl = append(h.impl, iv)
	}
	return h
}

var builtinMethods = map[string]bool{"map": true, "reduce": true, "sum": true, "size": true, "append": true}

// pushedLet reports the shape behind finding F01: a let/func that is evaluated while at least one
// argument of an enclosing call in the same function frame — or the receiver of a built-in method
// call — has already been pushed on the value stack.
func pushedLet(n *vlang.Node) bool {
	found := false
	// walk(n, pushed): pushed = some enclosing call in this frame has pushed values
	var walk func(n *vlang.Node, pushed bool)
	walk = func(n *vlang.Node, pushed bool) {
		if n == nil || found {
			return
		}
		switch n.K {
		case vlang.Let:
			if pushed {
				found = true
				return
			}
			walk(n.A, pushed)
			walk(n.B, pushed)
		case vlang.Func:
			if pushed {
				found = true
				return
			}
			walk(n.A, false) // own frame
			walk(n.B, pushed)
		case vlang.Lam:
			walk(n.A, false) // own frame
		case vlang.Call:
			walk(n.A, pushed)
			for i, a := range n.Args {
				walk(a, pushed || i > 0)
			}
		case vlang.Static:
			for i, a := range n.Args {
				walk(a, pushed || i > 0)
			}
		case vlang.Method:
			walk(n.A, pushed)
			for i, a := range n.Args {
				walk(a, pushed || i > 0 || builtinMethods[n.S])
			}
		default:
			walk(n.A, pushed)
			walk(n.B, pushed)
			walk(n.C, pushed)
			for _, a := range n.Args {
				walk(a, pushed)
			}
		}
	}
	walk(n, false)
	return found
}

func classify(prog *vlang.Node) string {
	if pushedLet(prog) {
		return "F01-let-under-pushed-args"
	}
	return ""
}

// check runs one program on all tuples and both optimizer settings.
func (h *harness) check(ctx *bex.Ctx, prog *vlang.Node, trivialRule func(o string) bool) {
	src := vlang.Render(prog)
	ctx.Begin(func() map[string]any { return map[string]any{"src": src} })
	var fs [2]funcGen.Func[value.Value]
	var genErr [2]error
	for i := range h.gens {
		fs[i], _, genErr[i] = h.gens[i].Generate(src, argNames...)
	}
	nontrivial := false
	for ti, tuple := range h.tuples {
		h.in.Reset()
		env := (*refsem.Env)(nil)
		for i, n := range argNames {
			env = env.Bind(n, tuple[i])
		}
		rv, rerr := h.in.Eval(prog, env)
		if rerr == nil {
			rv, rerr = refsem.DeepForce(rv)
		}
		if h.in.Unspec != "" {
			ctx.Unspecified(h.in.Unspec)
			continue
		}
		want := "error"
		taint := false
		if rerr == nil {
			want = refsem.Canon(rv)
			taint = refsem.HasTaint(rv)
			if len(want) > 0 && want != "i0" {
				nontrivial = true
			}
		}
		for i := range h.gens {
			ctx.Eval()
			var o vrun.Outcome
			if genErr[i] != nil {
				o = vrun.Outcome{GenErr: true, Err: true, Msg: genErr[i].Error()}
			} else {
				o = vrun.Eval(fs[i], h.impl[ti])
			}
			ctx.Outcome(o.Class())
			ok := false
			switch {
			case rerr != nil:
				ok = o.Err
			case taint:
				ok = !o.Err
			default:
				ok = !o.Err && o.Canon == want
			}
			if !ok {
				a := tuple[0].(refsem.IntV)
				ctx.Violate("outcome differs from the reference semantics",
					map[string]any{"src": src, "a": int64(a), "optimizer": i == 0, "tree": vlang.Dump(prog), "want": want, "want_any_value": taint},
					want, o.String(), classify(prog))
			}
		}
	}
	if nontrivial {
		ctx.Nontrivial(src)
	}
	if ctx.WantSample() && nontrivial && len(src) > 12 {
		ctx.Sample(map[string]any{"src": src})
	}
}

// runDeferred: lazy stages that call closures through the value stack, created and kept un-evaluated
// while further locals / call frames are pushed, then consumed in another frame. Metamorphic oracle
// (no model of the stage needed): the program with the list materialised at once (".eval()" behind the
// stage) must give the same outcome as the program that keeps it lazy; the locals around it are
// checked against their literal values by the observer list.
func (h *harness) runDeferred(ctx *bex.Ctx) {
	ctx.Space("deferred-lazy-stages")
	stages := []string{"map(x->x*2+1)", "accept(x->x>1)", "combine((p,q)->p*3+q)", "combine3((p,q,r)->p*5+q*3+r)", "combineN(2,w->w[0]*7+w[1])",
		"iir(x->x+1,(x,l)->x+l*2)", "iirCombine(x->x+2,(p,q,l)->p+q*2+l*3)", "number((i,v)->i*1000+v)", "compact((p,q)->p=q)", "cross([10,20],(p,q)->p*100+q)",
		"merge([2,4],(p,q)->p<q)", "fsm((s,x)->{state:s.state+x}).map(m->m.state)", "top(4)", "skip(1)", "movingWindow(x->x).map(w->w.size())", "order(x->0-x)",
		// a closure-free stage over a stage that runs its closure on the stack it is handed
		"number((i,v)->i*1000+v).top(4)", "number((i,v)->i*1000+v).skip(1)", "combine((p,q)->p*3+q).top(3).skip(1)", "iir(x->x+1,(x,l)->x+l*2).top(4)", "compact((p,q)->p=q).skip(1)"}
	consumers := []string{".size()", ".sum()", ".string()", ".first()", "[1]", ".reduce((p,q)->p*31+q)", ".last()"}
	contexts := []string{
		"let c=R.STAGE; let u=a+1; let v=a+2; let w=a+3; let n=c.CONS; [u,v,w,n]",
		"let c=R.STAGE; func g(p,q) let n=c.CONS; [p,q,n]; g(a*10,a*20)",
		"let c=R.STAGE; func f(k) if k=0 then [c.CONS] else [f(k-1),k*100]; f(2)",
		"let c=R.STAGE; let m={f:(p,q)->[p,q,c.CONS]}; m.f(a,2)",
		"let c=R.STAGE; [1,2].map(e->[e,c.CONS,a])",
		"let c=R.STAGE; let u=a+1; try [u, c.CONS, throw(\"e\")] catch e->[u, c.CONS]",
		"func mk(k) R.STAGE; let c=mk(1); let u=a+5; let v=a+6; [u,v,c.CONS,c.CONS]",
		"let c=R.STAGE; obs2(a+1, let z=a+2; c.CONS*0+z)",
		"let c=R.STAGE; let d=c.STAGE2; let u=a+1; let v=a+2; [u,v,d.size(),c.CONS]",
	}
	recvs := []string{"l", "numbers(a+5)"}
	var idx int64
	names := []string{"a", "l"}
	argVals := [][]value.Value{}
	for _, a := range []int64{0, 3} {
		argVals = append(argVals, []value.Value{value.Int(a), value.NewList(value.Int(1), value.Int(1), value.Int(2), value.Int(2), value.Int(3), value.Int(3))})
	}
	for _, st := range stages {
		for _, cons := range consumers {
			for _, cx := range contexts {
				for _, r := range recvs {
					idx++
					if !ctx.Mine(idx) || ctx.Expired() {
						continue
					}
					lazy := strings.NewReplacer("STAGE2", "number((i,v)->i+v)", "R", r, "STAGE", st, ".CONS", cons).Replace(cx)
					eager := strings.NewReplacer("STAGE2", "number((i,v)->i+v).eval()", "R", r, "STAGE", st+".eval()", ".CONS", cons).Replace(cx)
					ctx.Begin(func() map[string]any { return map[string]any{"src": lazy} })
					for gi, g := range h.gens {
						fl, _, errL := g.Generate(lazy, names...)
						fe, _, errE := g.Generate(eager, names...)
						if errL != nil || errE != nil {
							ctx.Eval()
							ctx.Violate("deferred-stage template does not generate", map[string]any{"src": lazy, "eager": eager, "deferred": true}, "a function", fmt.Sprint(errL, errE), "")
							continue
						}
						for ai, av := range argVals {
							ctx.Eval()
							ol := vrun.Eval(fl, av)
							oe := vrun.Eval(fe, av)
							ctx.Outcome("deferred:" + oe.Class())
							if !oe.Err {
								ctx.Nontrivial("d|" + lazy)
							}
							if ol.Err != oe.Err || (!ol.Err && ol.Canon != oe.Canon) {
								ctx.Violate("a lazy stage consumed later, in another frame, gives a different outcome than the same stage materialised at once",
									map[string]any{"src": lazy, "eager": eager, "a": []int64{0, 3}[ai], "optimizer": gi == 0, "deferred": true}, "materialised at once: "+oe.String(), "kept lazy: "+ol.String(), "")
							}
						}
					}
					if ctx.WantSample() && idx%97 == 0 {
						ctx.Sample(map[string]any{"lazy": lazy, "eager_twin": eager})
					}
				}
			}
		}
	}
	ctx.SpaceDone(fmt.Sprintf("%d closure-calling lazy stages x %d consumers x %d contexts (later lets, another function frame, recursion, map-field closure, callback of another list method, try/catch, returned from a function, under a pushed argument, chained) x 2 sources; lazy program vs its materialise-at-once twin; a in {0,3}; optimizer on/off", len(stages), len(consumers), len(contexts)))
}

// runOperators: every binary and unary operator on every pair of operands of every sort — the typed
// grammar below only builds well-typed programs, so what an operator does with operands it is not
// defined on (an error, by the reference semantics) is decided here.
func (h *harness) runOperators(ctx *bex.Ctx) {
	ctx.Space("operator-tables")
	v, I, op := vlang.V, vlang.I, vlang.Op
	operands := []*vlang.Node{
		v("a"), v("b"), v("l"), v("m"), I(0), I(5), I(-1), vlang.Fl(2.5), vlang.Bo(true), vlang.Bo(false), vlang.S("a"), vlang.S(""),
		vlang.ListN(), vlang.ListN(I(1), I(2)), vlang.MapN(nil), vlang.MapN([]string{"k"}, I(5)), vlang.LamN([]string{"x"}, v("x")),
		op("<", v("a"), I(1)), op("=", v("a"), v("a")), op("+", v("a"), vlang.Fl(0.5)), vlang.MethodN(v("l"), "map", vlang.LamN([]string{"e"}, op("+", v("e"), v("a")))),
	}
	ops := []string{"+", "-", "*", "/", "%", "<<", ">>", "=", "!=", "<", ">", "<=", ">=", "~", "&", "|"}
	var idx int64
	for _, o := range ops {
		for _, x := range operands {
			for _, y := range operands {
				idx++
				if !ctx.Mine(idx) || ctx.Expired() {
					continue
				}
				h.check(ctx, op(o, x, y), nil)
				// the result used, not only returned: inside a list literal and as the value of a let
				h.check(ctx, vlang.ListN(op(o, x, y), I(7)), nil)
			}
		}
	}
	for _, x := range operands {
		idx++
		if !ctx.Mine(idx) || ctx.Expired() {
			continue
		}
		h.check(ctx, vlang.Neg(x), nil)
		h.check(ctx, vlang.Not(x), nil)
	}
	ctx.SpaceDone(fmt.Sprintf("%d binary operators x %d x %d operands of every sort (arguments, literals, non-constant bools/floats, a lazy list, maps, a closure), bare and inside a list literal; 2 unary operators; a in {0,3}; optimizer on/off", len(ops), len(operands), len(operands)))
}

// runStaticNames: arguments, lets, funcs and closure parameters that carry the NAME of a static function
// (abs, sqrt, min) or of a map method (get, put, size): the nearest enclosing binding wins, and a closure
// stored in a map under a method's name is what m.name(..) calls.
func (h *harness) runStaticNames(ctx *bex.Ctx) {
	ctx.Space("locals-named-like-static-functions")
	v, I, op := vlang.V, vlang.I, vlang.Op
	inc := vlang.LamN([]string{"x"}, op("+", v("x"), I(1)))
	var progs []*vlang.Node
	for _, n := range []string{"abs", "sqrt", "min", "string"} {
		call := func(arg *vlang.Node) *vlang.Node { return vlang.CallN(v(n), arg) }
		progs = append(progs,
			vlang.CallN(vlang.LamN([]string{n}, call(I(16))), inc),
			vlang.CallN(vlang.LamN([]string{n}, call(op("-", I(0), v("a")))), vlang.LamN([]string{"x"}, op("*", v("x"), I(100)))),
			vlang.LetN(n, vlang.LamN([]string{"x"}, op("+", v("x"), v("a"))), call(I(16))),
			vlang.LetN(n, inc, call(I(16))),
			vlang.FuncN(n, []string{"x"}, op("*", v("x"), I(2)), call(I(3))),
			vlang.FuncN(n, []string{"x"}, op("*", v("x"), v("b")), call(v("a"))),
			vlang.CallN(vlang.CallN(vlang.LamN([]string{n}, vlang.LamN([]string{"y"}, call(v("y")))), inc), I(16)),
			vlang.CallN(vlang.LamN([]string{n}, vlang.MethodN(vlang.MethodN(v("l"), "map", vlang.LamN([]string{"e"}, call(v("e")))), "sum")), inc),
			vlang.LetN(n, I(5), op("+", v(n), v("a"))),
			vlang.CallN(vlang.LamN([]string{n}, op("+", v(n), I(1))), v("a")),
		)
	}
	for _, n := range []string{"get", "put", "size", "map"} {
		two := vlang.LamN([]string{"p", "q"}, op("+", op("*", v("p"), I(10)), v("q")))
		progs = append(progs,
			vlang.MethodN(vlang.MapN([]string{n, "k"}, two, I(7)), n, I(1), I(2)),
			vlang.MethodN(vlang.MapN([]string{n, "k"}, two, v("a")), n, I(1), v("a")),
			vlang.LetN("o", vlang.MapN([]string{n, "k"}, two, v("a")), vlang.MethodN(v("o"), n, v("a"), I(2))),
			vlang.MethodN(vlang.MapN([]string{"k", n}, I(7), two), n, I(3), I(4)),
		)
	}
	// one call site m.name(..) that sees maps with and without a closure stored under name, in both orders
	for _, n := range []string{"get", "size", "hook"} {
		one := vlang.LamN([]string{"p"}, op("+", op("*", v("p"), I(10)), v("a")))
		plain := vlang.MapN([]string{"k"}, I(1))
		withC := vlang.MapN([]string{"k", n}, I(2), one)
		call := vlang.LamN([]string{"o"}, vlang.TryN(vlang.MethodN(v("o"), n, I(3)), I(-1)))
		for _, order := range [][]*vlang.Node{{plain, withC}, {withC, plain}, {plain, withC, plain, withC}, {withC, plain, withC}} {
			progs = append(progs,
				vlang.MethodN(vlang.ListN(order...), "map", call),
				vlang.LetN("f", call, vlang.ListN(vlang.CallN(v("f"), order[0]), vlang.CallN(v("f"), order[1]), vlang.CallN(v("f"), order[len(order)-1]))),
				vlang.FuncN("f", []string{"o"}, vlang.TryN(vlang.MethodN(v("o"), n, v("a")), I(-1)), vlang.ListN(vlang.CallN(v("f"), order[0]), vlang.CallN(v("f"), order[1]))),
			)
		}
	}
	// an index access inside a closure that runs while an enclosing lazy list is being indexed
	for _, inner := range []*vlang.Node{
		vlang.MethodN(vlang.ListN(I(10), I(20), I(30), I(40)), "combine", vlang.LamN([]string{"p", "q"}, op("+", v("p"), v("q")))),
		vlang.MethodN(vlang.ListN(I(10), I(20), I(30)), "number", vlang.LamN([]string{"n", "x"}, op("+", v("x"), v("n")))),
		vlang.MethodN(vlang.ListN(I(10), I(20), I(30)), "map", vlang.LamN([]string{"e"}, op("+", v("e"), I(1)))),
	} {
		cAt := func(i *vlang.Node) *vlang.Node { return vlang.IndexN(v("c"), i) }
		num := vlang.MethodN(vlang.StaticN("numbers", I(3)), "number", vlang.LamN([]string{"n", "x"}, op("+", op("+", cAt(v("n")), v("x")), v("a"))))
		progs = append(progs,
			vlang.LetN("c", inner, vlang.IndexN(num, I(1))),
			vlang.LetN("c", inner, vlang.MethodN(num, "sum")),
			vlang.LetN("c", inner, vlang.IndexN(vlang.MethodN(vlang.ListN(I(0), I(1), I(2), I(0)), "combine", vlang.LamN([]string{"p", "q"}, op("+", op("+", cAt(v("p")), cAt(v("q"))), v("a")))), I(2))),
			vlang.LetN("c", inner, vlang.IndexN(vlang.MethodN(vlang.StaticN("numbers", I(3)), "map", vlang.LamN([]string{"x"}, op("+", cAt(v("x")), v("a")))), I(2))))
	}
	// a recursive func declared inside a closure that captures several outer values, the func using some of
	// them: the closure's other captured values must read the same before and after the func was created
	for _, uw := range [][2]string{{"a", "b"}, {"b", "a"}} {
		u, w := v(uw[0]), v(uw[1])
		rec := func(body *vlang.Node) *vlang.Node {
			return vlang.FuncN("r", []string{"n"}, vlang.IfN(op("<", v("n"), I(1)), u, vlang.CallN(v("r"), op("-", v("n"), I(1)))), body)
		}
		rx := vlang.CallN(v("r"), v("x"))
		for _, body := range []*vlang.Node{
			op("+", op("*", rx, I(100)), w),
			op("+", op("*", w, I(100)), rx),
			vlang.ListN(rx, w, u),
			vlang.CallN(v("g"), rx),
			op("+", rx, vlang.MethodN(v("l"), "size")),
			vlang.ListN(rx, w, vlang.MethodN(v("l"), "size"), v("x")),
		} {
			outer := vlang.LamN([]string{"x"}, rec(body))
			progs = append(progs,
				vlang.LetN("g", vlang.LamN([]string{"k"}, op("*", v("k"), w)), vlang.LetN("outer", outer, vlang.CallN(v("outer"), I(3)))),
				vlang.LetN("g", vlang.LamN([]string{"k"}, op("*", v("k"), w)), vlang.MethodN(vlang.ListN(I(0), I(2)), "map", outer)),
				vlang.LetN("g", vlang.LamN([]string{"k"}, op("+", v("k"), u)), vlang.CallN(vlang.CallN(vlang.LamN([]string{"y"}, outer), I(1)), I(2))))
		}
	}
	if ctx.Shard == 0 {
		for _, p := range progs {
			h.check(ctx, p, nil)
		}
	}
	ctx.SpaceDone("index accesses inside closures of number/combine/map while the enclosing lazy list is indexed x 3 kinds of lazy constant list; a recursive func declared inside a closure that captures 2-4 outer values x 2 capture orders x 6 bodies that read the other captured values afterwards x 3 forms; one call site m.name(..) reached with maps that do and do not store a closure under name, in 4 orders x 3 names x 3 forms; 4 static-function names (abs, sqrt, min, string) as closure parameter, let (constant and non-constant value), func, captured, inside a list method's callback, as a plain value x 10 templates; 4 map-method names (get, put, size, map) as keys of closure-valued map fields x 4 templates (constant and non-constant maps)")
}

// switchMatrix: switch with two and three cases over constant and non-constant subjects and labels of every
// sort: the first label that equals the subject wins, left to right, whatever is constant.
func switchMatrix() []*vlang.Node {
	v, I, op := vlang.V, vlang.I, vlang.Op
	subjects := []*vlang.Node{I(2), vlang.Bo(true), vlang.S("a"), op("+", v("a"), I(2)), v("k")}
	labels := []*vlang.Node{I(2), I(1), op("+", I(1), I(1)), op("+", v("a"), I(2)), op("<", v("a"), I(1)), vlang.Bo(true), vlang.S("a"), v("k")}
	var out []*vlang.Node
	wrap := func(n *vlang.Node) *vlang.Node { return vlang.LetN("k", I(2), n) }
	for _, sub := range subjects {
		for _, l1 := range labels {
			for _, l2 := range labels {
				out = append(out, wrap(vlang.SwitchN(sub, I(99), l1, I(11), l2, I(12))))
				for _, l3 := range labels {
					out = append(out, wrap(vlang.SwitchN(sub, I(99), l1, I(11), l2, I(12), l3, I(13))))
				}
			}
		}
	}
	return out
}

func (h *harness) runSwitch(ctx *bex.Ctx) {
	ctx.Space("switch-matrix")
	for i, p := range switchMatrix() {
		if ctx.Mine(int64(i)) && !ctx.Expired() {
			h.check(ctx, p, nil)
		}
	}
	ctx.SpaceDone("switch with 2 and 3 cases: 5 subjects (constants of 3 sorts, a non-constant sum, a let-bound constant) x 8 labels per case (constants, constant expressions, non-constant expressions, bools, strings, the let-bound constant); a in {0,3}; optimizer on/off")
}

func run(ctx *bex.Ctx) {
	h := newHarness()
	maxA, maxB := 7, 4
	if !ctx.Quick() {
		maxA, maxB = 8, 5
	}
	h.runDeferred(ctx)
	h.runOperators(ctx)
	h.runStaticNames(ctx)
	h.runSwitch(ctx)
	// tier B first (cheap, deep), then tier A
	ctx.Space("tierB-binder-skeletons")
	var idx int64
	for k := 1; k <= maxB && !ctx.Expired(); k++ {
		sk := &vlang.Skel{Obs2: "obs2"}
		sk.Each(k, vlang.NewScope(argSorts, argNames), func(p *vlang.Node) bool {
			idx++
			if !ctx.Mine(idx) {
				return true
			}
			if ctx.Expired() {
				return false
			}
			h.check(ctx, p, nil)
			return true
		})
	}
	ctx.SpaceDone(fmt.Sprintf("every nesting of <= %d binding/call constructs (24 per level, every argument position) with the maximal observer in the innermost hole; a in {0,3}; optimizer on/off", maxB))

	ctx.Space("tierA-typed-grammar")
	en := vlang.DefaultEnum()
	idx = 0
	for n := 1; n <= maxA && !ctx.Expired(); n++ {
		en.Gen(vlang.SI, n, vlang.NewScope(argSorts, argNames), true, func(p *vlang.Node) bool {
			idx++
			if !ctx.Mine(idx) {
				return true
			}
			if ctx.Expired() {
				return false
			}
			h.check(ctx, p, nil)
			return true
		})
	}
	ctx.SpaceDone(fmt.Sprintf("every int-sorted program of the typed grammar with <= %d nodes; a in {0,3}, b=2, l=[1,2], m={k:5}; optimizer on/off", maxA))
}

func replay(repro map[string]any) (string, bool) {
	if d, _ := repro["deferred"].(bool); d {
		src, _ := repro["src"].(string)
		eager, _ := repro["eager"].(string)
		a, _ := repro["a"].(float64)
		opt, _ := repro["optimizer"].(bool)
		g := vrun.NewGen(opt, addHost)
		args := []value.Value{value.Int(int64(a)), value.NewList(value.Int(1), value.Int(1), value.Int(2), value.Int(2), value.Int(3), value.Int(3))}
		ol := vrun.Run(g, src, []string{"a", "l"}, args)
		oe := vrun.Run(g, eager, []string{"a", "l"}, args)
		return fmt.Sprintf("lazy %q -> %s | materialised twin %q -> %s", src, ol.String(), eager, oe.String()), ol.String() != oe.String()
	}
	src, _ := repro["src"].(string)
	a, _ := repro["a"].(float64)
	opt, _ := repro["optimizer"].(bool)
	g := vrun.NewGen(opt, addHost)
	args := []value.Value{value.Int(int64(a)), value.Int(2), value.NewList(value.Int(1), value.Int(2)), vrun.ToImpl(&refsem.MapV{Keys: []string{"k"}, Vals: []refsem.Val{refsem.IntV(5)}})}
	o := vrun.Run(g, src, argNames, args)
	want, _ := repro["want"].(string)
	anyValue, _ := repro["want_any_value"].(bool)
	fails := true
	switch {
	case want == "":
		// recorded by an older version of the check: no reference outcome in the file
	case want == "error":
		fails = !o.Err
	case anyValue:
		fails = o.Err
	default:
		fails = o.Err || o.Canon != want
	}
	return fmt.Sprintf("value.New() optimizer=%v, Generate(%q, a,b,l,m) evaluated with a=%d,b=2,l=[1,2],m={k:5}: %s; reference semantics: %s", opt, src, int64(a), o.String(), want), fails
}

func main() {
	bex.Main(&bex.Check{
		ID:    "C01",
		Level: "exploration",
		Rule:  "programs are enumerated exhaustively from the checks' own typed grammar (tier A, by node count) and as binder skeletons (tier B, by nesting depth), rendered to text, generated with optimizer on and off and evaluated on each argument tuple; the outcome (forced value by kind and content, or error) must equal the reference interpreter's. distinct_nontrivial = distinct source texts whose reference outcome on some tuple is a value other than 0",
		Assumptions: []string{"reference interpreter internal/refsem implements the lexically scoped, call-by-value, left-to-right semantics of the property; only ok-vs-error is compared for faults",
			"programs never redeclare a name inside one function body, use no random, no ^ (exclusions of the property)"},
		QuickBudget: 60e9, ThoroughBudget: 25 * 60e9,
		Run:              run,
		Replay:           replay,
		CrashIsViolation: true, // a worker process that dies while it executes a case on the library is a verdict on that case
	})
}
