package main

import (
	"fmt"

	"verif/internal/gx"
)

func anyStrings(v any) []string {
	var out []string
	if l, ok := v.([]any); ok {
		for _, x := range l {
			if s, ok := x.(string); ok {
				out = append(out, s)
			}
		}
	}
	return out
}

// replay re-executes one recorded case: the table is rebuilt from the repro, the source text is
// lexed again, the reference and the real parser are compared.
func replay(repro map[string]any) (string, bool) {
	alias, _ := repro["alias"].(string)
	src, _ := repro["src"].(string)
	t := newTable(anyStrings(repro["bin"]), anyStrings(repro["un"]), alias)
	if o, ok := repro["builder_order"].(float64); ok {
		t.Order = int(o)
	}
	ts, ok := t.lex(src)
	if !ok {
		return "cannot lex " + src, true
	}
	ref, st, why, _ := refParse(t, ts)
	ast, err, pan := safeParse(buildParser(t), src)
	refS := map[refStatus]string{refOK: "tree ", refReject: "reject", refUnspecified: "unspecified: " + why}[st]
	if st == refOK {
		refS += ref.String()
	}
	switch {
	case pan != "":
		return fmt.Sprintf("reference: %s; Parse panicked: %s", refS, pan), true
	case err != nil:
		return fmt.Sprintf("reference: %s; Parse error: %v", refS, err), st == refOK
	}
	got := conv(ast)
	return fmt.Sprintf("reference: %s; Parse AST: %s", refS, got), st == refReject || (st == refOK && !gx.Equal(got, ref))
}
