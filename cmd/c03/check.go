package main

// One evaluation: token list -> reference verdict, text -> real Parse, comparison, classification.

import (
	"hash/fnv"
	"strings"

	"github.com/hneemann/parser2"
	"verif/internal/bex"
	"verif/internal/gx"
)

const findingF03 = "F03-unary-last-binary"
const f03PerTable = 20

// f03Op is the prefix operator that is also the LAST binary operator of the table ("" if none).
func (t *table) f03Op() string {
	if len(t.Bin) == 0 {
		return ""
	}
	last := t.Bin[len(t.Bin)-1]
	if t.isUn[last] {
		return last
	}
	return ""
}

func endsOperand(x tok) bool {
	return x.k == kIdent || x.k == kNum || (x.k == kPunct && (x.s == ")" || x.s == "]"))
}

// f03Matches is the classifier of finding F03: a prefix operator that is also the last binary
// operator of the table occurs in the input at a position where an operand starts.
func f03Matches(t *table, ts []tok) bool {
	op := t.f03Op()
	if op == "" {
		return false
	}
	for i, x := range ts {
		if x.k == kOp && x.s == op && (i == 0 || !endsOperand(ts[i-1])) {
			return true
		}
	}
	return false
}

func (t *table) repro(src string, ts []tok) map[string]any {
	return map[string]any{"bin": t.Bin, "un": t.Un, "alias": t.Alias, "builder_order": t.Order, "src": src, "tokens": strings.Join(tokStrings(ts), " ")}
}

func (t *table) id() string {
	return strings.Join(t.Bin, " ") + "|" + strings.Join(t.Un, " ") + "|" + t.Alias
}

func countOps(n *gx.Node) int {
	if n == nil {
		return 0
	}
	c := 0
	switch n.K {
	case gx.Leaf:
		return 0
	case gx.Paren:
	default:
		c = 1
	}
	c += countOps(n.A) + countOps(n.B) + countOps(n.C)
	for _, a := range n.Args {
		c += countOps(a)
	}
	return c
}

type checker struct {
	ctx *bex.Ctx
	t   *table
	p   *parser2.Parser[int]
	st  layoutStats

	nSample int
	f03Hits int // panics of this table classified as F03 so far
}

type result uint8

const (
	resAgree result = iota
	resViolation
	resF03
	resUnspecified
)

// eval checks one token list. want != nil: the list was rendered from this tree, which the
// reference must reproduce (self-validation of reference parser and renderer).
func (c *checker) eval(ts []tok, want *gx.Node, blank bool, kind string, primary bool) result {
	ctx, t := c.ctx, c.t
	ref, st, why, _ := refParse(t, ts)
	src := t.layout(ts, blank, &c.st)
	if want != nil && st != refUnspecified {
		ctx.Add("reference_validated_on_generated_trees", 1)
		if st != refOK || !gx.Equal(ref, want) {
			got := "reject"
			if st == refOK {
				got = ref.String()
			}
			ctx.Violate("oracle self-check failed: reference parser does not reproduce the generated tree from its rendering (defect of the check, not of the library)",
				t.repro(src, ts), want.String(), got, "")
			return resViolation
		}
	}
	if c.f03Hits >= f03PerTable && f03Matches(t, ts) {
		// Every input of this class panics the same way, and every panicking Parse strands its
		// tokenizer goroutine for good: after enough witnesses the class is counted, not executed.
		ctx.Add("inputs_in_class_F03_not_executed_after_20_hits_per_table", 1)
		return resF03
	}
	ctx.Begin(func() map[string]any { return t.repro(src, ts) })
	ctx.Eval()
	ast, err, pan := safeParse(c.p, src)
	if pan != "" {
		finding := ""
		if strings.Contains(pan, "index out of range") && f03Matches(t, ts) {
			finding = findingF03
		}
		ctx.Outcome(kind + "/panic")
		exp := "an AST or an error"
		if st == refOK {
			exp = ref.String()
		}
		ctx.Violate("Parse panicked", t.repro(src, ts), exp, "panic: "+pan, finding)
		if finding != "" {
			c.f03Hits++
			return resF03
		}
		return resViolation
	}
	switch st {
	case refUnspecified:
		ctx.Unspecified(why)
		ctx.Outcome(kind + "/unspecified")
		return resUnspecified
	case refOK:
		if err != nil {
			ctx.Outcome(kind + "/valid-rejected")
			ctx.Violate("valid expression rejected", t.repro(src, ts), ref.String(), "error: "+err.Error(), "")
			return resViolation
		}
		got := conv(ast)
		if !gx.Equal(got, ref) {
			ctx.Outcome(kind + "/wrong-tree")
			ctx.Violate("wrong grouping", t.repro(src, ts), ref.String(), got.String(), "")
			return resViolation
		}
		ctx.Outcome(kind + "/tree-agrees")
		if primary && countOps(ref) >= 2 {
			h := fnv.New64a()
			h.Write([]byte(t.id()))
			h.Write([]byte{0})
			h.Write([]byte(src))
			ctx.NontrivialH(h.Sum64())
		}
	case refReject:
		if err == nil {
			ctx.Outcome(kind + "/malformed-accepted")
			ctx.Violate("malformed input accepted (silently truncated or regrouped)", t.repro(src, ts), "an error", "AST "+conv(ast).String(), "")
			return resViolation
		}
		ctx.Outcome(kind + "/both-reject")
		if kind == "malformed" {
			h := fnv.New64a()
			h.Write([]byte(t.id()))
			h.Write([]byte{0})
			h.Write([]byte(src))
			ctx.NontrivialH(h.Sum64())
		}
	}
	return resAgree
}
