package main

// The implementation side: build a parser2.Parser[int] for a table, run Parse with panic capture,
// convert the returned AST into a gx.Node.

import (
	"fmt"
	"strconv"

	"github.com/hneemann/parser2"
	"verif/internal/gx"
)

var idents = func() parser2.Identifiers[int] {
	var ids parser2.Identifiers[int]
	ids = ids.Add("a").Add("b").Add("m")
	// quoted identifiers spelled like operators ('+') are operands: known names, so that only the grammar decides
	for _, s := range quotedNames {
		ids = ids.Add(s)
	}
	return ids
}()

// quotedNames: the operator spellings that occur as quoted identifiers in the malformed space.
var quotedNames = []string{"+", "-", "*", "<", "&", "~"}

func buildParser(t *table) *parser2.Parser[int] {
	p := parser2.NewParser[int]()
	bin, un := append([]string(nil), t.Bin...), append([]string(nil), t.Un...)
	switch t.Order {
	case 1:
		p.Unary(un...).Op(bin...)
	case 2:
		h := (len(bin) + 1) / 2
		p.Op(bin[:h:h]...).Unary(un...).Op(bin[h:]...)
	default:
		p.Op(bin...).Unary(un...)
	}
	p.SetKeyWords(append([]string(nil), keywords...)...).
		SetNumberParser(parser2.NumberParserFunc[int](func(n string) (int, error) { return strconv.Atoi(n) }))
	if t.Alias != "" {
		p.TextOperator(map[string]string{aliasWord: t.Alias})
	}
	return p
}

// safeParse runs the real Parse; a Go panic on the calling goroutine is returned as text.
func safeParse(p *parser2.Parser[int], src string) (ast parser2.AST, err error, panicked string) {
	defer func() {
		if r := recover(); r != nil {
			ast, err, panicked = nil, nil, fmt.Sprint(r)
		}
	}()
	ast, err = p.Parse(src, idents)
	return
}

// quoteName: a name spelled like an operator was written as a quoted identifier.
func quoteName(name string) string {
	for _, q := range quotedNames {
		if name == q {
			return "'" + q + "'"
		}
	}
	return name
}

func convList(l []parser2.AST) []*gx.Node {
	out := make([]*gx.Node, len(l))
	for i, a := range l {
		out[i] = conv(a)
	}
	return out
}

// conv maps the parser's AST to the generic tree (line numbers dropped).
func conv(a parser2.AST) *gx.Node {
	switch n := a.(type) {
	case *parser2.Operate:
		return &gx.Node{K: gx.Bin, S: n.Operator, A: conv(n.A), B: conv(n.B)}
	case *parser2.Unary:
		return &gx.Node{K: gx.Un, S: n.Operator, A: conv(n.Value)}
	case *parser2.FunctionCall:
		return &gx.Node{K: gx.Call, A: conv(n.Func), Args: convList(n.Args)}
	case *parser2.ListAccess:
		return &gx.Node{K: gx.Index, A: conv(n.List), B: conv(n.Index)}
	case *parser2.MapAccess:
		return &gx.Node{K: gx.Member, A: conv(n.MapValue), S: quoteName(n.Key)}
	case *parser2.MethodCall:
		return &gx.Node{K: gx.Method, A: conv(n.Value), S: quoteName(n.Name), Args: convList(n.Args)}
	case *parser2.If:
		return &gx.Node{K: gx.If, A: conv(n.Cond), B: conv(n.Then), C: conv(n.Else)}
	case *parser2.TryCatch:
		return &gx.Node{K: gx.Try, A: conv(n.Try), B: conv(n.Catch)}
	case *parser2.Switch[int]:
		var cs []*gx.Node
		for _, c := range n.Cases {
			cs = append(cs, conv(c.CaseConst), conv(c.Value))
		}
		return &gx.Node{K: gx.Switch, A: conv(n.SwitchValue), B: conv(n.Default), Args: cs}
	case *parser2.Const[int]:
		return gx.L(strconv.Itoa(n.Value))
	case *parser2.Ident:
		return gx.L(quoteName(n.Name))
	case nil:
		return gx.L("<nil>")
	}
	return gx.L(fmt.Sprintf("<%T>", a))
}
