// C03: operator priority, associativity and grouping for ANY operator table — bounded-exhaustive
// enumeration of operator tables x expression trees x parenthesisations, and of single-token
// mutations of valid programs, against a reference parser written from the property statement.
package main

import (
	"fmt"
	"runtime"

	"verif/internal/bex"
	"verif/internal/gx"
)

var binPool = []string{"+", "-", "*", "<", "<=", "<<", "=", "==", "->", "&", "&&", "~"}
var unPool = []string{"-", "!", "~"}

// extra hand-written tables with 3-character spellings whose 2-character prefix is no operator
// ("dead ends" of the greedy trie walk): outside the 2-character pool, kept to exercise the
// blank-insertion rule.
var deadEndTables = [][2][]string{
	{{"<", "<->"}, {"-"}},
	{{"<->", "<"}, {"-"}},
	{{"&", "*", "&~&"}, {"~"}},
	{{"-", "-!>"}, {"!", "-"}},
}

// hand-written tables in which a prefix operator's spelling is a proper prefix of a binary one
var prefixOfBinaryTables = [][2][]string{
	{{"<", "<<"}, {"<"}},
	{{"<<", "<"}, {"<"}},
	{{"<<", "+"}, {"<"}},
	{{"&&", "&"}, {"&", "!"}},
	{{"=", "=="}, {"="}},
	{{"->", "+"}, {"-"}},
}

// operators spelled with non-ASCII runes (2 and 3 bytes), also mixed with ASCII ones and as prefix operators
var unicodeTables = [][2][]string{
	{{"\u2228", "\u2227", "\u2264", "+"}, {"\u00ac", "-"}},
	{{"\u00b7", "+", "\u2260"}, {"-"}},
	{{"<", "\u2248", "\u00b1"}, {"\u00b1", "\u00ac"}},
}

// the property quantifies over up to 16 binary operators: the whole pool plus four more spellings,
// in three orders, with every subset of prefix operators
var widePool = append(append([]string(nil), binPool...), "/", "%", "^", "|")

func wideOrders() [][]string {
	n := len(widePool)
	rev := make([]string, n)
	rot := make([]string, n)
	for i, s := range widePool {
		rev[n-1-i] = s
		rot[(i+7)%n] = s
	}
	return [][]string{widePool, rev, rot}
}

// eachTable enumerates every table: ordered selections of n binary spellings x prefix subsets x
// alias off/on, simplest first, after the few hand-written families. fn returns false to stop.
func eachTable(maxN int, fn func(idx int64, t *table) bool) {
	var idx int64
	sel := []string{}
	used := make([]bool, len(binPool))
	var rec func(n int) bool
	emit := func() bool {
		for mask := 0; mask < 1<<len(unPool); mask++ {
			var un []string
			for i, u := range unPool {
				if mask&(1<<i) != 0 {
					un = append(un, u)
				}
			}
			for _, alias := range []bool{false, true} {
				a := ""
				if alias {
					a = sel[0]
					for _, s := range sel {
						if s == "+" {
							a = "+"
						}
					}
				}
				if !fn(idx, newTable(sel, un, a)) {
					return false
				}
				idx++
			}
		}
		return true
	}
	rec = func(n int) bool {
		if n == 0 {
			return emit()
		}
		for i, s := range binPool {
			if used[i] {
				continue
			}
			used[i] = true
			sel = append(sel, s)
			ok := rec(n - 1)
			sel = sel[:len(sel)-1]
			used[i] = false
			if !ok {
				return false
			}
		}
		return true
	}
	for _, d := range deadEndTables {
		t := newTable(d[0], d[1], "")
		t.class = "dead-end"
		if !fn(idx, t) {
			return
		}
		idx++
	}
	for _, d := range prefixOfBinaryTables {
		t := newTable(d[0], d[1], "")
		t.class = "prefix-of-binary"
		if !fn(idx, t) {
			return
		}
		idx++
	}
	for _, d := range unicodeTables {
		t := newTable(d[0], d[1], "")
		t.class = "unicode"
		if !fn(idx, t) {
			return
		}
		idx++
	}
	for _, o := range wideOrders() {
		for mask := 0; mask < 1<<len(unPool); mask++ {
			var un []string
			for i, u := range unPool {
				if mask&(1<<i) != 0 {
					un = append(un, u)
				}
			}
			t := newTable(o, un, "")
			t.class = "wide"
			if !fn(idx, t) {
				return
			}
			idx++
		}
	}
	for n := 1; n <= maxN; n++ {
		if !rec(n) {
			return
		}
	}
}

// mix spreads consecutive indices over the shards (alias on/off alternate, so idx%N would put all
// alias tables on the odd shards).
func mix(i int64) int64 {
	x := uint64(i) + 0x9e3779b97f4a7c15
	x = (x ^ (x >> 30)) * 0xbf58476d1ce4e5b9
	x = (x ^ (x >> 27)) * 0x94d049bb133111eb
	x ^= x >> 31
	return int64(x >> 1)
}

var leafNames = []string{"a", "b", "1"}

// relabel clones the tree giving the leaves the names a b 1 a b 1 ... by position, so that swapped
// or dropped operands are visible.
func relabel(n *gx.Node, next *int) *gx.Node {
	if n == nil {
		return nil
	}
	if n.K == gx.Leaf {
		l := gx.L(leafNames[*next%len(leafNames)])
		*next++
		return l
	}
	c := &gx.Node{K: n.K, S: n.S}
	c.A = relabel(n.A, next)
	c.B = relabel(n.B, next)
	c.C = relabel(n.C, next)
	for _, a := range n.Args {
		c.Args = append(c.Args, relabel(a, next))
	}
	return c
}

// placeholders clones the tree with every operator spelling replaced by its placeholder.
func (t *table) placeholders(n *gx.Node) *gx.Node {
	if n == nil {
		return nil
	}
	c := &gx.Node{K: n.K, S: n.S, A: t.placeholders(n.A), B: t.placeholders(n.B), C: t.placeholders(n.C)}
	if n.K == gx.Bin || n.K == gx.Un {
		c.S = t.ph[n.S]
	}
	for _, a := range n.Args {
		c.Args = append(c.Args, t.placeholders(a))
	}
	return c
}

func usesOp(n *gx.Node, op string) bool {
	if n == nil {
		return false
	}
	if (n.K == gx.Bin || n.K == gx.Un) && n.S == op {
		return true
	}
	if usesOp(n.A, op) || usesOp(n.B, op) || usesOp(n.C, op) {
		return true
	}
	for _, a := range n.Args {
		if usesOp(a, op) {
			return true
		}
	}
	return false
}

// renderings returns the token lists of: minimal parentheses, every non-empty subset of redundant
// parenthesis pairs around operator nodes, full parentheses (deduplicated, minimal first).
func (c *checker) renderings(orig *gx.Node, subsets bool) [][]tok {
	tree := c.t.placeholders(orig)
	t := c.t.rt
	var consulted []*gx.Node
	min := t.Render(tree, gx.RenderOpts{Sep: " ", Extra: func(n *gx.Node) bool { consulted = append(consulted, n); return false }})
	texts := []string{min}
	if subsets {
		k := len(consulted)
		if k > 6 {
			k = 6
		}
		for mask := 1; mask < 1<<k; mask++ {
			texts = append(texts, t.Render(tree, gx.RenderOpts{Sep: " ", Extra: func(n *gx.Node) bool {
				for i := 0; i < k; i++ {
					if consulted[i] == n {
						return mask&(1<<i) != 0
					}
				}
				return false
			}}))
		}
	}
	texts = append(texts, t.Render(tree, gx.RenderOpts{Sep: " ", Full: true}))
	var out [][]tok
	seen := map[string]bool{}
	for _, s := range texts {
		if seen[s] {
			continue
		}
		seen[s] = true
		ts, ok := c.t.lex(s)
		if !ok {
			panic("c03: cannot lex own rendering " + s)
		}
		if c.t.Alias != "" {
			for i := range ts {
				if ts[i].k == kOp && ts[i].s == c.t.Alias {
					ts[i].alias = true
				}
			}
		}
		out = append(out, ts)
	}
	return out
}

// wantSample spreads the first sample of each worker over the three spaces (the driver keeps the
// first sample of each of the first workers).
func wantSample(ctx *bex.Ctx, space int) bool {
	return ctx.WantSample() && (ctx.NShards < 3 || ctx.Shard%3 == space)
}

// checkTree evaluates all renderings of one tree: every parenthesisation written tight, the minimal
// one also blank-separated (blank=false skips that: it differs in layout only).
func (c *checker) checkTree(tree *gx.Node, blank bool, kind string, space int) {
	for i, ts := range c.renderings(tree, true) {
		r := c.eval(ts, tree, false, kind, i == 0)
		if r == resF03 {
			// every other rendering holds the same tokens and panics the same way
			c.ctx.Add("renderings_skipped_after_F03", 1)
			return
		}
		if i == 0 && blank && c.t.layout(ts, false, nil) != c.t.layout(ts, true, nil) {
			c.eval(ts, tree, true, kind, false)
		}
		if i == 1 && wantSample(c.ctx, space) && countOps(tree) >= 3 && tree.K == gx.Bin && tree.A.K != gx.Leaf {
			c.nSample++
			if c.nSample%37 == 5 {
				c.ctx.Sample(map[string]any{"space": kind, "table": c.t.id(), "tree": tree.String(), "src": c.t.layout(ts, false, nil)})
			}
		}
	}
}

func (c *checker) flush() {
	c.ctx.Add("operator_pairs_written_adjacent", c.st.tight)
	c.ctx.Add("blanks_forced_by_maximal_munch", c.st.forcedBlank)
	c.ctx.Add("blanks_forced_by_dead_end_prefix", c.st.deadEndBlank)
}

// nodeBound is the tree size explored for a table with n binary operators ("" = skip the table).
type nodeBound struct{ maxN, maxNodes int }

func boundFor(bounds []nodeBound, n int) int {
	m := -1
	for _, b := range bounds {
		if n <= b.maxN && b.maxNodes > m {
			m = b.maxNodes
		}
	}
	return m
}

// prefixAlsoBinary: some prefix operator is also declared as binary operator.
func (t *table) prefixAlsoBinary() bool {
	for _, b := range t.Bin {
		if t.isUn[b] {
			return true
		}
	}
	return false
}

func maxTableSize(bounds []nodeBound) int {
	m := 0
	for _, b := range bounds {
		if b.maxN > m {
			m = b.maxN
		}
	}
	return m
}

func runOps(ctx *bex.Ctx) {
	bounds, extraNodes := []nodeBound{{3, 3}}, 3
	if !ctx.Quick() {
		bounds, extraNodes = []nodeBound{{4, 3}, {3, 4}}, 4
	}
	ctx.Space("tables-x-operator-trees")
	eachTable(maxTableSize(bounds), func(idx int64, t *table) bool {
		if !ctx.Mine(mix(idx)) {
			return true
		}
		if ctx.Expired() {
			return false
		}
		if t.deadEnd {
			ctx.Unspecified("operator table with a dead-end prefix (greedy trie walk and longest match disagree): adjacent operators written with a blank")
		}
		if t.f03Op() != "" {
			ctx.Add("tables_with_prefix_operator_also_last_binary", 1)
		}
		maxNodes := boundFor(bounds, len(t.Bin))
		switch t.class {
		case "dead-end", "prefix-of-binary", "unicode":
			maxNodes = extraNodes
		case "wide":
			maxNodes = extraNodes - 1
		}
		ctx.Add("tables_"+t.class, 1)
		// the same table handed over by other sequences of builder calls: only where a prefix operator is
		// also a binary one (the parser relates the two declarations), alias-free tables
		orders := []int{0}
		if t.class == "pool" && t.Alias == "" && t.prefixAlsoBinary() {
			orders = []int{0, 1}
			if len(t.Bin) >= 2 {
				orders = []int{0, 1, 2}
			}
		}
		for _, o := range orders {
			tt := t
			if o != 0 {
				cp := *t
				cp.Order = o
				tt = &cp
				ctx.Add("tables_other_builder_order", 1)
			}
			c := &checker{ctx: ctx, t: tt, p: buildParser(tt)}
			en := &gx.Enumerator{Leaves: []*gx.Node{gx.L("?")}, Bin: t.Bin, Un: t.Un}
			for lv := 0; lv <= maxNodes && !ctx.Expired(); lv++ {
				en.Each(lv, func(shape *gx.Node) bool {
					if ctx.Expired() {
						return false
					}
					if t.Alias != "" && !usesOp(shape, t.Alias) {
						return true // identical text to the alias-free table
					}
					k := 0
					c.checkTree(relabel(shape, &k), lv < maxNodes, "ops", 0)
					return true
				})
			}
			c.flush()
		}
		return true
	})
	ctx.SpaceDone(fmt.Sprintf("every ordered selection of n binary spellings from %v x every subset of prefix operators %v (also binary wherever the spelling is in the table, at every position incl. the last; such tables also with the builder calls in the orders Unary.Op and Op.Unary.Op) x text alias off/on (alias for '+', else for the first operator; on: only trees using the aliased operator, written 'plus'), every tree with <= k operator nodes (leaves a b 1 by position) for {n<=, k} in %v; + %d dead-end tables, %d tables whose prefix operator is a proper prefix of a binary spelling and 3 tables with operators spelled in non-ASCII runes (<= %d nodes) + 3 orders of the 16-operator table %v x every prefix subset (<= %d nodes); renderings: minimal tight, minimal blank-separated (trees below the top level), every subset of redundant parenthesis pairs, full",
		binPool, unPool, bounds, len(deadEndTables), len(prefixOfBinaryTables), extraNodes, widePool, extraNodes-1))
}

func main() {
	bex.Main(&bex.Check{
		ID:    "C03",
		Level: "exploration",
		Rule:  "every (operator table, expression tree, parenthesisation) up to the bounds is rendered to a token list, laid out as text (tokens adjacent only where greedy trie walk and longest-match lexing both split the text back into the same tokens) and parsed by the real parser2.Parser[int].Parse; the AST must be structurally equal to the tree returned by a reference parser written from the property statement (which must itself reproduce every generated tree from its minimal rendering), or both must reject; every single-token deletion/insertion of every valid token string up to the length bound must be rejected unless the reference accepts the mutant. distinct_nontrivial = distinct (table, minimal tight source text) pairs whose reference tree has >= 2 operator/postfix/keyword nodes (a grouping decision exists; the other parenthesisations and layouts of the same tree are evaluated but not counted) plus distinct (table, mutant text) pairs the reference rejects",
		Assumptions: []string{
			"caller-error configurations are excluded: duplicate spellings in Op(...), empty spellings",
			"identifiers a b m are known to the Identifiers function; numbers are parsed by strconv.Atoi; optimizer nil; comfort mode and comments off",
			"keyword forms extend as far to the right as possible (gx renderer and reference agree on this; a keyword form written without parentheses directly after an operator is counted as unspecified)",
		},
		QuickBudget: 90e9, ThoroughBudget: 30 * 60e9,
		CrashIsViolation: true,
		ClassifyCrash:    func(repro map[string]any) string { return "" },
		Run: func(ctx *bex.Ctx) {
			runtime.GOMAXPROCS(1)
			// smallest space first: it always completes, and its cases are the shortest witnesses
			runMalformed(ctx)
			runPostfix(ctx)
			runOps(ctx)
		},
		Replay: replay,
	})
}
