package main

// Space 2: postfix forms and keyword frames around / inside operator trees.

import (
	"fmt"

	"verif/internal/bex"
	"verif/internal/gx"
)

func la() *gx.Node { return gx.L("a") }
func lb() *gx.Node { return gx.L("b") }
func l1() *gx.Node { return gx.L("1") }

// postfixForm applies form k to x: x(b) x[b] x.b x.m(b)
func postfixForm(k int, x *gx.Node) *gx.Node {
	switch k {
	case 0:
		if x.K == gx.Member {
			// work-around for internal/gx: it renders Call(Member(a,b),[b]) as "a.b(b)", which IS the
			// method call a.b(b); the callee needs explicit parentheses: (a.b)(b)
			x = &gx.Node{K: gx.Paren, A: x}
		}
		return &gx.Node{K: gx.Call, A: x, Args: []*gx.Node{lb()}}
	case 1:
		return &gx.Node{K: gx.Index, A: x, B: lb()}
	case 2:
		return &gx.Node{K: gx.Member, A: x, S: "b"}
	}
	return &gx.Node{K: gx.Method, A: x, S: "m", Args: []*gx.Node{lb()}}
}

func smallFrames() []*gx.Node {
	return []*gx.Node{
		{K: gx.If, A: la(), B: lb(), C: l1()},
		{K: gx.Try, A: la(), B: lb()},
		{K: gx.Switch, A: la(), Args: []*gx.Node{lb(), l1()}, B: la()},
	}
}

// framesAround puts x into every slot of every keyword form.
func framesAround(x *gx.Node) []*gx.Node {
	return []*gx.Node{
		{K: gx.If, A: x, B: la(), C: lb()},
		{K: gx.If, A: la(), B: x, C: lb()},
		{K: gx.If, A: la(), B: lb(), C: x},
		{K: gx.Try, A: x, B: la()},
		{K: gx.Try, A: la(), B: x},
		{K: gx.Switch, A: x, Args: []*gx.Node{la(), lb()}, B: l1()},
		{K: gx.Switch, A: la(), Args: []*gx.Node{x, lb()}, B: l1()},
		{K: gx.Switch, A: la(), Args: []*gx.Node{lb(), x}, B: l1()},
		{K: gx.Switch, A: la(), Args: []*gx.Node{lb(), l1()}, B: x},
		{K: gx.Switch, A: la(), Args: []*gx.Node{lb(), l1(), la(), x}, B: lb()},
	}
}

func argForms(x *gx.Node) []*gx.Node {
	return []*gx.Node{
		{K: gx.Call, A: la(), Args: []*gx.Node{x}},
		{K: gx.Call, A: la(), Args: []*gx.Node{x, lb()}},
		{K: gx.Call, A: la(), Args: []*gx.Node{lb(), x}},
		{K: gx.Index, A: la(), B: x},
		{K: gx.Method, A: la(), S: "m", Args: []*gx.Node{x}},
		{K: gx.Method, A: la(), S: "m", Args: []*gx.Node{lb(), x}},
	}
}

func collect(n *gx.Node, out *[]*gx.Node) {
	if n == nil {
		return
	}
	*out = append(*out, n)
	collect(n.A, out)
	collect(n.B, out)
	collect(n.C, out)
	for _, a := range n.Args {
		collect(a, out)
	}
}

// replaceAt returns a copy of n in which the node target is replaced by repl.
func replaceAt(n, target, repl *gx.Node) *gx.Node {
	if n == nil {
		return nil
	}
	if n == target {
		return repl
	}
	c := &gx.Node{K: n.K, S: n.S, A: replaceAt(n.A, target, repl), B: replaceAt(n.B, target, repl), C: replaceAt(n.C, target, repl)}
	for _, a := range n.Args {
		c.Args = append(c.Args, replaceAt(a, target, repl))
	}
	return c
}

// variants yields the trees derived from the operator tree t.
func variants(t *gx.Node, nodes int, yield func(*gx.Node)) {
	var all []*gx.Node
	collect(t, &all)
	for _, x := range all {
		// (a) postfix form on a leaf, (b) on a parenthesised operator subtree
		for k := 0; k < 4; k++ {
			yield(replaceAt(t, x, postfixForm(k, x)))
		}
		// (f) a keyword form as operand
		if x.K == gx.Leaf {
			for _, f := range smallFrames() {
				yield(replaceAt(t, x, f))
			}
		}
	}
	// (c) the tree as argument / index
	for _, v := range argForms(t) {
		yield(v)
	}
	// (e) the tree in every slot of every keyword form
	for _, v := range framesAround(t) {
		yield(v)
	}
	if nodes <= 1 {
		// (d) chains of two postfix forms on the first leaf
		for _, x := range all {
			if x.K != gx.Leaf {
				continue
			}
			for k := 0; k < 4; k++ {
				for l := 0; l < 4; l++ {
					yield(replaceAt(t, x, postfixForm(k, postfixForm(l, x))))
				}
			}
			break
		}
	}
	if nodes == 0 {
		for _, f := range smallFrames() {
			// (g) keyword form as head of a postfix form, (h) keyword forms nested in keyword forms
			for k := 0; k < 4; k++ {
				yield(postfixForm(k, f))
			}
			for _, v := range framesAround(f) {
				yield(v)
			}
			for _, v := range argForms(f) {
				yield(v)
			}
		}
	}
}

func runPostfix(ctx *bex.Ctx) {
	bounds := []nodeBound{{2, 2}}
	if !ctx.Quick() {
		bounds = []nodeBound{{3, 2}, {2, 3}}
	}
	ctx.Space("postfix-and-keyword-forms")
	maxN := maxTableSize(bounds)
	eachTable(maxN, func(idx int64, t *table) bool {
		if t.Alias != "" || t.class != "pool" {
			return true
		}
		if !ctx.Mine(mix(idx)) {
			return true
		}
		if ctx.Expired() {
			return false
		}
		maxNodes := boundFor(bounds, len(t.Bin))
		c := &checker{ctx: ctx, t: t, p: buildParser(t)}
		en := &gx.Enumerator{Leaves: []*gx.Node{gx.L("?")}, Bin: t.Bin, Un: t.Un}
		for lv := 0; lv <= maxNodes && !ctx.Expired(); lv++ {
			en.Each(lv, func(shape *gx.Node) bool {
				if ctx.Expired() {
					return false
				}
				k := 0
				variants(relabel(shape, &k), lv, func(v *gx.Node) { c.checkTree(v, true, "postfix", 1) })
				return true
			})
		}
		c.flush()
		return true
	})
	ctx.SpaceDone(fmt.Sprintf("tables (n binary operators, alias off) x operator trees (<= k nodes) for {n<=, k} in %v; each tree with x(b) x[b] x.b x.m(b) applied to every leaf and every (parenthesised) operator subtree, the tree as call/method argument and index, the tree in every slot of if/then/else, try/catch, switch/case/default (1 and 2 cases), keyword forms as operands, as postfix heads and nested in keyword forms, chains of two postfix forms; same renderings as space 1", bounds))
}
