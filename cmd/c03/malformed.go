package main

// Space 3: structurally malformed input. For every valid token string up to a length bound (found
// by exhaustive search over the token alphabet with the reference parser as the judge), every
// single-token deletion, every insertion and every substitution of every alphabet token at every position.

import (
	"fmt"
	"hash/fnv"

	"verif/internal/bex"
)

type malTable struct {
	bin, un []string
	alias   string
}

var malTables = []malTable{
	{[]string{"+"}, nil, ""},
	{[]string{"+", "*"}, []string{"-"}, "+"},
	{[]string{"-", "*"}, []string{"-"}, ""},
	{[]string{"*", "-"}, []string{"-", "!"}, ""},
	{[]string{"<", "<=", "="}, []string{"!"}, ""},
	{[]string{"&", "&&", "->"}, []string{"~"}, ""},
	{[]string{"~", "<<"}, []string{"~", "-"}, ""},
}

func (t *table) alphabet() []tok {
	a := []tok{{k: kIdent, s: "a"}, {k: kNum, s: "1"}}
	// an identifier spelled like the table's first binary operator, written as quoted identifier: an operand
	if t.quotedOp {
		a = append(a, tok{k: kIdent, s: "'" + t.Bin[0] + "'"})
	}
	for _, p := range []string{"(", ")", "[", "]", ".", ",", ":"} {
		a = append(a, tok{k: kPunct, s: p})
	}
	for _, b := range t.Bin {
		a = append(a, tok{k: kOp, s: b})
	}
	for _, u := range t.Un {
		if t.Prio(u) < 0 {
			a = append(a, tok{k: kOp, s: u})
		}
	}
	if t.Alias != "" {
		a = append(a, tok{k: kOp, s: t.Alias, alias: true})
	}
	for _, k := range keywords {
		a = append(a, tok{k: kKw, s: k})
	}
	return a
}

func hashToks(ts []tok) uint64 {
	h := fnv.New64a()
	for _, x := range ts {
		h.Write([]byte(x.s))
		if x.alias {
			h.Write([]byte{1})
		}
		h.Write([]byte{0})
	}
	return h.Sum64()
}

// eachValid enumerates every token string of <= maxLen tokens the reference accepts, shortest
// first within each branch (depth-first; a prefix that the reference rejects before its end cannot
// be completed and is pruned).
func eachValid(t *table, alpha []tok, maxLen int, fn func(ts []tok) bool) {
	cur := make([]tok, 0, maxLen)
	var rec func() bool
	rec = func() bool {
		for _, a := range alpha {
			cur = append(cur, a)
			_, st, _, viable := refParse(t, cur)
			ok := true
			if st == refOK {
				ok = fn(cur)
			}
			if ok && len(cur) < maxLen && (st == refOK || (st == refReject && viable)) {
				ok = rec()
			}
			cur = cur[:len(cur)-1]
			if !ok {
				return false
			}
		}
		return true
	}
	rec()
}

func (c *checker) evalMutant(mut, from []tok, how string) {
	m := append([]tok(nil), mut...)
	c.eval(m, nil, false, "malformed", true)
	if wantSample(c.ctx, 2) {
		c.nSample++
		if c.nSample%997 == 1 {
			_, st, why, _ := refParse(c.t, m)
			c.ctx.Sample(map[string]any{"space": "malformed", "table": c.t.id(), "valid": c.t.layout(from, false, nil), "mutation": how, "src": c.t.layout(m, false, nil),
				"reference": map[refStatus]string{refOK: "accepts (the mutant is itself a valid program)", refReject: "rejects", refUnspecified: "unspecified: " + why}[st]})
		}
	}
}

func runMalformed(ctx *bex.Ctx) {
	maxLen := 6
	tables := malTables
	if !ctx.Quick() {
		maxLen = 7
	}
	ctx.Space("malformed-single-token-mutations")
	var nValid, nMut int64
	for ti, mt := range tables {
		if ctx.Expired() {
			break
		}
		t := newTable(mt.bin, mt.un, mt.alias)
		t.quotedOp = ti == 0 || (!ctx.Quick() && ti == 2)
		c := &checker{ctx: ctx, t: t, p: buildParser(t)}
		alpha := t.alphabet()
		seen := map[uint64]struct{}{}
		mine := func(ts []tok) bool {
			h := hashToks(ts)
			if !ctx.Mine(mix(int64(h>>1) + int64(ti))) {
				return false
			}
			if _, dup := seen[h]; dup {
				return false
			}
			seen[h] = struct{}{}
			return true
		}
		mut := make([]tok, 0, maxLen+1)
		eachValid(t, alpha, maxLen, func(ts []tok) bool {
			if ctx.Expired() {
				return false
			}
			nValid++
			if mine(ts) {
				c.eval(append([]tok(nil), ts...), nil, false, "valid", true)
			}
			for i := range ts { // deletions
				mut = append(append(mut[:0], ts[:i]...), ts[i+1:]...)
				nMut++
				if len(mut) > 0 && mine(mut) {
					c.evalMutant(mut, ts, "delete")
				}
			}
			for i := 0; i <= len(ts); i++ { // insertions
				for _, a := range alpha {
					mut = append(append(append(mut[:0], ts[:i]...), a), ts[i:]...)
					nMut++
					if mine(mut) {
						c.evalMutant(mut, ts, "insert")
					}
				}
			}
			for i := range ts { // substitutions (a closing bracket of the wrong kind keeps the counts balanced)
				for _, a := range alpha {
					if a.s == ts[i].s && a.alias == ts[i].alias {
						continue
					}
					mut = append(append(append(mut[:0], ts[:i]...), a), ts[i+1:]...)
					nMut++
					if mine(mut) {
						c.evalMutant(mut, ts, "substitute")
					}
				}
			}
			return true
		})
		c.flush()
	}
	// every shard enumerates all valid strings and mutants and evaluates its share of the distinct ones
	ctx.Max("max_valid_token_strings", nValid)
	ctx.Max("max_mutants_generated_before_deduplication", nMut)
	ctx.SpaceDone(fmt.Sprintf("%d tables %v; token alphabet: a 1 ( ) [ ] . , : every operator of the table (and its text alias) and the 8 keywords; every token string of <= %d tokens accepted by the reference, each with every single-token deletion, every insertion and every substitution of every alphabet token at every position (distinct mutants per table evaluated once)", len(tables), tables, maxLen))
}
