package main

// Tokens, the text layout rule (when may two tokens be written adjacent), a lexer for rendered text
// and the REFERENCE PARSER of property C03. The reference is written from the property statement:
// precedence climbing over a token list, ascending declared priorities, left associativity, explicit
// parentheses, postfix forms bind tightest, a prefix operator that is also binary takes the maximal
// following operand built from strictly higher-priority operators, a pure prefix operator takes the
// postfix expression. It never looks at parser2.go's control flow.

import (
	"strings"

	"verif/internal/gx"
)

type tkind uint8

const (
	kIdent tkind = iota
	kNum
	kKw
	kOp
	kPunct
)

type tok struct {
	k     tkind
	s     string
	alias bool // operator token written with its text alias
}

var keywords = []string{"if", "then", "else", "try", "catch", "switch", "case", "default"}
var isKeyword = func() map[string]bool {
	m := map[string]bool{}
	for _, k := range keywords {
		m[k] = true
	}
	return m
}()

const aliasWord = "plus"

// table is one parser configuration.
type table struct {
	gx.Table
	Alias   string          // operator the text alias "plus" stands for, "" = no alias configured
	// quotedOp: the malformed space's alphabet has a quoted identifier spelled like the first binary operator
	quotedOp bool
	// Order: sequence of the builder calls that hand the table to the parser (same table in every order):
	// 0 Op(all).Unary(all); 1 Unary(all).Op(all); 2 Op(first half).Unary(all).Op(second half)
	Order int
	isUn    map[string]bool // prefix operators
	spell   map[string]bool // every spelling the operator detector knows (Bin, Un, "=", "->")
	prefix  map[string]bool // every non-empty prefix of a spelling (the nodes of the trie)
	maxLen  int
	deadEnd bool              // greedy trie walk and longest match can disagree on some text
	rt      *gx.Table         // the table with placeholder spellings $A $B ... (see renderings)
	ph      map[string]string // spelling -> placeholder
	unph    map[string]string // placeholder -> spelling
	class   string            // "pool" (enumerated from the pool) or the name of the hand-written family
}

func newTable(bin, un []string, alias string) *table {
	t := &table{Table: gx.Table{Bin: append([]string(nil), bin...), Un: append([]string(nil), un...)}, Alias: alias,
		class: "pool", isUn: map[string]bool{}, spell: map[string]bool{"=": true, "->": true}}
	for _, u := range un {
		t.isUn[u] = true
		t.spell[u] = true
	}
	for _, b := range bin {
		t.spell[b] = true
	}
	t.prefix = map[string]bool{}
	for s := range t.spell {
		if len(s) > t.maxLen {
			t.maxLen = len(s)
		}
		for i := 1; i <= len(s); i++ {
			t.prefix[s[:i]] = true
		}
	}
	// placeholders: gx.Render writes text and puts nested prefix operators (and, with Sep "", a binary
	// and a following prefix operator) side by side, which maximal munch may read as another operator
	// ("==a" for =(=a)). Rendering is therefore done with unambiguous two-character placeholders and
	// the decision which real spellings may touch is left to layout.
	t.ph, t.unph, t.rt = map[string]string{}, map[string]string{}, &gx.Table{}
	for i, b := range t.Bin {
		p := "$" + string(rune('A'+i))
		t.ph[b], t.unph[p] = p, b
		t.rt.Bin = append(t.rt.Bin, p)
	}
	for i, u := range t.Un {
		if _, ok := t.ph[u]; !ok {
			p := "$" + string(rune('a'+i))
			t.ph[u], t.unph[p] = p, u
		}
		t.rt.Un = append(t.rt.Un, t.ph[u])
	}
	// dead end: a proper prefix p of a spelling that is not a spelling itself while a shorter
	// non-empty prefix of p is one: the greedy walk passes the shorter spelling and gets stuck in p.
	for s := range t.spell {
		for i := 2; i < len(s); i++ {
			if !t.spell[s[:i]] {
				for j := 1; j < i; j++ {
					if t.spell[s[:j]] {
						t.deadEnd = true
					}
				}
			}
		}
	}
	return t
}

func (t *table) hasPrefixPath(p string) bool { return t.prefix[p] }

// lexGreedy models the property's "maximal munch" as a trie walk: extend while some spelling
// continues; the result is an operator only if the walk stopped on a complete spelling.
func (t *table) lexGreedy(run string) ([]string, bool) {
	var out []string
	for len(run) > 0 {
		n := 0
		for n < len(run) && t.hasPrefixPath(run[:n+1]) {
			n++
		}
		if n == 0 || !t.spell[run[:n]] {
			return out, false
		}
		out = append(out, run[:n])
		run = run[n:]
	}
	return out, true
}

// lexLongest is plain longest-match lexing over the spellings.
func (t *table) lexLongest(run string) ([]string, bool) {
	var out []string
	for len(run) > 0 {
		n := 0
		for l := 1; l <= t.maxLen && l <= len(run); l++ {
			if t.spell[run[:l]] {
				n = l
			}
		}
		if n == 0 {
			return out, false
		}
		out = append(out, run[:n])
		run = run[n:]
	}
	return out, true
}

func sameStrings(a, b []string) bool {
	if len(a) != len(b) {
		return false
	}
	for i := range a {
		if a[i] != b[i] {
			return false
		}
	}
	return true
}

// layoutStats counts what the layout rule did.
type layoutStats struct{ tight, forcedBlank, deadEndBlank int64 }

// layout writes a token list as text. blank=true separates all tokens by one blank. Otherwise tokens
// are adjacent unless (a) both are word-like (identifier, number, keyword, alias), (b) a number is
// followed by '.', or (c) a run of operator tokens would not be split back into the same tokens by
// BOTH the greedy trie walk and longest-match lexing.
func (t *table) layout(ts []tok, blank bool, st *layoutStats) string {
	var sb strings.Builder
	var run []string // operator tokens written adjacent so far
	for i, x := range ts {
		text := x.s
		word := x.k == kIdent || x.k == kNum || x.k == kKw
		if x.k == kOp && x.alias {
			text, word = aliasWord, true
		}
		if i > 0 {
			p := ts[i-1]
			pword := p.k == kIdent || p.k == kNum || p.k == kKw || (p.k == kOp && p.alias)
			sep := blank
			switch {
			case word && pword:
				sep = true
			case p.k == kNum && x.s == ".":
				sep = true
			case x.k == kOp && !x.alias && len(run) > 0 && !sep:
				cand := append(append([]string(nil), run...), x.s)
				joined := strings.Join(cand, "")
				g, gok := t.lexGreedy(joined)
				l, lok := t.lexLongest(joined)
				if !(gok && lok && sameStrings(g, cand) && sameStrings(l, cand)) {
					sep = true
					if st != nil {
						st.forcedBlank++
						if lok && sameStrings(l, cand) {
							st.deadEndBlank++ // only the greedy walk fails: dead-end prefix
						}
					}
				} else if st != nil {
					st.tight++
				}
			}
			if sep {
				sb.WriteByte(' ')
				run = run[:0]
			}
		}
		if x.k == kOp && !x.alias {
			run = append(run, x.s)
		} else {
			run = run[:0]
		}
		sb.WriteString(text)
	}
	return sb.String()
}

// lex splits rendered text into tokens: words, numbers (digits), single-character punctuation and
// operators by longest match over the table's spellings. ok=false if a character fits nowhere.
func (t *table) lex(src string) ([]tok, bool) {
	var out []tok
	i := 0
	for i < len(src) {
		c := src[i]
		switch {
		case c == ' ':
			i++
		case c >= '0' && c <= '9':
			j := i
			for j < len(src) && src[j] >= '0' && src[j] <= '9' {
				j++
			}
			out = append(out, tok{k: kNum, s: src[i:j]})
			i = j
		case c >= 'a' && c <= 'z' || c >= 'A' && c <= 'Z' || c == '_':
			j := i
			for j < len(src) && (src[j] >= 'a' && src[j] <= 'z' || src[j] >= 'A' && src[j] <= 'Z' || src[j] == '_' || src[j] >= '0' && src[j] <= '9') {
				j++
			}
			w := src[i:j]
			switch {
			case t.Alias != "" && w == aliasWord:
				out = append(out, tok{k: kOp, s: t.Alias, alias: true})
			case isKeyword[w]:
				out = append(out, tok{k: kKw, s: w})
			default:
				out = append(out, tok{k: kIdent, s: w})
			}
			i = j
		case c == '\'':
			j := strings.IndexByte(src[i+1:], '\'')
			if j < 0 {
				return out, false
			}
			out = append(out, tok{k: kIdent, s: src[i : i+j+2]})
			i += j + 2
		case c == '$' && i+1 < len(src) && t.unph[src[i:i+2]] != "":
			out = append(out, tok{k: kOp, s: t.unph[src[i:i+2]]})
			i += 2
		case strings.IndexByte("()[].,:", c) >= 0:
			out = append(out, tok{k: kPunct, s: string(c)})
			i++
		default:
			n := 0
			for l := 1; l <= t.maxLen && i+l <= len(src); l++ {
				if t.spell[src[i:i+l]] {
					n = l
				}
			}
			if n == 0 {
				return out, false
			}
			out = append(out, tok{k: kOp, s: src[i : i+n]})
			i += n
		}
	}
	return out, true
}

func tokStrings(ts []tok) []string {
	out := make([]string, len(ts))
	for i, x := range ts {
		out[i] = x.s
		if x.alias {
			out[i] = aliasWord
		}
	}
	return out
}

// ---------------------------------------------------------------------------------------------
// reference parser

type refStatus uint8

const (
	refOK refStatus = iota
	refReject
	refUnspecified
)

type refErr struct {
	unspec string // != "": the property text is silent about this construct
	atEOF  bool   // rejected because the input ended (the token list is a viable prefix)
}

type refParser struct {
	t   *table
	ts  []tok
	pos int
	err *refErr
}

func (r *refParser) peek() (tok, bool) {
	if r.pos < len(r.ts) {
		return r.ts[r.pos], true
	}
	return tok{}, false
}

func (r *refParser) fail() *gx.Node {
	if r.err == nil {
		r.err = &refErr{atEOF: r.pos >= len(r.ts)}
	}
	return nil
}

func (r *refParser) unspecified(why string) *gx.Node {
	if r.err == nil {
		r.err = &refErr{unspec: why}
	}
	return nil
}

func (r *refParser) isPunct(s string) bool {
	x, ok := r.peek()
	return ok && x.k == kPunct && x.s == s
}

func (r *refParser) isKw(s string) bool {
	x, ok := r.peek()
	return ok && x.k == kKw && x.s == s
}

func (r *refParser) expectPunct(s string) bool {
	if r.isPunct(s) {
		r.pos++
		return true
	}
	r.fail()
	return false
}

func (r *refParser) expectKw(s string) bool {
	if r.isKw(s) {
		r.pos++
		return true
	}
	r.fail()
	return false
}

// expr parses an expression whose top-level binary operators all have priority >= min.
func (r *refParser) expr(min int) *gx.Node {
	lhs := r.operand()
	if lhs == nil {
		return nil
	}
	for {
		x, ok := r.peek()
		if !ok || x.k != kOp {
			return lhs
		}
		p := r.t.Prio(x.s)
		if p < 0 || p < min {
			return lhs
		}
		r.pos++
		rhs := r.expr(p + 1) // strictly higher priority on the right: equal priority associates left
		if rhs == nil {
			return nil
		}
		lhs = &gx.Node{K: gx.Bin, S: x.s, A: lhs, B: rhs}
	}
}

func (r *refParser) operand() *gx.Node {
	x, ok := r.peek()
	if ok && x.k == kOp && r.t.isUn[x.s] {
		r.pos++
		var a *gx.Node
		if p := r.t.Prio(x.s); p >= 0 {
			a = r.expr(p + 1) // maximal operand built from strictly higher-priority operators
		} else {
			a = r.postfix() // pure prefix operator: the postfix expression
		}
		if a == nil {
			return nil
		}
		return &gx.Node{K: gx.Un, S: x.s, A: a}
	}
	return r.postfix()
}

func (r *refParser) postfix() *gx.Node {
	e := r.primary()
	if e == nil {
		return nil
	}
	for {
		switch {
		case r.isPunct("("):
			r.pos++
			args, ok := r.args()
			if !ok {
				return nil
			}
			e = &gx.Node{K: gx.Call, A: e, Args: args}
		case r.isPunct("["):
			r.pos++
			ix := r.expr(0)
			if ix == nil {
				return nil
			}
			if !r.expectPunct("]") {
				return nil
			}
			e = &gx.Node{K: gx.Index, A: e, B: ix}
		case r.isPunct("."):
			r.pos++
			x, ok := r.peek()
			if !ok || x.k != kIdent {
				return r.fail()
			}
			r.pos++
			if r.isPunct("(") {
				r.pos++
				args, ok := r.args()
				if !ok {
					return nil
				}
				e = &gx.Node{K: gx.Method, A: e, S: x.s, Args: args}
			} else {
				e = &gx.Node{K: gx.Member, A: e, S: x.s}
			}
		default:
			return e
		}
	}
}

// args parses "e, e, ... )" after the opening parenthesis.
func (r *refParser) args() ([]*gx.Node, bool) {
	args := []*gx.Node{}
	if r.isPunct(")") {
		r.pos++
		return args, true
	}
	for {
		a := r.expr(0)
		if a == nil {
			return nil, false
		}
		args = append(args, a)
		if r.isPunct(")") {
			r.pos++
			return args, true
		}
		if !r.expectPunct(",") {
			return nil, false
		}
		if r.isPunct(")") {
			r.unspecified("argument list with a trailing comma")
			return nil, false
		}
	}
}

func (r *refParser) primary() *gx.Node {
	x, ok := r.peek()
	if !ok {
		return r.fail()
	}
	prevIsOp := r.pos > 0 && r.ts[r.pos-1].k == kOp
	switch x.k {
	case kIdent:
		if n, ok2 := r.peekAt(1); ok2 && n.k == kOp && n.s == "->" {
			return r.unspecified("identifier directly followed by '->' (closure syntax of the parser; collides with a caller-declared '->' operator)")
		}
		r.pos++
		return gx.L(x.s)
	case kNum:
		r.pos++
		return gx.L(x.s)
	case kPunct:
		switch x.s {
		case "(":
			if a, ok1 := r.peekAt(1); ok1 && a.k == kIdent && r.t.spell["->"] && r.t.Prio("->") >= 0 {
				if b, ok2 := r.peekAt(2); ok2 && b.k == kPunct && b.s == "," {
					return r.unspecified("'(' identifier ',' (closure parameter list of the parser; collides with a caller-declared '->' operator)")
				}
			}
			r.pos++
			e := r.expr(0)
			if e == nil {
				return nil
			}
			if !r.expectPunct(")") {
				return nil
			}
			return &gx.Node{K: gx.Paren, A: e}
		case "[":
			return r.unspecified("'[' at operand position (list literal)")
		}
		return r.fail()
	case kKw:
		switch x.s {
		case "if", "try", "switch":
			if prevIsOp {
				return r.unspecified("keyword form written without parentheses directly as the operand of an operator")
			}
		}
		switch x.s {
		case "if":
			r.pos++
			c := r.expr(0)
			if c == nil || !r.expectKw("then") {
				return nil
			}
			a := r.expr(0)
			if a == nil || !r.expectKw("else") {
				return nil
			}
			b := r.expr(0)
			if b == nil {
				return nil
			}
			return &gx.Node{K: gx.If, A: c, B: a, C: b}
		case "try":
			r.pos++
			a := r.expr(0)
			if a == nil || !r.expectKw("catch") {
				return nil
			}
			b := r.expr(0)
			if b == nil {
				return nil
			}
			return &gx.Node{K: gx.Try, A: a, B: b}
		case "switch":
			r.pos++
			v := r.expr(0)
			if v == nil {
				return nil
			}
			var cases []*gx.Node
			for r.isKw("case") {
				r.pos++
				c := r.expr(0)
				if c == nil || !r.expectPunct(":") {
					return nil
				}
				e := r.expr(0)
				if e == nil {
					return nil
				}
				cases = append(cases, c, e)
			}
			if !r.expectKw("default") {
				return nil
			}
			d := r.expr(0)
			if d == nil {
				return nil
			}
			return &gx.Node{K: gx.Switch, A: v, B: d, Args: cases}
		}
		return r.fail()
	}
	return r.fail()
}

func (r *refParser) peekAt(d int) (tok, bool) {
	if r.pos+d < len(r.ts) {
		return r.ts[r.pos+d], true
	}
	return tok{}, false
}

// refParse returns the tree the property demands for the token list, or reject / unspecified.
// viablePrefix is true for a rejected list that failed only because it ended.
func refParse(t *table, ts []tok) (n *gx.Node, st refStatus, why string, viablePrefix bool) {
	r := &refParser{t: t, ts: ts}
	n = r.expr(0)
	if n != nil && r.pos < len(ts) {
		r.fail() // trailing tokens
		n = nil
	}
	if r.err != nil {
		if r.err.unspec != "" {
			return nil, refUnspecified, r.err.unspec, false
		}
		return nil, refReject, "", r.err.atEOF
	}
	return n, refOK, "", false
}
