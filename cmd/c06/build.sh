#!/usr/bin/env bash
set -eu
out="${VERIF_OUT:-build/bin/c06}"
go build -tags verif -overlay "$VERIF_OVERLAY" -o "$out" ./cmd/c06
go build -race -tags verif -overlay "$VERIF_OVERLAY" -o "$out-race" ./cmd/c06
exec bin/buildcoop.sh c06 "$out-coop"
