#!/usr/bin/env bash
set -eu
exec bin/buildcoop.sh c06 "${VERIF_OUT:-build/bin/c06}"
