// C06: lazy list pipelines give the sequential result under every parallel schedule.
// Model checking on the implementation: the goroutine code of /repo and of the iterator dependency is
// rewritten onto the controlled scheduler (verif/vsched); for every enumerated pipeline scenario ALL
// interleavings are explored (history-key pruning, no preemption bound) and every terminal state is
// checked: outcome = sequential reference, no happens-before data race on the value stacks, no
// deadlock, no panic on a library goroutine.
package main

import (
	"fmt"
	"io"
	"log"
	"os"
	"sort"
	"strings"
	"time"

	"github.com/hneemann/parser2/funcGen"
	"github.com/hneemann/parser2/value"
	"verif/internal/bex"
	"verif/internal/vrun"
	"verif/vsched"
)

func newGen() *value.FunctionGenerator {
	g := value.New()
	g.AddStaticFunction("slow", funcGen.Function[value.Value]{
		Func: func(st funcGen.Stack[value.Value], cs []value.Value) (value.Value, error) {
			vsched.ClockAdvance(300)
			return st.Get(0), nil
		},
		Args: 1, IsPure: false,
	}.SetDescription("x", "identity with a virtual cost of 300us (above the 200us threshold of the switch to parallel execution)"))
	// the same as a PURE function: a capture-free closure that calls only pure functions is turned into a
	// constant by the optimizer (another code path than closures created at run time)
	g.AddStaticFunction("pslow", funcGen.Function[value.Value]{
		Func: func(st funcGen.Stack[value.Value], cs []value.Value) (value.Value, error) {
			vsched.ClockAdvance(300)
			return st.Get(0), nil
		},
		Args: 1, IsPure: true,
	}.SetDescription("x", "pure identity with a virtual cost of 300us"))
	return g
}

// stage templates: R is the receiver; closures are chosen so that argument mix-ups show in the value.
type stage struct {
	name string
	tmpl string // %s = receiver
	// closure: the stage calls a closure through the value stack
	closure bool
	// n13 is the source length for which the stage delivers 13 elements (one element for the parallel phase)
	n13 int
	// heavy: as a stage downstream of a slow stage it is itself switched to parallel execution (the
	// measurement window includes upstream production): 9 vthreads, ~8000 executions per scenario
	heavy bool
}

var stages = []stage{
	{"combine", "%s.combine((p,q)->p*3+q)", true, 14, false},
	{"combine3", "%s.combine3((p,q,r)->p*5+q*3+r)", true, 15, false},
	{"combineN", "%s.combineN(2,w->w[0]*7+w[1])", true, 14, false},
	{"iir", "%s.iir(x->x+1,(x,l)->x+l*2)", true, 13, false},
	{"iirCombine", "%s.iirCombine(x->x+2,(a,b,l)->a+b*2+l*3)", true, 13, false},
	{"number", "%s.number((i,v)->i*1000+v)", true, 13, false},
	{"compact", "%s.compact((a,b)->a%%5=b%%5)", true, 13, false},
	{"cross", "%s.cross([10],(a,b)->a*100+b)", true, 13, false},
	{"fsm", "%s.fsm((s,x)->{state:s.state+x})", true, 13, false},
	{"cheapmap", "%s.map(x->x*2+1)", true, 13, true},
	{"cheapaccept", "%s.accept(x->x%%4!=1)", true, 17, true},
	{"top", "%s.top(13)", false, 13, false},
	{"skip", "%s.skip(1)", false, 14, false},
	{"plus", "(%s+[100,101])", false, 11, false},
	{"merge", "%s.merge([3,5,1000].number((i,v)->v+i),(a,b)->a<b)", true, 10, false},
}

// parallel stages: the closure costs 300us of virtual time, so MapAuto switches to parallel execution
// at item 12; fail = index of a failing element (-1 none)
func parStage(kind string, fail int) string {
	body := "slow(x)"
	if fail >= 0 {
		body = fmt.Sprintf("(if x=%d then throw(\"e\") else slow(x))", fail)
	}
	if kind == "map" {
		return "%s.map(x->" + body + "*2+1)"
	}
	return "%s.accept(x->" + body + "%%3!=1)"
}

type terminal struct {
	name, tmpl string
}

var terminals = []terminal{
	{"string", "%s.string()"},
	{"reduce", "%s.reduce((p,q)->p*31+q)"},
	{"mapReduce", "%s.mapReduce(7,(s,x)->s*31+x)"},
	{"sum", "%s.sum()"},
	{"size", "%s.size()"},
	{"first", "%s.first()"},
	{"last", "%s.last()"},
	{"minMax", "%s.minMax(x->0-x).maxItem"},
	{"visit", "%s.visit(3,(v,x)->v*31+x)"},
	{"order", "%s.order(x->0-x).string()"},
	{"groupByInt", "%s.groupByInt(x->x%%3).size()"},
	{"multiUse", "%s.multiUse({a:l->l.reduce((p,q)->p*31+q),b:l->l.size()})"},
	{"indexWhere", "%s.indexWhere(x->x>20)"},
	{"eval-index", "%s.eval()[0]"},
}

type scenario struct {
	Family string `json:"family"`
	Src    string `json:"src"`
	N      int    `json:"n"`
	W      int    `json:"w"`
	// Ref is the source of the sequential reference if it is not the W=1 run of Src.
	RefKind string `json:"ref"`
}

func app(tmpl, recv string) string { return fmt.Sprintf(tmpl, recv) }

func enumerate(quick bool, emit func(scenario)) {
	src := "numbers(n)"
	none := stage{"none", "%s", false, 13, false}
	pres := append([]stage{none}, stages...)
	posts := append([]stage{none}, stages...)
	ws := []int{2}
	if !quick {
		ws = []int{2, 3}
	}
	for _, w := range ws {
		for _, par := range []string{"map", "accept"} {
			// A: pre x par x post, terminal string; one element reaches the parallel phase
			for _, pre := range pres {
				for _, post := range posts {
					// stages that are themselves switched to parallel execution multiply the state
					// space: they are combined with "none" and "number" only
					if post.heavy && pre.name != "none" && pre.name != "number" {
						continue
					}
					if pre.heavy && (quick || post.name != "none") {
						continue
					}
					if pre.name == "fsm" {
						continue // fsm yields maps; only used downstream
					}
					emit(scenario{Family: "A:pre-par-post", Src: app(terminals[0].tmpl, app(post.tmpl, app(parStage(par, -1), app(pre.tmpl, src)))), N: pre.n13, W: w})
				}
			}
			// B: pre x par x terminal
			for _, pre := range pres {
				if pre.name == "fsm" || pre.heavy {
					continue
				}
				for _, t := range terminals[1:] {
					emit(scenario{Family: "B:pre-par-terminal", Src: app(t.tmpl, app(parStage(par, -1), app(pre.tmpl, src))), N: pre.n13, W: w})
				}
			}
			// C: par x post x terminal
			for _, post := range posts[1:] {
				if post.name == "fsm" || post.heavy {
					continue
				}
				for _, t := range terminals[1:] {
					emit(scenario{Family: "C:par-post-terminal", Src: app(t.tmpl, app(post.tmpl, app(parStage(par, -1), src))), N: 13, W: w})
				}
			}
			// D: par x terminal x size x failing element
			sizes := []int{0, 1, 12, 13, 14}
			if !quick {
				sizes = append(sizes, 15)
			}
			for _, t := range terminals {
				for _, n := range sizes {
					for _, fail := range []int{-1, 5, 12} {
						if fail >= n {
							continue
						}
						if t.name == "multiUse" && (n > 13 || fail == 12) && quick {
							continue // 7 vthreads with 2+ parallel items: thorough tier only
						}
						emit(scenario{Family: "D:par-terminal-size-fail", Src: app(t.tmpl, app(parStage(par, fail), src)), N: n, W: w})
						emit(scenario{Family: "D:par-terminal-size-fail", Src: app(t.tmpl, app(parStage(par, fail), app("%s.number((i,v)->i*1000+v%%1000)", src))), N: n, W: w})
					}
				}
			}
		}
		// D2: the failing element is a Go panic (integer division by zero) instead of a thrown error, in a
		// closure created at run time (slow is impure) and in one the optimizer turned into a constant (pslow)
		for _, par := range []string{"map", "accept"} {
			for _, fn := range []string{"slow", "pslow"} {
				for _, fail := range []int{5, 12} {
					body := fmt.Sprintf("(%s(x)+0*(1000%%%%(x-%d)))", fn, fail)
					st := "%s.map(x->" + body + "*2+1)"
					if par == "accept" {
						st = "%s.accept(x->" + body + "%%3!=1)"
					}
					for _, t := range []terminal{terminals[0], terminals[3], terminals[5]} {
						for _, n := range []int{13, 14} {
							emit(scenario{Family: "D2:par-terminal-go-panic", Src: app(t.tmpl, app(st, src)), N: n, W: w})
						}
					}
				}
			}
		}
		if w != ws[0] {
			continue
		}
		// E: merge operands with and without stack-using stages
		ops := []string{"%s", "%s.number((i,v)->i*0+v*2)", "%s.map(x->x*2)", "%s.combine((p,q)->p+q)"}
		for _, oa := range ops {
			for _, ob := range ops {
				for _, t := range terminals {
					for _, n := range []int{0, 1, 2, 3} {
						a := app(oa, "numbers(n)")
						b := app(ob, "numbers(n).map(x->x+1)")
						emit(scenario{Family: "E:merge", Src: app(t.tmpl, a+".merge("+b+",(a,b)->a<b)"), N: n, W: w, RefKind: "merge"})
					}
				}
			}
		}
		// F: multiUse consumers
		consumers := []string{"l->l.sum()", "l->l.size()", "l->l.reduce((p,q)->p*31+q)", "l->l.first()", "l->5", "l->l.map(x->x*2)", "l->l.top(1).size()", "l->l.number((i,v)->i*10+v).string()"}
		for _, c1 := range consumers {
			for _, c2 := range consumers {
				for _, pre := range []string{"%s", "%s.number((i,v)->i*1000+v)"} {
					for _, n := range []int{0, 1, 3} {
						emit(scenario{Family: "F:multiUse", Src: app(pre, "numbers(n)") + ".multiUse({a:" + c1 + ",b:" + c2 + "})", N: n, W: w, RefKind: "multiUse:" + c1 + "|" + c2 + "|" + pre})
					}
				}
			}
		}
		// H: a lazy list captured by the parallel mapper: the only other object two workers of ONE
		// evaluation can share (its lazy materialisation is hooked at field granularity, rule R4)
		for _, t := range []terminal{terminals[0], terminals[3]} {
			for _, n := range []int{13, 14} {
				emit(scenario{Family: "H:captured-lazy-list", Src: "let big=numbers(n-10).map(e->e+1);" + app(t.tmpl, "numbers(n).map(x->slow(x)+(if x>11 then big.size() else 0))"), N: n, W: w})
				emit(scenario{Family: "H:captured-lazy-list", Src: "let big=numbers(n-10).map(e->e+1);" + app(t.tmpl, "numbers(n).map(x->slow(x)+(if x>11 then big.sum()+big.size() else 0))"), N: n, W: w})
				emit(scenario{Family: "H:captured-lazy-list", Src: "let big=numbers(n-10).map(e->e+1).eval();" + app(t.tmpl, "numbers(n).map(x->slow(x)+big.size())"), N: n, W: w})
			}
		}
		// H3: the same EVALUATED list (it has spare capacity) extended by every worker of a parallel stage: each
		// result must be a list of its own
		for _, mk := range []string{"numbers(5).map(e->e+1).eval()", "[1,2,3].append(4)", "numbers(5).map(e->e+1)"} {
			for _, ext := range []string{"(b+[x]).sum()", "(b+[x])[b.size()]", "b.append(x).sum()", "(b+[x]+[x+1]).size()*1000+(b+[x])[b.size()]", "b.append(x).append(x+1)[b.size()]"} {
				for _, n := range []int{14, 15} {
					emit(scenario{Family: "H3:shared-evaluated-list-extended-by-workers", Src: "let b=" + mk + ";numbers(n).map(x->slow(x)*0+" + ext + ").reduce((p,q)->p*31+q)", N: n, W: w})
				}
			}
		}
		// H2: the SAME lazy list iterated by two goroutines at once — by both operands of a merge, and by two
		// workers of a parallel mapper through a consumer that does not materialise it — for every stage kind
		for _, stg := range stages {
			if stg.name == "fsm" || stg.name == "merge" {
				continue
			}
			m := "let m=" + app(stg.tmpl, "numbers(n-9)") + ";"
			emit(scenario{Family: "H2:shared-lazy-list", Src: m + "m.merge(m,(a,b)->a<b).string()", N: 12, W: w, RefKind: "shared-merge"})
			for _, cons := range []string{"m.sum()", "m.reduce((p,q)->p*31+q)", "m.string().len()", "m.indexWhere(e->e<0)"} {
				emit(scenario{Family: "H2:shared-lazy-list", Src: m + "numbers(n).map(x->slow(x)+(if x>11 then " + cons + " else 0)).sum()", N: 14, W: w})
			}
		}
		// A2: a stage without closure (top, skip, +) between a stack-using stage and the parallel stage
		for _, pre := range pres[1:] {
			if pre.name == "fsm" || pre.heavy {
				continue
			}
			for _, mid := range []string{"%s.top(13)", "%s.skip(0)", "(%s+[])", "%s.top(20).skip(0)"} {
				for _, par := range []string{"map", "accept"} {
					emit(scenario{Family: "A2:pre-mid-par", Src: app(terminals[1].tmpl, app(parStage(par, -1), app(mid, app(pre.tmpl, src)))), N: pre.n13, W: w})
					// one more element: the feeder calls the upstream closure while the terminal's closure runs
					emit(scenario{Family: "A2:pre-mid-par", Src: app(terminals[1].tmpl, app(parStage(par, -1), app(mid, app(pre.tmpl, src)))), N: pre.n13 + 1, W: w})
				}
			}
			emit(scenario{Family: "A2:pre-mid-merge", Src: app(terminals[2].tmpl, app("%s.merge([3,5,1000].number((i,v)->v+i),(a,b)->a<b)", app("%s.top(20)", app(pre.tmpl, "numbers(n)")))), N: 3, W: w})
		}
		// I: stages that hand GROUPS (lists) to their function, kept and consumed by a parallel stage or a
		// merge on another goroutine (seeded change S06D: combineN handing out its ring buffer)
		for _, grp := range []struct {
			tmpl  string
			fewer int // the stage yields n - fewer groups
		}{{"%s.combineN(3,w->w)", 2}, {"%s.combineN(2,w->w.map(e->e+1))", 1}, {"%s.movingWindow(x->x)", 0}, {"%s.combine((p,q)->[p,q])", 1}, {"%s.combine3((p,q,r)->[p,q,r])", 2}} {
			for _, par := range []string{"map(w->slow(w.sum()))", "map(w->slow(w.string().len()*1000+w.sum()))", "accept(w->slow(w.sum())>=0).size()"} {
				for _, groups := range []int{14, 15} { // two and three groups in the parallel phase
					src := app("%s."+par, app(grp.tmpl, src))
					if !strings.HasSuffix(par, ".size()") {
						src = app("%s.reduce((p,q)->p*31+q)", src)
					}
					emit(scenario{Family: "I:groups-across-goroutines", Src: src, N: groups + grp.fewer, W: w})
				}
			}
			emit(scenario{Family: "I:groups-across-goroutines", Src: app("%s.merge([[1,2,3]],(a,b)->a.sum()<b.sum()).map(w->w.sum()).string()", app(grp.tmpl, src)), N: 5 + grp.fewer, W: w})
			emit(scenario{Family: "I:groups-across-goroutines", Src: app("%s.multiUse({a:l->l.map(w->w.sum()).string(),b:l->l.map(w->w.size()).sum()})", app(grp.tmpl, src)), N: 5 + grp.fewer, W: w})
		}
		// F2: multiUse consumers that stop at once or never touch more than they need
		for _, cons := range []string{"l->l.top(0).size()", "l->l.top(0)", "l->l.top(0).map(x->x+1).size()", "l->l.top(1).size()", "l->l.skip(100).size()", "l->l.first()"} {
			for _, n := range []int{1, 3, 13} {
				emit(scenario{Family: "F2:multiUse-short-consumers", Src: "numbers(n).multiUse({a:" + cons + ",b:l->l.sum()})", N: n, W: w, RefKind: "multiUse:" + cons + "|l->l.sum()|%s"})
			}
		}
		// G: two nested parallel stages
		if !quick {
			for _, t := range []terminal{terminals[0], terminals[1], terminals[3]} {
				emit(scenario{Family: "G:nested-parallel", Src: app(t.tmpl, "numbers(n).accept(x->slow(x)%3!=1).map(x->slow(x)*2+1)"), N: 14, W: w})
				emit(scenario{Family: "G:nested-parallel", Src: app(t.tmpl, "numbers(n).number((i,v)->i*1000+v).map(x->slow(x)*2+1).map(x->slow(x)+3)"), N: 13, W: w})
			}
		}
	}
}

// observe evaluates src(n) and renders the forced result; every error is "ERR" (which error surfaces
// first is not claimed by the property).
func observe(g *value.FunctionGenerator, f funcGen.Func[value.Value], n int) string {
	o := vrun.Eval(f, []value.Value{value.Int(n)})
	if o.Err {
		if strings.Contains(o.Msg, "iterator timed out") {
			return "ERR(iterator timed out)"
		}
		return "ERR"
	}
	return o.Canon
}

type runner struct {
	g *value.FunctionGenerator
}

// generate runs Generate under the scheduler (Parse starts a tokenizer vthread).
func (r *runner) generate(src string, args ...string) (funcGen.Func[value.Value], error) {
	var f funcGen.Func[value.Value]
	var err error
	vsched.RunDefault(func() string {
		f, _, err = r.g.Generate(src, args...)
		return ""
	})
	return f, err
}

// reference computes the strictly sequential result.
func (r *runner) reference(sc scenario) (string, error) {
	switch {
	case sc.RefKind == "":
		f, err := r.generate(sc.Src, "n")
		if err != nil {
			return "", err
		}
		save := vsched.Workers
		vsched.Workers = 1 // the library's own sequential fallback
		defer func() { vsched.Workers = save }()
		res := vsched.RunDefault(func() string { return observe(r.g, f, sc.N) })
		return res.Obs, nil
	case sc.RefKind == "merge":
		// operands forced sequentially, merged by the textbook two-way merge, terminal applied to the literal
		i := strings.Index(sc.Src, ".merge(")
		// find receiver start: the terminal template wraps the merge expression as a prefix "numbers(n)…"
		start := strings.Index(sc.Src, "numbers(n)")
		aSrc := sc.Src[start:i]
		rest := sc.Src[i+len(".merge("):]
		j := strings.Index(rest, ",(a,b)->a<b)")
		bSrc := rest[:j]
		tail := rest[j+len(",(a,b)->a<b)"):]
		head := sc.Src[:start]
		force := func(src string) ([]int64, bool, error) {
			f, err := r.generate(src+".eval()", "n")
			if err != nil {
				return nil, false, err
			}
			var out []int64
			failed := false
			vsched.RunDefault(func() string {
				v, err := f.Eval(value.Int(sc.N))
				if err != nil {
					failed = true
					return ""
				}
				sl, err := v.(*value.List).ToSlice(funcGen.NewEmptyStack[value.Value]())
				if err != nil {
					failed = true
					return ""
				}
				for _, e := range sl {
					out = append(out, int64(e.(value.Int)))
				}
				return ""
			})
			return out, failed, nil
		}
		a, fa, err := force(aSrc)
		if err != nil {
			return "", err
		}
		b, fb, err := force(bSrc)
		if err != nil {
			return "", err
		}
		if fa || fb {
			return "ERR", nil
		}
		var m []value.Value
		for len(a) > 0 && len(b) > 0 {
			if a[0] < b[0] {
				m = append(m, value.Int(a[0]))
				a = a[1:]
			} else {
				m = append(m, value.Int(b[0]))
				b = b[1:]
			}
		}
		for _, x := range a {
			m = append(m, value.Int(x))
		}
		for _, x := range b {
			m = append(m, value.Int(x))
		}
		f, err := r.generate(head+"lst"+tail, "lst")
		if err != nil {
			return "", err
		}
		res := vsched.RunDefault(func() string {
			o := vrun.Eval(f, []value.Value{value.NewList(m...)})
			if o.Err {
				return "ERR"
			}
			return o.Canon
		})
		return res.Obs, nil
	case sc.RefKind == "shared-merge":
		// let m=…; m.merge(m,less).string(): force m once, merge the two copies with the textbook merge
		i := strings.Index(sc.Src, ";m.merge(")
		mSrc := strings.TrimPrefix(sc.Src[:i], "let m=")
		f, err := r.generate(mSrc+".eval()", "n")
		if err != nil {
			return "", err
		}
		var xs []int64
		failed := false
		vsched.RunDefault(func() string {
			v, err := f.Eval(value.Int(sc.N))
			if err != nil {
				failed = true
				return ""
			}
			sl, err := v.(*value.List).ToSlice(funcGen.NewEmptyStack[value.Value]())
			if err != nil {
				failed = true
				return ""
			}
			for _, e := range sl {
				if iv, ok := e.(value.Int); ok {
					xs = append(xs, int64(iv))
				} else {
					failed = true
				}
			}
			return ""
		})
		if failed {
			return "ERR", nil
		}
		a, b := append([]int64{}, xs...), append([]int64{}, xs...)
		var parts []string
		for len(a) > 0 && len(b) > 0 {
			if a[0] < b[0] {
				parts = append(parts, fmt.Sprint(a[0]))
				a = a[1:]
			} else {
				parts = append(parts, fmt.Sprint(b[0]))
				b = b[1:]
			}
		}
		for _, x := range append(a, b...) {
			parts = append(parts, fmt.Sprint(x))
		}
		return "s\"[" + strings.Join(parts, ", ") + "]\"", nil
	case strings.HasPrefix(sc.RefKind, "multiUse:"):
		parts := strings.Split(strings.TrimPrefix(sc.RefKind, "multiUse:"), "|")
		c1, c2, pre := parts[0], parts[1], parts[2]
		// {a: c1(list), b: c2(list)} with the list forced once, each consumer evaluated on its own
		src := fmt.Sprintf("let lst=%s.eval();{a:(%s)(lst),b:(%s)(lst)}", app(pre, "numbers(n)"), c1, c2)
		f, err := r.generate(src, "n")
		if err != nil {
			return "", err
		}
		res := vsched.RunDefault(func() string { return observe(r.g, f, sc.N) })
		return res.Obs, nil
	}
	return "", fmt.Errorf("unknown reference kind")
}

// classification of the findings listed in known_findings.json (narrow: phrased on the two racing call sites)
func classifyRace(race string) string {
	first := race
	if i := strings.Index(race, "\n"); i >= 0 {
		first = race[:i]
	}
	parts := strings.SplitN(first, "unordered with earlier access by", 2)
	if len(parts) != 2 {
		return ""
	}
	cur, prev := parts[0], parts[1]
	onStack := strings.Contains(first, "stackStorage")
	collector := func(s string) bool { return strings.Contains(s, "iterator.initParallel") }
	upstreamMain := func(s string) bool {
		return strings.Contains(s, "goroutine 0 {") && strings.Contains(s, "iterator.MapAuto") && !strings.Contains(s, "iterator.initParallel")
	}
	toChan := func(s string) bool { return strings.Contains(s, "iterator.ToChan") }
	mergeMain := func(s string) bool {
		return (strings.Contains(s, "iterator.Merge") || strings.Contains(s, "(*List).Merge")) && !strings.Contains(s, "iterator.ToChan")
	}
	switch {
	case !onStack && strings.Contains(first, "(*List).Eval"):
		// unsynchronised lazy materialisation of a list shared by two workers (same root cause as C11's F11)
		return "F11-lazy-constant-materialisation-race"
	case onStack && ((collector(cur) && upstreamMain(prev)) || (collector(prev) && upstreamMain(cur))):
		return "F06a-shared-stack-upstream-downstream"
	case onStack && ((toChan(cur) && (toChan(prev) || mergeMain(prev))) || (toChan(prev) && mergeMain(cur))):
		return "F06b-merge-operands-shared-stack"
	}
	return ""
}

// runPlain is the conformance pass on the PLAIN build (real goroutines, real channels, real time): the
// same scenarios are evaluated with a host function slow() that really sleeps 300us, so that the
// library's wall-clock measurement switches to parallel execution, and with an identity slow() that
// keeps it sequential; the two observations must agree. This ties the outcomes explored under the
// controlled scheduler to what the unmodified code does, and would expose a rewriting or shim error
// that changes results.
func runPlain(ctx *bex.Ctx) {
	log.SetOutput(io.Discard)
	mk := func(sleep bool) *value.FunctionGenerator {
		g := value.New()
		g.AddStaticFunction("slow", funcGen.Function[value.Value]{
			Func: func(st funcGen.Stack[value.Value], cs []value.Value) (value.Value, error) {
				if sleep {
					time.Sleep(300 * time.Microsecond)
				}
				return st.Get(0), nil
			},
			Args: 1, IsPure: false,
		}.SetDescription("x", "identity; really sleeps 300us in the parallel variant"))
		g.AddStaticFunction("pslow", funcGen.Function[value.Value]{
			Func: func(st funcGen.Stack[value.Value], cs []value.Value) (value.Value, error) {
				if sleep {
					time.Sleep(300 * time.Microsecond)
				}
				return st.Get(0), nil
			},
			Args: 1, IsPure: true,
		}.SetDescription("x", "pure identity; really sleeps 300us in the parallel variant"))
		return g
	}
	gSeq, gPar := mk(false), mk(true)
	if !ctx.Race {
		ctx.Space("plain-build-conformance")
	}
	var idx int64
	enumerate(true, func(sc scenario) {
		if ctx.Race && sc.N < 12 && !strings.Contains(sc.Src, "merge") && !strings.Contains(sc.Src, "multiUse") {
			return // no goroutines: nothing for the race detector
		}
		idx++
		if !ctx.Mine(idx) || ctx.Expired() {
			return
		}
		if strings.Contains(sc.Src, "l->5") {
			return // the pinned 5 s timeout
		}
		fs, _, err1 := gSeq.Generate(sc.Src, "n")
		fp, _, err2 := gPar.Generate(sc.Src, "n")
		if err1 != nil || err2 != nil {
			return
		}
		want := observe(gSeq, fs, sc.N)
		for rep := 0; rep < 2; rep++ {
			ctx.Eval()
			got := observe(gPar, fp, sc.N)
			ctx.Add("traces_validated_against_impl", 1)
			ctx.Add("plain_build_runs", 1)
			if got != want {
				ctx.Violate("plain build: result with parallel execution differs from the sequential result", map[string]any{"family": sc.Family, "src": sc.Src, "n": sc.N, "plain": true}, want, got, "")
			}
		}
		ctx.Nontrivial("plain|" + sc.Src + fmt.Sprint(sc.N))
		ctx.Outcome("plain:" + strings.SplitN(sc.Family, ":", 2)[0])
		if ctx.Race {
			// free-running -race build: the Go race detector sees all memory, also what the controlled
			// scheduler's hooks do not cover; a report is always a true positive
			ctx.Add("race_build_runs", 2)
			if rep := ctx.RaceReports(); rep != "" {
				finding := ""
				if strings.Contains(rep, "value.(*List).Eval") {
					finding = "F11-lazy-constant-materialisation-race"
				}
				if len(rep) > 2500 {
					rep = rep[:2500] + "…"
				}
				ctx.Violate("the Go race detector reports a data race (free-running -race build)", map[string]any{"family": sc.Family, "src": sc.Src, "n": sc.N, "plain": true, "racebuild": true}, "no report", rep, finding)
			}
		}
	})
	ctx.SpaceDone("every quick-tier scenario evaluated twice on the plain build with a really sleeping slow() (parallel) against the identity slow() (sequential)")
}

func run(ctx *bex.Ctx) {
	if ctx.Race {
		ctx.Space("race-detector-pass")
	}
	if !ctx.Coop {
		runPlain(ctx)
		return
	}
	log.SetOutput(io.Discard)
	r := &runner{g: newGen()}
	ctx.Space("pipelines")
	var idx int64
	maxExecs := 10000
	if !ctx.Quick() {
		maxExecs = 300000
	}
	enumerate(ctx.Quick(), func(sc scenario) {
		idx++
		if !ctx.Mine(idx) || ctx.Expired() {
			return
		}
		repro := map[string]any{"family": sc.Family, "src": sc.Src, "n": sc.N, "w": sc.W, "ref": sc.RefKind}
		ref, err := r.reference(sc)
		if err != nil {
			ctx.Violate("scenario does not generate", repro, "a function", err.Error(), "")
			return
		}
		f, err := r.generate(sc.Src, "n")
		if err != nil {
			ctx.Violate("scenario does not generate", repro, "a function", err.Error(), "")
			return
		}
		vsched.Workers = sc.W
		body := func() string { return observe(r.g, f, sc.N) }
		// owning nondeterminism: the default schedule replayed twice must give identical observations
		d1 := vsched.RunDefault(body)
		d2 := vsched.RunDefault(body)
		ctx.Add("replay_checks", 1)
		if d1.Obs != d2.Obs || d1.Trans != d2.Trans {
			ctx.Violate("REPLAY-DIVERGENCE: the same schedule gave different observations", repro, fmt.Sprintf("%s/%d transitions", d1.Obs, d1.Trans), fmt.Sprintf("%s/%d transitions", d2.Obs, d2.Trans), "")
			return
		}
		t0 := time.Now()
		st := vsched.Explore(vsched.Config{PreemptBound: -1, MaxExecs: maxExecs, Stop: ctx.Expired}, body)
		ctx.Eval()
		if tf := os.Getenv("C06_TRACE"); tf != "" {
			if fh, err := os.OpenFile(fmt.Sprintf("%s.%d", tf, ctx.Shard), os.O_APPEND|os.O_CREATE|os.O_WRONLY, 0644); err == nil {
				fmt.Fprintf(fh, "%8.0fms execs=%-7d states=%-7d threads=%d capped=%v raceExecs=%d racelines=%d %s n=%d\n", float64(time.Since(t0).Microseconds())/1000, st.Execs, st.States, st.MaxThreads, st.Capped, st.RaceExecs, len(st.RaceLines()), sc.Src, sc.N)
				fh.Close()
			}
		}
		ctx.Add("states", int64(st.States))
		ctx.Add("transitions", int64(st.Transitions))
		ctx.Add("executions", int64(st.Execs))
		ctx.Add("traces_validated_against_impl", int64(st.Execs)) // every explored schedule is executed on the real (rewritten) code
		ctx.Max("max_threads", int64(st.MaxThreads))
		ctx.Max("max_states_per_scenario", int64(st.States))
		if st.Capped {
			ctx.Add("scenarios_capped", 1)
		}
		if st.Diverged > 0 {
			ctx.Violate("REPLAY-DIVERGENCE while replaying a prefix", repro, "", fmt.Sprint(st.Diverged), "")
		}
		if st.MaxThreads > 2 || strings.Contains(sc.Family, "merge") || strings.Contains(sc.Family, "multiUse") {
			ctx.Nontrivial(sc.Src + fmt.Sprint(sc.N, sc.W))
		}
		ctx.Outcome(fmt.Sprintf("%s/threads=%d", strings.SplitN(sc.Family, ":", 2)[0], st.MaxThreads))
		if ctx.WantSample() && st.States > 100 {
			ctx.Sample(map[string]any{"scenario": repro, "sequential_reference": ref, "executions": st.Execs, "states": st.States, "transitions": st.Transitions, "vthreads": st.MaxThreads, "distinct_outcomes": len(st.Outcomes)})
		}
		judge := func(st *vsched.Stats, repro map[string]any) {
			// oracle 1: outcome on every terminal state = sequential reference
			for obs := range st.Outcomes {
				if obs != ref {
					finding := ""
					if obs == "ERR(iterator timed out)" && strings.HasPrefix(sc.Family, "F:") && strings.Contains(sc.Src, "l->5") {
						// A multiUse consumer that never iterates its list makes the source wait for the 5 s
						// timeout: the repository's own test suite pins this ("numbers(10).multiUse({a:l->1, b:l->l->2})"
						// must fail with 'timed out'), so it is documented behaviour, not a deviation from
						// the sequential result. Races, deadlocks and crashes are still checked.
						ctx.Unspecified("multiUse consumer that never iterates its list: the timeout error is pinned by the repository's tests")
						continue
					}
					t := st.Terminals
					var choices []int
					for _, tt := range t {
						if tt.Obs == obs {
							choices = tt.Choices
							break
						}
					}
					rp := copyMap(repro)
					rp["schedule"] = choices
					ctx.Violate("outcome under some schedule differs from the sequential result", rp, ref, obs, finding)
				}
			}
			// oracle 2: data races — every distinct race of the scenario is classified on its own, so that a
			// known one cannot mask another
			reportRaces(ctx, st, repro)
			// oracle 3: deadlock
			if t := st.FirstDeadlock(); t != nil {
				rp := copyMap(repro)
				rp["schedule"] = t.Choices
				ctx.Violate("deadlock: the evaluation never returns under this schedule", rp, "evaluation returns", t.Leaks, "")
			}
			// oracle 4: crash of a library goroutine
			if t := st.FirstCrash(); t != nil {
				rp := copyMap(repro)
				rp["schedule"] = t.Choices
				ctx.Violate("panic on a library goroutine", rp, "no panic", t.Crash, "")
			}
		}
		judge(&st, repro)
		// second pass WITHOUT state pruning: history-key pruning is sound only while vthreads communicate
		// through hooked operations; this pass explores every schedule with at most pb preemptions as is,
		// so that communication through memory the hooks do not see (backing arrays) cannot hide
		pb := 2
		if !ctx.Quick() {
			pb = 3
		}
		if v := os.Getenv("C06_PB"); v != "" {
			fmt.Sscan(v, &pb)
		}
		if pb >= 0 && !ctx.Expired() {
			st2 := vsched.Explore(vsched.Config{PreemptBound: pb, NoPrune: true, MaxExecs: maxExecs / 5, Stop: ctx.Expired}, body)
			ctx.Add("executions_unpruned_pass", int64(st2.Execs))
			ctx.Add("traces_validated_against_impl", int64(st2.Execs))
			if st2.Capped {
				ctx.Add("scenarios_capped_unpruned_pass", 1)
			}
			rp := copyMap(repro)
			rp["pass"] = fmt.Sprintf("no pruning, <= %d preemptions", pb)
			judge(&st2, rp)
		}
	})
	ctx.SpaceDone("families A (pre x par x post), B (pre x par x terminal), C (par x post x terminal), D (par x terminal x size x failing element), D2 (the failing element is a Go panic; closures created at run time and closures the optimizer turned into constants), E (merge), F (multiUse), G (nested parallel, thorough), H3 (one evaluated list extended by every worker), I (groups handed across goroutines), F2 (multiUse consumers that stop at once); all interleavings per scenario, W=2 (thorough: 2,3)")
}

func reportRaces(ctx *bex.Ctx, st *vsched.Stats, repro map[string]any) {
	byFinding := map[string][]string{}
	sched := map[string][]int{}
	for line, choices := range st.RaceLines() {
		f := classifyRace(line)
		byFinding[f] = append(byFinding[f], line)
		if old, ok := sched[f]; !ok || len(choices) < len(old) {
			sched[f] = choices
		}
	}
	for f, lines := range byFinding {
		sort.Strings(lines)
		rp := copyMap(repro)
		rp["schedule"] = sched[f]
		if len(lines) > 3 {
			lines = lines[:3]
		}
		ctx.Violate("data race (happens-before, vector clocks)", rp, "no conflicting accesses unordered by happens-before", strings.Join(lines, "\n"), f)
	}
}

func copyMap(m map[string]any) map[string]any {
	o := map[string]any{}
	for k, v := range m {
		o[k] = v
	}
	return o
}

// replayPlain: a case of the plain-build passes — the scenario free-running with a sleeping slow()
// against the identity slow(), 10 times. Races are only visible to the -race build: a case recorded by
// the race-detector pass is re-decided by running the check again; here only its outcomes are compared.
func replayPlain(repro map[string]any) (string, bool) {
	mk := func(sleep bool) *value.FunctionGenerator {
		g := value.New()
		g.AddStaticFunction("slow", funcGen.Function[value.Value]{
			Func: func(st funcGen.Stack[value.Value], cs []value.Value) (value.Value, error) {
				if sleep {
					time.Sleep(300 * time.Microsecond)
				}
				return st.Get(0), nil
			},
			Args: 1, IsPure: false,
		}.SetDescription("x", "identity; really sleeps 300us in the parallel variant"))
		g.AddStaticFunction("pslow", funcGen.Function[value.Value]{
			Func: func(st funcGen.Stack[value.Value], cs []value.Value) (value.Value, error) {
				if sleep {
					time.Sleep(300 * time.Microsecond)
				}
				return st.Get(0), nil
			},
			Args: 1, IsPure: true,
		}.SetDescription("x", "pure identity; really sleeps 300us in the parallel variant"))
		return g
	}
	src, _ := repro["src"].(string)
	n, _ := repro["n"].(float64)
	gSeq, gPar := mk(false), mk(true)
	fs, _, err1 := gSeq.Generate(src, "n")
	fp, _, err2 := gPar.Generate(src, "n")
	if err1 != nil || err2 != nil {
		return fmt.Sprint("scenario does not generate: ", err1, err2), true
	}
	want := observe(gSeq, fs, int(n))
	diff := 0
	got := ""
	for rep := 0; rep < 10; rep++ {
		if g := observe(gPar, fp, int(n)); g != want {
			diff++
			got = g
		}
	}
	note := ""
	if rb, _ := repro["racebuild"].(bool); rb {
		note = " (recorded by the race-detector pass: data races are re-decided by running the check, this replay compares outcomes only)"
	}
	return fmt.Sprintf("sequential: %s; %d of 10 free-running parallel evaluations differ (%s)%s", want, diff, got, note), diff > 0
}

func replay(repro map[string]any) (string, bool) {
	log.SetOutput(io.Discard)
	if p, _ := repro["plain"].(bool); p {
		return replayPlain(repro)
	}
	r := &runner{g: newGen()}
	sc := scenario{Src: repro["src"].(string), N: int(repro["n"].(float64)), W: int(repro["w"].(float64))}
	if v, ok := repro["ref"].(string); ok {
		sc.RefKind = v
	}
	var choices []int
	if l, ok := repro["schedule"].([]any); ok {
		for _, c := range l {
			choices = append(choices, int(c.(float64)))
		}
	}
	ref, _ := r.reference(sc)
	f, err := r.generate(sc.Src, "n")
	if err != nil {
		return err.Error(), true
	}
	vsched.Workers = sc.W
	res := vsched.Replay(choices, func() string { return observe(r.g, f, sc.N) })
	out := fmt.Sprintf("sequential reference: %s\nobserved under the recorded schedule: %s\nraces: %v\nleaks: %v\ncrashes: %v\nschedule (%d transitions):\n  %s",
		ref, res.Obs, res.Races, res.Leaks, res.Crashes, len(res.Trace), strings.Join(res.Trace, "\n  "))
	return out, res.Obs != ref || len(res.Races) > 0 || res.Deadlock || len(res.Crashes) > 0
}

func main() {
	bex.Main(&bex.Check{
		ID:    "C06",
		Level: "model_checking",
		Rule:  "each scenario is a list pipeline source -> stages -> terminal evaluated on the real code under the controlled scheduler; ALL interleavings are explored (stateless DFS with history-key pruning, no preemption bound unless scenarios_capped > 0); evaluations = scenarios, distinct_nontrivial = scenarios that really start library goroutines (more than the main and tokenizer vthreads, or merge/multiUse)",
		Assumptions: []string{"sequentially consistent interleavings at synchronisation granularity; races on the value stack are decided exactly by vector clocks over the hooked stack accesses (funcGen.stackStorage.set/get, Stack.ToSlice)",
			"virtual time: only the host function slow() costs time (300us); time.After fires only when nothing else is enabled; no closure call takes 5s of real time",
			"runtime.NumCPU is the harness' worker count W; W=1 (the library's own sequential fallback) defines the sequential reference for map/accept; merge and multiUse references are computed from separately forced operands"},
		QuickBudget: 90e9, ThoroughBudget: 45 * 60e9,
		Workers: 2, CoopWorkers: 10, RaceWorkers: 4,
		Run:              run,
		Replay:           replay,
		CrashIsViolation: true, // a worker process that dies while it executes a case on the library is a verdict on that case
	})
}
